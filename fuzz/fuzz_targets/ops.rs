//! Coverage-guided explorer: libFuzzer mutates a byte string, `bytecase` turns it into a configuration and a
//! short list of operations and performs them on the real library. There is NO oracle here — the only product
//! is the corpus of byte strings that reached new code; the harness replays them for the Coq oracle.
#![no_main]
#![allow(dead_code)]
#[path = "../../harness/src/exec.rs"] mod exec;
#[path = "../../harness/src/gen.rs"] mod gen;
#[path = "../../harness/src/rng.rs"] mod rng;
#[path = "../../harness/src/bytecase.rs"] mod bytecase;

use libfuzzer_sys::fuzz_target;
use std::sync::Once;

static HOOK: Once = Once::new();

fuzz_target!(|data: &[u8]| {
    // panics of the library are outcomes (caught per operation by the harness code), not crashes of the explorer
    HOOK.call_once(|| { std::panic::set_hook(Box::new(|_| {})); exec::QUIET.store(true, std::sync::atomic::Ordering::Relaxed);
        if let Ok(v) = std::env::var("LM_SHAPE") { if let Ok(k) = v.parse::<u8>() { bytecase::FORCE_SHAPE.store(k, std::sync::atomic::Ordering::Relaxed); } }
    });
    let mut u = bytecase::U::new(data);
    let cfg = bytecase::cfg_from(&mut u);
    let mut sink = std::io::sink();
    exec::with_session(0, "cov", &cfg, &mut sink, |s| bytecase::run_bytes(s, &mut u));
});
