#!/bin/sh
# confirm_mutant.sh <worktree> : re-check a seeded change in its scratch worktree:
# suite passes with the change, demo fails with it and passes without it.
W=$1
export CARGO_NET_OFFLINE=true
cd $W || exit 2
git diff --quiet -- src && { echo "no change applied in $W"; exit 2; }
T=$(cargo test --offline 2>&1 | grep -E "^test result" | head -1)
echo "suite(with): $T"
( cd demo && cargo run --offline --quiet >/dev/null 2>&1 ); A=$?
git diff -- src > /tmp/confirm_patch.diff
git apply -R /tmp/confirm_patch.diff
( cd demo && cargo run --offline --quiet >/dev/null 2>&1 ); B=$?
git apply /tmp/confirm_patch.diff
echo "demo exit with patch=$A without=$B"
case "$T" in *"59 passed; 0 failed"*) ;; *) echo "NOT CONFIRMED (suite)"; exit 1;; esac
[ $A -ne 0 ] && [ $B -eq 0 ] && { echo CONFIRMED; exit 0; }
echo "NOT CONFIRMED"; exit 1
