//! Operations on a real `MCTPSMBusContext`, executed under `catch_unwind`, and their canonical text form.
//! The text format is the interface with the OCaml driver (see /verif/driver/main.ml).

use libmctp::base_packet::{MCTPMessageBodyHeader, MCTPTransportHeader, MessageType};
use libmctp::control_packet::*;
use libmctp::errors::{ControlMessageError, DecodeError};
use libmctp::mctp_traits::SMBusMCTPRequestResponse;
use libmctp::smbus::MCTPSMBusContext;
use libmctp::smbus_proto::{MCTPSMBusHeader, SMBusRoutingInformationUpdateEntry};
use libmctp::vendor_packets::{IANAMessageFormat, PCIMessageFormat, VendorIDFormat};
use std::fmt::Write as _;
use std::panic::{catch_unwind, AssertUnwindSafe};

#[derive(Clone, Debug)]
pub struct Cfg {
    pub addr: u8,
    pub msg_types: Vec<u8>,
    pub vendor_ids: Vec<(u8, u32, u16)>,
}

#[derive(Clone, Debug)]
pub enum Op {
    Process(Vec<u8>, Vec<u8>),
    Decode(Vec<u8>),
    GetLength(Vec<u8>),
    SetEid(bool, u8),
    SetUuid(Vec<u8>),
    Encode { req: bool, id: u32, nums: Vec<u32>, lists: Vec<Vec<u8>>, buf: Vec<u8> },
    Hdr { what: u32, fld: u32, raw: Vec<u8>, v: u32 },
    Conv(u32, u8),
}

#[derive(Clone, Debug, PartialEq)]
pub enum Obs {
    Panic(Vec<u8>),
    DecodeOk(u8, usize, usize),
    DecodeErr(u8, u32),
    LenOk(usize),
    LenErr(u8, u32),
    ProcOk(u8, usize, usize, Option<usize>, Vec<u8>),
    ProcErr(u8, u32, Vec<u8>),
    Enc(Option<usize>, Vec<u8>),
    Unit,
    Val(u32),
    Bytes(Vec<u8>),
    Bad,
}

pub fn hex(b: &[u8]) -> String {
    if b.is_empty() {
        return "-".to_string();
    }
    let mut s = String::with_capacity(b.len() * 2);
    for x in b {
        let _ = write!(s, "{:02x}", x);
    }
    s
}

fn mt_u8(m: &MessageType) -> u8 {
    match m {
        MessageType::MCtpControl => 0x00,
        MessageType::SpdmOverMctp => 0x05,
        MessageType::SecuredMessages => 0x06,
        MessageType::VendorDefinedPCI => 0x7E,
        MessageType::VendorDefinedIANA => 0x7F,
        MessageType::Invalid => 0xFF,
    }
}
pub fn mt_of(v: u32) -> MessageType {
    match v {
        0x00 => MessageType::MCtpControl,
        0x05 => MessageType::SpdmOverMctp,
        0x06 => MessageType::SecuredMessages,
        0x7E => MessageType::VendorDefinedPCI,
        0x7F => MessageType::VendorDefinedIANA,
        _ => MessageType::Invalid,
    }
}
fn cc_u8(c: &CompletionCode) -> u32 {
    match c {
        CompletionCode::Success => 0,
        CompletionCode::Error => 1,
        CompletionCode::ErrorInvalidData => 2,
        CompletionCode::ErrorInvalidLength => 3,
        CompletionCode::ErrorNotReady => 4,
        CompletionCode::ErrorUnsupportedCmd => 5,
    }
}
fn cc_of(v: u32) -> CompletionCode {
    match v {
        0 => CompletionCode::Success,
        1 => CompletionCode::Error,
        2 => CompletionCode::ErrorInvalidData,
        3 => CompletionCode::ErrorInvalidLength,
        4 => CompletionCode::ErrorNotReady,
        _ => CompletionCode::ErrorUnsupportedCmd,
    }
}
fn derr_code(e: &DecodeError) -> u32 {
    match e {
        DecodeError::Unknown => 0,
        DecodeError::ControlMessage(c) => match c {
            ControlMessageError::Unknown => 1,
            ControlMessageError::InvalidRequestDataLength => 2,
            ControlMessageError::InvalidControlHeader => 3,
            ControlMessageError::InvalidPEC => 4,
            ControlMessageError::UnsuccessfulCompletionCode(cc) => 16 + cc_u8(cc),
        },
    }
}
fn cmd_u8(c: CommandCode) -> u32 {
    c as u8 as u32
}

/// payload slice -> (offset into packet, length)
fn rng_of(packet: &[u8], payload: &[u8]) -> (usize, usize) {
    let off = (payload.as_ptr() as usize).wrapping_sub(packet.as_ptr() as usize);
    (off, payload.len())
}

pub fn decode_obs(ctx: &MCTPSMBusContext, pkt: &[u8]) -> Obs {
    let r = catch_unwind(AssertUnwindSafe(|| match ctx.decode_packet(pkt) {
        Ok((mt, payload)) => {
            let (o, l) = rng_of(pkt, payload);
            Obs::DecodeOk(mt_u8(&mt), o, l)
        }
        Err((mt, e)) => Obs::DecodeErr(mt_u8(&mt), derr_code(&e)),
    }));
    r.unwrap_or(Obs::Panic(vec![]))
}

pub fn len_obs(ctx: &MCTPSMBusContext, pkt: &[u8]) -> Obs {
    let r = catch_unwind(AssertUnwindSafe(|| match ctx.get_length(pkt) {
        Ok(n) => Obs::LenOk(n),
        Err((mt, e)) => Obs::LenErr(mt_u8(&mt), derr_code(&e)),
    }));
    r.unwrap_or(Obs::Panic(vec![]))
}

fn encode_on<T: SMBusMCTPRequestResponse>(
    half: &T,
    id: u32,
    a: &[u32],
    ls: &[Vec<u8>],
    buf: &mut [u8],
) -> Option<Result<usize, ()>> {
    let g = |i: usize| -> u32 { a.get(i).copied().unwrap_or(0) };
    let e: Vec<u8> = Vec::new();
    let l = |i: usize| -> &Vec<u8> { ls.get(i).unwrap_or(&e) };
    let hdr: Option<&[u8]> = if g(1) == 0 { None } else { Some(&l(0)[..]) };
    match id {
        30 => Some(half.generate_control_packet_bytes(g(0) as u8, &hdr, l(1), buf)),
        31 => Some(half.generate_pci_msg_packet_bytes(g(0) as u8, &hdr, l(1), buf)),
        32 => Some(half.generate_spdm_msg_packet_bytes(g(0) as u8, mt_of(g(2)), &hdr, l(1), buf)),
        33 => Some(half.generate_iana_msg_packet_bytes(g(0) as u8, &hdr, l(1), buf)),
        _ => None,
    }
}

pub fn encode_obs(ctx: &MCTPSMBusContext, req: bool, id: u32, a: &[u32], ls: &[Vec<u8>], buf0: &[u8]) -> Obs {
    let mut buf = buf0.to_vec();
    let g = |i: usize| -> u32 { a.get(i).copied().unwrap_or(0) };
    let e: Vec<u8> = Vec::new();
    let l = |i: usize| -> &Vec<u8> { ls.get(i).unwrap_or(&e) };
    let r = catch_unwind(AssertUnwindSafe(|| -> Option<Result<usize, ()>> {
        let b = &mut buf[..];
        if id >= 30 {
            return if req { encode_on(ctx.get_request(), id, a, ls, b) } else { encode_on(ctx.get_response(), id, a, ls, b) };
        }
        if req {
            let q = ctx.get_request();
            let d = g(0) as u8;
            Some(match id {
                1 => q.set_endpoint_id(
                    d,
                    match g(1) {
                        0 => MCTPSetEndpointIDOperations::SetEID,
                        1 => MCTPSetEndpointIDOperations::ForceEID,
                        2 => MCTPSetEndpointIDOperations::ResetEID,
                        _ => MCTPSetEndpointIDOperations::SetDiscoveredFlag,
                    },
                    g(2) as u8,
                    b,
                ),
                2 => q.get_endpoint_id(d, b),
                3 => q.get_endpoint_uuid(d, b),
                4 => q.get_mctp_version_support(
                    d,
                    match g(1) {
                        0xFF => MCTPVersionQuery::MCTPBaseSpec,
                        0 => MCTPVersionQuery::MCTPControlProcMessage,
                        1 => MCTPVersionQuery::DSP0241,
                        2 => MCTPVersionQuery::DSP0261,
                        _ => MCTPVersionQuery::DSP0261_2,
                    },
                    b,
                ),
                5 => q.get_message_type_suport(d, b),
                6 => q.get_vendor_defined_message_support(d, g(1) as u8, b),
                7 => q.resolve_endpoint_id(d, g(1) as u8, b),
                8 => q.allocate_endpoint_ids(
                    d,
                    match g(1) {
                        0 => AllocateEndpointIDOperation::AllocateEIDs,
                        1 => AllocateEndpointIDOperation::ForceAllocation,
                        _ => AllocateEndpointIDOperation::GetAllocationInformation,
                    },
                    g(2) as u8,
                    g(3) as u8,
                    b,
                ),
                9 => {
                    let entries: Vec<SMBusRoutingInformationUpdateEntry<[u8; 4]>> = ls
                        .iter()
                        .map(|x| {
                            let mut r = [0u8; 4];
                            r.copy_from_slice(&x[0..4]);
                            SMBusRoutingInformationUpdateEntry::new_from_buf(r)
                        })
                        .collect();
                    q.routing_information_update(d, &entries, b)
                }
                10 => q.get_routing_table_entries(d, g(1) as u8, b),
                11 => q.prepare_for_endpoint_discovery(d, b),
                12 => q.endpoint_discovery(d, b),
                13 => q.discovery_notify(d, b),
                14 => q.get_network_id(d, b),
                15 => q.query_hop(d, g(1) as u8, mt_of(g(2)), b),
                16 => {
                    let mut u = [0u8; 16];
                    u.copy_from_slice(&l(0)[0..16]);
                    q.resolve_uuid(d, &u, g(1) as u8, b)
                }
                17 => q.query_rate_limit(d, b),
                20 => {
                    let f = VendorIDFormat { format: g(1) as u8, data: g(2), numeric_value: g(3) as u16 };
                    q.vendor_defined(d, &f, l(0), b)
                }
                _ => return None,
            })
        } else {
            let p = ctx.get_response();
            let cc = cc_of(g(0));
            let d = g(1) as u8;
            Some(match id {
                1 => p.set_endpoint_id(
                    cc,
                    d,
                    if g(2) == 1 { MCTPSetEndpointIDAssignmentStatus::Rejected } else { MCTPSetEndpointIDAssignmentStatus::Accpeted },
                    match g(3) {
                        0 => MCTPSetEndpointIDAllocationStatus::NoIDPool,
                        1 => MCTPSetEndpointIDAllocationStatus::RequiresAllocation,
                        _ => MCTPSetEndpointIDAllocationStatus::AlreadyAllocated,
                    },
                    b,
                ),
                2 => p.get_endpoint_id(
                    cc,
                    d,
                    if g(2) == 1 { MCTPGetEndpointIDEndpointType::Bus } else { MCTPGetEndpointIDEndpointType::Simple },
                    match g(3) {
                        0 => MCTPGetEndpointIDEndpointIDType::DynamicEID,
                        1 => MCTPGetEndpointIDEndpointIDType::StaticEID,
                        2 => MCTPGetEndpointIDEndpointIDType::StaticPresentMatchEID,
                        _ => MCTPGetEndpointIDEndpointIDType::StaticPresentNoMatchEID,
                    },
                    g(4) != 0,
                    b,
                ),
                3 => {
                    let mut u = [0u8; 16];
                    u.copy_from_slice(&l(0)[0..16]);
                    p.get_endpoint_uuid(cc, d, &u, b)
                }
                4 => p.get_mctp_version_support(cc, d, b),
                5 => p.get_message_type_suport(cc, d, l(0), b),
                6 => p.get_vendor_defined_message_support(cc, d, g(2) as u8, l(0), b),
                _ => return None,
            })
        }
    }));
    match r {
        Err(_) => Obs::Panic(buf),
        Ok(None) => Obs::Bad,
        Ok(Some(Ok(n))) => Obs::Enc(Some(n), buf),
        Ok(Some(Err(()))) => Obs::Enc(None, buf),
    }
}

fn arr<const K: usize>(raw: &[u8]) -> Option<[u8; K]> {
    if raw.len() != K {
        return None;
    }
    let mut a = [0u8; K];
    a.copy_from_slice(raw);
    Some(a)
}

/// Header view operations (see Ops.v, hdr_op).
pub fn hdr_obs(what: u32, fld: u32, raw: &[u8], v: u32) -> Obs {
    let r = catch_unwind(AssertUnwindSafe(|| -> Obs {
        match what {
            0 | 1 | 12 | 13 => {
                let set = what == 1 || what == 13;
                // 12 / 13: the same accessors through a view over a Vec of any length (the views are generic in their storage)
                let anylen = what >= 12;
                macro_rules! acc {
                    ($ty:ident, $k:expr, $get:ident, $set:ident, $vt:ty) => {{
                        if anylen {
                            let mut h = $ty(raw.to_vec());
                            if set {
                                h.$set(v as $vt);
                                Obs::Bytes(h.0)
                            } else {
                                Obs::Val(h.$get() as u32)
                            }
                        } else {
                        match arr::<$k>(raw) {
                            None => Obs::Bad,
                            Some(a) => {
                                let mut h = $ty(a);
                                if set {
                                    h.$set(v as $vt);
                                    Obs::Bytes(h.0.to_vec())
                                } else {
                                    Obs::Val(h.$get() as u32)
                                }
                            }
                        }
                        }
                    }};
                }
                macro_rules! acc_ro {
                    ($ty:ident, $k:expr) => {{
                        // private getter without setter: not reachable through the public API
                        let _ = arr::<$k>(raw);
                        Obs::Bad
                    }};
                }
                match fld {
                    0 => acc_ro!(MCTPTransportHeader, 4),
                    1 => acc!(MCTPTransportHeader, 4, hdr_version, set_hdr_version, u8),
                    2 => acc!(MCTPTransportHeader, 4, dest_endpoint_id, set_dest_endpoint_id, u8),
                    3 => acc!(MCTPTransportHeader, 4, source_endpoint_id, set_source_endpoint_id, u8),
                    4 => acc!(MCTPTransportHeader, 4, som, set_som, u8),
                    5 => acc!(MCTPTransportHeader, 4, eom, set_eom, u8),
                    6 => acc!(MCTPTransportHeader, 4, pkt_seq, set_pkt_seq, u8),
                    7 => acc!(MCTPTransportHeader, 4, to, set_to, u8),
                    8 => acc!(MCTPTransportHeader, 4, msg_tag, set_msg_tag, u8),
                    9 => acc_ro!(MCTPMessageBodyHeader, 1),
                    10 => acc!(MCTPMessageBodyHeader, 1, msg_type, set_msg_type, u8),
                    11 => acc!(MCTPControlMessageHeader, 2, rq, set_rq, u8),
                    12 => acc!(MCTPControlMessageHeader, 2, d, set_d, u8),
                    13 => acc_ro!(MCTPControlMessageHeader, 2),
                    14 => acc!(MCTPControlMessageHeader, 2, instance_id, set_instance_id, u8),
                    15 => acc!(MCTPControlMessageHeader, 2, command_code, set_command_code, u8),
                    16 => acc!(MCTPSMBusHeader, 4, dest_read_write, set_dest_read_write, u8),
                    17 => acc!(MCTPSMBusHeader, 4, dest_slave_addr, set_dest_slave_addr, u8),
                    18 => acc!(MCTPSMBusHeader, 4, command_code, set_command_code, u8),
                    19 => acc!(MCTPSMBusHeader, 4, byte_count, set_byte_count, u8),
                    20 => acc!(MCTPSMBusHeader, 4, source_read_write, set_source_read_write, u8),
                    21 => acc!(MCTPSMBusHeader, 4, source_slave_addr, set_source_slave_addr, u8),
                    22 => acc!(SMBusRoutingInformationUpdateEntry, 4, entry_type, set_entry_type, u8),
                    23 => acc_ro!(SMBusRoutingInformationUpdateEntry, 4),
                    24 => acc!(SMBusRoutingInformationUpdateEntry, 4, eid_range_size, set_eid_range_size, u8),
                    25 => acc!(SMBusRoutingInformationUpdateEntry, 4, first_eid, set_first_eid, u8),
                    26 => acc!(SMBusRoutingInformationUpdateEntry, 4, physical_address, set_physical_address, u8),
                    27 => acc!(PCIMessageFormat, 2, vendor_id, set_vendor_id, u16),
                    28 => acc!(IANAMessageFormat, 4, vendor_id, set_vendor_id, u32),
                    _ => Obs::Bad,
                }
            }
            2 => match arr::<4>(raw) {
                None => Obs::Bad,
                Some(a) => Obs::Val(MCTPTransportHeader::new_from_buf(a, v as u8).is_ok() as u32),
            },
            3 => match arr::<1>(raw) {
                None => Obs::Bad,
                Some(a) => Obs::Val(MCTPMessageBodyHeader::new_from_buf(a).is_ok() as u32),
            },
            4 => Obs::Bytes(MCTPTransportHeader::new(v as u8).0.to_vec()),
            5 => Obs::Bytes(
                MCTPControlMessageHeader::new(raw[0] != 0, raw[1] != 0, raw[2], CommandCode::from(raw[3])).0.to_vec(),
            ),
            6 => Obs::Bytes(
                SMBusRoutingInformationUpdateEntry::new(
                    match raw[0] {
                        0 => RoutingInformationUpdateEntryType::SingleEndpointNotBridge,
                        1 => RoutingInformationUpdateEntryType::EIDRangeIncludeBridge,
                        2 => RoutingInformationUpdateEntryType::SingleEndpointBridge,
                        _ => RoutingInformationUpdateEntryType::EIDRangeNotIncludeBridge,
                    },
                    raw[1],
                    raw[2],
                    raw[3],
                )
                .0
                .to_vec(),
            ),
            7 => Obs::Bytes(PCIMessageFormat::new(v as u16).0.to_vec()),
            8 => Obs::Bytes(IANAMessageFormat::new(v).0.to_vec()),
            9 => Obs::Bytes(MCTPMessageBodyHeader::new(false, mt_of(v)).0.to_vec()),
            10 | 11 => {
                let mts: [u8; 0] = [];
                let vids: [VendorIDFormat; 0] = [];
                let c = MCTPSMBusContext::new(fld as u8, &mts, &vids);
                if what == 10 {
                    Obs::Bytes(c.get_request().generate_transport_header(v as u8).0.to_vec())
                } else {
                    Obs::Bytes(c.get_response().generate_smbus_header(v as u8).0.to_vec())
                }
            }
            15 => {
                // a half constructed on its own, no context around it
                let (half, addr, eid) = (v & 1, (v >> 1) as u8, (v >> 9) as u8);
                let mut buf = raw.to_vec();
                let rr = catch_unwind(AssertUnwindSafe(|| {
                    if half == 1 {
                        let h = libmctp::smbus_request::MCTPSMBusContextRequest::new(addr);
                        h.set_eid(eid);
                        let r = h.get_endpoint_id(fld as u8, &mut buf);
                        (h.get_address(), h.get_eid(), r)
                    } else {
                        let h = libmctp::smbus_response::MCTPSMBusContextResponse::new(addr);
                        h.set_eid(eid);
                        let r = h.get_endpoint_id(
                            CompletionCode::Success,
                            fld as u8,
                            MCTPGetEndpointIDEndpointType::Simple,
                            MCTPGetEndpointIDEndpointIDType::DynamicEID,
                            false,
                            &mut buf,
                        );
                        (h.get_address(), h.get_eid(), r)
                    }
                }));
                match rr {
                    Err(_) => Obs::Panic(buf),
                    Ok((a, e, r)) => { buf.push(a); buf.push(e); buf.push(match r { Ok(n) => n as u8, Err(()) => 255 }); Obs::Bytes(buf) }
                }
            }
            16 => match fld {
                0 => Obs::Bytes(MCTPSMBusHeader::new().0.to_vec()),
                1 => Obs::Bytes(MCTPSMBusHeader::default().0.to_vec()),
                2 => arr::<4>(raw).map_or(Obs::Bad, |a| Obs::Bytes(MCTPSMBusHeader::new_from_buf(a).0.to_vec())),
                3 => arr::<2>(raw).map_or(Obs::Bad, |a| Obs::Bytes(MCTPControlMessageHeader::new_from_buf(a).0.to_vec())),
                4 => arr::<4>(raw).map_or(Obs::Bad, |a| Obs::Bytes(SMBusRoutingInformationUpdateEntry::new_from_buf(a).0.to_vec())),
                5 => arr::<2>(raw).map_or(Obs::Bad, |a| Obs::Bytes(PCIMessageFormat::new_from_buf(a).0.to_vec())),
                6 => arr::<4>(raw).map_or(Obs::Bad, |a| Obs::Bytes(IANAMessageFormat::new_from_buf(a).0.to_vec())),
                _ => Obs::Bad,
            },
            14 => {
                // the three request encoders that end in unimplemented!(): the panic is the observation, with the buffer
                // as the packet writer left it
                let mts: [u8; 0] = [];
                let vids: [VendorIDFormat; 0] = [];
                let c = MCTPSMBusContext::new((v >> 8) as u8, &mts, &vids);
                let id = v & 0xFF;
                if id != 18 && id != 19 && id != 21 { return Obs::Bad; }
                let mut buf = raw.to_vec();
                let rr = catch_unwind(AssertUnwindSafe(|| match id {
                    18 => c.get_request().request_tx_rate_limit(fld as u8, &mut buf),
                    19 => c.get_request().update_rate_limmit(fld as u8, &mut buf),
                    _ => c.get_request().query_supported_interfaces(fld as u8, &mut buf),
                }));
                match rr { Err(_) => Obs::Panic(buf), Ok(_) => Obs::Bad }
            }
            _ => Obs::Bad,
        }
    }));
    r.unwrap_or(Obs::Panic(vec![]))
}

pub fn conv_obs(what: u32, b: u8) -> Obs {
    let r = catch_unwind(AssertUnwindSafe(|| -> Obs {
        match what {
            0 => Obs::Val(mt_u8(&MessageType::from(b)) as u32),
            1 => Obs::Val(cmd_u8(CommandCode::from(b))),
            2 => Obs::Val(cc_u8(&CompletionCode::from(b))),
            _ => Obs::Bad,
        }
    }));
    r.unwrap_or(Obs::Panic(vec![]))
}


/// the O line of an operation
pub fn fmt_op(op: &Op) -> String {
    let mut o = String::new();
    match op {
        Op::Process(p, b) => { let _ = writeln!(o, "O P {} {}", hex(p), hex(b)); }
        Op::Decode(p) => { let _ = writeln!(o, "O D {}", hex(p)); }
        Op::GetLength(p) => { let _ = writeln!(o, "O L {}", hex(p)); }
        Op::SetEid(r, e) => { let _ = writeln!(o, "O S {} {}", *r as u8, e); }
        Op::SetUuid(u) => { let _ = writeln!(o, "O U {}", hex(u)); }
        Op::Encode { req, id, nums, lists, buf } => {
            let _ = write!(o, "O E {} {} {}", *req as u8, id, nums.len());
            for n in nums { let _ = write!(o, " {}", n); }
            let _ = write!(o, " {}", lists.len());
            for l in lists { let _ = write!(o, " {}", hex(l)); }
            let _ = writeln!(o, " {}", hex(buf));
        }
        Op::Hdr { what, fld, raw, v } => { let _ = writeln!(o, "O H {} {} {} {}", what, fld, hex(raw), v); }
        Op::Conv(w, b) => { let _ = writeln!(o, "O V {} {}", w, b); }
    }
    o
}

/// VERIF_TRACE=1: print every case header and operation to stderr BEFORE executing it, so that an abort
/// (stack overflow, abort(), a hang) can be attributed to an input
pub fn trace_on() -> bool {
    use std::sync::OnceLock;
    static T: OnceLock<bool> = OnceLock::new();
    *T.get_or_init(|| std::env::var("VERIF_TRACE").map(|v| v == "1").unwrap_or(false))
}

/// what the generators may know about the context under test: its address and the two EIDs it currently holds
/// (so that packets can be addressed to it consistently, by physical address or by assigned EID)
/// set by the coverage-guided explorer: perform the operations, print nothing
pub static QUIET: std::sync::atomic::AtomicBool = std::sync::atomic::AtomicBool::new(false);
/// the buffer the previous Process / Encode operation of this case left behind: callers reuse one buffer for
/// successive packets, so the prior contents of a buffer are typically an earlier (possibly longer) packet
pub static LAST_BUF: std::sync::Mutex<Vec<u8>> = std::sync::Mutex::new(Vec::new());
pub fn last_buf() -> Vec<u8> { LAST_BUF.lock().map(|b| b.clone()).unwrap_or_default() }
/// the UUID most recently installed on the context under test (so that generators can send UUIDs related to it)
pub static LAST_UUID: std::sync::Mutex<Vec<u8>> = std::sync::Mutex::new(Vec::new());
pub fn last_uuid() -> Vec<u8> { LAST_UUID.lock().map(|b| b.clone()).unwrap_or_default() }
pub static HINT: std::sync::atomic::AtomicU32 = std::sync::atomic::AtomicU32::new(0);
pub fn hint() -> (u8, u8, u8) {
    let h = HINT.load(std::sync::atomic::Ordering::Relaxed);
    (h as u8, (h >> 8) as u8, (h >> 16) as u8)
}

pub struct Session<'c, 'm> {
    pub ctx: &'c mut MCTPSMBusContext<'m>,
    pub alt: &'c MCTPSMBusContext<'m>,
    /// a second context with the same configuration that sees the same operations except processed packets
    /// whose PEC is wrong (C02: such a packet must not change any later output)
    pub twin: &'c mut MCTPSMBusContext<'m>,
    pub twin_on: bool,
    /// compare decode / probe answers with the alternate context (off in C02's strata, where XBad means twin divergence)
    pub alt_on: bool,
    pub out: String,
    pub nops: usize,
    pub nvend: usize,
}

fn run_op(ctx: &mut MCTPSMBusContext, alt: Option<&MCTPSMBusContext>, op: &Op) -> Obs {
    match op {
        Op::Process(pkt, buf0) => {
            let mut buf = buf0.clone();
            let ctx = &*ctx;
            let r = catch_unwind(AssertUnwindSafe(|| match ctx.process_packet(pkt, &mut buf) {
                Ok(((mt, payload), resp)) => {
                    let (o, l) = rng_of(pkt, payload);
                    (true, mt_u8(&mt), o, l, resp, 0u32)
                }
                Err((mt, e)) => (false, mt_u8(&mt), 0, 0, None, derr_code(&e)),
            }));
            match r {
                Err(_) => Obs::Panic(buf),
                Ok((true, mt, o, l, resp, _)) => Obs::ProcOk(mt, o, l, resp, buf),
                Ok((false, mt, _, _, _, e)) => Obs::ProcErr(mt, e, buf),
            }
        }
        Op::Decode(pkt) => {
            let a = decode_obs(ctx, pkt);
            match alt {
                Some(alt) if decode_obs(alt, pkt) != a => Obs::Bad,
                _ => a,
            }
        }
        Op::GetLength(pkt) => {
            let a = len_obs(ctx, pkt);
            match alt {
                Some(alt) if len_obs(alt, pkt) != a => Obs::Bad,
                _ => a,
            }
        }
        Op::SetEid(req, e) => {
            if *req {
                ctx.get_request().set_eid(*e)
            } else {
                ctx.get_response().set_eid(*e)
            }
            Obs::Unit
        }
        Op::SetUuid(u) => match catch_unwind(AssertUnwindSafe(|| ctx.set_uuid(u))) {
            Ok(()) => Obs::Unit,
            Err(_) => Obs::Panic(vec![]),
        },
        Op::Encode { req, id, nums, lists, buf } => encode_obs(ctx, *req, *id, nums, lists, buf),
        Op::Hdr { what, fld, raw, v } => hdr_obs(*what, *fld, raw, *v),
        Op::Conv(what, b) => conv_obs(*what, *b),
    }
}

fn pec_is_bad(pkt: &[u8]) -> bool {
    if pkt.is_empty() {
        return true;
    }
    crate::gen::crc8(&pkt[..pkt.len() - 1]) != pkt[pkt.len() - 1]
}

impl<'c, 'm> Session<'c, 'm> {
    fn eids(&self) -> (u8, u8) {
        (self.ctx.get_request().get_eid(), self.ctx.get_response().get_eid())
    }

    pub fn op(&mut self, op: Op) -> Obs {
        if trace_on() {
            eprint!("T {}", fmt_op(&op));
        }
        let alt = if self.alt_on { Some(self.alt) } else { None };
        let mut obs = run_op(self.ctx, alt, &op);
        if self.twin_on {
            let skip = matches!(&op, Op::Process(p, _) if pec_is_bad(p));
            if !skip {
                let t = run_op(self.twin, None, &op);
                let te = (self.twin.get_request().get_eid(), self.twin.get_response().get_eid());
                if t != obs || te != self.eids() {
                    obs = Obs::Bad;
                }
            }
        }
        if let (Op::SetUuid(u), Obs::Unit) = (&op, &obs) { if let Ok(mut l) = LAST_UUID.lock() { *l = u.clone(); } }
        self.log(&op, &obs);
        match &obs {
            Obs::ProcOk(_, _, _, _, b) | Obs::ProcErr(_, _, b) | Obs::Enc(_, b) => { if let Ok(mut l) = LAST_BUF.lock() { *l = b.clone(); } }
            _ => {}
        }
        let (er, es) = self.eids();
        let a = HINT.load(std::sync::atomic::Ordering::Relaxed) & 0xFF;
        HINT.store(a | (er as u32) << 8 | (es as u32) << 16, std::sync::atomic::Ordering::Relaxed);
        obs
    }

    fn log(&mut self, op: &Op, obs: &Obs) {
        self.nops += 1;
        if QUIET.load(std::sync::atomic::Ordering::Relaxed) { return; }
        self.out.push_str(&fmt_op(op));
        let (er, es) = self.eids();
        let o = &mut self.out;
        match obs {
            Obs::Panic(b) => { let _ = writeln!(o, "X P {} {} {}", hex(b), er, es); }
            Obs::DecodeOk(mt, off, len) => { let _ = writeln!(o, "X D 1 {} {} {} {} {}", mt, off, len, er, es); }
            Obs::DecodeErr(mt, e) => { let _ = writeln!(o, "X D 0 {} {} {} {}", mt, e, er, es); }
            Obs::LenOk(n) => { let _ = writeln!(o, "X L 1 {} {} {}", n, er, es); }
            Obs::LenErr(mt, e) => { let _ = writeln!(o, "X L 0 {} {} {} {}", mt, e, er, es); }
            Obs::ProcOk(mt, off, len, resp, b) => {
                let r: i64 = match resp { Some(n) => *n as i64, None => -1 };
                let _ = writeln!(o, "X R 1 {} {} {} {} {} {} {}", mt, off, len, r, hex(b), er, es);
            }
            Obs::ProcErr(mt, e, b) => { let _ = writeln!(o, "X R 0 {} {} {} {} {}", mt, e, hex(b), er, es); }
            Obs::Enc(Some(n), b) => { let _ = writeln!(o, "X E 1 {} {} {} {}", n, hex(b), er, es); }
            Obs::Enc(None, b) => { let _ = writeln!(o, "X E 0 {} {} {}", hex(b), er, es); }
            Obs::Unit => { let _ = writeln!(o, "X U {} {}", er, es); }
            Obs::Val(n) => { let _ = writeln!(o, "X V {} {} {}", n, er, es); }
            Obs::Bytes(b) => { let _ = writeln!(o, "X B {} {} {}", hex(b), er, es); }
            Obs::Bad => { let _ = writeln!(o, "X Z {} {}", er, es); }
        }
    }
}

/// Run one case: create the context described by `cfg`, let `f` perform operations on it, print the case.
pub fn with_session<F: FnOnce(&mut Session)>(id: u64, stratum: &str, cfg: &Cfg, sink: &mut dyn std::io::Write, f: F) {
    let vids: Vec<VendorIDFormat> = cfg
        .vendor_ids
        .iter()
        .map(|(f, d, n)| VendorIDFormat { format: *f, data: *d, numeric_value: *n })
        .collect();
    let mut ctx = MCTPSMBusContext::new(cfg.addr, &cfg.msg_types, &vids);
    // the alternate context: another address, another configuration, and some history behind it
    let alt_mts: [u8; 3] = [0x7E, 0x05, 0x01];
    let alt_vids = [
        VendorIDFormat { format: 1, data: 0xA1B2C3D4, numeric_value: 0x1122 },
        VendorIDFormat { format: 0, data: 0x8086, numeric_value: 0x3344 },
    ];
    let mut alt = MCTPSMBusContext::new(cfg.addr ^ 0x5A, &alt_mts, &alt_vids);
    alt.set_uuid(&[0xEE; 16]);
    alt.get_request().set_eid(0x77);
    alt.get_response().set_eid(0x78);
    if !QUIET.load(std::sync::atomic::Ordering::Relaxed) {
        // a Set EID and a vendor-support query processed by the alternate context beforehand
        let mut b = [0u8; 64];
        let mut rb = [0u8; 64];
        if let Ok(n) = alt.get_request().set_endpoint_id(0x10, MCTPSetEndpointIDOperations::SetEID, 0x42, &mut b) {
            let _ = catch_unwind(AssertUnwindSafe(|| { let _ = alt.process_packet(&b[..n], &mut rb); }));
        }
        if let Ok(n) = alt.get_request().get_vendor_defined_message_support(0x10, 1, &mut b) {
            let _ = catch_unwind(AssertUnwindSafe(|| { let _ = alt.process_packet(&b[..n], &mut rb); }));
        }
    }
    let mut twin = MCTPSMBusContext::new(cfg.addr, &cfg.msg_types, &vids);
    let mut s = Session { ctx: &mut ctx, alt: &alt, twin: &mut twin, twin_on: false, alt_on: true, out: String::new(), nops: 0, nvend: cfg.vendor_ids.len() };
    HINT.store(cfg.addr as u32, std::sync::atomic::Ordering::Relaxed);
    if let Ok(mut l) = LAST_BUF.lock() { l.clear(); }
    let _ = writeln!(s.out, "C {} {}", id, stratum);
    let _ = write!(s.out, "G {} {} {}", cfg.addr, hex(&cfg.msg_types), cfg.vendor_ids.len());
    for (f, d, n) in &cfg.vendor_ids {
        let _ = write!(s.out, " {} {} {}", f, d, n);
    }
    let _ = writeln!(s.out);
    if trace_on() {
        eprint!("T {}", s.out);
    }
    f(&mut s);
    let _ = writeln!(s.out, "E");
    let _ = sink.write_all(s.out.as_bytes());
}
