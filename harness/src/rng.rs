//! The single PRNG every random choice derives from (xorshift64*), seeded from VERIF_SEED.
pub struct Rng(pub u64);

/// byte-array literals harvested from /repo's current sources by the check (file named by VERIF_CONSTS, one hex
/// string per line): constants the code itself mentions are values worth trying
pub fn consts() -> &'static Vec<Vec<u8>> {
    static C: std::sync::OnceLock<Vec<Vec<u8>>> = std::sync::OnceLock::new();
    C.get_or_init(|| {
        let path = match std::env::var("VERIF_CONSTS") { Ok(p) if !p.is_empty() => p, _ => return Vec::new() };
        let text = std::fs::read_to_string(path).unwrap_or_default();
        text.lines().filter(|l| !l.is_empty() && l.len() % 2 == 0)
            .filter_map(|l| (0..l.len() / 2).map(|i| u8::from_str_radix(&l[2 * i..2 * i + 2], 16).ok()).collect::<Option<Vec<u8>>>())
            .collect()
    })
}

impl Rng {
    pub fn new(seed: u64) -> Self {
        let mut r = Rng(seed ^ 0x9E37_79B9_7F4A_7C15);
        if r.0 == 0 {
            r.0 = 0x1234_5678_9ABC_DEF1;
        }
        for _ in 0..8 {
            r.next();
        }
        r
    }
    pub fn next(&mut self) -> u64 {
        let mut x = self.0;
        x ^= x >> 12;
        x ^= x << 25;
        x ^= x >> 27;
        self.0 = x;
        x.wrapping_mul(0x2545_F491_4F6C_DD1D)
    }
    pub fn below(&mut self, n: u64) -> u64 {
        if n == 0 { 0 } else { (self.next() >> 11) % n }
    }
    pub fn byte(&mut self) -> u8 {
        (self.next() >> 24) as u8
    }
    pub fn chance(&mut self, num: u64, den: u64) -> bool {
        self.below(den) < num
    }
    pub fn pick<T: Copy>(&mut self, xs: &[T]) -> T {
        xs[self.below(xs.len() as u64) as usize]
    }
    pub fn bytes(&mut self, n: usize) -> Vec<u8> {
        (0..n).map(|_| self.byte()).collect()
    }
    /// a byte value drawn from the corner values half of the time
    pub fn cbyte(&mut self) -> u8 {
        if self.chance(1, 2) {
            self.pick(&[0u8, 1, 0x7F, 0x80, 0xFE, 0xFF, 0x0F, 0xC8])
        } else {
            self.byte()
        }
    }
    /// an SMBus / EID style address: 7-bit corners over-weighted
    pub fn addr(&mut self) -> u8 {
        if self.chance(1, 3) {
            self.pick(&[0u8, 1, 0x3F, 0x40, 0x7E, 0x7F, 0x80, 0x81, 0xFE, 0xFF])
        } else {
            self.byte()
        }
    }
    /// n bytes, each drawn from the corner values half of the time
    pub fn cbytes(&mut self, n: usize) -> Vec<u8> {
        (0..n).map(|_| self.cbyte()).collect()
    }
    /// a 16-bit value with corner values over-weighted
    pub fn c16(&mut self) -> u16 {
        if self.chance(1, 3) { self.pick(&[0u16, 1, 0xFF, 0x100, 0x7FFF, 0x8000, 0xFF00, 0xFFFF]) } else { (self.next() >> 20) as u16 }
    }
    /// a 32-bit value with corner values over-weighted
    pub fn c32(&mut self) -> u32 {
        if self.chance(1, 3) { self.pick(&[0u32, 1, 0xFF, 0xFFFF, 0x1_0000, 0xFF_FFFF, 0x100_0000, 0x8000_0000, 0xFFFF_FFFF, 0x0001_0203]) } else { (self.next() >> 16) as u32 }
    }
    /// a 16-byte UUID: the nil UUID, all ones and corner bytes over-weighted
    pub fn uuid(&mut self) -> Vec<u8> {
        let c16: Vec<&Vec<u8>> = consts().iter().filter(|c| c.len() == 16).collect();
        if !c16.is_empty() && self.chance(1, 6) { return c16[self.below(c16.len() as u64) as usize].clone(); }
        match self.below(10) {
            0 | 1 => vec![0u8; 16],
            2 => vec![0xFFu8; 16],
            3 | 4 => self.cbytes(16),
            5 | 6 | 7 => {
                // shaped as RFC 4122 says: version 1..5 in the high nibble of byte 6, variant 10 in byte 8
                let mut u = self.bytes(16);
                let v = 1 + self.below(5) as u8;
                u[6] = (v << 4) | (u[6] & 0x0F);
                u[8] = 0x80 | (u[8] & 0x3F);
                u
            }
            _ => self.bytes(16),
        }
    }
    /// a UUID related to `u` the way two real UUIDs can be: the same node (last six bytes) with other time fields, the
    /// same time fields with another node, one byte changed, the same bytes reversed, or `u` itself
    pub fn related_uuid(&mut self, u: &[u8]) -> Vec<u8> {
        if u.len() != 16 { return self.uuid(); }
        let mut v = u.to_vec();
        match self.below(6) {
            0 => { let k = 1 + self.below(4) as usize; for i in 0..k { v[i] = v[i].wrapping_add(1 + self.below(255) as u8); } }
            1 => { for i in 0..6 { v[i] = self.byte(); } v[7] = self.byte(); v[9] = self.byte(); }
            2 => { for i in 10..16 { v[i] = self.byte(); } }
            3 => { let i = self.below(16) as usize; v[i] ^= 1 << self.below(8); }
            4 => v.reverse(),
            _ => {}
        }
        v
    }
    /// n random bytes that, one time in ten, begin with a constant from the source
    pub fn body(&mut self, n: usize) -> Vec<u8> {
        let mut b = self.bytes(n);
        let cs = consts();
        if !cs.is_empty() && self.chance(1, 10) {
            let c = &cs[self.below(cs.len() as u64) as usize];
            for (i, x) in c.iter().enumerate() { if i < b.len() { b[i] = *x; } }
        }
        b
    }
    pub fn fork(&mut self) -> Rng {
        Rng::new(self.next())
    }
}
