//! Per-property case sets.
use crate::exec::*;
use crate::gen::*;
use crate::rng::Rng;
use std::io::Write;

pub struct Gen<'a> {
    pub rng: Rng,
    pub thorough: bool,
    pub next_id: u64,
    pub sink: &'a mut dyn Write,
}

impl<'a> Gen<'a> {
    pub fn case<F: FnOnce(&mut Session, &mut Rng)>(&mut self, stratum: &str, cfg: &Cfg, f: F) {
        let id = self.next_id;
        self.next_id += 1;
        let mut r = self.rng.fork();
        with_session(id, stratum, cfg, self.sink, |s| f(s, &mut r));
    }
    /// case count for the tier; the thorough figures are scaled by 2 (every thorough run stays within minutes)
    pub fn n(&self, quick: usize, thorough: usize) -> usize {
        if self.thorough { thorough * 2 } else { quick * 2 }
    }
    pub fn n_exact(&self, quick: usize, thorough: usize) -> usize {
        if self.thorough { thorough } else { quick }
    }
}

fn unhex(s: &str) -> Vec<u8> {
    if s == "-" {
        return vec![];
    }
    (0..s.len() / 2).map(|i| u8::from_str_radix(&s[2 * i..2 * i + 2], 16).unwrap()).collect()
}

/// Parse a case file (C / G / O lines; X lines are ignored) into configurations and operations.
pub fn parse_cases(text: &str) -> Vec<(String, Cfg, Vec<Op>)> {
    let mut out = Vec::new();
    let mut cur: Option<(String, Cfg, Vec<Op>)> = None;
    for line in text.lines() {
        let t: Vec<&str> = line.split_whitespace().collect();
        if t.is_empty() {
            continue;
        }
        match t[0] {
            "C" => {
                if let Some(c) = cur.take() {
                    out.push(c);
                }
                cur = Some((t.get(2).unwrap_or(&"replay").to_string(), simple_cfg(0), vec![]));
            }
            "G" => {
                let nv: usize = t[3].parse().unwrap();
                let mut v = Vec::new();
                for k in 0..nv {
                    v.push((t[4 + 3 * k].parse().unwrap(), t[5 + 3 * k].parse().unwrap(), t[6 + 3 * k].parse().unwrap()));
                }
                if let Some(c) = cur.as_mut() {
                    c.1 = Cfg { addr: t[1].parse().unwrap(), msg_types: unhex(t[2]), vendor_ids: v };
                }
            }
            "O" => {
                let op = match t[1] {
                    "P" => Op::Process(unhex(t[2]), unhex(t[3])),
                    "D" => Op::Decode(unhex(t[2])),
                    "L" => Op::GetLength(unhex(t[2])),
                    "S" => Op::SetEid(t[2] == "1", t[3].parse().unwrap()),
                    "U" => Op::SetUuid(unhex(t[2])),
                    "E" => {
                        let na: usize = t[4].parse().unwrap();
                        let nums: Vec<u32> = (0..na).map(|i| t[5 + i].parse().unwrap()).collect();
                        let nl: usize = t[5 + na].parse().unwrap();
                        let lists: Vec<Vec<u8>> = (0..nl).map(|i| unhex(t[6 + na + i])).collect();
                        Op::Encode { req: t[2] == "1", id: t[3].parse().unwrap(), nums, lists, buf: unhex(t[6 + na + nl]) }
                    }
                    "H" => Op::Hdr { what: t[2].parse().unwrap(), fld: t[3].parse().unwrap(), raw: unhex(t[4]), v: t[5].parse().unwrap() },
                    "V" => Op::Conv(t[2].parse().unwrap(), t[3].parse().unwrap()),
                    _ => panic!("bad op line {}", line),
                };
                if let Some(c) = cur.as_mut() {
                    c.2.push(op);
                }
            }
            "E" => {
                if let Some(c) = cur.take() {
                    out.push(c);
                }
            }
            _ => {}
        }
    }
    if let Some(c) = cur.take() {
        out.push(c);
    }
    out
}

pub fn replay(g: &mut Gen, path: &str) {
    let text = std::fs::read_to_string(path).unwrap_or_default();
    for (stratum, cfg, ops) in parse_cases(&text) {
        g.case(&stratum, &cfg, |s, _| {
            for op in ops {
                s.op(op);
            }
        });
    }
}

/// Corpus first: minimised past disagreements, boundary cases, known-finding witnesses.
fn corpus(g: &mut Gen, prop: &str) {
    let dir = std::env::var("VERIF_CORPUS").unwrap_or_else(|_| "/verif/corpus".to_string());
    let d = format!("{}/{}", dir, prop);
    let mut files: Vec<_> = match std::fs::read_dir(&d) {
        Ok(rd) => rd.filter_map(|e| e.ok()).map(|e| e.path()).collect(),
        Err(_) => vec![],
    };
    files.sort();
    for f in files {
        if f.extension().map(|x| x == "case").unwrap_or(false) {
            replay(g, f.to_str().unwrap());
        }
    }
}

/// Byte strings kept by the coverage-guided explorer (/verif/fuzz) for /repo's current sources: each one is
/// decoded by `bytecase` into a configuration and operations and replayed as an ordinary case.
fn covcorpus(g: &mut Gen, prop: &str) {
    let dir = match std::env::var("VERIF_COVDIR") { Ok(d) if !d.is_empty() => d, _ => return };
    let mut files: Vec<_> = match std::fs::read_dir(&dir) {
        Ok(rd) => rd.filter_map(|e| e.ok()).map(|e| e.path()).filter(|p| p.is_file()).collect(),
        Err(_) => vec![],
    };
    files.sort();
    let twin = prop == "C02";
    for f in files {
        let data = match std::fs::read(&f) { Ok(d) => d, Err(_) => continue };
        let mut u = crate::bytecase::U::new(&data);
        let cfg = crate::bytecase::cfg_from(&mut u);
        g.case("cov", &cfg, |s, _| {
            if twin { s.twin_on = true; s.alt_on = false; }
            crate::bytecase::run_bytes(s, &mut u);
        });
    }
}

pub fn run_property(g: &mut Gen, p: &str) -> bool {
    corpus(g, p);
    if !matches!(p, "C18" | "C19") { covcorpus(g, p); }
    match p {
        "C01" => c01(g),
        "C02" => c02(g),
        "C03" => c03(g),
        "C04" => c04(g),
        "C05" => c05(g),
        "C06" => c06(g),
        "C07" => c07(g),
        "C08" => c08(g),
        "C09" => c09(g),
        "C10" => c10(g),
        "C11" => c11(g),
        "C12" => c12(g),
        "C13" => c13(g),
        "C14" => c14(g),
        "C15" => c15(g),
        "C16" => c16(g),
        "C17" => c17(g),
        "C18" => c18(g),
        "C19" => c19(g),
        _ => return false,
    }
    true
}

/// response-half encoders read the context's EID: install one first, through either route
fn maybe_install_eid(s: &mut Session, r: &mut Rng, c: &Call) {
    if !c.req && (c.id == 1 || c.id == 2) {
        match r.below(3) {
            0 => {}
            1 => { s.op(Op::SetEid(false, r.cbyte())); }
            _ => {
                s.op(Op::SetEid(true, r.cbyte()));
                s.op(Op::SetEid(false, r.cbyte()));
            }
        }
    }
}

/// capacity of a response buffer: usually 64, one time in eight just around a multiple of 256 (a capacity
/// computed in a narrower integer type wraps there)
fn rcap(r: &mut Rng, usual: usize) -> usize {
    if r.chance(1, 8) { r.pick(&[256usize, 256, 256, 512, 768, 1024]) - 3 + r.below(20) as usize }
    else if r.chance(1, 16) { r.pick(&[0usize, 1, 8, 12, 13, 15, 16, 17]) }      // too short for (most) answers
    else { usual }
}

/// one time in five: the buffer the previous operation of this case left behind (an earlier packet, often a
/// longer one), as it is, when it is large enough
fn reused(r: &mut Rng, need: usize) -> Option<Vec<u8>> {
    if !r.chance(1, 5) { return None; }
    let b = crate::exec::last_buf();
    if b.len() >= need && !b.is_empty() { Some(b) } else { None }
}

fn rbuf(r: &mut Rng, kind: u64) -> Vec<u8> {
    if let Some(b) = reused(r, 64) { return b; }
    let cap = rcap(r, 64);
    poison(r, cap, kind)
}

fn pbuf(r: &mut Rng, base: usize, spread: u64) -> Vec<u8> {
    if let Some(b) = reused(r, base) { return b; }
    let usual = base + r.below(spread + 1) as usize;
    let cap = rcap(r, usual);
    let k = r.below(3);
    poison(r, cap, k)
}

fn buf_for(r: &mut Rng, c: &Call) -> Vec<u8> {
    let n = expected_len(c).unwrap_or(12);
    // one time in twelve a buffer too short for the packet: whatever the encoder does then, it must not report
    // success for a frame it could not write
    if r.chance(1, 12) {
        let cap = r.pick(&[0usize, 1, 8, 9, 11, n / 2, n.saturating_sub(1), n.saturating_sub(2)]).min(n.saturating_sub(1));
        let k = r.below(3);
        return poison(r, cap, k);
    }
    if let Some(b) = reused(r, n) { return b; }
    let cap = n + match r.below(3) { 0 => 0, 1 => 1, _ => 1 + r.below(40) as usize };
    let k = r.below(3);
    poison(r, cap, k)
}

/// Encode the same call again into buffers that already hold *almost* the right answer: the previous output with
/// its PEC altered, with one other byte altered, with a stale tail (an encoder must write every byte of the
/// packet, whatever the buffer held — it may not take a matching prefix as proof that nothing needs writing)
fn reencode_near(s: &mut Session, r: &mut Rng, c: &Call, prev: &Obs, all: bool) {
    if let Obs::Enc(Some(n), out) = prev {
        let n = *n;
        if n < 2 || n > out.len() { return; }
        let kinds: Vec<u64> = if all { vec![0, 1, 2] } else { vec![r.below(3)] };
        for k in kinds {
            let mut b = out.clone();
            match k {
                0 => { b[n - 1] = b[n - 1].wrapping_add(1 + r.below(255) as u8); }
                1 => { let i = r.below((n - 1) as u64) as usize; b[i] ^= 1 << r.below(8); }
                _ => { let i = r.below(n as u64) as usize; for x in b[i..n].iter_mut() { *x = !*x; } }
            }
            if r.chance(1, 3) { let k = 1 + r.below(4) as usize; let extra = r.bytes(k); b.extend(extra); }
            s.op(enc_op(c, b));
        }
    }
}

fn encode_case(g: &mut Gen, stratum: &str, key: (bool, u32), refuse: bool, total: Option<usize>) {
    let cfg = gen_cfg(&mut g.rng);
    g.case(stratum, &cfg, |s, r| {
        let c = gen_call(r, key, refuse, total);
        maybe_install_eid(s, r, &c);
        let buf = buf_for(r, &c);
        let o = s.op(enc_op(&c, buf));
        if r.chance(1, 3) { reencode_near(s, r, &c, &o, false); }
    });
}

const BODY_KEYS: [(bool, u32); 5] = [(true, 20), (true, 30), (false, 31), (true, 32), (false, 33)];

/// bodies so long that the packet length wraps in a 16-bit integer (65 540 = 2^16 + 4 is the first total whose
/// byte count is 0 again), into buffers that could hold them: still refused, nothing written
fn wide_encode_cases(g: &mut Gen) {
    for total in [65_539usize, 65_540, 65_541, 65_548, 65_795, 65_796, 131_076] {
        for key in BODY_KEYS {
            encode_case(g, "wide", key, false, Some(total));
        }
    }
}

fn c03(g: &mut Gen) {
    wide_encode_cases(g);
    let per = g.n(30, 1200);
    for key in all_keys() {
        for _ in 0..per {
            encode_case(g, "enc", key, false, None);
        }
    }
    // every packet length from 12 up to (and a little beyond) the SMBus maximum, on every body-carrying encoder
    let reps = g.n(1, 8);
    for total in 12..=262usize {
        for key in BODY_KEYS {
            for _ in 0..reps {
                encode_case(g, "len", key, false, Some(total));
            }
        }
    }
    // encoders (and the responses process_packet itself encodes) on a context with a history behind it:
    // requests with every instance ID, EID assignments, UUID updates, corrupted traffic
    let n = g.n(250, 10_000);
    let keys = all_keys();
    for _ in 0..n {
        let cfg = gen_cfg(&mut g.rng);
        g.case("hist", &cfg, |s, r| {
            let k = 1 + r.below(6) as usize;
            history(s, k, r);
            for _ in 0..3 {
                let key = keys[r.below(keys.len() as u64) as usize];
                let c = gen_call(r, key, false, None);
                let b = buf_for(r, &c);
                s.op(enc_op(&c, b));
            }
        });
    }
}

/// encoder calls on a context with a history behind it (requests with every instance ID, EID assignments,
/// UUID updates, corrupted traffic): catches state that leaks into the encoders
fn hist_encode_stratum(g: &mut Gen, n: usize, keys: &[(bool, u32)], repeat_call: bool) {
    for _ in 0..n {
        let cfg = gen_cfg(&mut g.rng);
        g.case("hist", &cfg, |s, r| {
            let k = 1 + r.below(6) as usize;
            history(s, k, r);
            for _ in 0..3 {
                let key = keys[r.below(keys.len() as u64) as usize];
                let c = gen_call(r, key, false, None);
                let b = buf_for(r, &c);
                if let Obs::Enc(Some(n), out) = s.op(enc_op(&c, b)) {
                    if repeat_call {
                        let b2 = poison(r, n + 2, 1);
                        s.op(enc_op(&c, b2));
                    } else if n <= out.len() && n >= 3 && r.chance(1, 2) {
                        s.op(Op::GetLength(out[..3].to_vec()));
                    }
                }
            }
        });
    }
}

// ------------------------------------------------------------------------------------------------ C04
fn c04_case(g: &mut Gen, stratum: &str, cfg: &Cfg, key: (bool, u32), total: Option<usize>, dest: Option<u8>) {
    g.case(stratum, cfg, |s, r| {
        let mut c = gen_call(r, key, false, total);
        if let Some(d) = dest {
            let i = if c.id >= 30 || c.req { 0 } else { 1 };
            c.nums[i] = d as u32;
        }
        maybe_install_eid(s, r, &c);
        let buf = buf_for(r, &c);
        let o = s.op(enc_op(&c, buf));
        if r.chance(1, 4) { reencode_near(s, r, &c, &o, false); }
        if let Obs::Enc(Some(n), out) = o {
            if n <= out.len() && n >= 3 {
                // the length probe on prefixes: 3 bytes, 4 bytes, a random prefix, the whole packet,
                // and the 3-byte prefix with a random continuation of the same length as the packet
                let mut ks = vec![3usize, 4.min(n), n];
                ks.push(3 + r.below((n - 2) as u64) as usize);
                for k in ks {
                    s.op(Op::GetLength(out[..k].to_vec()));
                }
            }
        }
    });
}

fn c04(g: &mut Gen) {
    wide_encode_cases(g);
    { let n = g.n(120, 5000); let k = all_keys(); hist_encode_stratum(g, n, &k, false); }
    let per = g.n(12, 300);
    for key in all_keys() {
        for _ in 0..per {
            let cfg = gen_cfg(&mut g.rng);
            c04_case(g, "enc", &cfg, key, None, None);
        }
    }
    // all 128 x 128 address pairs (thorough: on one encoder of every family; quick: a seeded 1/16 of them)
    let fams: Vec<(bool, u32)> = if g.thorough { vec![(true, 2), (false, 4), (true, 20), (false, 32)] } else { vec![(true, 2)] };
    for key in fams {
        for src in 0..128u32 {
            for dst in 0..128u32 {
                if !g.thorough && g.rng.below(16) != 0 {
                    continue;
                }
                // both the 7-bit value and the same value with bit 7 set name the same SMBus address
                let hi_s = if g.rng.chance(1, 2) { 0x80 } else { 0 };
                let hi_d = if g.rng.chance(1, 2) { 0x80 } else { 0 };
                let cfg = simple_cfg(src as u8 | hi_s);
                c04_case(g, "addr", &cfg, key, None, Some(dst as u8 | hi_d));
            }
        }
    }
    // the SMBus header helper on (source, destination) pairs: exhaustive in thorough
    let cfg = simple_cfg(0);
    for src in 0..256u32 {
        if !g.thorough && src % 16 != (g.rng.below(16) as u32) {
            continue;
        }
        g.case("smbhdr", &cfg, |s, _| {
            for dst in 0..256u32 {
                s.op(Op::Hdr { what: 11, fld: src, raw: vec![], v: dst });
            }
        });
    }
    // body sizes: everything around the SMBus block limit enumerated, beyond it refused
    let reps = g.n(1, 6);
    for total in (10..=300usize).filter(|t| *t < 40 || *t >= 236) {
        for key in BODY_KEYS {
            for _ in 0..reps {
                let cfg = gen_cfg(&mut g.rng);
                c04_case(g, if total > 259 { "oversize" } else { "size" }, &cfg, key, Some(total.max(if key.1 == 20 { 14 } else { 10 })), None);
            }
        }
    }
}

// ------------------------------------------------------------------------------------------------ C05
fn c05(g: &mut Gen) {
    { let n = g.n(120, 5000); let k = all_keys(); hist_encode_stratum(g, n, &k, false); }
    let per = g.n(40, 1500);
    for key in all_keys() {
        for _ in 0..per {
            encode_case(g, "enc", key, false, None);
        }
    }
    // routing tables that list the two parties themselves (an entry behind the sender's address, one behind the
    // destination's, single endpoints or bridges with real EIDs) among others: the transport header still names the
    // destination the caller gave and the sender's own address
    let reps = g.n(80, 3000);
    for _ in 0..reps {
        let cfg = gen_cfg(&mut g.rng);
        g.case("routing-parties", &cfg, |s, r| {
            if r.chance(1, 3) { let (h, e) = (r.chance(1, 2), 8 + r.below(0xF0) as u8); s.op(Op::SetEid(h, e)); }
            let (own, er, es) = crate::exec::hint();
            let dest = r.addr();
            let n = 2 + r.below(6) as usize;
            let mut lists: Vec<Vec<u8>> = (0..n).map(|_| r.bytes(4)).collect();
            let (i, j) = { let i = r.below(n as u64) as usize; let mut j = r.below(n as u64) as usize; if j == i { j = (i + 1) % n; } (i, j) };
            let x1 = 8 + r.below(0xF0) as u8; let e1 = r.pick(&[x1, x1, er, es]); let e2 = 8 + r.below(0xF0) as u8;
            let (t1, t2) = (r.pick(&[0u8, 2]), r.pick(&[2u8, 2, 0]));
            lists[i] = vec![t1, 1, e1, own];
            lists[j] = vec![t2, 1, e2, dest];
            let c = Call { req: true, id: 9, nums: vec![dest as u32], lists };
            let buf = buf_for(r, &c);
            s.op(enc_op(&c, buf));
        });
    }
    // the transport header helper on (source, destination) pairs: exhaustive in thorough
    let cfg = simple_cfg(0);
    for src in 0..256u32 {
        if !g.thorough && src % 16 != (g.rng.below(16) as u32) {
            continue;
        }
        g.case("trhdr", &cfg, |s, _| {
            for dst in 0..256u32 {
                s.op(Op::Hdr { what: 10, fld: src, raw: vec![], v: dst });
            }
        });
    }
}

// ------------------------------------------------------------------------------------------------ C06
fn c06(g: &mut Gen) {
    { let n = g.n(120, 5000); let k: Vec<(bool, u32)> = REQ_IDS.iter().filter(|i| **i != 20).map(|i| (true, *i)).collect(); hist_encode_stratum(g, n, &k, false); }
    let per = g.n(60, 2500);
    for id in REQ_IDS {
        if id == 20 { continue; }
        for _ in 0..per {
            encode_case(g, "req", (true, id), false, None);
        }
    }
    // every value of each single byte parameter
    let cfg = simple_cfg(0x23);
    for (id, slot) in [(1u32, 2usize), (6, 1), (7, 1), (8, 2), (8, 3), (10, 1), (15, 1), (16, 1)] {
        g.case("sweep", &cfg, |s, r| {
            for v in 0..256u32 {
                let mut c = gen_call(r, (true, id), false, None);
                c.nums[slot] = v;
                let buf = buf_for(r, &c);
                s.op(enc_op(&c, buf));
            }
        });
    }
    // every enum variant
    g.case("enums", &cfg, |s, r| {
        for op in 0..4u32 { let c = Call { req: true, id: 1, nums: vec![0x34, op, 0x56], lists: vec![] }; let b = buf_for(r, &c); s.op(enc_op(&c, b)); }
        for q in [0xFFu32, 0, 1, 2, 3] { let c = Call { req: true, id: 4, nums: vec![0x34, q], lists: vec![] }; let b = buf_for(r, &c); s.op(enc_op(&c, b)); }
        for op in 0..3u32 { let c = Call { req: true, id: 8, nums: vec![0x34, op, 0x11, 0x22], lists: vec![] }; let b = buf_for(r, &c); s.op(enc_op(&c, b)); }
        for mt in [0u32, 5, 6, 0x7E, 0x7F, 0xFF] { let c = Call { req: true, id: 15, nums: vec![0x34, 0x45, mt], lists: vec![] }; let b = buf_for(r, &c); s.op(enc_op(&c, b)); }
    });
    // 0..7 routing entries (and the refused 8+)
    for n in 0..12usize {
        g.case("entries", &cfg, |s, r| {
            let c = Call { req: true, id: 9, nums: vec![r.addr() as u32], lists: (0..n).map(|_| r.bytes(4)).collect() };
            let b = buf_for(r, &c);
            s.op(enc_op(&c, b));
        });
    }
}

// ------------------------------------------------------------------------------------------------ C07
fn c07(g: &mut Gen) {
    { let n = g.n(120, 5000); let k: Vec<(bool, u32)> = RESP_IDS.iter().map(|i| (false, *i)).collect(); hist_encode_stratum(g, n, &k, false); }
    let per = g.n(120, 5000);
    for id in RESP_IDS {
        for _ in 0..per {
            encode_case(g, "resp", (false, id), false, None);
        }
    }
    // every completion code x every enum combination x an installed EID
    let cfg = gen_cfg(&mut g.rng);
    g.case("combos", &cfg, |s, r| {
        for cc in 0..6u32 {
            for a in 0..2u32 {
                for b in 0..3u32 {
                    s.op(Op::SetEid(false, r.byte()));
                    let c = Call { req: false, id: 1, nums: vec![cc, r.addr() as u32, a, b], lists: vec![] };
                    let bf = buf_for(r, &c); s.op(enc_op(&c, bf));
                }
                for b in 0..4u32 {
                    for f in 0..2u32 {
                        s.op(Op::SetEid(false, r.byte()));
                        let c = Call { req: false, id: 2, nums: vec![cc, r.addr() as u32, a, b, f], lists: vec![] };
                        let bf = buf_for(r, &c); s.op(enc_op(&c, bf));
                    }
                }
            }
        }
    });
    // every EID value, installed through either accessor (only the response half's counts)
    g.case("eids", &cfg, |s, r| {
        for e in 0..256u32 {
            s.op(Op::SetEid(false, e as u8));
            if r.chance(1, 3) { s.op(Op::SetEid(true, r.byte())); }
            let id = 1 + (e % 2);
            let c = if id == 1 { Call { req: false, id, nums: vec![0, r.addr() as u32, 0, 0], lists: vec![] } }
                    else { Call { req: false, id, nums: vec![0, r.addr() as u32, 0, 0, 0], lists: vec![] } };
            let bf = buf_for(r, &c); s.op(enc_op(&c, bf));
        }
    });
    // lists of every length 0..30 (and refused beyond), vendor fields 0..7
    for n in 0..34usize {
        g.case("types", &cfg, |s, r| {
            let c = Call { req: false, id: 5, nums: vec![r.below(6) as u32, r.addr() as u32], lists: vec![r.bytes(n)] };
            let bf = buf_for(r, &c); s.op(enc_op(&c, bf));
        });
    }
    for n in 0..8usize {
        g.case("vid", &cfg, |s, r| {
            let c = Call { req: false, id: 6, nums: vec![r.below(6) as u32, r.addr() as u32, r.cbyte() as u32], lists: vec![r.bytes(n)] };
            let bf = buf_for(r, &c); s.op(enc_op(&c, bf));
        });
    }
}

// ------------------------------------------------------------------------------------------------ C08
fn c08(g: &mut Gen) {
    wide_encode_cases(g);
    { let n = g.n(120, 5000); let k = vec![(true, 20u32), (true, 31), (false, 31), (true, 32), (false, 32), (true, 33), (false, 33)]; hist_encode_stratum(g, n, &k, false); }
    let per = g.n(150, 6000);
    for key in [(true, 20u32), (true, 31), (false, 31), (true, 32), (false, 32), (true, 33), (false, 33)] {
        for _ in 0..per {
            encode_case(g, "vend", key, false, None);
        }
    }
    // every format byte
    let cfg = simple_cfg(0x23);
    g.case("formats", &cfg, |s, r| {
        for f in 0..256u32 {
            let mut c = gen_call(r, (true, 20), false, None);
            c.nums[1] = f;
            let b = buf_for(r, &c);
            s.op(enc_op(&c, b));
        }
    });
    // bodies of every length the frame can carry (and just beyond)
    let reps = g.n(1, 4);
    for total in 10..=264usize {
        for key in [(true, 20u32), (true, 31), (true, 32), (true, 33)] {
            if key.1 == 20 && total < 14 { continue; }
            for _ in 0..reps {
                encode_case(g, "len", key, false, Some(total));
            }
        }
    }
}

// ------------------------------------------------------------------------------------------------ C16
fn c16(g: &mut Gen) {
    // routing tables as they really look — a bridge followed by its pool, single endpoints between ranges, contiguous behind
    // one address, listed upwards, downwards or pool-first — of every length 2..12: up to 7 entries are carried exactly as
    // given, 8 or more are refused however they could be folded
    for n in 2..=12usize {
        let reps = g.n(8, 80);
        for _ in 0..reps {
            let cfg = gen_cfg(&mut g.rng);
            g.case("routing-runs", &cfg, |s, r| {
                let addr = r.byte(); let mut first = 1 + r.below(60) as u8;
                let mut lists: Vec<Vec<u8>> = Vec::new();
                while lists.len() < n {
                    if lists.len() + 1 < n && r.chance(1, 2) {
                        // a bridge and the pool behind it
                        let sz = 1 + r.below(8) as u8;
                        lists.push(vec![2, 1, first, addr]); lists.push(vec![r.pick(&[3u8, 3, 1]), sz, first.wrapping_add(1), addr]);
                        first = first.wrapping_add(1 + sz);
                    } else {
                        let ty = r.below(4) as u8; let sz = if ty == 0 || ty == 2 { 1 } else { 1 + r.below(6) as u8 };
                        lists.push(vec![ty, sz, first, addr]); first = first.wrapping_add(sz);
                    }
                }
                match r.below(4) { 0 => lists.reverse(), 1 => { let mut i = 0; while i + 1 < lists.len() { lists.swap(i, i + 1); i += 2; } } _ => {} }
                let c = Call { req: true, id: 9, nums: vec![r.addr() as u32], lists };
                let cap = 15 + 4 * n + r.below(9) as usize; let k = r.below(3);
                let buf = poison(r, cap, k);
                s.op(enc_op(&c, buf));
            });
        }
    }
    // halves constructed on their own (no context around them) and the constructors that only wrap bytes: the rest
    // of the public API, tied by fidelity
    {
        let cfg = simple_cfg(0);
        g.case("standalone", &cfg, |s, r| {
            for _ in 0..40 {
                let (half, addr, eid, dest) = (r.below(2) as u32, r.cbyte() as u32, r.cbyte() as u32, r.cbyte() as u32);
                let cap = [0usize, 5, 11, 12, 15, 16, 17, 40][r.below(8) as usize];
                let k = r.below(3); let raw = poison(r, cap, k);
                s.op(Op::Hdr { what: 15, fld: dest, raw, v: half | (addr << 1) | (eid << 9) });
            }
            for fld in 0..7u32 {
                let len = match fld { 0 | 1 => 0, 3 | 5 => 2, _ => 4 };
                for _ in 0..4 { let raw = r.cbytes(len); s.op(Op::Hdr { what: 16, fld, raw, v: 0 }); }
            }
        });
    }
    // the three encoders that end in unimplemented!(): modelled (Encode.req_stub), tied by fidelity only (no property
    // speaks about them)
    {
        let cfg = simple_cfg(0);
        g.case("stubs", &cfg, |s, r| {
            for id in [18u32, 19, 21] {
                for cap in [0usize, 3, 8, 11, 12, 13, 64] {
                    let k = r.below(3); let raw = poison(r, cap, k);
                    let (d, a) = (r.byte() as u32, r.byte() as u32); s.op(Op::Hdr { what: 14, fld: d, raw, v: (a << 8) | id });
                }
            }
        });
    }
    wide_encode_cases(g);
    { let n = g.n(120, 5000); let k = all_keys(); hist_encode_stratum(g, n, &k, true); }
    let per = g.n(25, 1000);
    for key in all_keys() {
        for i in 0..per {
            let refuse = can_refuse(key) && i % 4 == 3;
            let cfg = gen_cfg(&mut g.rng);
            g.case(if refuse { "refuse" } else { "enc" }, &cfg, |s, r| {
                let c = gen_call(r, key, refuse, None);
                maybe_install_eid(s, r, &c);
                let n = expected_len(&c).unwrap_or(12 + r.below(30) as usize);
                // the same call three times: exact capacity / zero poison, +1 / 0xFF poison, +k / noise
                let caps = [n, n + 1, n + 1 + r.below(40) as usize];
                let mut last = Obs::Unit;
                for (k, cap) in caps.iter().enumerate() {
                    let b = poison(r, *cap, k as u64);
                    last = s.op(enc_op(&c, b));
                }
                // ... and into buffers that already hold almost the right answer
                reencode_near(s, r, &c, &last, i % 2 == 0);
            });
        }
    }
    // the four argument limits at limit-1, limit, limit+1
    let cfg = simple_cfg(0x23);
    g.case("limits", &cfg, |s, r| {
        for eid in [0u32, 1, 2, 0xFD, 0xFE, 0xFF] {
            let c = Call { req: true, id: 1, nums: vec![0x34, 0, eid], lists: vec![] };
            for k in 0..2 { let b = poison(r, 14 + k, k as u64 + 1); s.op(enc_op(&c, b)); }
        }
        for n in [6usize, 7, 8, 9, 31, 32, 63, 64, 65, 71, 72, 127, 128, 135, 192, 199, 255, 256, 257] {
            let c = Call { req: true, id: 9, nums: vec![0x34], lists: (0..n).map(|_| r.bytes(4)).collect() };
            for k in 0..2 { let b = poison(r, (13 + 4 * n + k).min(300), k as u64 + 1); s.op(enc_op(&c, b)); }
        }
        for n in [29usize, 30, 31, 32, 33, 64, 255, 256, 257, 286] {
            let c = Call { req: false, id: 5, nums: vec![0, 0x34], lists: vec![r.bytes(n)] };
            for k in 0..2 { let b = poison(r, 14 + n + k, k as u64 + 1); s.op(enc_op(&c, b)); }
        }
        for f in [0u32, 1, 2, 3, 0xFF] {
            let c = Call { req: true, id: 20, nums: vec![0x34, f, 0x12345678, 9], lists: vec![r.bytes(5)] };
            for k in 0..2 { let b = poison(r, 19 + k, k as u64 + 1); s.op(enc_op(&c, b)); }
        }
    });
    // sizes around the frame limit: everything that fits must succeed, everything beyond be refused
    let reps = g.n(1, 4);
    for total in 236..=270usize {
        for key in BODY_KEYS {
            for _ in 0..reps {
                let cfg = gen_cfg(&mut g.rng);
                g.case("size", &cfg, |s, r| {
                    let c = gen_call(r, key, false, Some(total));
                    for k in 0..2u64 { let b = poison(r, total + k as usize * 3, k + 1); s.op(enc_op(&c, b)); }
                });
            }
        }
    }
}

// ------------------------------------------------------------------------------------------------ packets
/// a control message body (bytes 9..) built independently of the library
fn ctl_body(rq: bool, d: bool, rsvd: bool, inst: u8, cmd: u8, cc: Option<u8>, data: &[u8]) -> Vec<u8> {
    let mut b = vec![((rq as u8) << 7) | ((d as u8) << 6) | ((rsvd as u8) << 5) | (inst & 31), cmd];
    if let Some(c) = cc { b.push(c); }
    b.extend_from_slice(data);
    b
}

fn fixed_req_len(cmd: u8) -> Option<usize> { match cmd { 1 => Some(2), 4 | 6 | 7 => Some(1), 8 => Some(3), _ => None } }
fn fixed_resp_len(cmd: u8) -> Option<usize> { match cmd { 1 => Some(3), 2 => Some(4), 3 => Some(16), 4 => Some(5), 8 => Some(4), 9 => Some(1), _ => None } }

/// a mostly-valid packet from the independent builder; `valid_hdr` keeps version / IC / type in range
fn gen_packet(r: &mut Rng, valid_hdr: bool) -> Vec<u8> {
    let src = r.below(128) as u8;
    let dst = r.below(128) as u8;
    let b4 = if valid_hdr || r.chance(5, 6) { 0x01 } else { r.pick(&[0x00u8, 0x02, 0x11, 0x81, 0x0F, 0xF1, 0x21]) };
    let ty = if valid_hdr || r.chance(5, 6) { r.pick(&[0x00u8, 0x00, 0x00, 0x05, 0x06, 0x7E, 0x7F]) } else { r.pick(&[0x80u8, 0x85, 0xFE, 0xFF, 0x01, 0x04, 0x07, 0x7D, 0x40]) };
    let flags = if r.chance(3, 4) { 0xC8 } else { r.byte() };
    let src_eid = if r.chance(3, 4) { src } else { r.byte() };
    let body = if ty == 0 {
        let rq = r.chance(3, 5);
        let cmd = if r.chance(3, 4) { r.below(9) as u8 } else if r.chance(1, 2) { 9 + r.below(14) as u8 } else { r.pick(&[0x15u8, 0x7F, 0x80, 0xFE, 0xFF]) };
        let inst = if r.chance(1, 2) { 0 } else { r.below(32) as u8 };
        let d = r.chance(1, 8);
        let rs = r.chance(1, 8);
        let fixed = if rq { fixed_req_len(cmd) } else { fixed_resp_len(cmd) };
        let dl = match (fixed, r.below(6)) {
            (Some(f), 0..=3) => f,
            (Some(f), 4) => f + 1,
            (Some(f), _) => f.saturating_sub(1),
            (None, 0..=3) => r.below(5) as usize,
            (None, _) => r.pick(&[16usize, 17, 40, 200, 244]),
        };
        let cc = if rq { None } else { Some(if r.chance(2, 3) { 0 } else if r.chance(3, 4) { 1 + r.below(5) as u8 } else { r.pick(&[6u8, 7, 0x80, 0xFF]) }) };
        let mut data = if r.chance(1, 2) { r.cbytes(dl) } else { r.bytes(dl) };
        if rq && cmd == 1 && !data.is_empty() && r.chance(3, 4) { data[0] = r.pick(&[0u8, 1, 3]); }
        if rq && cmd == 6 && !data.is_empty() && r.chance(3, 4) { data[0] = r.below(4) as u8; }
        ctl_body(rq, d, rs, inst, cmd, cc, &data)
    } else {
        let big = r.chance(1, 10);
        let n = r.below(if big { 248 } else { 24 }) as usize;
        r.bytes(n)
    };
    build_packet(dst, src, b4, r.byte(), src_eid, flags, ty, &body)
}

/// one of the corruptions of a packet
/// corruptions that a weaker check than CRC-8 (byte sum, xor, position-weighted sum, "same bytes in any order")
/// would let through: byte swaps, +d/-d pairs, +d/-2d/+d triples, the same bit flipped in two bytes, a rotation
fn weak_corrupt(r: &mut Rng, p: &[u8]) -> Vec<u8> {
    let mut q = p.to_vec();
    let n = q.len();
    if n < 4 { return q; }
    // positions over the whole packet, the tail (payload + PEC) over-weighted
    let pos = |r: &mut Rng, span: usize| -> usize { if r.chance(1, 2) { (n - span).saturating_sub(r.below(6) as usize) } else { r.below((n - span + 1) as u64) as usize } };
    match r.below(6) {
        0 => { let i = pos(r, 2); let j = if r.chance(1, 2) { i + 1 } else { r.below(n as u64) as usize }; q.swap(i, j); }
        1 => { let i = pos(r, 2); let j = if r.chance(1, 2) { i + 1 } else { r.below(n as u64) as usize }; let d = 1 + r.below(255) as u8;
               if i != j { q[i] = q[i].wrapping_add(d); q[j] = q[j].wrapping_sub(d); } }
        2 => { let i = pos(r, 3); let d = if r.chance(1, 2) { 1 } else { 1 + r.below(127) as u8 }; let neg = r.chance(1, 2);
               let (a, b) = if neg { (d.wrapping_neg(), d.wrapping_mul(2)) } else { (d, d.wrapping_mul(2).wrapping_neg()) };
               q[i] = q[i].wrapping_add(a); q[i + 1] = q[i + 1].wrapping_add(b); q[i + 2] = q[i + 2].wrapping_add(a); }
        3 => { let i = pos(r, 2); let j = if r.chance(1, 2) { i + 1 } else { r.below(n as u64) as usize }; let m = 1u8 << r.below(8);
               if i != j { q[i] ^= m; q[j] ^= m; } }
        4 => { let st = 8.min(n - 2); let m = n - st; let k = 1 + r.below((m - 1) as u64) as usize; q[st..].rotate_left(k % m); }
        _ => { let st = 8.min(n - 2); q[st..].reverse(); }
    }
    q
}

fn corrupt(r: &mut Rng, p: &[u8]) -> Vec<u8> {
    let mut q = p.to_vec();
    if q.is_empty() { return q; }
    if r.chance(1, 6) { return weak_corrupt(r, p); }
    match r.below(10) {
        8 => { let k = 1 + r.below(3) as usize; if q.len() > k { q.drain(0..k); } }   // the first byte(s) missing (frame handed over without its address byte)
        9 => { let x = r.byte(); let b = r.pick(&[q[0], 0x0F, crate::exec::hint().0 << 1, x]); q.insert(0, b); }   // one byte too many in front
        6 => { let k = 1 + r.below(8) as usize; let t = r.bytes(k); q.extend(t); }   // stray bytes after the packet
        7 => { if q.len() > 2 { q[2] = r.byte(); } }                                 // byte count corrupted
        0 => { let i = q.len() - 1; q[i] ^= 1 << r.below(8); }                 // PEC bit flip
        1 => { let i = q.len() - 1; q[i] = q[i].wrapping_add(1 + r.below(255) as u8); } // random wrong PEC
        2 => { let i = r.below(q.len() as u64) as usize; q[i] ^= 1 << r.below(8); }     // single bit anywhere
        3 => {                                                                  // burst of up to 8 bits
            let start = r.below((q.len() * 8) as u64) as usize;
            let pat = 1 + r.below(255) as u16;
            for k in 0..8 { if pat & (1 << k) != 0 { let bit = start + k; if bit / 8 < q.len() { q[bit / 8] ^= 0x80 >> (bit % 8); } } }
        }
        4 => { let i = r.below(q.len() as u64) as usize; q[i] = r.byte(); }     // byte substitution
        _ => { let i = r.below(q.len() as u64) as usize; q.truncate(i); }       // truncation
    }
    q
}

/// the output of a random library encoder (S1)
fn encoder_packet(s: &mut Session, r: &mut Rng) -> Option<Vec<u8>> {
    let keys = all_keys();
    let key = keys[r.below(keys.len() as u64) as usize];
    let c = gen_call(r, key, false, None);
    let buf = vec![0u8; expected_len(&c).unwrap_or(12) + 2];
    // encoded on a scratch context so that the case under test records only the receive path
    let o = encode_obs(s.alt, c.req, c.id, &c.nums, &c.lists, &buf);
    if let Obs::Enc(Some(n), out) = o { Some(out[..n].to_vec()) } else { None }
}

fn any_packet(s: &mut Session, r: &mut Rng) -> Vec<u8> {
    match r.below(10) {
        0..=2 => encoder_packet(s, r).unwrap_or_else(|| gen_packet(r, true)),
        3..=6 => gen_packet(r, true),
        7 => gen_packet(r, false),
        8 => { let p = gen_packet(r, true); corrupt(r, &p) }
        _ => { let big = r.chance(1, 8); let n = r.below(if big { 260 } else { 20 }) as usize; r.bytes(n) }
    }
}

/// the deterministic grid of control packets (S2): every command code x request/response x completion code x
/// data length around the fixed one x PEC right/wrong
fn control_grid(full: bool, r: &mut Rng, f: &mut dyn FnMut(&str, Vec<u8>)) {
    let cmds: Vec<u8> = if full { (0..=255u8).collect() } else { (0..=0x16u8).chain([0x7F, 0x80, 0xFF]).collect() };
    for &cmd in &cmds {
        for rq in [true, false] {
            let ccs: Vec<Option<u8>> = if rq { vec![None] } else { (0..=7u8).chain([0xFF]).map(Some).collect() };
            for cc in ccs {
                let fixed = if rq { fixed_req_len(cmd) } else { fixed_resp_len(cmd) };
                let mut lens: Vec<usize> = vec![0, 1, 2, 3, 4, 5, 16, 17];
                if let Some(fx) = fixed { lens.push(fx); lens.push(fx + 1); }
                if full { lens.push(40); lens.push(243); }
                lens.sort(); lens.dedup();
                for dl in lens {
                    for bad_pec in [false, true] {
                        if !full && r.below(3) != 0 && !(dl == fixed.unwrap_or(0)) { continue; }
                        let inst = if r.chance(1, 2) { 0 } else { r.below(32) as u8 };
                        let mut data = if r.chance(1, 2) { r.cbytes(dl) } else { r.bytes(dl) };
                        if rq && cmd == 1 && dl > 0 { data[0] = r.below(5) as u8; }
                        if rq && cmd == 6 && dl > 0 { data[0] = r.below(6) as u8; }
                        let body = ctl_body(rq, false, false, inst, cmd, cc, &data);
                        let src = r.below(128) as u8;
                        let mut p = build_packet(r.below(128) as u8, src, 1, r.byte(), src, 0xC8, 0, &body);
                        if bad_pec { let i = p.len() - 1; p[i] ^= 1 << r.below(8); }
                        f(if rq { "grid-req" } else { "grid-resp" }, p);
                    }
                }
            }
        }
    }
    // header variants: version, reserved bits, IC, type
    for b4 in [0x01u8, 0x00, 0x02, 0x0F, 0x11, 0x81, 0xF1] {
        for ty in [0x00u8, 0x05, 0x06, 0x7E, 0x7F, 0x80, 0x85, 0xFE, 0xFF, 0x01, 0x04, 0x07, 0x7D] {
            for bad_pec in [false, true] {
                let body = if ty & 0x7F == 0 { ctl_body(true, false, false, 0, 2, None, &[]) } else { { let k_ = 1 + r.below(6) as usize; r.bytes(k_) } };
                let src = r.below(128) as u8;
                let mut p = build_packet(r.below(128) as u8, src, b4, r.byte(), src, 0xC8, ty, &body);
                if bad_pec { let i = p.len() - 1; p[i] ^= 1 << r.below(8); }
                f("grid-hdr", p);
            }
        }
    }
    // the long ones: well-formed packets of every type with total length 250..=259 (byte count up to 0xFF), and
    // longer than any SMBus block (the byte count can no longer say so; the decoder goes by the slice it is given)
    let mut totals: Vec<(usize, &str)> = (250..=259usize).map(|t| (t, "grid-maxlen")).collect();
    for t in (260..=276usize).chain([300usize, 511, 512, 523, 524, 525, 600, 1036]) { totals.push((t, "grid-over")); }
    for ty in [0x00u8, 0x05, 0x06, 0x7E, 0x7F] {
        for &(total, stratum) in &totals {
            let src = r.below(128) as u8;
            let body = if ty == 0 {
                let rq = r.chance(1, 2);
                let cmd = if rq { r.pick(&[0u8, 2, 3, 5]) } else { r.pick(&[0u8, 5, 6]) };
                let d = r.bytes(total - if rq { 12 } else { 13 });
                ctl_body(rq, false, false, r.below(32) as u8, cmd, if rq { None } else { Some(0) }, &d)
            } else { r.bytes(total - 10) };
            let mut p = build_packet(r.below(128) as u8, src, 1, r.byte(), src, 0xC8, ty, &body);
            f(stratum, p.clone());
            let i = p.len() - 1; p[i] ^= 0x10;
            f(stratum, p);
        }
    }
    // self-describing data: a count byte followed by that many entries of 1, 2 or 4 bytes (what a peer with several
    // versions, types or routes would send): a fixed-length command stays fixed-length however consistent the data looks
    for cmd in (0..=10u8).chain([0x0Bu8, 0x14]) {
        for rq in [true, false] {
            for size in [1usize, 2, 4] {
                for k in 1..=6usize {
                    let mut d = vec![k as u8]; d.extend(r.bytes(k * size));
                    if r.chance(1, 2) { for x in d.iter_mut().skip(1) { *x |= 0xF0; } }     // BCD-looking version entries
                    let src = r.below(128) as u8;
                    let body = ctl_body(rq, false, false, r.below(32) as u8, cmd, if rq { None } else { Some(0) }, &d);
                    f("grid-counted", build_packet(r.below(128) as u8, src, 1, r.byte(), src, 0xC8, 0, &body));
                }
            }
        }
    }
    // the short ones: every length 0..13 of a valid packet of every type, PEC refreshed or not
    for ty in [0x00u8, 0x05, 0x06, 0x7E, 0x7F] {
        let body = if ty == 0 { ctl_body(false, false, false, 0, 1, Some(0), &[1, 2, 3]) } else { vec![9, 8, 7, 6] };
        let src = r.below(128) as u8;
        let p = build_packet(r.below(128) as u8, src, 1, r.byte(), src, 0xC8, ty, &body);
        for k in 0..=p.len() {
            let mut q = p[..k].to_vec();
            f("grid-trunc", q.clone());
            if k >= 2 { let c = crc8(&q[..k - 1]); q[k - 1] = c; f("grid-trunc-pec", q); }
        }
        if ty == 0 {
            for (rq, cc) in [(true, None), (false, Some(0u8)), (false, Some(3u8))] {
                let b = ctl_body(rq, false, false, 0, 2, cc, &[]);
                let p = build_packet(0x10, src, 1, 0x20, src, 0xC8, 0, &b);
                for k in 9..=p.len() {
                    let mut q = p[..k].to_vec();
                    let c = crc8(&q[..k - 1]); q[k - 1] = c; f("grid-trunc-pec", q);
                }
            }
        }
    }
}

// ------------------------------------------------------------------------------------------------ C09
fn c09(g: &mut Gen) {
    let cfg0 = gen_cfg(&mut g.rng);
    let mut grid: Vec<(String, Vec<u8>)> = Vec::new();
    let full = g.thorough;
    let mut r = g.rng.fork();
    let reps = g.n(1, 6);
    for _ in 0..reps {
        control_grid(full, &mut r, &mut |s, p| grid.push((s.to_string(), p)));
    }
    for (s, p) in grid {
        g.case(&s, &cfg0, |ses, _| { ses.op(Op::Decode(p)); });
    }
    let n = g.n(4000, 150_000);
    for _ in 0..n {
        let cfg = gen_cfg(&mut g.rng);
        g.case("mix", &cfg, |s, r| {
            let p = any_packet(s, r);
            s.op(Op::Decode(p));
        });
    }
    // windows of valid packets: the first 1-3 bytes missing (a controller that strips the address byte) or extra bytes in
    // front, for packets addressed to this context's own address and to others, from the library's encoders and from
    // the independent builder; with and without the PEC made right for the shifted string
    let m = g.n(60, 3000);
    for _ in 0..m {
        let cfg = gen_cfg(&mut g.rng);
        g.case("shifted", &cfg, |s, r| {
            let (a, _, _) = crate::exec::hint();
            let mut p = if r.chance(1, 2) { encoder_packet(s, r).unwrap_or_else(|| gen_packet(r, true)) }
                        else { let cmd = 1 + r.below(8) as u8; let d = r.bytes(fixed_req_len(cmd).unwrap_or(0)); request(r.below(128) as u8, 0, cmd, &d, r) };
            if r.chance(2, 3) && p.len() > 1 { p[0] = (a & 0x7F) << 1; let l = p.len(); let c = crc8(&p[..l - 1]); p[l - 1] = c; }
            s.op(Op::Decode(p.clone()));
            for k in 1..=3usize { if p.len() > k { s.op(Op::Decode(p[k..].to_vec())); } }
            for b in [p[0], 0x0F, (a & 0x7F) << 1, 0x00] { let mut q = vec![b]; q.extend(&p); s.op(Op::Decode(q)); }
            if p.len() > 4 { let mut q = p[1..].to_vec(); let l = q.len(); let c = crc8(&q[..l - 1]); q[l - 1] = c; s.op(Op::Decode(q.clone())); let b = pbuf(r, 64, 0); s.op(Op::Process(q, b)); }
        });
    }
    // mutations of encoder outputs: every truncation point and substitutions with and without PEC fix-up
    let m = g.n(40, 1500);
    for _ in 0..m {
        let cfg = gen_cfg(&mut g.rng);
        g.case("mut", &cfg, |s, r| {
            let p = encoder_packet(s, r).unwrap_or_else(|| gen_packet(r, true));
            for k in 0..=p.len().min(20) { s.op(Op::Decode(p[..k].to_vec())); }
            for _ in 0..6 {
                let mut q = p.clone();
                let i = r.below(q.len() as u64) as usize;
                q[i] = r.cbyte();
                s.op(Op::Decode(q.clone()));
                let l = q.len(); let c = crc8(&q[..l - 1]); q[l - 1] = c;
                s.op(Op::Decode(q));
            }
        });
    }
}

// ------------------------------------------------------------------------------------------------ C10
fn c10(g: &mut Gen) {
    list_size_cases(g);
    // well-formed vendor messages carrying each configured vendor ID, after the context was asked for one of its sets
    {
        let reps = g.n(25, 800);
        for _ in 0..reps {
            let mut cfg = gen_cfg(&mut g.rng);
            let nv = 2 + g.rng.below(5) as usize;
            cfg.vendor_ids = (0..nv).map(|_| ((g.rng.below(2)) as u8, g.rng.c32(), g.rng.c16())).collect();
            let sets = cfg.vendor_ids.clone();
            g.case("config-echo", &cfg, |s, r| { config_echo_valid(s, r, &sets); });
        }
    }
    let full = g.thorough;
    let mut r = g.rng.fork();
    let mut grid: Vec<(String, Vec<u8>)> = Vec::new();
    let reps = g.n(1, 4);
    for _ in 0..reps { control_grid(full, &mut r, &mut |s, p| grid.push((s.to_string(), p))); }
    for (s, p) in grid {
        let cfg = gen_cfg(&mut g.rng);
        g.case(&s, &cfg, |ses, r| {
            ses.op(Op::Decode(p.clone()));
            ses.op(Op::GetLength(p.clone()));
            let b = pbuf(r, 64, 64);
            ses.op(Op::Process(p, b));
        });
    }
    // every operation byte and every selector on accepted Set EID / vendor support requests
    for v in 0..256u32 {
        let cfg = gen_cfg(&mut g.rng);
        g.case("ops", &cfg, |s, r| {
            let src = r.below(128) as u8;
            let p = build_packet(0x10, src, 1, 0x20, src, 0xC8, 0, &ctl_body(true, false, false, 0, 1, None, &[v as u8, 1 + r.below(254) as u8]));
            let b = rbuf(r, 2); s.op(Op::Process(p, b));
            let p = build_packet(0x10, src, 1, 0x20, src, 0xC8, 0, &ctl_body(true, false, false, 0, 6, None, &[v as u8]));
            let b = rbuf(r, 2); s.op(Op::Process(p, b));
        });
    }
    // every length 0..259 of random bytes and of valid-prefix bytes
    for len in 0..=262usize {
        let cfg = gen_cfg(&mut g.rng);
        g.case("len", &cfg, |s, r| {
            let p = r.bytes(len);
            s.op(Op::Decode(p.clone())); s.op(Op::GetLength(p.clone()));
            let b = rbuf(r, 0); s.op(Op::Process(p, b));
            let mut q = gen_packet(r, true); q.resize(len, 0x5A);
            if len >= 2 { let c = crc8(&q[..len - 1]); q[len - 1] = c; }
            s.op(Op::Decode(q.clone())); s.op(Op::GetLength(q.clone()));
            let b = rbuf(r, 1); s.op(Op::Process(q, b));
        });
    }
    // inputs whose length wraps in a 16-bit integer: random bytes, and a valid packet grown to that length
    for base in [65536usize, 131072] {
        let cfg = gen_cfg(&mut g.rng);
        g.case("wide", &cfg, |s, r| {
            for k in 0..6usize {
                let len = base - 2 + k + if k >= 3 { 10 } else { 0 };
                let mut q = gen_packet(r, true); q.resize(len, 0x5A);
                if k % 2 == 0 { q[2] = r.byte(); }
                let c = crc8(&q[..len - 1]); q[len - 1] = c;
                s.op(Op::Decode(q.clone())); s.op(Op::GetLength(q.clone()));
                s.op(Op::Process(q, vec![0u8; 32]));
            }
        });
    }
    // long-lived contexts: more than 2^16 operations of one kind on one context (a statistic, sequence number or
    // retry budget kept per context must not wrap into a panic)
    for kind in 0..4u64 {
        let cfg = gen_cfg(&mut g.rng);
        g.case("soak", &cfg, |s, r| {
            let good = request(r.below(128) as u8, 0, 1, &[0, 1 + r.below(254) as u8], r);
            let mut bad = good.clone(); let l = bad.len(); bad[l - 1] ^= 0x40;
            let junk = r.bytes(5);
            let short = good[..9].to_vec();
            for i in 0..66_000u32 {
                let p = match kind { 0 | 1 => &bad, 2 => [&bad, &junk, &short, &good][(i % 4) as usize], _ => &good };
                if kind == 0 || (kind == 2 && i % 8 < 4) { s.op(Op::Decode(p.clone())); }
                else { s.op(Op::Process(p.clone(), vec![0u8; 24])); }
            }
        });
    }
    // mixed traffic after a prior history
    let n = g.n(2500, 100_000);
    for _ in 0..n {
        let cfg = gen_cfg(&mut g.rng);
        g.case("mix", &cfg, |s, r| {
            for _ in 0..r.below(3) { let p = any_packet(s, r); let b = rbuf(r, 0); s.op(Op::Process(p, b)); }
            let p = any_packet(s, r);
            s.op(Op::Decode(p.clone()));
            s.op(Op::GetLength(p.clone()));
            let b = pbuf(r, 64, 64);
            s.op(Op::Process(p, b));
        });
    }
}

// ------------------------------------------------------------------------------------------------ C17
fn c17(g: &mut Gen) {
    // a buffer holding a valid non-final fragment followed by (the header of) its continuation, as a controller that
    // coalesces block writes hands it over: the probe still answers for the first packet only
    let reps = g.n(20, 600);
    for _ in 0..reps {
        let cfg = gen_cfg(&mut g.rng);
        g.case("fragments", &cfg, |s, r| {
            let (dst, src, de, se) = (r.below(128) as u8, r.below(128) as u8, r.byte(), r.byte());
            let ty = r.pick(&[0x7Eu8, 0x7F, 0x05, 0x06, 0x00]);
            let (to, tag) = (r.below(2) as u8, r.below(8) as u8);
            let seq = r.below(4) as u8;
            let k = 1 + r.below(12) as usize; let body = r.bytes(k);
            let first = build_packet(dst, src, 1, de, se, 0x80 | (seq << 4) | (to << 3) | tag, ty, &body);          // SOM 1, EOM 0
            let k2 = r.below(8) as usize; let body2 = r.bytes(k2);
            let eom = r.below(2) as u8;
            let second = build_packet(dst, src, 1, de, se, (eom << 6) | (((seq + 1) & 3) << 4) | (to << 3) | tag, ty, &body2);   // SOM 0, next sequence number
            s.op(Op::GetLength(first.clone()));
            for cut in [3usize, 8, 9, second.len()] {
                let mut q = first.clone(); q.extend(&second[..cut.min(second.len())]);
                s.op(Op::GetLength(q));
            }
        });
    }
    let cfg = gen_cfg(&mut g.rng);
    // lengths 0..2
    g.case("short", &cfg, |s, r| {
        s.op(Op::GetLength(vec![]));
        for _ in 0..20 { s.op(Op::GetLength(r.bytes(1))); s.op(Op::GetLength(r.bytes(2))); }
        s.op(Op::GetLength(vec![0x20, 0x0F]));
    });
    // all 2^16 (byte 1, byte 2) pairs x several byte 0 values; each also with a random continuation
    let b0s = g.n_exact(2, 16);
    for b1 in 0..256u32 {
        let cfg = gen_cfg(&mut g.rng);
        g.case("sweep", &cfg, |s, r| {
            for b2 in 0..256u32 {
                for _ in 0..b0s {
                    let mut p = vec![r.cbyte(), b1 as u8, b2 as u8];
                    if r.chance(1, 2) { let k = r.below(12) as usize; p.extend(r.bytes(k)); }
                    s.op(Op::GetLength(p));
                }
            }
        });
    }
    // continuations that make the total length wrap in a narrower integer type: around 2^8, 2^16 and 2 * 2^16
    for base in [256usize, 512, 65536, 131072] {
        g.case("wide", &cfg, |s, r| {
            for k in 0..8usize {
                let len = base - 3 + k;
                let mut p = vec![r.byte(), if k % 4 == 3 { r.byte() } else { 0x0F }, r.byte()];
                p.resize(len, 0xA5);
                s.op(Op::GetLength(p));
            }
        });
    }
    // command code 0x0F with every byte count, long continuations
    g.case("cc0f", &cfg, |s, r| {
        for b2 in 0..256u32 {
            let mut p = vec![r.byte(), 0x0F, b2 as u8];
            let k = r.below(260) as usize; p.extend(r.bytes(k));
            s.op(Op::GetLength(p));
        }
    });
}

// ------------------------------------------------------------------------------------------------ C01
fn c01(g: &mut Gen) {
    let per = g.n(35, 2000);
    for key in all_keys() {
        for _ in 0..per {
            let cfg = gen_cfg(&mut g.rng);
            g.case("rt", &cfg, |s, r| {
                let c = gen_call(r, key, false, None);
                maybe_install_eid(s, r, &c);
                let buf = buf_for(r, &c);
                if let Obs::Enc(Some(n), out) = s.op(enc_op(&c, buf)) {
                    if n <= out.len() { s.op(Op::Decode(out[..n].to_vec())); }
                }
            });
        }
    }
    // UUIDs related to the one the receiving context holds (same node other time, same time other node, one byte off,
    // reversed, identical): what is decoded does not depend on what the receiver is
    let n = g.n(40, 2_000);
    for _ in 0..n {
        let cfg = gen_cfg(&mut g.rng);
        g.case("uuid-related", &cfg, |s, r| {
            let u = r.uuid(); s.op(Op::SetUuid(u.clone()));
            for _ in 0..4 {
                let v = r.related_uuid(&u);
                let c = Call { req: false, id: 3, nums: vec![0, r.addr() as u32], lists: vec![v.clone()] };
                let buf = buf_for(r, &c);
                if let Obs::Enc(Some(n), out) = s.op(enc_op(&c, buf)) { s.op(Op::Decode(out[..n].to_vec())); }
                let c = Call { req: true, id: 16, nums: vec![r.addr() as u32, r.cbyte() as u32], lists: vec![v] };
                let buf = buf_for(r, &c);
                if let Obs::Enc(Some(n), out) = s.op(enc_op(&c, buf)) { s.op(Op::Decode(out[..n].to_vec())); }
            }
        });
    }
    // all six completion codes on every response encoder
    for id in RESP_IDS {
        for cc in 0..6u32 {
            let cfg = gen_cfg(&mut g.rng);
            g.case("cc", &cfg, |s, r| {
                let mut c = gen_call(r, (false, id), false, None);
                c.nums[0] = cc;
                let buf = buf_for(r, &c);
                if let Obs::Enc(Some(n), out) = s.op(enc_op(&c, buf)) { s.op(Op::Decode(out[..n].to_vec())); }
            });
        }
    }
    // every length of the list-like arguments: message types 0..30, vendor field 0..7, routing entries 0..7
    for n in 0..=30usize {
        let cfg = gen_cfg(&mut g.rng);
        g.case("lists", &cfg, |s, r| {
            let mut calls = vec![Call { req: false, id: 5, nums: vec![0, r.addr() as u32], lists: vec![r.cbytes(n)] }];
            if n <= 7 {
                calls.push(Call { req: false, id: 6, nums: vec![0, r.addr() as u32, r.cbyte() as u32], lists: vec![r.cbytes(n)] });
                calls.push(Call { req: true, id: 9, nums: vec![r.addr() as u32], lists: (0..n).map(|_| r.bytes(4)).collect() });
            }
            for c in calls {
                let buf = buf_for(r, &c);
                if let Obs::Enc(Some(n), out) = s.op(enc_op(&c, buf)) { s.op(Op::Decode(out[..n].to_vec())); }
            }
        });
    }
    // message bodies up to the SMBus limit
    let reps = g.n(1, 4);
    for total in (12..=259usize).filter(|t| reps > 1 || t % 3 == 0 || *t > 250) {
        for key in [(true, 20u32), (false, 31), (true, 32), (false, 33)] {
            if key.1 == 20 && total < 14 { continue; }
            let cfg = gen_cfg(&mut g.rng);
            g.case("len", &cfg, |s, r| {
                let c = gen_call(r, key, false, Some(total));
                let buf = buf_for(r, &c);
                if let Obs::Enc(Some(n), out) = s.op(enc_op(&c, buf)) { s.op(Op::Decode(out[..n].to_vec())); }
            });
        }
    }
    // ... and just beyond it: today these are refused (nothing to decode); an encoder that starts emitting them must
    // still produce something its own decoder takes (round 9, F1: a 260-byte frame encoded, then rejected)
    for total in [260usize, 261, 262, 263, 264, 270, 300, 515, 516] {
        for key in [(true, 20u32), (false, 31), (true, 32), (false, 33)] {
            let cfg = gen_cfg(&mut g.rng);
            g.case("over", &cfg, |s, r| {
                let c = gen_call(r, key, false, Some(total));
                let buf = vec![r.cbyte(); total + 4];
                if let Obs::Enc(Some(n), out) = s.op(enc_op(&c, buf)) { if n <= out.len() { s.op(Op::Decode(out[..n].to_vec())); } }
            });
        }
    }
}

/// every answerable request on contexts whose configured lists are empty or so long that their count wraps in a u8
fn list_size_cases(g: &mut Gen) {
    for nv in [0usize, 1, 255, 256, 257, 512] {
        for nmt in [0usize, 30, 255, 256, 257] {
            if nv == 1 && nmt == 30 { continue; }
            let mut cfg = gen_cfg(&mut g.rng);
            cfg.vendor_ids = (0..nv).map(|i| ((i % 2) as u8, 0x0102_0304u32.wrapping_mul(i as u32 + 3), 0x0A0B + i as u16)).collect();
            cfg.msg_types = (0..nmt).map(|i| (i * 7) as u8).collect();
            g.case("listsize", &cfg, |s, r| {
                for cmd in 1..=6u8 {
                    let p = answerable_request(s_nvend(s).max(1), cmd, r.below(128) as u8, 0, r);
                    s.op(Op::Decode(p.clone()));
                    let b = vec![0u8; 600]; s.op(Op::Process(p, b));
                }
                for sel in [0u8, 3, 255, (nv.wrapping_sub(1) & 0xFF) as u8] {
                    let p = request(5, 0, 6, &[sel], r); s.op(Op::Process(p, vec![0u8; 64]));
                }
            });
        }
    }
}

// ------------------------------------------------------------------------------------------------ C11
fn c11(g: &mut Gen) {
    list_size_cases(g);
    // well-formed vendor messages carrying each configured vendor ID, after the context was asked for one of its sets
    {
        let reps = g.n(25, 800);
        for _ in 0..reps {
            let mut cfg = gen_cfg(&mut g.rng);
            let nv = 2 + g.rng.below(5) as usize;
            cfg.vendor_ids = (0..nv).map(|_| ((g.rng.below(2)) as u8, g.rng.c32(), g.rng.c16())).collect();
            let sets = cfg.vendor_ids.clone();
            g.case("config-echo", &cfg, |s, r| { config_echo_valid(s, r, &sets); });
        }
    }
    let full = g.thorough;
    let mut r = g.rng.fork();
    let mut grid: Vec<(String, Vec<u8>)> = Vec::new();
    control_grid(full, &mut r, &mut |s, p| grid.push((s.to_string(), p)));
    for (st, p) in grid {
        let cfg = gen_cfg(&mut g.rng);
        g.case(&st, &cfg, |s, r| {
            s.op(Op::Decode(p.clone()));
            let b = pbuf(r, 64, 64);
            s.op(Op::Process(p, b));
        });
    }
    let n = g.n(4000, 150_000);
    for _ in 0..n {
        let cfg = gen_cfg(&mut g.rng);
        g.case("mix", &cfg, |s, r| {
            let p = any_packet(s, r);
            s.op(Op::Decode(p.clone()));
            let b = pbuf(r, 64, 64);
            s.op(Op::Process(p, b));
        });
    }
    // one response buffer reused for a whole exchange: every answer is written over the previous one (which is
    // often longer), so what lies beyond the reported length is an earlier packet's tail and must stay
    let n = g.n(200, 8000);
    for _ in 0..n {
        let cfg = gen_cfg(&mut g.rng);
        g.case("reuse", &cfg, |s, r| {
            let mut b = pbuf(r, 64, 64);
            for _ in 0..(2 + r.below(5)) {
                let p = if r.chance(5, 6) { let cmd = r.pick(&[3u8, 5, 6, 2, 1, 4, 3]); answerable_request(s.nvend, cmd, r.below(128) as u8, r.below(32) as u8, r) } else { any_packet(s, r) };
                match s.op(Op::Process(p, b.clone())) {
                    Obs::ProcOk(_, _, _, _, out) | Obs::ProcErr(_, _, out) | Obs::Panic(out) => { if out.len() == b.len() { b = out; } }
                    _ => {}
                }
            }
        });
    }
    // valid packets inside a longer receive buffer (stray bytes after the PEC), and truncated ones
    let n = g.n(300, 12_000);
    for _ in 0..n {
        let cfg = gen_cfg(&mut g.rng);
        g.case("trailing", &cfg, |s, r| {
            let p = match r.below(3) {
                0 => { let cmd = 1 + r.below(6) as u8; answerable_request(s.nvend, cmd, r.below(128) as u8, r.below(32) as u8, r) }
                1 => encoder_packet(s, r).unwrap_or_else(|| gen_packet(r, true)),
                _ => gen_packet(r, true),
            };
            let mut q = p.clone();
            if r.chance(3, 4) { let k = 1 + r.below(9) as usize; let t = if r.chance(1, 3) { vec![0u8; k] } else { r.bytes(k) }; q.extend(t); }
            else { let k = r.below(q.len() as u64) as usize; q.truncate(k); }
            s.op(Op::Decode(q.clone()));
            let b = pbuf(r, 64, 64);
            s.op(Op::Process(q, b));
        });
    }
}

// ------------------------------------------------------------------------------------------------ requests
/// a well-formed control request from requester `src` (address = EID), built without the library
fn request(src: u8, inst: u8, cmd: u8, data: &[u8], r: &mut Rng) -> Vec<u8> {
    // legal header bits the library's own encoders never produce: datagram bit, reserved bit, any flags byte,
    // SMBus destination R/W bit set, SMBus source low bit clear, a byte count that does not match
    let d = r.chance(1, 6);
    let rs = r.chance(1, 8);
    let flags = if r.chance(2, 3) { 0xC8 } else { r.byte() };
    // addressed to the context under test half of the time: by its physical address, and by its own address /
    // either EID it currently holds / the requester's ID / anything as destination EID
    let (a, er, es) = crate::exec::hint();
    let dst = if r.chance(1, 2) { a & 0x7F } else { r.below(128) as u8 };
    let de = match r.below(7) { 0 => a, 1 => er, 2 => es, 3 => src, 4 => r.pick(&[0xFFu8, 0x00, 0xFF, 0xFE, 0x01]), _ => r.byte() };   // broadcast / null EID too
    let mut p = build_packet(dst, src, 1, de, src, flags, 0, &ctl_body(true, d, rs, inst, cmd, None, data));
    let mut touched = false;
    if r.chance(1, 8) { p[3] &= 0xFE; touched = true; }
    if r.chance(1, 10) { p[0] |= 1; touched = true; }
    if r.chance(1, 10) { p[2] = r.byte(); touched = true; }
    if touched { let l = p.len(); let c = crc8(&p[..l - 1]); p[l - 1] = c; }
    p
}

fn answerable_request(nvend: usize, cmd: u8, src: u8, inst: u8, r: &mut Rng) -> Vec<u8> {
    let data: Vec<u8> = match cmd {
        1 => vec![r.pick(&[0u8, 1, 0, 1, 3]), 1 + r.below(254) as u8],
        4 => vec![r.pick(&[0xFFu8, 0, 1, 2, 3, 0x55])],
        6 => vec![r.below(nvend as u64) as u8],
        _ => if r.chance(1, 6) { { let k_ = 1 + r.below(4) as usize; r.bytes(k_) } }
             else if r.chance(1, 12) { let k_ = r.pick(&[243usize, 244, 247, 248, 255, 256, 257, 258, 300, 511, 512]); r.bytes(k_) }   // up to and beyond the frame limit
             else { vec![] },
    };
    request(src, inst, cmd, &data, r)
}

// ------------------------------------------------------------------------------------------------ C12
fn c12(g: &mut Gen) {
    list_size_cases(g);
    // requester 0..127 x instance 0..31 x six commands
    for src in 0..128u32 {
        let cfg = gen_cfg(&mut g.rng);
        let reps = g.n(1, 8);
        g.case("grid", &cfg, |s, r| {
            for _ in 0..reps {
                for cmd in 1..=6u8 {
                    let inst = if r.chance(1, 2) { 0 } else { r.below(32) as u8 };
                    let p = answerable_request(s_nvend(s), cmd, src as u8, inst, r);
                    let b = pbuf(r, 64, 39);
                    s.op(Op::Process(p, b));
                }
            }
        });
    }
    // requests exactly as long as their answers, addressed to the EID the responder holds, with one free data byte
    // swept over all 256 values (so the request's PEC takes every value, the answer's included)
    for cmd in [2u8, 3, 5] {
        let mut cfg = gen_cfg(&mut g.rng);
        cfg.msg_types.truncate(30);
        let nmt = cfg.msg_types.len();
        g.case("samelen", &cfg, |s, r| {
            let e = 1 + r.below(254) as u8;
            let src = r.below(128) as u8;
            let p = request(src, 0, 1, &[0, e], r); s.op(Op::Process(p, vec![0u8; 32]));
            let (a, _, _) = crate::exec::hint();
            let dl = match cmd { 2 => 4, 3 => 17, _ => 2 + nmt };
            for v in 0..256u32 {
                let mut d = vec![0u8; dl]; d[dl - 1] = v as u8;
                let p = build_packet(a & 0x7F, src, 1, e, src, 0xC8, 0, &ctl_body(true, false, false, 0, cmd, None, &d));
                s.op(Op::Process(p, vec![0u8; 64]));
            }
        });
    }
    for inst in 0..32u32 {
        let cfg = gen_cfg(&mut g.rng);
        g.case("inst", &cfg, |s, r| {
            for cmd in 1..=6u8 {
                let p = answerable_request(s_nvend(s), cmd, r.below(128) as u8, inst as u8, r);
                let b = pbuf(r, 64, 0);
                s.op(Op::Process(p, b));
            }
        });
    }
    // Set Endpoint ID whose parameter is related to the parties: the requester's own ID, the responder's address, an EID
    // the responder already holds — on a responder whose EID is its own address, some other value, or still 0
    let n = g.n(60, 2_000);
    for _ in 0..n {
        let cfg = gen_cfg(&mut g.rng);
        g.case("related-eid", &cfg, |s, r| {
            let (a, _, _) = crate::exec::hint();
            match r.below(4) {
                0 => {}
                1 => { let q = request(r.below(128) as u8, 0, 1, &[r.below(2) as u8, a], r); let b = pbuf(r, 64, 0); s.op(Op::Process(q, b)); }
                2 => { s.op(Op::SetEid(true, a)); s.op(Op::SetEid(false, a)); }
                _ => { let q = request(r.below(128) as u8, 0, 1, &[r.below(2) as u8, 1 + r.below(254) as u8], r); let b = pbuf(r, 64, 0); s.op(Op::Process(q, b)); }
            }
            for _ in 0..4 {
                let src = 1 + r.below(127) as u8;
                let (_, er, es) = crate::exec::hint();
                let x = 1 + r.below(254) as u8; let e = r.pick(&[src, src, a, er, es, src.wrapping_add(1), x]);
                if e == 0 || e == 0xFF { continue; }
                let q = request(src, if r.chance(1, 2) { 0 } else { r.below(32) as u8 }, 1, &[r.below(2) as u8, e], r);
                let b = pbuf(r, 64, 0); s.op(Op::Process(q, b));
            }
        });
    }
    // whole conversations: the library's own request encoders on one side, this context on the other
    let n = g.n(60, 2_000);
    for _ in 0..n {
        let cfg = gen_cfg(&mut g.rng);
        g.case("conversation", &cfg, |s, r| {
            if r.chance(1, 2) { history(s, r.below(6) as usize, r); }
            for id in 1..=8u32 { if id <= 6 || r.chance(1, 8) { conversation(s, r, id); } }
        });
    }
    // after random histories
    let n = g.n(300, 12_000);
    for _ in 0..n {
        let cfg = gen_cfg(&mut g.rng);
        g.case("hist", &cfg, |s, r| {
            history(s, r.below(10) as usize, r);
            let cmd = 1 + r.below(6) as u8;
            let inst = if r.chance(2, 3) { 0 } else { r.below(32) as u8 };
            let p = answerable_request(s_nvend(s), cmd, r.below(128) as u8, inst, r);
            let b = pbuf(r, 64, 39);
            s.op(Op::Process(p, b));
        });
    }
}

fn s_nvend(s: &Session) -> usize { s.nvend }

/// a whole conversation through the library (coq/proofs/Conversation.v): a requester context (the scratch context)
/// encodes request `id` with the library's own encoder, the context under test processes those bytes, and what it
/// wrote is handed to the decoder again, as the requester would
fn conversation(s: &mut Session, r: &mut Rng, id: u32) {
    let mut c = gen_call(r, (true, id), false, None);
    if id == 6 && s.nvend > 0 && r.chance(3, 4) && c.nums.len() > 1 { c.nums[1] = r.below(s.nvend as u64) as u32; }
    if id == 1 && r.chance(3, 4) && c.nums.len() > 1 { c.nums[1] = r.below(2) as u32; }
    let buf = vec![0u8; expected_len(&c).unwrap_or(12) + 2];
    if let Obs::Enc(Some(n), out) = encode_obs(s.alt, true, id, &c.nums, &c.lists, &buf) {
        let b = pbuf(r, 64, 39);
        if let Obs::ProcOk(_, _, _, Some(m), rb) = s.op(Op::Process(out[..n].to_vec(), b)) {
            if m <= rb.len() { s.op(Op::Decode(rb[..m].to_vec())); }
        }
    }
}

/// after the context was asked for vendor set k: well-formed vendor-defined messages (valid PEC) whose vendor ID is that of
/// each configured set in turn (those before and after k), in the matching and in the other format, decoded and processed
fn config_echo_valid(s: &mut Session, r: &mut Rng, sets: &[(u8, u32, u16)]) {
    if sets.is_empty() { return; }
    let k = r.below(sets.len() as u64) as usize;
    let q = request(r.below(128) as u8, 0, 6, &[k as u8], r); let b = pbuf(r, 64, 0); s.op(Op::Process(q, b));
    for (fmt, data, num) in sets.iter() {
        let d = data.to_be_bytes(); let nmb = num.to_be_bytes();
        for ty in [0x7Eu8, 0x7F] {
            let mut body: Vec<u8> = if ty == 0x7E { d[2..].to_vec() } else { d.to_vec() };
            if r.chance(1, 2) { body.extend(&nmb); }
            let kx = r.below(5) as usize; body.extend(r.bytes(kx));
            let _ = fmt;
            let src = r.below(128) as u8;
            let p = build_packet(r.below(128) as u8, src, 1, r.byte(), src, r.pick(&[0xC8u8, 0xC0, 0xC8]), ty, &body);
            s.op(Op::Decode(p.clone()));
            let b = pbuf(r, 64, 0); s.op(Op::Process(p, b));
        }
    }
}

/// a random sequence of operations of every kind
/// A control response as a peer would send it to this context in its requester role: data related to what the
/// context holds (its own EIDs, the number of its vendor sets and the neighbours of that number as next selector)
fn peer_response(s: &mut Session, r: &mut Rng, cmd: Option<u8>) {
    let cmd = cmd.unwrap_or(1 + r.below(6) as u8);
    let (a, er, es) = crate::exec::hint();
    let n = s.nvend as u8;
    let d: Vec<u8> = match cmd {
        1 => vec![r.below(4) as u8, r.pick(&[er, es, 0, 0xFF, 0x42]), r.byte()],
        2 => vec![r.pick(&[er, es, a, 0x42]), r.byte(), r.byte(), 0],
        6 => {
            let sel = r.pick(&[n, n, n.wrapping_sub(1), n.wrapping_add(1), 0xFF, 0, 1]);
            let mut d = vec![sel];
            if r.chance(1, 2) { d.extend([0u8, 0x12, 0x34, 0xAB, 0xCD]); } else { d.extend([1u8, 0, 1, 0x9C, 0x42, 1, 2]); }
            d
        }
        3 => { let u = crate::exec::last_uuid(); if r.chance(3, 4) { r.related_uuid(&u) } else { r.uuid() } }
        _ => { let dl = fixed_resp_len(cmd).unwrap_or(2); r.bytes(dl) }
    };
    let cc = if r.chance(3, 4) { 0 } else { r.below(6) as u8 };
    let src = r.below(128) as u8;
    let dst = if r.chance(1, 2) { a & 0x7F } else { 0x11 };
    let p = build_packet(dst, src, 1, r.pick(&[a, es, 0x22]), src, 0xC8, 0, &ctl_body(false, false, false, r.below(32) as u8, cmd, Some(cc), &d));
    let b = pbuf(r, 64, 0); s.op(Op::Process(p, b));
}

/// process `p`; when it was answered, process it again into a buffer that already holds almost that answer (the
/// previous response with its tail, its PEC or one byte altered): the answer must be rebuilt from the context
fn process_near(s: &mut Session, r: &mut Rng, p: Vec<u8>) {
    let b = pbuf(r, 64, 0);
    if let Obs::ProcOk(_, _, _, Some(len), out) = s.op(Op::Process(p.clone(), b)) {
        if len >= 12 && len <= out.len() {
            let mut b2 = out.clone();
            match r.below(3) {
                0 => { b2[len - 1] = b2[len - 1].wrapping_add(1 + r.below(255) as u8); }
                1 => { let i = 12 + r.below((len - 12) as u64) as usize; for x in b2[i..len].iter_mut() { *x = x.wrapping_add(1 + r.below(255) as u8); } }
                _ => { let i = r.below(len as u64) as usize; b2[i] ^= 1 << r.below(8); }
            }
            s.op(Op::Process(p, b2));
        }
    }
}

fn history(s: &mut Session, len: usize, r: &mut Rng) {
    for _ in 0..len {
        match r.below(20) {
            0..=3 => { // valid Set EID (Set / Force / Discovered / illegal op rarely)
                let op = if r.chance(1, 12) { r.pick(&[2u8, 4, 0x80]) } else { r.pick(&[0u8, 1, 0, 1, 3]) };
                let p = request(r.below(128) as u8, r.below(32) as u8, 1, &[op, 1 + r.below(254) as u8], r);
                let b = pbuf(r, 64, 0); s.op(Op::Process(p, b));
            }
            4..=7 => { // the other answerable requests
                let cmd = 2 + r.below(5) as u8;
                let p = answerable_request(s.nvend, cmd, r.below(128) as u8, r.below(32) as u8, r);
                if r.chance(1, 4) { process_near(s, r, p); } else { let b = pbuf(r, 64, 0); s.op(Op::Process(p, b)); }
            }
            8 => { // selectors at / above n
                let sel = if r.chance(1, 2) { s.nvend as u8 } else { r.pick(&[0xFFu8, 0xFE, 0x80, 17]) };
                let p = request(r.below(128) as u8, 0, 6, &[sel], r);
                let b = rbuf(r, 1); s.op(Op::Process(p, b));
            }
            9..=10 => { // corrupted copies of valid Set EID requests
                let p = request(r.below(128) as u8, 0, 1, &[r.below(2) as u8, 1 + r.below(254) as u8], r);
                let q = corrupt(r, &p);
                let b = pbuf(r, 64, 0); s.op(Op::Process(q, b));
            }
            11..=12 => { let p = any_packet(s, r); let b = pbuf(r, 64, 0); s.op(Op::Process(p, b)); }
            13 => { let p = any_packet(s, r); s.op(Op::Decode(p)); }
            14 => { let p = any_packet(s, r); s.op(Op::GetLength(p)); }
            15 => { s.op(Op::SetEid(r.chance(1, 2), r.cbyte())); }
            16 => {
                let prev = crate::exec::last_uuid();
                let u = if prev.len() == 16 && r.chance(1, 3) { r.related_uuid(&prev) } else { r.uuid() };
                s.op(Op::SetUuid(u));
            }
            17 => { peer_response(s, r, None); } // responses (never answered; the context in its requester role)
            _ => { // encoder calls on either half
                let keys = all_keys();
                let key = keys[r.below(keys.len() as u64) as usize];
                let c = gen_call(r, key, false, None);
                let b = buf_for(r, &c);
                s.op(enc_op(&c, b));
            }
        }
    }
}

// ------------------------------------------------------------------------------------------------ C13
fn c13(g: &mut Gen) {
    let n = g.n(500, 20_000);
    for _ in 0..n {
        let cfg = gen_cfg(&mut g.rng);
        g.case("hist", &cfg, |s, r| {
            let len = 1 + r.below(40) as usize;
            history(s, len, r);
            // finish by asking for the EID
            let p = request(r.below(128) as u8, 0, 2, &[], r);
            let b = rbuf(r, 1); s.op(Op::Process(p, b));
        });
    }
    // re-assignment of a value one half already holds, after the halves were made to differ through an accessor
    for first_op in 0..2u8 {
        for second_op in 0..2u8 {
            for half in [true, false] {
                for same in [true, false] {
                    let cfg = gen_cfg(&mut g.rng);
                    g.case("reassign", &cfg, |s, r| {
                        let x = 1 + r.below(254) as u8;
                        let y = loop { let y = 1 + r.below(254) as u8; if y != x { break y; } };
                        let p = request(r.below(128) as u8, 0, 1, &[first_op, x], r);
                        let b = pbuf(r, 64, 0); s.op(Op::Process(p, b));
                        s.op(Op::SetEid(half, y));
                        // assign again: the value the untouched half still holds, or the accessor's value
                        let v = if same { x } else { y };
                        let p = request(r.below(128) as u8, r.below(32) as u8, 1, &[second_op, v], r);
                        let b = pbuf(r, 64, 0); s.op(Op::Process(p, b));
                        let q = request(9, 0, 2, &[], r); let b = pbuf(r, 64, 0); s.op(Op::Process(q, b));
                    });
                }
            }
        }
    }
    // the same, with the accessor's value swept over all 256 bytes (and, through a free requester address, the
    // request's PEC taking many values): no relation between what a half holds and any byte of the request matters
    for op in 0..2u8 {
        for half in [true, false] {
            let cfg = gen_cfg(&mut g.rng);
            g.case("reassign-sweep", &cfg, |s, r| {
                let x = 1 + r.below(254) as u8;
                for w in 0..256u32 {
                    s.op(Op::SetEid(!half, x));
                    s.op(Op::SetEid(half, w as u8));
                    let p = request(r.below(128) as u8, 0, 1, &[op, x], r);
                    s.op(Op::Process(p, vec![0u8; 24]));
                }
                let q = request(9, 0, 2, &[], r); let b = pbuf(r, 64, 0); s.op(Op::Process(q, b));
            });
        }
    }
    // whole sessions with the library on both sides (coq/proofs/Session.v): a bus owner's request encoders feed this
    // context, accessor calls and rejected copies in between; the EID must be that of the last delivered Set / Force
    let n = g.n(40, 2_000);
    for _ in 0..n {
        let cfg = gen_cfg(&mut g.rng);
        g.case("session", &cfg, |s, r| {
            let k = 2 + r.below(10);
            for _ in 0..k {
                match r.below(8) {
                    0 => { let (h, e) = (r.chance(1, 2), r.cbyte()); s.op(Op::SetEid(h, e)); }
                    1 => { if let Some(p) = encoder_packet(s, r) { let q = corrupt(r, &p); let b = pbuf(r, 64, 0); s.op(Op::Process(q, b)); } }
                    2..=4 => conversation(s, r, 1),
                    _ => { let id = 2 + r.below(5) as u32; conversation(s, r, id); }
                }
            }
            conversation(s, r, 2);
        });
    }
    // every EID 0x01..0xFE through both assigning operations
    let cfg = gen_cfg(&mut g.rng);
    g.case("eids", &cfg, |s, r| {
        for e in 1..=254u32 {
            let p = request(r.below(128) as u8, 0, 1, &[(e % 2) as u8, e as u8], r);
            let b = rbuf(r, 2); s.op(Op::Process(p, b));
            if e % 5 == 0 { let q = request(9, 0, 2, &[], r); let b = rbuf(r, 2); s.op(Op::Process(q, b)); }
        }
    });
}

// ------------------------------------------------------------------------------------------------ C14
fn c14(g: &mut Gen) {
    let reps = g.n(6, 200);
    for n in 1..=16usize {
        for _ in 0..reps {
            let mut cfg = gen_cfg(&mut g.rng);
            cfg.vendor_ids = (0..n).map(|_| ((g.rng.below(2)) as u8, g.rng.c32(), g.rng.c16())).collect();
            g.case("walk", &cfg, |s, r| {
                // the walk a requester performs: start at 0, follow the returned selector until 0xFF
                let mut sel = 0u8;
                for _ in 0..20 {
                    let p = request(r.below(128) as u8, 0, 6, &[sel], r);
                    let b = pbuf(r, 64, 0);
                    match s.op(Op::Process(p, b)) {
                        Obs::ProcOk(_, _, _, Some(len), out) if len >= 13 => { sel = out[12]; if sel == 0xFF { break; } }
                        _ => break,
                    }
                }
                // then selectors in random order, interleaved with other traffic
                for _ in 0..(2 * n) {
                    if r.chance(1, 4) { history(s, 1, r); }
                    // the context enumerating a peer's sets meanwhile: the peer's answers arrive in between
                    if r.chance(1, 3) { peer_response(s, r, Some(6)); }
                    let sel = if r.chance(1, 3) { (n - 1) as u8 } else { r.below(n as u64) as u8 };
                    let p = request(r.below(128) as u8, r.below(32) as u8, 6, &[sel], r);
                    if r.chance(1, 4) { process_near(s, r, p); } else { let b = pbuf(r, 64, 0); s.op(Op::Process(p, b)); }
                }
            });
        }
    }
    // the walk with the library on both sides: requests from the library's encoder, answers through its decoder
    for n in 1..=8usize {
        let mut cfg = gen_cfg(&mut g.rng);
        cfg.vendor_ids = (0..n).map(|_| ((g.rng.below(2)) as u8, g.rng.c32(), g.rng.c16())).collect();
        g.case("conversation", &cfg, |s, r| {
            let mut sel = 0u8;
            for _ in 0..12 {
                let dest = r.byte();
                let buf = vec![0u8; 16];
                let req = match encode_obs(s.alt, true, 6, &[dest as u32, sel as u32], &[], &buf) { Obs::Enc(Some(k), out) => out[..k].to_vec(), _ => break };
                let b = pbuf(r, 64, 0);
                match s.op(Op::Process(req, b)) {
                    Obs::ProcOk(_, _, _, Some(len), out) if len >= 13 && len <= out.len() => {
                        s.op(Op::Decode(out[..len].to_vec()));
                        sel = out[12]; if sel == 0xFF { break; }
                    }
                    _ => break,
                }
            }
        });
    }
    // no vendor set at all, and counts that wrap in a u8
    for n in [0usize, 255, 256, 257, 512] {
        let mut cfg = gen_cfg(&mut g.rng);
        cfg.vendor_ids = (0..n).map(|i| ((i % 2) as u8, 0x0102_0304u32.wrapping_mul(i as u32 + 3), 0x0A0B + i as u16)).collect();
        g.case("count", &cfg, |s, r| {
            for sel in [0u8, 1, 3, 254, 255, (n.wrapping_sub(1) & 0xFF) as u8, (n & 0xFF) as u8] {
                let p = request(5, 0, 6, &[sel], r); let b = rbuf(r, 1); s.op(Op::Decode(p.clone())); s.op(Op::Process(p, b));
            }
        });
    }
    // sets that share a vendor (same format and ID, different numeric values) in runs, and every sequence of three
    // selectors WITH repetition (a requester that retries): the answer to selector i is the same every time
    for n in 3..=5usize {
        for pat in 0..3u32 {
            let mut cfg = gen_cfg(&mut g.rng);
            let (fa, ia) = (g.rng.below(2) as u8, g.rng.c32()); let (fb, ib) = (g.rng.below(2) as u8, g.rng.c32() ^ 0x0101);
            cfg.vendor_ids = (0..n).map(|i| {
                let same = match pat { 0 => true, 1 => i < 3, _ => i >= 1 };
                if same { (fa, ia, 1 + i as u16) } else { (fb, ib, 0x0A0B + i as u16) }
            }).collect();
            g.case("retry", &cfg, |s, r| {
                for a in 0..n { for b in 0..n { for c in 0..n {
                    if a != b && b != c { continue; }                  // only sequences with a repeat (the others are in `perm`)
                    for sel in [a, b, c] { let p = request(5, 0, 6, &[sel as u8], r); let b = rbuf(r, 1); s.op(Op::Process(p, b)); }
                } } }
            });
        }
    }
    // every order of selectors for n <= 4
    for n in 1..=4usize {
        let mut perm: Vec<u8> = (0..n as u8).collect();
        let mut perms: Vec<Vec<u8>> = Vec::new();
        permute(&mut perm, 0, &mut perms);
        for pm in perms {
            let mut cfg = gen_cfg(&mut g.rng);
            cfg.vendor_ids = (0..n).map(|i| ((i % 2) as u8, 0x01020304u32.wrapping_mul(i as u32 + 3), 0x0A0B + i as u16)).collect();
            g.case("perm", &cfg, |s, r| {
                for sel in pm { let p = request(5, 0, 6, &[sel], r); let b = rbuf(r, 1); s.op(Op::Process(p, b)); }
            });
        }
    }
}
fn permute(a: &mut Vec<u8>, k: usize, out: &mut Vec<Vec<u8>>) {
    if k == a.len() { out.push(a.clone()); return; }
    for i in k..a.len() { a.swap(k, i); permute(a, k + 1, out); a.swap(k, i); }
}

// ------------------------------------------------------------------------------------------------ C15
fn c15(g: &mut Gen) {
    list_size_cases(g);
    // UUIDs one byte apart, at every position, installed one after the other (and from the initial all-zero state)
    for from_zero in [true, false] {
        let cfg = gen_cfg(&mut g.rng);
        g.case("uuid-step", &cfg, |s, r| {
            let mut u = if from_zero { vec![0u8; 16] } else { r.uuid() };
            if !from_zero { s.op(Op::SetUuid(u.clone())); }
            for i in (0..16).rev().chain(0..16) {
                u[i] = u[i].wrapping_add(1 + r.below(255) as u8);
                s.op(Op::SetUuid(u.clone()));
                let p = answerable_request(s.nvend, 3, r.below(128) as u8, 0, r);
                let b = pbuf(r, 64, 0); s.op(Op::Process(p, b));
            }
        });
    }
    let reps = g.n(4, 150);
    for n in 0..=30usize {
        for _ in 0..reps {
            let mut cfg = gen_cfg(&mut g.rng);
            cfg.msg_types = g.rng.bytes(n);
            g.case("ident", &cfg, |s, r| {
                for _ in 0..(1 + r.below(4)) {
                    if r.chance(1, 2) { history(s, r.below(6) as usize, r); }
                    if r.chance(2, 3) {
                        // a new UUID, or one that differs from the installed one in a few bytes only (first, middle or last)
                        let prev = crate::exec::last_uuid();
                        let u = if prev.len() == 16 && r.chance(1, 2) { r.related_uuid(&prev) } else { r.uuid() };
                        s.op(Op::SetUuid(u));
                    }
                    for cmd in [5u8, 3, 4] {
                        let p = answerable_request(s.nvend, cmd, r.below(128) as u8, r.below(32) as u8, r);
                        let b = pbuf(r, 64, 29); s.op(Op::Process(p, b));
                    }
                }
            });
        }
    }
}

// ------------------------------------------------------------------------------------------------ C02
fn c02(g: &mut Gen) {
    // a wrong PEC in each of the five decoder arms, separately
    let reps = g.n(40, 1500);
    for ty in [0x00u8, 0x05, 0x06, 0x7E, 0x7F] {
        for _ in 0..reps {
            let cfg = gen_cfg(&mut g.rng);
            g.case("arm", &cfg, |s, r| {
                s.twin_on = true; s.alt_on = false;
                let src = r.below(128) as u8;
                let body = if ty == 0 {
                    match r.below(3) {
                        0 => ctl_body(true, false, false, 0, 1, None, &[r.below(2) as u8, 1 + r.below(254) as u8]),
                        1 => { let cmd = r.below(9) as u8; let dl = fixed_req_len(cmd).unwrap_or(0); let d = r.bytes(dl); ctl_body(true, false, false, r.below(32) as u8, cmd, None, &d) }
                        _ => { let cmd = r.pick(&[1u8, 3, 4, 5, 6]); let dl = fixed_resp_len(cmd).unwrap_or(3); let d = r.bytes(dl); ctl_body(false, false, false, 0, cmd, Some(0), &d) }
                    }
                } else { let k = 1 + r.below(12) as usize; r.bytes(k) };
                let good = build_packet(r.below(128) as u8, src, 1, r.byte(), src, 0xC8, ty, &body);
                let mut bad = good.clone();
                let l = bad.len();
                if r.chance(1, 2) { bad[l - 1] ^= 1 << r.below(8); } else { bad[l - 1] = bad[l - 1].wrapping_add(1 + r.below(255) as u8); }
                s.op(Op::Decode(bad.clone()));
                let b = pbuf(r, 64, 0); s.op(Op::Process(bad, b));
                // the same endpoint afterwards: the good packet, then its state
                let b = pbuf(r, 64, 0); s.op(Op::Process(good, b));
                let q = request(7, 0, 2, &[], r); let b = rbuf(r, 0); s.op(Op::Process(q, b));
            });
        }
    }
    // messages that echo the receiver's own configuration: after the context was asked for vendor set i, vendor-defined /
    // SPDM messages whose payload begins with one of its configured sets written in each documented way (ID and numeric
    // value big-endian, the response encoding, the ID alone), its message-type list or its UUID, under every flags
    // nibble, with a wrong PEC: none of it makes a wrong PEC acceptable
    let reps = g.n(30, 1200);
    for _ in 0..reps {
        let mut cfg = gen_cfg(&mut g.rng);
        let nv = 1 + g.rng.below(4) as usize;
        cfg.vendor_ids = (0..nv).map(|_| ((g.rng.below(2)) as u8, g.rng.c32(), g.rng.c16())).collect();
        let sets = cfg.vendor_ids.clone(); let mts = cfg.msg_types.clone();
        g.case("config-echo", &cfg, |s, r| {
            s.twin_on = true; s.alt_on = false;
            let i = r.below(nv as u64) as usize;
            if r.chance(3, 4) { let q = request(r.below(128) as u8, 0, 6, &[i as u8], r); let b = pbuf(r, 64, 0); s.op(Op::Process(q, b)); }
            let u = r.uuid(); if r.chance(1, 2) { s.op(Op::SetUuid(u.clone())); }
            for (j, (fmt, data, num)) in sets.iter().enumerate() {
                if j != i && r.chance(1, 2) { continue; }
                let d = data.to_be_bytes(); let nmb = num.to_be_bytes();
                let heads: Vec<Vec<u8>> = vec![
                    [&d[..], &nmb[..]].concat(), [&d[2..], &nmb[..]].concat(), d.to_vec(), d[2..].to_vec(),
                    [&[*fmt][..], &d[..], &nmb[..]].concat(), [&[*fmt][..], &d[2..], &nmb[..]].concat(), mts.clone(), u.clone()];
                for h in heads {
                    let ty = r.pick(&[0x7Fu8, 0x7E, 0x7F, 0x05, 0x06]);
                    let mut body = h.clone(); let k = r.below(6) as usize; body.extend(r.bytes(k));
                    let flags = r.pick(&[0xC8u8, 0xC0, 0xC0, 0xC1, 0x80, 0x40, 0x00]);
                    let src = r.below(128) as u8;
                    let good = build_packet(r.below(128) as u8, src, 1, r.byte(), src, flags, ty, &body);
                    let mut bad = good.clone(); let l = bad.len();
                    match r.below(3) { 0 => bad[l - 1] ^= 1 << r.below(8), 1 => bad[7] ^= 0x08, _ => { let x = r.below((l - 1) as u64) as usize; bad[x] ^= 1 << r.below(8); } }
                    s.op(Op::Decode(bad.clone()));
                    let b = pbuf(r, 64, 0); s.op(Op::Process(bad, b));
                    if r.chance(1, 3) { s.op(Op::Decode(good)); }
                }
            }
            let q = request(7, 0, 2, &[], r); let b = rbuf(r, 0); s.op(Op::Process(q, b));
        });
    }
    // a valid packet followed by stray bytes, and a valid packet with every other value of its byte count:
    // the PEC of the whole string no longer matches, whatever the byte count says
    let reps = g.n(60, 2500);
    for _ in 0..reps {
        let cfg = gen_cfg(&mut g.rng);
        g.case("trailing", &cfg, |s, r| {
            s.twin_on = true; s.alt_on = false;
            let p = match r.below(3) {
                0 => request(r.below(128) as u8, 0, 1, &[r.below(2) as u8, 1 + r.below(254) as u8], r),
                1 => encoder_packet(s, r).unwrap_or_else(|| gen_packet(r, true)),
                _ => gen_packet(r, true),
            };
            let mut q = p.clone();
            let k = 1 + r.below(6) as usize;
            let t = if r.chance(1, 4) { vec![0u8; k] } else { r.bytes(k) };
            q.extend(t);
            s.op(Op::Decode(q.clone()));
            let b = pbuf(r, 64, 0); s.op(Op::Process(q, b));
            let e = request(7, 0, 2, &[], r); let b = pbuf(r, 64, 0); s.op(Op::Process(e, b));
        });
    }
    // corruptions a weaker checksum would miss, each right after the intact packet was accepted by the same
    // context (a result remembered from the intact packet must not vouch for the altered one)
    let reps = g.n(150, 6000);
    for _ in 0..reps {
        let cfg = gen_cfg(&mut g.rng);
        g.case("weaksum", &cfg, |s, r| {
            s.twin_on = true; s.alt_on = false;
            let p = match r.below(4) {
                0 | 1 => request(r.below(128) as u8, 0, 1, &[r.below(2) as u8, 1 + r.below(254) as u8], r),
                2 => encoder_packet(s, r).unwrap_or_else(|| gen_packet(r, true)),
                _ => gen_packet(r, true),
            };
            match r.below(3) {
                0 => {}
                1 => { s.op(Op::Decode(p.clone())); }
                _ => { let b = pbuf(r, 64, 0); s.op(Op::Process(p.clone(), b)); }
            }
            for _ in 0..(1 + r.below(6)) {
                let q = weak_corrupt(r, &p);
                if q == p { continue; }
                s.op(Op::Decode(q.clone()));
                let b = pbuf(r, 64, 0); s.op(Op::Process(q, b));
            }
            let e = request(7, 0, 2, &[], r); let b = pbuf(r, 64, 0); s.op(Op::Process(e, b));
        });
    }
    let reps = g.n(12, 400);
    for _ in 0..reps {
        let cfg = gen_cfg(&mut g.rng);
        g.case("count", &cfg, |s, r| {
            s.twin_on = true; s.alt_on = false;
            let p = if r.chance(1, 2) { request(r.below(128) as u8, 0, 1, &[r.below(2) as u8, 1 + r.below(254) as u8], r) } else { gen_packet(r, true) };
            for c in 0..256u32 {
                if p.len() > 2 && c as u8 != p[2] {
                    let mut q = p.clone(); q[2] = c as u8;
                    s.op(Op::Decode(q.clone()));
                    if c % 16 == 0 { let b = pbuf(r, 64, 0); s.op(Op::Process(q, b)); }
                }
            }
            let e = request(7, 0, 2, &[], r); let b = pbuf(r, 64, 0); s.op(Op::Process(e, b));
        });
    }
    // every burst window (start bit x 255 patterns) of valid packets: complete for one packet per encoder in thorough
    let keys = all_keys();
    let nk = g.n_exact(3, keys.len());
    for ki in 0..nk {
        let key = keys[(ki * 7) % keys.len()];
        let cfg = gen_cfg(&mut g.rng);
        let pats: u32 = if g.thorough { 255 } else { 6 };
        let thorough = g.thorough;
        g.case("burst", &cfg, |s, r| {
            s.alt_on = false;
            let tl = 14 + r.below(6) as usize;
            let c = gen_call(r, key, false, Some(tl));
            let buf = vec![0u8; expected_len(&c).unwrap_or(12)];
            let p = match encode_obs(s.alt, c.req, c.id, &c.nums, &c.lists, &buf) { Obs::Enc(Some(n), out) => out[..n].to_vec(), _ => gen_packet(r, true) };
            for start in 0..(p.len() * 8) {
                for k in 0..pats {
                    let pat: u8 = if thorough { (k + 1) as u8 } else { 1 + r.below(255) as u8 };
                    let mut q = p.clone();
                    for j in 0..8 { if pat & (0x80 >> j) != 0 { let bit = start + j; if bit / 8 < q.len() { q[bit / 8] ^= 0x80 >> (bit % 8); } } }
                    if q != p { s.op(Op::Decode(q)); }
                }
            }
        });
    }
    // one, two and three flipped bits anywhere in valid packets; two flips exactly 127 (or 254) bits apart are the
    // ones an 8-bit PEC cannot see (proofs/TwoBit.v) — such a packet may be accepted, and then its PEC is right
    let reps = g.n(40, 1500);
    for _ in 0..reps {
        let cfg = gen_cfg(&mut g.rng);
        g.case("bits", &cfg, |s, r| {
            s.alt_on = false;
            let p = match r.below(3) { 0 => request(r.below(128) as u8, 0, 1, &[r.below(2) as u8, 1 + r.below(254) as u8], r), 1 => encoder_packet(s, r).unwrap_or_else(|| gen_packet(r, true)), _ => { let mut q = gen_packet(r, true); if q.len() < 20 { q = build_packet(0x23, 0x34, 1, 0x23, 0x34, 0xC8, 0x7E, &r.bytes(24)); } q } };
            let nb = p.len() * 8;
            for _ in 0..12 {
                let mut q = p.clone();
                let i = r.below(nb as u64) as usize;
                let mut flips = vec![i];
                match r.below(4) {
                    0 => {}
                    1 => { flips.push(r.below(nb as u64) as usize); }
                    2 => { let d = r.pick(&[127usize, 254, 126, 128]); if i + d < nb { flips.push(i + d); } else if i >= d { flips.push(i - d); } }
                    _ => { flips.push(r.below(nb as u64) as usize); flips.push(r.below(nb as u64) as usize); }
                }
                for f in flips { q[f / 8] ^= 0x80 >> (f % 8); }
                if q != p { s.op(Op::Decode(q.clone())); if r.chance(1, 3) { let b = pbuf(r, 64, 0); s.op(Op::Process(q, b)); } }
            }
        });
    }
    // histories with corrupted Set EID packets interleaved
    let n = g.n(300, 12_000);
    for _ in 0..n {
        let cfg = gen_cfg(&mut g.rng);
        g.case("hist", &cfg, |s, r| {
            s.twin_on = true; s.alt_on = false;
            for _ in 0..(2 + r.below(10)) {
                if r.chance(1, 2) {
                    let p = request(r.below(128) as u8, 0, 1, &[r.below(2) as u8, 1 + r.below(254) as u8], r);
                    let q = if r.chance(2, 3) { corrupt(r, &p) } else { p };
                    let b = pbuf(r, 64, 0); s.op(Op::Process(q, b));
                } else { history(s, 1, r); }
            }
            let q = request(7, 0, 2, &[], r); let b = rbuf(r, 0); s.op(Op::Process(q, b));
        });
    }
}

// ------------------------------------------------------------------------------------------------ C18
const FIELD_LEN: [usize; 29] = [4, 4, 4, 4, 4, 4, 4, 4, 4, 1, 1, 2, 2, 2, 2, 2, 4, 4, 4, 4, 4, 4, 4, 4, 4, 4, 4, 2, 4];
const PRIVATE_FIELDS: [u32; 4] = [0, 9, 13, 23];

fn c18(g: &mut Gen) {
    let cfg = simple_cfg(0);
    let thorough = g.thorough;
    for fld in 0..29u32 {
        if PRIVATE_FIELDS.contains(&fld) { continue; }
        let len = FIELD_LEN[fld as usize];
        // raw buffers: exhaustive for 1-byte views (and for 2-byte views in thorough), patterns + random for the rest
        let mut raws: Vec<Vec<u8>> = Vec::new();
        match len {
            1 => for b in 0..256u32 { raws.push(vec![b as u8]); },
            2 => {
                // every raw value of the 2-byte views, in both tiers (setters: every raw in thorough, 1 in 8 in quick)
                for v in 0..65536u32 { raws.push(vec![(v >> 8) as u8, v as u8]); }
            }
            _ => {
                raws.push(vec![0; 4]); raws.push(vec![0xFF; 4]);
                for i in 0..32 { let w = 1u32 << i; raws.push(w.to_be_bytes().to_vec()); raws.push((!w).to_be_bytes().to_vec()); }
                if thorough { for i in 0..32 { for j in 0..i { let w = (1u32 << i) | (1u32 << j); raws.push(w.to_be_bytes().to_vec()); } } }
                let k = g.n(200, 20_000);
                for _ in 0..k { raws.push(g.rng.bytes(4)); }
                // raws whose bytes are related to each other or to the protocol's own constants (a header as it appears on
                // the wire: address, 0x0F, count, address | 1; copies, complements, shifts of one byte)
                let k = g.n(300, 20_000);
                for _ in 0..k {
                    let b0 = g.rng.byte();
                    let var = |r: &mut Rng, b: u8| -> u8 { match r.below(10) { 0 => b, 1 => b | 1, 2 => b & 0xFE, 3 => b ^ 1, 4 => b >> 1, 5 => b << 1, 6 => !b, 7 => 0x0F, 8 => r.pick(&[0x01u8, 0xC8, 0x00, 0xFF]), _ => r.byte() } };
                    let raw = vec![b0, var(&mut g.rng, b0), var(&mut g.rng, b0), var(&mut g.rng, b0)];
                    raws.push(raw);
                }
            }
        }
        let maxv: u64 = match fld { 27 => 0xFFFF, 28 => 0xFFFF_FFFF, _ => 0xFF };
        for chunk in raws.chunks(256) {
            g.case("field", &cfg, |s, r| {
                for raw in chunk {
                    s.op(Op::Hdr { what: 0, fld, raw: raw.clone(), v: 0 });
                    if thorough || len != 2 || r.below(8) == 0 {
                        // ... and values related to what the buffer already holds: its bytes read in either order
                        let mut le = 0u64; let mut be = 0u64;
                        for (i, x) in raw.iter().enumerate() { be = be << 8 | *x as u64; le |= (*x as u64) << (8 * i); }
                        let vs: [u64; 8] = [0, 1, maxv, r.next() & maxv, r.cbyte() as u64 & maxv, le & maxv, be & maxv, (le ^ 1) & maxv];
                        let v = vs[r.below(8) as usize];
                        s.op(Op::Hdr { what: 1, fld, raw: raw.clone(), v: v as u32 });
                    }
                }
            });
        }
        // every value written into a fixed buffer
        if maxv == 0xFF {
            g.case("values", &cfg, |s, r| {
                let raw = r.bytes(len);
                for v in 0..256u32 { s.op(Op::Hdr { what: 1, fld, raw: raw.clone(), v }); }
            });
        }
    }
    // views over buffers of any length (a Vec, a slice of a whole packet): the struct-sized prefix is read / rewritten,
    // later bytes are never looked at or changed; shorter buffers too (the model says where the index panic is)
    for fld in 0..29u32 {
        if PRIVATE_FIELDS.contains(&fld) { continue; }
        let len = FIELD_LEN[fld as usize];
        let maxv: u64 = match fld { 27 => 0xFFFF, 28 => 0xFFFF_FFFF, _ => 0xFF };
        let reps = g.n(2, 12);
        for _ in 0..reps {
            g.case("anylen", &cfg, |s, r| {
                for extra in [0usize, 1, 2, 3, 4, 5, 8, 16, 60, 252] {
                    for _ in 0..4 {
                        let mut raw = match r.below(4) { 0 => vec![0u8; len + extra], 1 => vec![0xFFu8; len + extra], _ => r.bytes(len + extra) };
                        if r.chance(1, 4) && extra > 0 { let k = len + r.below(extra as u64) as usize; raw[k] = r.cbyte(); }
                        s.op(Op::Hdr { what: 12, fld, raw: raw.clone(), v: 0 });
                        let mut be = 0u64;
                        for x in raw.iter().take(len) { be = be << 8 | *x as u64; }
                        let vs: [u64; 6] = [0, maxv, r.next() & maxv, r.cbyte() as u64 & maxv, be & maxv, (be ^ 1) & maxv];
                        s.op(Op::Hdr { what: 13, fld, raw, v: vs[r.below(6) as usize] as u32 });
                    }
                }
                for short in 0..len {
                    let raw = r.bytes(short);
                    s.op(Op::Hdr { what: 12, fld, raw: raw.clone(), v: 0 });
                    s.op(Op::Hdr { what: 13, fld, raw, v: (r.next() & maxv) as u32 });
                }
            });
        }
    }
    // validators: every first byte x several versions; every body header byte
    g.case("validators", &cfg, |s, r| {
        for b in 0..256u32 {
            for v in [1u32, 0, 2, 15, (b & 15), 0x11] {
                s.op(Op::Hdr { what: 2, fld: 0, raw: vec![b as u8, r.byte(), r.byte(), r.byte()], v });
            }
            s.op(Op::Hdr { what: 3, fld: 0, raw: vec![b as u8], v: 0 });
        }
    });
    // constructors
    g.case("ctors", &cfg, |s, r| {
        for v in 0..256u32 { s.op(Op::Hdr { what: 4, fld: 0, raw: vec![], v }); }
        for _ in 0..300 {
            let cmd = if r.chance(3, 4) { r.below(21) as u8 } else { r.byte() };
            s.op(Op::Hdr { what: 5, fld: 0, raw: vec![r.below(2) as u8, r.below(2) as u8, r.byte(), cmd], v: 0 });
            s.op(Op::Hdr { what: 6, fld: 0, raw: vec![r.below(4) as u8, r.byte(), r.byte(), r.byte()], v: 0 });
            s.op(Op::Hdr { what: 7, fld: 0, raw: vec![], v: (r.next() & 0xFFFF) as u32 });
            s.op(Op::Hdr { what: 8, fld: 0, raw: vec![], v: (r.next() >> 7) as u32 });
        }
        for mt in [0u32, 5, 6, 0x7E, 0x7F, 0xFF] { s.op(Op::Hdr { what: 9, fld: 0, raw: vec![], v: mt }); }
    });
}

// ------------------------------------------------------------------------------------------------ C19
fn c19(g: &mut Gen) {
    let cfg = simple_cfg(0);
    for what in 0..3u32 {
        g.case("conv", &cfg, |s, _| {
            for b in 0..256u32 { s.op(Op::Conv(what, b as u8)); }
        });
    }
}
