//! Per-property case sets.
use crate::exec::*;
use crate::gen::*;
use crate::rng::Rng;
use std::io::Write;

pub struct Gen<'a> {
    pub rng: Rng,
    pub thorough: bool,
    pub next_id: u64,
    pub sink: &'a mut dyn Write,
}

impl<'a> Gen<'a> {
    pub fn case<F: FnOnce(&mut Session, &mut Rng)>(&mut self, stratum: &str, cfg: &Cfg, f: F) {
        let id = self.next_id;
        self.next_id += 1;
        let mut r = self.rng.fork();
        with_session(id, stratum, cfg, self.sink, |s| f(s, &mut r));
    }
    pub fn n(&self, quick: usize, thorough: usize) -> usize {
        if self.thorough { thorough } else { quick }
    }
}

fn unhex(s: &str) -> Vec<u8> {
    if s == "-" {
        return vec![];
    }
    (0..s.len() / 2).map(|i| u8::from_str_radix(&s[2 * i..2 * i + 2], 16).unwrap()).collect()
}

/// Parse a case file (C / G / O lines; X lines are ignored) into configurations and operations.
pub fn parse_cases(text: &str) -> Vec<(String, Cfg, Vec<Op>)> {
    let mut out = Vec::new();
    let mut cur: Option<(String, Cfg, Vec<Op>)> = None;
    for line in text.lines() {
        let t: Vec<&str> = line.split_whitespace().collect();
        if t.is_empty() {
            continue;
        }
        match t[0] {
            "C" => {
                if let Some(c) = cur.take() {
                    out.push(c);
                }
                cur = Some((t.get(2).unwrap_or(&"replay").to_string(), simple_cfg(0), vec![]));
            }
            "G" => {
                let nv: usize = t[3].parse().unwrap();
                let mut v = Vec::new();
                for k in 0..nv {
                    v.push((t[4 + 3 * k].parse().unwrap(), t[5 + 3 * k].parse().unwrap(), t[6 + 3 * k].parse().unwrap()));
                }
                if let Some(c) = cur.as_mut() {
                    c.1 = Cfg { addr: t[1].parse().unwrap(), msg_types: unhex(t[2]), vendor_ids: v };
                }
            }
            "O" => {
                let op = match t[1] {
                    "P" => Op::Process(unhex(t[2]), unhex(t[3])),
                    "D" => Op::Decode(unhex(t[2])),
                    "L" => Op::GetLength(unhex(t[2])),
                    "S" => Op::SetEid(t[2] == "1", t[3].parse().unwrap()),
                    "U" => Op::SetUuid(unhex(t[2])),
                    "E" => {
                        let na: usize = t[4].parse().unwrap();
                        let nums: Vec<u32> = (0..na).map(|i| t[5 + i].parse().unwrap()).collect();
                        let nl: usize = t[5 + na].parse().unwrap();
                        let lists: Vec<Vec<u8>> = (0..nl).map(|i| unhex(t[6 + na + i])).collect();
                        Op::Encode { req: t[2] == "1", id: t[3].parse().unwrap(), nums, lists, buf: unhex(t[6 + na + nl]) }
                    }
                    "H" => Op::Hdr { what: t[2].parse().unwrap(), fld: t[3].parse().unwrap(), raw: unhex(t[4]), v: t[5].parse().unwrap() },
                    "V" => Op::Conv(t[2].parse().unwrap(), t[3].parse().unwrap()),
                    _ => panic!("bad op line {}", line),
                };
                if let Some(c) = cur.as_mut() {
                    c.2.push(op);
                }
            }
            "E" => {
                if let Some(c) = cur.take() {
                    out.push(c);
                }
            }
            _ => {}
        }
    }
    if let Some(c) = cur.take() {
        out.push(c);
    }
    out
}

pub fn replay(g: &mut Gen, path: &str) {
    let text = std::fs::read_to_string(path).unwrap_or_default();
    for (stratum, cfg, ops) in parse_cases(&text) {
        g.case(&stratum, &cfg, |s, _| {
            for op in ops {
                s.op(op);
            }
        });
    }
}

/// Corpus first: minimised past disagreements, boundary cases, known-finding witnesses.
fn corpus(g: &mut Gen, prop: &str) {
    let dir = std::env::var("VERIF_CORPUS").unwrap_or_else(|_| "/verif/corpus".to_string());
    let d = format!("{}/{}", dir, prop);
    let mut files: Vec<_> = match std::fs::read_dir(&d) {
        Ok(rd) => rd.filter_map(|e| e.ok()).map(|e| e.path()).collect(),
        Err(_) => vec![],
    };
    files.sort();
    for f in files {
        if f.extension().map(|x| x == "case").unwrap_or(false) {
            replay(g, f.to_str().unwrap());
        }
    }
}

pub fn run_property(g: &mut Gen, p: &str) -> bool {
    corpus(g, p);
    match p {
        "C03" => c03(g),
        _ => return false,
    }
    true
}

/// response-half encoders read the context's EID: install one first, through either route
fn maybe_install_eid(s: &mut Session, r: &mut Rng, c: &Call) {
    if !c.req && (c.id == 1 || c.id == 2) {
        match r.below(3) {
            0 => {}
            1 => { s.op(Op::SetEid(false, r.cbyte())); }
            _ => {
                s.op(Op::SetEid(true, r.cbyte()));
                s.op(Op::SetEid(false, r.cbyte()));
            }
        }
    }
}

fn encode_case(g: &mut Gen, stratum: &str, key: (bool, u32), refuse: bool, total: Option<usize>) {
    let cfg = gen_cfg(&mut g.rng);
    g.case(stratum, &cfg, |s, r| {
        let c = gen_call(r, key, refuse, total);
        maybe_install_eid(s, r, &c);
        let n = expected_len(&c).unwrap_or(12);
        let cap = n + match r.below(3) { 0 => 0, 1 => 1, _ => 1 + r.below(40) as usize };
        let k = r.below(3);
        let buf = poison(r, cap, k);
        s.op(enc_op(&c, buf));
    });
}

fn c03(g: &mut Gen) {
    let per = g.n(30, 1200);
    for key in all_keys() {
        for _ in 0..per {
            encode_case(g, "enc", key, false, None);
        }
    }
    // every packet length from 12 up to (and a little beyond) the SMBus maximum, on every body-carrying encoder
    let reps = g.n(1, 8);
    for total in 12..=262usize {
        for key in [(true, 20u32), (true, 30), (false, 31), (true, 32), (false, 33)] {
            for _ in 0..reps {
                encode_case(g, "len", key, false, Some(total));
            }
        }
    }
}
