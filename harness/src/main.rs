//! lmharness <property> <tier> <seed> [replay-file]
//! Generates the case set of one property, runs every case on the real libmctp (path dependency on
//! /repo) and prints the cases with what the library did, for the OCaml driver to judge.
mod exec;
mod gen;
mod rng;
mod props;
mod bytecase;

use std::io::Write;

fn main() {
    let args: Vec<String> = std::env::args().collect();
    if args.len() < 4 {
        eprintln!("usage: lmharness <Cnn|replay> <quick|thorough> <seed> [file]");
        std::process::exit(2);
    }
    // panics are outcomes here: keep stderr quiet, remember nothing
    std::panic::set_hook(Box::new(|_| {}));
    let tier_thorough = args[2] == "thorough";
    let seed: u64 = args[3].parse().unwrap_or(1);
    let stdout = std::io::stdout();
    let mut sink = std::io::BufWriter::with_capacity(1 << 20, stdout.lock());
    let mut g = props::Gen { rng: rng::Rng::new(seed), thorough: tier_thorough, next_id: 0, sink: &mut sink };
    match args[1].as_str() {
        "replay" => props::replay(&mut g, &args[4]),
        p => {
            if !props::run_property(&mut g, p) {
                eprintln!("unknown property {}", p);
                std::process::exit(2);
            }
        }
    }
    let _ = sink.flush();
}
