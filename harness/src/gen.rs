//! Case generators shared by the per-property modes.
use crate::exec::*;
use crate::rng::Rng;

#[derive(Clone, Debug)]
pub struct Call {
    pub req: bool,
    pub id: u32,
    pub nums: Vec<u32>,
    pub lists: Vec<Vec<u8>>,
}

/// every encoder the harness can call: (request half?, id) — ids as in Ops.v encode_call
pub const REQ_IDS: [u32; 18] = [1, 2, 3, 4, 5, 6, 7, 8, 9, 10, 11, 12, 13, 14, 15, 16, 17, 20];
pub const RESP_IDS: [u32; 6] = [1, 2, 3, 4, 5, 6];
pub const GEN_IDS: [u32; 4] = [30, 31, 32, 33];

pub fn all_keys() -> Vec<(bool, u32)> {
    let mut v = Vec::new();
    for i in REQ_IDS { v.push((true, i)); }
    for i in RESP_IDS { v.push((false, i)); }
    for i in GEN_IDS { v.push((true, i)); v.push((false, i)); }
    v
}

pub fn gen_cfg(rng: &mut Rng) -> Cfg {
    // sizes of the two configured lists: small mostly; now and then none at all, or a count that wraps in a u8
    let nmt = if rng.chance(1, 40) { rng.pick(&[255usize, 256, 257, 512]) } else if rng.chance(1, 4) { rng.pick(&[0usize, 1, 29, 30]) } else { rng.below(31) as usize };
    let wide = rng.chance(1, 4);
    let nv = if rng.chance(1, 40) { rng.pick(&[0usize, 255, 256, 257, 512]) } else { 1 + rng.below(if wide { 16 } else { 4 }) as usize };
    let mut mts = rng.bytes(nmt);
    if rng.chance(1, 5) { ordered(rng, &mut mts); }
    Cfg {
        addr: rng.addr(),
        msg_types: mts,
        vendor_ids: (0..nv)
            .map(|_| ((rng.below(2)) as u8, rng.c32(), rng.c16()))
            .collect(),
    }
}

pub fn simple_cfg(addr: u8) -> Cfg {
    Cfg { addr, msg_types: vec![0x7E], vendor_ids: vec![(0, 0x1414, 4)] }
}

/// data length of a body-carrying call so that the whole packet has length `total`
/// (total = 4 + 4 + 1 + hdr + data + 1)
fn split_body(rng: &mut Rng, total: usize, fixed_hdr: Option<usize>) -> (usize, usize) {
    let avail = total.saturating_sub(10);
    match fixed_hdr {
        Some(h) => (h, avail.saturating_sub(h)),
        None => {
            let h = (rng.below(9) as usize).min(avail);
            (h, avail - h)
        }
    }
}

/// An argument tuple for encoder `key`.  `refuse` asks for documented-invalid arguments where the encoder
/// has any; `total` asks body-carrying encoders for a packet of exactly that many bytes.
pub fn gen_call(rng: &mut Rng, key: (bool, u32), refuse: bool, total: Option<usize>) -> Call {
    let (req, id) = key;
    let dest = rng.addr() as u32;
    let b = |r: &mut Rng| r.cbyte() as u32;
    let mut nums: Vec<u32> = Vec::new();
    let mut lists: Vec<Vec<u8>> = Vec::new();
    if id >= 30 {
        let big = rng.chance(1, 5);
        let tot = total.unwrap_or_else(|| 10 + rng.below(if big { 250 } else { 40 }) as usize);
        let has_hdr = rng.chance(2, 3);
        let (h, d) = split_body(rng, tot, if has_hdr { None } else { Some(0) });
        let mt = if id == 32 {
            if rng.chance(1, 8) { rng.pick(&[0u32, 0x7E, 0x7F, 0xFF]) } else { rng.pick(&[5u32, 6]) }
        } else { 0 };
        nums = vec![dest, has_hdr as u32, mt];
        lists = vec![rng.bytes(if has_hdr { h } else { 0 }), rng.body(if has_hdr { d } else { h + d })];
        // bodies that begin like the framing the encoder itself emits (message type byte, vendor ID, header bytes):
        // a body is carried verbatim, whatever it looks like
        if rng.chance(1, 6) {
            let pre: Vec<u8> = match rng.below(4) { 0 => vec![0x7E, 0x14, 0x14], 1 => vec![0x7F, 0, 0, 0x01, 0x57], 2 => vec![rng.pick(&[0u8, 5, 6, 0x7E, 0x7F])], _ => vec![0x01, dest as u8, 0xC8] };
            let b = &mut lists[1];
            for (i, x) in pre.iter().enumerate() { if i < b.len() { b[i] = *x; } }
        }
        // a body that is itself a complete frame for the same hop (a packet tunnelled in a packet)
        if rng.chance(1, 8) && total.is_none() {
            let (own, _, _) = crate::exec::hint();
            let k = rng.below(12) as usize; let inner = rng.bytes(k);
            let ty = match id { 31 => 0x7E, 33 => 0x7F, 32 => mt as u8, _ => 0 };
            lists[1] = tunnel_frame(rng, own, dest as u8, ty, &inner);
        }
        return Call { req, id, nums, lists };
    }
    if req {
        match id {
            1 => {
                let eid = if refuse { rng.pick(&[0u32, 0xFF]) } else { 1 + rng.below(254) as u32 };
                let eid = if !refuse && rng.chance(1, 4) { rng.pick(&[1u32, 2, 0x7F, 0x80, 0xFD, 0xFE]) } else { eid };
                nums = vec![dest, rng.below(4) as u32, eid];
            }
            2 | 3 | 5 | 11 | 12 | 13 | 14 | 17 => nums = vec![dest],
            4 => nums = vec![dest, rng.pick(&[0xFFu32, 0, 1, 2, 3])],
            6 | 7 | 10 => nums = vec![dest, b(rng)],
            8 => nums = vec![dest, rng.below(3) as u32, b(rng), b(rng)],
            9 => {
                nums = vec![dest];
                let n = if refuse {
                    if rng.chance(1, 2) { 8 + rng.below(5) as usize } else { rng.pick(&[8usize, 9, 31, 32, 63, 64, 65, 71, 72, 127, 128, 135, 192, 199, 255, 256, 257, 300]) }
                } else { rng.below(8) as usize };
                lists = (0..n).map(|_| rng.bytes(4)).collect();
                // one contiguous run of EID ranges of one kind behind one address (what a bus owner listing a
                // bridge's pool sends): too many entries stay too many, however neatly they could be merged
                if n >= 2 && rng.chance(1, 3) {
                    let ty = rng.pick(&[3u8, 1, 3, 0x43, 2]); let addr = rng.byte(); let mut first = rng.below(40) as u8;
                    for e in lists.iter_mut() { let sz = 1 + rng.below(6) as u8; *e = vec![ty, sz, first, addr]; first = first.wrapping_add(sz); }
                    return Call { req, id, nums, lists };
                }
                // entries that describe the parties themselves: the sender (its address, the EID it holds), the destination
                if n >= 1 && rng.chance(1, 4) {
                    let (own, er, es) = crate::exec::hint();
                    let k = 1 + rng.below(n.min(3) as u64) as usize;
                    for j in 0..k {
                        let i = rng.below(n as u64) as usize;
                        let phys = if j % 2 == 0 { own } else { dest as u8 };
                        let x = 0x08 + (rng.below(0xF0) as u8); let eid = rng.pick(&[er, es, own, dest as u8, x]);
                        let ty = rng.pick(&[0u8, 2, 0, 2, 1, 3]); let sz = if rng.chance(3, 4) { 1 } else { rng.cbyte() }; lists[i] = vec![ty, sz, eid, phys];
                    }
                    return Call { req, id, nums, lists };
                }
                // a contiguous run of entries of DIFFERENT kinds behind one address: a bridge followed by its pool, single
                // endpoints between ranges, ... (what a real routing table looks like); still carried as given, and still
                // refused when there are too many, however they could be folded
                if n >= 2 && rng.chance(1, 3) {
                    let addr = rng.byte(); let mut first = 1 + rng.below(60) as u8;
                    for e in lists.iter_mut() {
                        let ty = rng.pick(&[2u8, 3, 0, 1, 2, 3]);
                        let sz = if ty == 0 || ty == 2 { 1 } else { 1 + rng.below(6) as u8 };
                        *e = vec![ty, sz, first, addr]; first = first.wrapping_add(sz);
                    }
                    // the same table listed from the top down (each entry ends where the previous one starts), or in pairs
                    // swapped (a pool before its bridge)
                    match rng.below(3) {
                        0 => lists.reverse(),
                        1 => { let mut i = 0; while i + 1 < lists.len() { lists.swap(i, i + 1); i += 2; } }
                        _ => {}
                    }
                    return Call { req, id, nums, lists };
                }
                // related neighbours: consecutive EID ranges of one kind behind one physical address, duplicates,
                // an entry repeated later — an encoder must carry the entries as given, not normalise them
                if n >= 2 && rng.chance(1, 2) {
                    for i in 1..n {
                        match rng.below(4) {
                            0 => { let p = lists[i - 1].clone(); lists[i] = vec![p[0], rng.cbyte(), p[2].wrapping_add(p[1]), p[3]]; }
                            1 => { let p = lists[i - 1].clone(); lists[i] = p; }
                            2 => { let p = lists[i - 1].clone(); lists[i] = vec![p[0], p[1], p[2].wrapping_add(1), p[3]]; }
                            _ => {}
                        }
                    }
                }
            }
            15 => nums = vec![dest, b(rng), rng.pick(&[0u32, 5, 6, 0x7E, 0x7F, 0xFF])],
            16 => {
                nums = vec![dest, b(rng)];
                lists = vec![rng.uuid()];
            }
            20 => {
                let fmt = if refuse { 2 + rng.below(254) as u32 } else { rng.below(2) as u32 };
                // vendor IDs whose bytes are pairwise distinct, so that byte swaps show
                let mut data: u32;
                loop {
                    data = (rng.next() >> 8) as u32;
                    let by = data.to_be_bytes();
                    if by[0] != by[1] && by[0] != by[2] && by[0] != by[3] && by[1] != by[2] && by[1] != by[3] && by[2] != by[3] {
                        break;
                    }
                }
                let hl = if fmt == 0 { 2 } else { 4 };
                let big = rng.chance(1, 5);
                let tot = total.unwrap_or_else(|| 10 + hl + rng.below(if big { 240 } else { 30 }) as usize);
                let (_, d) = split_body(rng, tot, Some(hl));
                nums = vec![dest, fmt, data, (rng.next() >> 30) as u32 & 0xFFFF];
                lists = vec![rng.body(d)];
                // a body that begins like this message's own framing: type byte, then the vendor ID as it is sent
                if rng.chance(1, 5) {
                    let by = data.to_be_bytes();
                    let mut pre: Vec<u8> = vec![if fmt == 0 { 0x7E } else { 0x7F }];
                    if fmt == 0 { pre.extend(&by[2..]); } else { pre.extend(&by); }
                    if rng.chance(1, 3) { pre.remove(0); }
                    let b = &mut lists[0];
                    for (i, x) in pre.iter().enumerate() { if i < b.len() { b[i] = *x; } }
                }
                // the message is itself a complete frame for the same hop: the output of the same call fed back in
                if rng.chance(1, 8) && total.is_none() && fmt < 2 {
                    let (own, _, _) = crate::exec::hint();
                    let by = data.to_be_bytes();
                    let mut inner: Vec<u8> = if fmt == 0 { by[2..].to_vec() } else { by.to_vec() };
                    let k = rng.below(10) as usize; inner.extend(rng.bytes(k));
                    lists[0] = tunnel_frame(rng, own, dest as u8, if fmt == 0 { 0x7E } else { 0x7F }, &inner);
                }
            }
            _ => {}
        }
    } else {
        let cc = rng.below(6) as u32;
        match id {
            1 => nums = vec![cc, dest, rng.below(2) as u32, rng.below(3) as u32],
            2 => nums = vec![cc, dest, rng.below(2) as u32, rng.below(4) as u32, rng.below(2) as u32],
            3 => {
                nums = vec![cc, dest];
                lists = vec![rng.uuid()];
            }
            4 => nums = vec![cc, dest],
            5 => {
                nums = vec![cc, dest];
                let n = if refuse { 31 + rng.below(10) as usize } else if rng.chance(1, 3) { rng.pick(&[0usize, 1, 29, 30]) } else { rng.below(31) as usize };
                lists = vec![rng.bytes(n)];
                if rng.chance(1, 4) { ordered(rng, &mut lists[0]); }
            }
            6 => {
                nums = vec![cc, dest, b(rng)];
                let k = rng.below(8) as usize;
                lists = vec![rng.bytes(k)];
            }
            _ => {}
        }
    }
    Call { req, id, nums, lists }
}


/// a complete SMBus MCTP frame from this context (address `own`) to `dest`, carrying message type `ty` and `inner`:
/// what a message body looks like when one packet is tunnelled inside another for the same hop
pub fn tunnel_frame(rng: &mut Rng, own: u8, dest: u8, ty: u8, inner: &[u8]) -> Vec<u8> {
    let mut f = build_packet(dest & 0x7F, own & 0x7F, 1, dest, own, 0xC8, ty, inner);
    if rng.chance(1, 4) { let l = f.len(); f[l - 1] = rng.byte(); }      // with or without a correct inner PEC
    f
}

/// give a byte list an internal order: ascending, descending (strictly, when `strict`), constant, or an arithmetic run
pub fn ordered(rng: &mut Rng, l: &mut Vec<u8>) {
    match rng.below(5) {
        0 => l.sort(),
        1 => { l.sort(); l.reverse(); }
        2 => { let n = l.len(); let start = rng.byte(); *l = (0..n).map(|i| start.wrapping_sub((i as u8).wrapping_mul(3))).collect(); }   // strictly descending run
        3 => { let n = l.len(); let start = rng.below(100) as u8; *l = (0..n).map(|i| start.wrapping_add(i as u8)).collect(); }             // strictly ascending run
        _ => { let x = rng.cbyte(); for y in l.iter_mut() { *y = x; } }
    }
}

/// Does encoder `key` have documented-invalid arguments?
pub fn can_refuse(key: (bool, u32)) -> bool {
    matches!(key, (true, 1) | (true, 9) | (true, 20) | (false, 5))
}

/// The packet length the call should produce (None when the arguments are documented-invalid).
pub fn expected_len(c: &Call) -> Option<usize> {
    let g = |i: usize| c.nums.get(i).copied().unwrap_or(0);
    let l = |i: usize| c.lists.get(i).map(|x| x.len()).unwrap_or(0);
    if c.id >= 30 {
        return Some(10 + if g(1) != 0 { l(0) } else { 0 } + l(1));
    }
    let ctl = |d: usize| Some(12 + d);
    if c.req {
        match c.id {
            1 => if g(2) == 0 || g(2) == 0xFF { None } else { ctl(2) },
            2 | 3 | 5 | 11 | 12 | 13 | 14 | 17 => ctl(0),
            4 | 6 | 7 | 10 => ctl(1),
            8 => ctl(3),
            9 => if c.lists.len() >= 8 { None } else { ctl(1 + 4 * c.lists.len()) },
            15 => ctl(2),
            16 => ctl(17),
            20 => match g(1) { 0 => Some(10 + 2 + l(0)), 1 => Some(10 + 4 + l(0)), _ => None },
            _ => None,
        }
    } else {
        match c.id {
            1 => ctl(4),
            2 => ctl(4),
            3 => ctl(17),
            4 => ctl(6),
            5 => if l(0) > 30 { None } else { ctl(2 + l(0)) },
            6 => ctl(2 + l(0)),
            _ => None,
        }
    }
}

/// A response buffer of capacity `cap` filled with one of three poisons.
pub fn poison(rng: &mut Rng, cap: usize, kind: u64) -> Vec<u8> {
    match kind % 3 {
        0 => vec![0u8; cap],
        1 => vec![0xFFu8; cap],
        _ => rng.bytes(cap),
    }
}

pub fn enc_op(c: &Call, buf: Vec<u8>) -> Op {
    Op::Encode { req: c.req, id: c.id, nums: c.nums.clone(), lists: c.lists.clone(), buf }
}

/// independent CRC-8 (poly 0x07, init 0), written bit by bit; does not call the library
pub fn crc8(data: &[u8]) -> u8 {
    // polynomial long division of M(x)*x^8 by x^8+x^2+x+1, MSB first
    let mut rem: u32 = 0;
    for &b in data {
        rem ^= (b as u32) << 8;
        for _ in 0..8 {
            rem <<= 1;
            if rem & 0x1_0000 != 0 {
                rem ^= 0x107 << 8;
            }
        }
        rem &= 0xFFFF;
    }
    (rem >> 8) as u8
}

/// Independent packet builder: does not call libmctp.
pub fn build_packet(dst: u8, src: u8, b4: u8, dst_eid: u8, src_eid: u8, flags: u8, tybyte: u8, body: &[u8]) -> Vec<u8> {
    let mut p = vec![dst << 1, 0x0F, 0, (src << 1) | 1, b4, dst_eid, src_eid, flags, tybyte];
    p.extend_from_slice(body);
    p[2] = (p.len() + 1 - 4) as u8;
    let c = crc8(&p);
    p.push(c);
    p
}
