//! A case described by a byte string: the configuration and the operations are decoded from the bytes, with
//! packet bodies, vendor IDs, EIDs and buffer sizes copied from them *verbatim*. This is the input format of the
//! coverage-guided explorer (/verif/fuzz): libFuzzer mutates the byte string and keeps every string that
//! reaches new code in /repo's current sources (comparison operands included); the harness then replays the
//! kept strings as ordinary cases (stratum "cov"), and the extracted Coq oracle judges them like any other.
use crate::exec::{Cfg, Obs, Op, Session};
use crate::gen::{all_keys, build_packet, crc8, enc_op, expected_len, gen_call, Call};
use crate::rng::Rng;

pub struct U<'a> {
    d: &'a [u8],
    i: usize,
    /// first byte of the string: which of four layouts the rest has (one message / one control request on a fixed
    /// configuration, one message on a configuration from the string, the general layout)
    pub shape: u8,
}

impl<'a> U<'a> {
    pub fn new(d: &'a [u8]) -> Self { U { d, i: 0, shape: 0 } }
    pub fn left(&self) -> usize { self.d.len() - self.i }
    pub fn byte(&mut self) -> u8 {
        if self.i < self.d.len() { self.i += 1; self.d[self.i - 1] } else { 0 }
    }
    pub fn take(&mut self, n: usize) -> Vec<u8> {
        let n = n.min(self.left());
        self.i += n;
        self.d[self.i - n..self.i].to_vec()
    }
    pub fn u32(&mut self) -> u32 {
        u32::from_be_bytes([self.byte(), self.byte(), self.byte(), self.byte()])
    }
}

/// set by an explorer process that works on one layout only (255 = take the layout from the string)
pub static FORCE_SHAPE: std::sync::atomic::AtomicU8 = std::sync::atomic::AtomicU8::new(255);

pub fn cfg_from(u: &mut U) -> Cfg {
    let b = u.byte();
    let f = FORCE_SHAPE.load(std::sync::atomic::Ordering::Relaxed);
    u.shape = if f < 4 { f } else { b & 3 };
    if u.shape < 3 {
        return Cfg { addr: 0x23, msg_types: vec![0x7E, 0x05], vendor_ids: vec![(0, 0x1414, 4), (1, 0x0000_0157, 2)] };
    }
    let addr = u.byte();
    let f = u.byte();
    let nmt = (f & 3) as usize;
    let nv = 1 + ((f >> 2) & 3) as usize;
    let msg_types = u.take(nmt);
    let vendor_ids = (0..nv).map(|_| { let fm = u.byte() & 1; let d = u.u32(); let n = (u.byte() as u16) << 8 | u.byte() as u16; (fm, d, n) }).collect();
    Cfg { addr, msg_types, vendor_ids }
}

const CAPS: [usize; 16] = [64, 16, 17, 32, 12, 13, 0, 8, 15, 24, 255, 256, 260, 264, 271, 300];

fn packet(u: &mut U, last: &Option<Vec<u8>>) -> Vec<u8> {
    let mode = u.byte();
    let mut p = match mode & 7 {
        0 => { let n = (u.byte() % 48) as usize; u.take(n) }
        1 | 2 | 3 | 4 => {
            let f = u.byte();
            let dst = u.byte() & 0x7F; let src = u.byte() & 0x7F;
            let b4 = if f & 1 != 0 { u.byte() } else { 1 };
            let de = u.byte(); let se = u.byte();
            let flags = if f & 2 != 0 { u.byte() } else { 0xC8 };
            let ty = u.byte();
            let bl = (u.byte() % 48) as usize;
            let body = u.take(bl);
            build_packet(dst, src, b4, de, se, flags, ty, &body)
        }
        5 | 6 => {
            let src = u.byte() & 0x7F;
            let h = u.byte(); let cmd = u.byte();
            let n = (u.byte() % 24) as usize;
            let mut body = vec![h, cmd]; body.extend(u.take(n));
            build_packet(u.byte() & 0x7F, src, 1, u.byte(), src, 0xC8, 0, &body)
        }
        _ => match last { Some(p) => p.clone(), None => { let n = (u.byte() % 24) as usize; u.take(n) } },
    };
    // optional alterations after the PEC was computed
    if mode & 0x08 != 0 && !p.is_empty() { let i = u.byte() as usize % p.len(); let x = u.byte(); p[i] ^= x; if mode & 0x10 != 0 { let l = p.len(); let c = crc8(&p[..l - 1]); p[l - 1] = c; } }
    if mode & 0x20 != 0 { let n = (u.byte() % 4) as usize; p.extend(u.take(n)); }
    if mode & 0x40 != 0 && p.len() > 2 { p[2] = u.byte(); if mode & 0x80 != 0 { let l = p.len(); let c = crc8(&p[..l - 1]); p[l - 1] = c; } }
    p
}

/// decode operations from `u` and perform them on the session (at most 10)
pub fn run_bytes(s: &mut Session, u: &mut U) {
    if u.shape != 3 {
        // the short layouts: the whole rest of the string is one message (type byte, body) or one control request
        // (header byte, command code, data), framed correctly, decoded and processed
        let src = 0x34u8;
        if u.shape == 2 {
            // one of the library's body-carrying encoders on the rest of the string, its output decoded and processed
            let sel = u.byte();
            let n = u.left().min(48); let body = u.take(n);
            let c = if sel & 8 != 0 {
                Call { req: true, id: 20, nums: vec![0x23, (sel & 1) as u32, 0x1414_0157, 4], lists: vec![body] }
            } else {
                Call { req: sel & 1 != 0, id: 30 + (sel & 3) as u32, nums: vec![0x23, 0, if sel & 4 != 0 { 5 } else { 6 }], lists: vec![vec![], body] }
            };
            let cap = expected_len(&c).unwrap_or(12);
            if let Obs::Enc(Some(m), out) = s.op(enc_op(&c, vec![0u8; cap])) {
                if m <= out.len() {
                    s.op(Op::Decode(out[..m].to_vec()));
                    s.op(Op::Process(out[..m].to_vec(), vec![0u8; 64]));
                }
            }
            return;
        }
        let mut tyb: Option<(u8, Vec<u8>)> = None;
        let p = if u.shape == 1 {
            let n = u.left().min(40); let body = u.take(n);
            build_packet(0x23, src, 1, 0x23, src, 0xC8, 0, &body)
        } else {
            let ty = u.byte(); let n = u.left().min(48); let body = u.take(n);
            tyb = Some((ty, body.clone()));
            build_packet(0x23, src, 1, 0x23, src, 0xC8, ty, &body)
        };
        s.op(Op::Decode(p.clone()));
        s.op(Op::Process(p, vec![0u8; 64]));
        // the same body through the library's own encoder for that message type, and back through its decoder
        if let Some((ty, body)) = tyb {
            let id = match ty { 5 | 6 => Some(32u32), 0x7E => Some(31), 0x7F => Some(33), 0 => Some(30), _ => None };
            if let Some(id) = id {
                let c = Call { req: true, id, nums: vec![0x23, 0, ty as u32], lists: vec![vec![], body] };
                let cap = expected_len(&c).unwrap_or(12);
                if let Obs::Enc(Some(m), out) = s.op(enc_op(&c, vec![0u8; cap])) {
                    if m <= out.len() { s.op(Op::Decode(out[..m].to_vec())); }
                }
            }
        }
        return;
    }
    let keys = all_keys();
    let mut last: Option<Vec<u8>> = None;
    let mut nops = 0;
    while u.left() > 0 && nops < 10 {
        nops += 1;
        let k = u.byte();
        match k & 15 {
            0..=6 => {
                let p = packet(u, &last);
                let act = k >> 4;
                if act & 1 != 0 { s.op(Op::Decode(p.clone())); }
                if act & 2 != 0 { s.op(Op::GetLength(p.clone())); }
                if act & 4 != 0 || act & 7 == 0 {
                    let cap = CAPS[(u.byte() & 15) as usize];
                    let fill = if act & 8 != 0 { 0xFF } else { 0 };
                    s.op(Op::Process(p, vec![fill; cap]));
                }
            }
            7 => { let e = u.byte(); s.op(Op::SetEid(k & 16 != 0, e)); }
            8 => { let mut uu = u.take(16); uu.resize(16, 0); s.op(Op::SetUuid(uu)); }
            _ => {
                // an encoder call: the argument shape comes from the ordinary generator (seeded from two bytes),
                // bodies and destination verbatim from the input; its output can be fed back as a packet
                let key = keys[u.byte() as usize % keys.len()];
                let seed = (u.byte() as u64) << 8 | u.byte() as u64;
                let mut r = Rng::new(seed);
                let mut c = gen_call(&mut r, key, false, None);
                if c.id >= 30 {
                    c.nums[0] = u.byte() as u32;
                    if c.id == 32 { c.nums[2] = if k & 16 != 0 { 5 } else { 6 }; }
                    let hl = (u.byte() % 9) as usize; let dl = (u.byte() % 40) as usize;
                    if c.nums[1] != 0 { c.lists[0] = u.take(hl); }
                    c.lists[1] = u.take(dl);
                } else if c.req && c.id == 20 {
                    c.nums[0] = u.byte() as u32;
                    c.nums[1] = (u.byte() & 1) as u32;
                    c.nums[2] = u.u32();
                    let dl = (u.byte() % 40) as usize;
                    c.lists[0] = u.take(dl);
                } else if (c.req && c.id == 16) || (!c.req && c.id == 3) {
                    let mut uu = u.take(16); uu.resize(16, 0); c.lists[0] = uu;
                } else if c.req { c.nums[0] = u.byte() as u32; } else if c.nums.len() > 1 { c.nums[1] = u.byte() as u32; }
                let n = expected_len(&c).unwrap_or(12);
                let cap = match k >> 5 { 0 | 1 | 2 | 3 => n, 4 => n + 1, 5 => n + 7, 6 => n.saturating_sub(1), _ => (u.byte() as usize) % 64 };
                let fill = u.byte();
                if let Obs::Enc(Some(m), out) = s.op(enc_op(&c, vec![fill; cap])) {
                    if m <= out.len() { last = Some(out[..m].to_vec()); }
                }
            }
        }
    }
}
