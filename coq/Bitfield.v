(* Bitfield.v — model of crate bitfield 0.14.0, macro bitfield_bitrange!, arms
   @impl_bitrange_slice (plain [u8], LSB0) and @impl_bitrange_slice_msb0 (MSB0 [u8]):
     bit_range:      for i in ORDER { value <<= 1; value |= ((self.0[i/8] >> POS(i)) & 1) as T; }
                     value << (W - width) >> (W - width)
     set_bit_range:  for i in ORDER' { self.0[i/8] &= !(1 << POS(i)); self.0[i/8] |= (value & 1) as u8 << POS(i); value >>= 1; }
   with POS(i) = i%8 (LSB0) or 7 - i%8 (MSB0); LSB0: getter order (lsb..=msb).rev(), setter lsb..=msb;
   MSB0: getter order lsb..=msb, setter (lsb..=msb).rev().
   MODEL FILE: definitions only.  Buffers are lists of bytes; the header views in libmctp are always
   instantiated at fixed array sizes ([u8;1], [u8;2], [u8;4]) that contain every declared bit index, so the
   out-of-range index panic of the crate is unreachable there and `nth`/`upd` are used with that proviso. *)
Require Import Base.
Open Scope N_scope.

(* self.0[k] &= !(1 << p); self.0[k] |= (x as u8) << p *)
Definition put_bit (b p : N) (x : bool) : N :=
  N.lor (N.land b (N.lxor 255 (N.shiftl 1 p))) (N.shiftl (N.b2n x) p).

Definition pos_msb0 (i : nat) : N := N.of_nat (7 - i mod 8).
Definition pos_lsb0 (i : nat) : N := N.of_nat (i mod 8).

Section Order.
  Variable pos : nat -> N.

  Definition get_bit (buf : list N) (i : nat) : bool := N.testbit (nth (i / 8) buf 0) (pos i).
  Definition set1 (buf : list N) (i : nat) (x : bool) : list N :=
    upd (i / 8) (fun b => put_bit b (pos i) x) buf.

  Fixpoint set_loop (idxs : list nat) (buf : list N) (v : N) : list N :=
    match idxs with
    | [] => buf
    | i :: r => set_loop r (set1 buf i (N.odd v)) (N.div2 v)
    end.

  Variable W : N.
  Fixpoint get_loop (idxs : list nat) (buf : list N) (acc : N) : N :=
    match idxs with
    | [] => acc
    | i :: r => get_loop r buf (N.lor ((acc * 2) mod 2 ^ W) (N.b2n (get_bit buf i)))
    end.
End Order.

(* A declared field: `name, set_name : hi, lo;` inside `struct S(MSB0 [u8])` or `struct S([u8])`, value type uW *)
Record field := { f_msb0 : bool; f_hi : nat; f_lo : nat; f_W : N }.
Definition f_width (f : field) : nat := f_hi f - f_lo f + 1.
Definition f_idxs (f : field) : list nat := seq (f_lo f) (f_width f).          (* lsb..=msb *)
Definition f_pos (f : field) : nat -> N := if f_msb0 f then pos_msb0 else pos_lsb0.

Definition get_field (f : field) (buf : list N) : N :=
  let order := if f_msb0 f then f_idxs f else rev (f_idxs f) in
  let v := get_loop (f_pos f) (f_W f) order buf 0 in
  let sh := f_W f - N.of_nat (f_width f) in
  N.shiftr ((N.shiftl v sh) mod 2 ^ f_W f) sh.

Definition set_field (f : field) (buf : list N) (v : N) : list N :=
  let order := if f_msb0 f then rev (f_idxs f) else f_idxs f in
  set_loop (f_pos f) order buf v.
