(* Spec.v — independent, readable specifications and the executable property oracles.
   An oracle is the statement of a property's theorem as a boolean function of what an
   implementation (or the model) produced; props/Cnn.v proves it returns true on the model's output,
   the correspondence check runs it on the Rust library's output. *)
Require Import Base Crc Bitfield Headers Encode Decode Process Ops.
Open Scope N_scope.

(* configuration of a context: MCTPSMBusContext::new(addr, &msg_types, &vendor_ids) *)
Record config := { g_addr : N; g_msg_types : list N; g_vendor_ids : list vendor_id }.
Definition ctx_of (g : config) : ctx := ctx_new (g_addr g) (g_msg_types g) (g_vendor_ids g).

(* per-step judgement: does the property's statement hold of this observation; which known-finding
   class (0 = none) the step's input belongs to *)
Record sv := { s_o : bool; s_kf : N; s_nontrivial : bool; s_tag : N }.
Definition sv_triv : sv := {| s_o := true; s_kf := 0; s_nontrivial := false; s_tag := 0 |}.

(* ---------------------------------------------------------------- C03 *)
(* "The last byte of every packet the library encodes is the SMBus PEC of all preceding bytes;
    equivalently the CRC-8 of the whole encoded packet is zero." *)
Definition pec_ok (n : nat) (out : list N) : bool :=
  (1 <=? n)%nat && (n <=? length out)%nat &&
  (nth (n - 1) out 0 =? pec (firstn (n - 1) out)) && (pec (firstn n out) =? 0).

Definition c03_step (o : op) (x : obs) : sv :=
  match o, x with
  | OEncode _ id _ _ _, XEnc (Some n) out =>
      {| s_o := pec_ok n out; s_kf := 0; s_nontrivial := true; s_tag := id |}
  | _, _ => sv_triv
  end.
