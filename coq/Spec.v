(* Spec.v — independent, readable specifications (DSP0236/DSP0237 layouts as the property statements give
   them) and the executable property oracles.
   An oracle is the statement of a property's theorem as a boolean function of what an implementation
   (or the model) produced; props/Cnn.v proves it true of the model's output for every input, the
   correspondence check runs it on the Rust library's output. *)
Require Import Base Crc Bitfield Headers Encode Decode Process Ops.
Open Scope N_scope.

(* configuration of a context: MCTPSMBusContext::new(addr, &msg_types, &vendor_ids) *)
Record config := { g_addr : N; g_msg_types : list N; g_vendor_ids : list vendor_id }.
Definition ctx_of (g : config) : ctx := ctx_new (g_addr g) (g_msg_types g) (g_vendor_ids g).

(* per-step judgement: does the statement hold of this observation (s_o); the known-finding class of the
   step's input (0 = none); whether the step gave the oracle anything to decide; a coverage tag *)
Record sv := { s_o : bool; s_kf : N; s_nontrivial : bool; s_tag : N }.
Definition sv_triv : sv := {| s_o := true; s_kf := 0; s_nontrivial := false; s_tag := 0 |}.
Definition sv_of (o : bool) (tag : N) : sv := {| s_o := o; s_kf := 0; s_nontrivial := true; s_tag := tag |}.
Definition sv_kf (o : bool) (kf tag : N) : sv := {| s_o := o; s_kf := kf; s_nontrivial := true; s_tag := tag |}.

(* what an oracle remembers from earlier steps of the case *)
Record ost := {
  os_eids : N * N;                                  (* both get_eid() values after the previous step *)
  os_last_enc : option (op * nat * list N);         (* last successful encode: the call, n, buffer afterwards *)
  os_last_dec : option (list N * obs);              (* last decode_packet call: input and observation *)
  os_uuid : list N;                                 (* the UUID most recently installed (zeros before any) *)
  os_spec_eid : N                                   (* C13's abstract machine: the last assigned EID *)
}.

(* ================================================================ packets, as the standards lay them out *)
Definition last_byte (p : list N) : N := nth (length p - 1) p 0.
Definition all_but_last (p : list N) : list N := firstn (length p - 1) p.
Definition sub (p : list N) (off len : nat) : list N := firstn len (skipn off p).

(* DSP0237 framing + DSP0236 transport header + message type byte + body + PEC *)
Definition spec_prefix (src dst mt : N) (body : list N) : list N :=
  [ (dst mod 128) * 2;                 (* destination slave address, R/W# = 0 *)
    15;                                (* command code: MCTP over SMBus *)
    N.of_nat (length body + 6);        (* byte count: everything after this byte up to, excluding, the PEC *)
    (src mod 128) * 2 + 1;             (* source slave address, bit 0 = 1 *)
    1;                                 (* reserved 0000, header version 0001 *)
    dst;                               (* destination endpoint ID *)
    src;                               (* source endpoint ID *)
    200;                               (* SOM 1, EOM 1, packet sequence 00, tag owner 1, message tag 000 *)
    mt ] ++ body.                      (* IC 0 + 7-bit message type, then the message body *)
Definition spec_packet (src dst mt : N) (body : list N) : list N :=
  let pre := spec_prefix src dst mt body in pre ++ [pec pre].

(* ---------------- what each encoder is asked to encode ---------------- *)
Definition arg (a : list N) (i : nat) : N := nth i a 0.
Definition larg (ls : list (list N)) (i : nat) : list N := nth i ls [].

(* destination named by the caller *)
Definition enc_dest (request_half : bool) (id : N) (a : list N) : N :=
  if (30 <=? id) || request_half then arg a 0 else arg a 1.

(* DSP0236 control requests: Some (command code, parameters) or None when the API documents the arguments
   as invalid.  id numbers the request encoders as in Ops.encode_call. *)
Definition spec_request (id : N) (a : list N) (ls : list (list N)) : option (N * list N) :=
  match id with
  | 1 => if (arg a 2 =? 0) || (arg a 2 =? 255) then None
         else Some (1, [arg a 1; arg a 2])                       (* Set Endpoint ID: operation, EID *)
  | 2 => Some (2, [])                                            (* Get Endpoint ID *)
  | 3 => Some (3, [])                                            (* Get Endpoint UUID *)
  | 4 => Some (4, [arg a 1])                                     (* Get MCTP Version Support: type number *)
  | 5 => Some (5, [])                                            (* Get Message Type Support *)
  | 6 => Some (6, [arg a 1])                                     (* Get Vendor Defined Message Support: selector *)
  | 7 => Some (7, [arg a 1])                                     (* Resolve Endpoint ID: target EID *)
  | 8 => Some (8, [arg a 1; arg a 2; arg a 3])                   (* Allocate Endpoint IDs: op, pool size, first EID *)
  | 9 => if (8 <=? length ls)%nat then None
         else Some (9, N.of_nat (length ls) :: concat ls)        (* Routing Information Update: count, entries *)
  | 10 => Some (10, [arg a 1])                                   (* Get Routing Table Entries: entry handle *)
  | 11 => Some (11, [])                                          (* Prepare for Endpoint Discovery *)
  | 12 => Some (12, [])                                          (* Endpoint Discovery *)
  | 13 => Some (13, [])                                          (* Discovery Notify *)
  | 14 => Some (14, [])                                          (* Get Network ID *)
  | 15 => Some (15, [arg a 1; arg a 2])                          (* Query Hop: target EID, message type *)
  | 16 => Some (16, larg ls 0 ++ [arg a 1])                      (* Resolve UUID: UUID, entry handle *)
  | 17 => Some (17, [])                                          (* Query rate limit *)
  | _ => None
  end.

(* DSP0236 control responses: (command code, completion code, fields after it for Success) or None for
   documented-invalid arguments.  eid is the endpoint's current EID. *)
Definition spec_response (id : N) (a : list N) (ls : list (list N)) (eid : N) : option (N * N * list N) :=
  let cc := arg a 0 in
  match id with
  | 1 => Some (1, cc, [arg a 2 * 16 + arg a 3; eid; 0])          (* assignment status[5:4] | allocation[1:0]; EID; pool 0 *)
  | 2 => Some (2, cc, [eid; arg a 2 * 16 + arg a 3; N.b2n (negb (arg a 4 =? 0))])  (* EID; type[5:4] | id type[1:0]; fairness *)
  | 3 => Some (3, cc, larg ls 0)                                  (* UUID *)
  | 4 => Some (4, cc, [1; 241; 243; 241; 0])                      (* one entry: 1.3.1 *)
  | 5 => if (30 <? length (larg ls 0))%nat then None
         else Some (5, cc, N.of_nat (length (larg ls 0)) :: larg ls 0)   (* count, types *)
  | 6 => Some (6, cc, arg a 2 :: larg ls 0)                       (* next selector, vendor ID field *)
  | _ => None
  end.

(* the whole message an encoder call stands for: Some (message type, body after the type byte) *)
Definition spec_message (request_half : bool) (id : N) (a : list N) (ls : list (list N)) (eid : N)
  : option (N * list N) :=
  let hdr := if arg a 1 =? 0 then [] else larg ls 0 in
  match id with
  | 30 => Some (0, hdr ++ larg ls 1)
  | 31 => Some (126, hdr ++ larg ls 1)
  | 32 => Some (arg a 2 mod 128, hdr ++ larg ls 1)
  | 33 => Some (127, hdr ++ larg ls 1)
  | _ =>
    if request_half then
      if id =? 20 then
        let d := arg a 2 in
        if arg a 1 =? 0 then Some (126, [(d / 256) mod 256; d mod 256] ++ larg ls 0)
        else if arg a 1 =? 1 then
          Some (127, [(d / 16777216) mod 256; (d / 65536) mod 256; (d / 256) mod 256; d mod 256] ++ larg ls 0)
        else None
      else
        match spec_request id a ls with
        | Some (code, params) => Some (0, [128; code] ++ params)           (* Rq 1, D 0, rsvd 0, instance 0 *)
        | None => None
        end
    else
      match spec_response id a ls eid with
      | Some (code, cc, fields) => Some (0, [0; code; cc] ++ fields)       (* Rq 0, D 0, rsvd 0, instance 0 *)
      | None => None
      end
  end.

(* is (half, id) one of the encoders at all *)
Definition known_encoder (request_half : bool) (id : N) : bool :=
  ((30 <=? id) && (id <=? 33)) ||
  (if request_half then ((1 <=? id) && (id <=? 17)) || (id =? 20) else (1 <=? id) && (id <=? 6)).

(* the SMBus frame limit: destination, command, count, 255 counted bytes, PEC *)
Definition fits_frame (body : list N) : bool := (length body + 10 <=? 259)%nat.

(* ================================================================ C03 *)
(* "The last byte of every packet the library encodes is the SMBus PEC of all preceding bytes;
    equivalently the CRC-8 of the whole encoded packet is zero." *)
Definition pec_ok (n : nat) (out : list N) : bool :=
  (1 <=? n)%nat && (n <=? length out)%nat &&
  (nth (n - 1) out 0 =? pec (firstn (n - 1) out)) && (pec (firstn n out) =? 0).

Definition c03_step (o : op) (x : obs) : sv :=
  match o, x with
  | OEncode _ id _ _ _, XEnc (Some n) out => sv_of (pec_ok n out) id
  | OProcess _ _, XProcess (inl (_, Some n)) out => sv_of (pec_ok n out) 100    (* the response the processor encodes *)
  | _, _ => sv_triv
  end.

(* ================================================================ C04 *)
(* framing bytes, byte count, reported length, length probe on every prefix, oversize refused *)
Definition c04_step (g : config) (s : ost) (o : op) (x : obs) : sv :=
  match o, x with
  | OEncode h id a ls buf, XEnc (Some n) out =>
      let dst := enc_dest h id a in
      sv_of ((list_eqb (firstn 4 out) [(dst mod 128) * 2; 15; N.of_nat (n - 4); (g_addr g mod 128) * 2 + 1])
             && (4 <=? n)%nat && (n <=? 259)%nat && (n <=? length out)%nat) id
  | OEncode h id a ls buf, XEnc None out =>
      (* a refusal is fine for C04; what matters is the oversize clause below *)
      sv_triv
  | OGetLength p, XLen r =>
      match os_last_enc s with
      | Some (_, n, out) =>
          if (3 <=? length p)%nat && (length p <=? n)%nat && list_eqb p (firstn (length p) out)
          then sv_of (match r with inl m => (m =? n)%nat | inr _ => false end) 100
          else sv_triv
      | None => sv_triv
      end
  | OGetLength p, _ =>
      match os_last_enc s with
      | Some (_, n, out) =>
          if (3 <=? length p)%nat && (length p <=? n)%nat && list_eqb p (firstn (length p) out)
          then sv_of false 100 else sv_triv
      | None => sv_triv
      end
  | OHdr 11 addr _ dst, XBytes hb =>
      (* generate_smbus_header on a context of address addr, destination dst *)
      if (addr <? 256) && (dst <? 256)
      then sv_of (list_eqb hb [(dst mod 128) * 2; 15; 0; (addr mod 128) * 2 + 1]) 300 else sv_triv
  | _, _ => sv_triv
  end.
(* oversize: a message that does not fit the frame must be refused, never encoded with a truncated count *)
Definition c04_oversize (s : ost) (o : op) (x : obs) : sv :=
  match o with
  | OEncode h id a ls buf =>
      if known_encoder h id then
        match spec_message h id a ls (snd (os_eids s)) with
        | Some (_, body) =>
            if fits_frame body then sv_triv
            else sv_of (match x with XEnc None out => list_eqb out buf | _ => false end) 200
        | None => sv_triv
        end
      else sv_triv
  | _ => sv_triv
  end.
Definition sv_and (a b : sv) : sv :=
  {| s_o := s_o a && s_o b; s_kf := if s_kf a =? 0 then s_kf b else s_kf a;
     s_nontrivial := s_nontrivial a || s_nontrivial b; s_tag := if s_nontrivial a then s_tag a else s_tag b |}.

(* ================================================================ C05 *)
(* bytes 4-8: version, destination EID, source EID = own address, flags C8, IC 0 + message type *)
Definition c05_step (g : config) (s : ost) (o : op) (x : obs) : sv :=
  match o, x with
  | OEncode h id a ls buf, XEnc (Some n) out =>
      match spec_message h id a ls (snd (os_eids s)) with
      | Some (mt, _) =>
          (* version 1 / reserved 0; destination EID; source EID = own address; SOM 1, EOM 1, sequence 0 — and, except
             for control responses, tag owner 1 with tag 0; IC 0 + message type *)
          sv_of (list_eqb (sub out 4 3) [1; enc_dest h id a; g_addr g]
                 && (if negb h && (id <=? 6) then nth 7 out 0 / 16 =? 12 else nth 7 out 0 =? 200)
                 && (nth 8 out 0 =? mt) && (mt <? 128)) id
      | None => sv_triv            (* documented-invalid arguments: C16's business *)
      end
  | OHdr 10 addr _ dst, XBytes hb =>
      (* generate_transport_header on a context of address addr, destination dst *)
      if (addr <? 256) && (dst <? 256) then sv_of (list_eqb hb [1; dst; addr; 200]) 300 else sv_triv
  | _, _ => sv_triv
  end.

(* ================================================================ C06 *)
(* request bodies: 0x80, DSP0236 command code, parameters in specification order, nothing else *)
Definition c06_step (s : ost) (o : op) (x : obs) : sv :=
  match o, x with
  | OEncode true id a ls buf, XEnc (Some n) out =>
      if (1 <=? id) && (id <=? 17) then
        match spec_request id a ls with
        | Some (code, params) =>
            let others := (10 <=? n)%nat && (n <=? length out)%nat && (nth 9 out 0 =? 128)
                          && list_eqb (sub out 11 (n - 12)) params && (12 <=? n)%nat in
            if others then sv_kf (nth 10 out 0 =? code) (if id =? 15 then 601 else 0) id
            else sv_of false id
        | None => sv_triv              (* documented-invalid arguments were encoded: C16's business *)
        end
      else sv_triv
  | _, _ => sv_triv
  end.

(* ================================================================ C07 *)
(* response bodies: 0x00, command code, completion code; for Success the DSP0236 fields *)
Definition c07_step (s : ost) (o : op) (x : obs) : sv :=
  match o, x with
  | OEncode false id a ls buf, XEnc (Some n) out =>
      if (1 <=? id) && (id <=? 6) then
        match spec_response id a ls (snd (os_eids s)) with
        | Some (code, cc, fields) =>
            sv_of ((10 <=? n)%nat && (n <=? length out)%nat &&
                   (nth 9 out 0 <? 32) &&                         (* Rq 0, D 0, rsvd 0; the instance ID is C12's business *)
                   list_eqb (sub out 10 2) [code; cc] &&
                   (negb (cc =? 0) || list_eqb (sub out 12 (n - 13)) fields)) id
        | None => sv_of false id
        end
      else sv_triv
  | _, _ => sv_triv
  end.

(* ================================================================ C08 *)
(* vendor-defined and SPDM framing: type byte, vendor ID most significant byte first, message verbatim;
   any other format refused *)
Definition c08_step (s : ost) (o : op) (x : obs) : sv :=
  match o with
  | OEncode h id a ls buf =>
      if (h && (id =? 20)) || (id =? 31) || (id =? 32) || (id =? 33) then
        match spec_message h id a ls 0, x with
        | Some (mt, body), XEnc (Some n) out =>
            sv_of ((10 <=? n)%nat && (n <=? length out)%nat && list_eqb (sub out 8 (n - 9)) (mt :: body)) id
        | Some (mt, body), XEnc None out =>
            (* a body the frame can carry, into a buffer that can hold it, must be encoded, not refused *)
            if fits_frame body && (10 + length body <=? length buf)%nat then sv_of false id else sv_triv
        | Some (mt, body), _ => sv_triv
        | None, XEnc None out => sv_of (list_eqb out buf) id        (* other formats: refused *)
        | None, _ => sv_of false id
        end
      else sv_triv
  | _ => sv_triv
  end.

(* ================================================================ C16 *)
(* exact bytes written, later bytes untouched, independence of prior contents and spare capacity, no panic;
   documented refusals leave the buffer untouched; everything else that fits succeeds *)
Definition same_call (o1 o2 : op) : bool :=
  match o1, o2 with
  | OEncode h1 i1 a1 l1 _, OEncode h2 i2 a2 l2 _ =>
      Bool.eqb h1 h2 && (i1 =? i2) && list_eqb a1 a2 && list_eqb (concat l1) (concat l2)
      && list_eqb (map (fun l => N.of_nat (length l)) l1) (map (fun l => N.of_nat (length l)) l2)
  | _, _ => false
  end.
Definition c16_step (s : ost) (o : op) (x : obs) : sv :=
  match o with
  | OEncode h id a ls buf =>
      if known_encoder h id then
        match spec_message h id a ls (snd (os_eids s)) with
        | None =>   (* documented-invalid: error, buffer untouched *)
            sv_of (match x with XEnc None out => list_eqb out buf | _ => false end) id
        | Some (_, body) =>
            if fits_frame body then
              let n' := (length body + 10)%nat in
              if (n' <=? length buf)%nat then
                match x with
                | XEnc (Some n) out =>
                    sv_of ((n <=? length out)%nat && (length out =? length buf)%nat &&
                           list_eqb (skipn n out) (skipn n buf) &&
                           match os_last_enc s with
                           | Some (o', m, out') =>
                               if same_call o o' then (m =? n)%nat && list_eqb (firstn n out) (firstn n out') else true
                           | None => true
                           end) id
                | _ => sv_of false id     (* refused or panicked although it fits *)
                end
              else sv_triv                (* buffer shorter than the packet: outside the claim *)
            else sv_of (match x with XEnc None out => list_eqb out buf | _ => false end) id
        end
      else sv_triv
  | _ => sv_triv
  end.

(* ================================================================ C17 *)
(* the length probe: >= 3 bytes: byte[2]+4 iff byte[1] = 0x0F, else error Invalid; < 3 bytes: rejected *)
Definition c17_step (o : op) (x : obs) : sv :=
  match o with
  | OGetLength p =>
      if (3 <=? length p)%nat then
        sv_of (match x with
               | XLen (inl n) => (nth 1 p 0 =? 15) && (n =? N.to_nat (nth 2 p 0%N) + 4)%nat
               | XLen (inr (mt, _)) => negb (nth 1 p 0 =? 15) && msg_type_eqb mt MInvalid
               | _ => false
               end) (if nth 1 p 0 =? 15 then 1 else 2)
      else sv_of (match x with XLen (inr _) => true | _ => false end) 3
  | _ => sv_triv
  end.

(* ================================================================ C19 *)
Definition defined_cmd (b : N) : bool := b <=? 20.
Definition defined_mt (b : N) : bool := (b =? 0) || (b =? 5) || (b =? 6) || (b =? 126) || (b =? 127).
Definition c19_step (o : op) (x : obs) : sv :=
  match o with
  | OConv 0 b => sv_of (match x with XVal v => v =? (if defined_mt b then b else 255) | _ => false end) 0
  | OConv 1 b => sv_of (match x with XVal v => v =? (if defined_cmd b then b else 255) | _ => false end) 1
  | OConv 2 b => if b <=? 5 then sv_of (match x with XVal v => v =? b | _ => false end) 2 else sv_triv
  | _ => sv_triv
  end.

(* ================================================================ decoding: well-formed packets (C09) *)
Definition supported_type (b : N) : bool := (b =? 0) || (b =? 5) || (b =? 6) || (b =? 126) || (b =? 127).
(* transport header version 1 with zero reserved bits; IC clear and a supported message type *)
Definition header_ok (p : list N) : bool := (nth 4 p 0 =? 1) && supported_type (nth 8 p 0).
Definition pec_good (p : list N) : bool := last_byte p =? pec (all_but_last p).

(* the fixed data lengths the property names (0 = no fixed length) *)
Definition req_fixed_len (cmd : N) : nat :=
  match cmd with 1 => 2%nat | 4 => 1%nat | 6 => 1%nat | 7 => 1%nat | 8 => 3%nat | _ => 0%nat end.
Definition resp_fixed_len (cmd : N) : nat :=
  match cmd with 1 => 3%nat | 3 => 16%nat | 4 => 5%nat | _ => 0%nat end.
Definition len_ok (fixed actual : nat) : bool := (fixed =? 0)%nat || (actual =? fixed)%nat.

Definition is_request (p : list N) : bool := 128 <=? nth 9 p 0.     (* Rq bit *)
Definition ctl_cmd (p : list N) : N := nth 10 p 0.
Definition ctl_cc (p : list N) : N := nth 11 p 0.
(* header length in front of the payload: 9 for vendor/SPDM, 11 for control requests, 12 for responses *)
Definition hdr_len (p : list N) : nat :=
  if nth 8 p 0 =? 0 then (if is_request p then 11 else 12)%nat else 9%nat.
Definition payload_len (p : list N) : nat := (length p - 1 - hdr_len p)%nat.

Definition wf_packet (p : list N) : bool :=
  header_ok p && pec_good p &&
  (if nth 8 p 0 =? 0 then
     if is_request p then len_ok (req_fixed_len (ctl_cmd p)) (payload_len p)
     else (ctl_cc p =? 0) && len_ok (resp_fixed_len (ctl_cmd p)) (payload_len p)
   else true).

(* the classes of input on which the decoder is known to panic (C10 findings D1-D9); 0 = none.
   Each is a decidable predicate on the bytes alone. *)
Definition decode_panic_class (p : list N) : N :=
  let len := length p in
  if (len <? 8)%nat || ((len =? 8)%nat && (nth 4 p 0 =? 1)) then 1001          (* D1 too short for the headers *)
  else if (len =? 8)%nat then 0
  else if negb (header_ok p) then 0
  else if negb (nth 8 p 0 =? 0) then
    if pec_good p && (len =? 9)%nat then 1002 else 0                             (* D2 nothing but headers + matching PEC *)
  else if (len <? 11)%nat then 1003                                              (* D3 control packet of 9-10 bytes *)
  else if is_request p then
    if 9 <=? ctl_cmd p then 1004                                                 (* D4 request, command >= 9 *)
    else if (len =? 11)%nat then 1005 else 0                                     (* D5 11-byte request *)
  else
    if (len =? 11)%nat then 1006                                                 (* D6 11-byte response *)
    else if negb (ctl_cc p =? 0) then
      if 5 <? ctl_cc p then 1007 else 0                                          (* D7 completion code > 5 *)
    else if (ctl_cmd p =? 7) || (10 <=? ctl_cmd p) then 1008                     (* D8 Success response to cmd 7 / >= 10 *)
    else if (len =? 12)%nat then 1009 else 0.                                    (* D9 12-byte Success response *)

(* responses whose expected length the library gets wrong w.r.t. DSP0236 (outside C09's claim) *)
Definition c09_excluded_response (p : list N) : bool :=
  (nth 8 p 0 =? 0) && negb (is_request p) &&
  ((ctl_cmd p =? 2) || (ctl_cmd p =? 8) || (ctl_cmd p =? 9)).

(* a rejection is truthful when the named condition really holds of the input *)
Definition truthful (p : list N) (e : derror) : bool :=
  match e with
  | (mt, DUnknown) => msg_type_eqb mt MInvalid && negb (header_ok p)
  | (mt, DControlMessage CEInvalidPEC) =>
      header_ok p && negb (pec_good p) && (msg_type_to_u8 mt =? nth 8 p 0)
  | (mt, DControlMessage CEInvalidRequestDataLength) =>
      header_ok p && (nth 8 p 0 =? 0) && msg_type_eqb mt MCtpControl &&
      negb (len_ok (if is_request p then req_fixed_len (ctl_cmd p) else resp_fixed_len (ctl_cmd p)) (payload_len p))
  | (mt, DControlMessage (CEUnsuccessfulCompletionCode c)) =>
      header_ok p && (nth 8 p 0 =? 0) && msg_type_eqb mt MCtpControl && negb (is_request p)
      && (ctl_cc p =? c) && negb (c =? 0)
  | (_, DControlMessage _) => false
  end.

Definition c09_step (o : op) (x : obs) : sv :=
  match o with
  | ODecode p =>
      if (length p <? 9)%nat || c09_excluded_response p then sv_triv
      else
        let k := decode_panic_class p in
        if negb (k =? 0) then sv_triv       (* C10's classes: outside C09's claim *)
        else
          sv_of (match x with
                 | XDecode (inl (mt, (off, len))) =>
                     wf_packet p && (msg_type_to_u8 mt =? nth 8 p 0) && (off =? hdr_len p)%nat && (len =? payload_len p)%nat
                 | XDecode (inr e) => negb (wf_packet p) && truthful p e
                 | _ => false            (* panic, or a context-dependent answer *)
                 end)
                (if wf_packet p then 10 + nth 8 p 0 else if header_ok p then (if pec_good p then 3 else 2) else 1)
  | _ => sv_triv
  end.

(* ================================================================ C10 *)
(* classes of accepted requests on which the request processor is known to panic (findings P2-P5) *)
Definition process_panic_class (ovf : bool) (g : config) (p : list N) : N :=
  if wf_packet p && (nth 8 p 0 =? 0) && is_request p then
    let cmd := ctl_cmd p in
    if cmd =? 0 then 1012                                               (* P2 Reserved command *)
    else if cmd =? 1 then
      (if (nth 11 p 0 =? 2) || (4 <=? nth 11 p 0) then 1013 else 0)     (* P3 Set EID operation 2 or >= 4 *)
    else if cmd =? 6 then
      (if (N.of_nat (length (g_vendor_ids g)) <=? nth 11 p 0) then 1014 else 0)   (* P4 selector >= n (incl. 0xFF) *)
    else if (cmd =? 7) || (cmd =? 8) then 1015                          (* P5 accepted Resolve EID / Allocate EIDs *)
    else 0
  else 0.

(* a validly configured context: formats PCI/IANA, at most 30 message types, 1..16 vendor sets *)
Definition valid_cfg (g : config) : bool :=
  (length (g_msg_types g) <=? 30)%nat && (1 <=? length (g_vendor_ids g))%nat && (length (g_vendor_ids g) <=? 255)%nat
  && forallb (fun v => v_format v <=? 1) (g_vendor_ids g).

Definition is_panic_obs (x : obs) : bool := match x with XPanic _ => true | _ => false end.

Definition c10_step (ovf : bool) (g : config) (o : op) (x : obs) : sv :=
  match o with
  | ODecode p => sv_kf (negb (is_panic_obs x)) (decode_panic_class p) (decode_panic_class p)
  | OGetLength p => sv_of (negb (is_panic_obs x)) 1
  | OProcess p buf =>
      if valid_cfg g && (64 <=? length buf)%nat then
        let k := decode_panic_class p in
        let k := if k =? 0 then process_panic_class ovf g p else k in
        sv_kf (negb (is_panic_obs x)) k k
      else sv_triv
  | _ => sv_triv
  end.

(* ================================================================ C01 *)
(* decode(encode(..)) = (type, payload) ; unsuccessful completion codes come back as that error *)
Definition c01_step (s : ost) (o : op) (x : obs) : sv :=
  match o, os_last_enc s with
  | ODecode p, Some (OEncode h id a ls _, n, out) =>
      if list_eqb p (firstn n out) && negb (id =? 30) && negb ((id =? 32) && negb ((arg a 2 =? 5) || (arg a 2 =? 6))) then
        match spec_message h id a ls (snd (os_eids s)) with
        | Some (mt, body) =>
            let is_ctl := mt =? 0 in
            let is_resp := is_ctl && negb h in
            let cc := arg a 0 in
            let kf := if is_ctl && h && (9 <=? nth 1 body 0) then 102       (* D-REQ-TABLE: own requests cmd >= 9 *)
                      else if is_resp && (cc =? 0) && (id =? 2) then 101   (* D-GEID-LEN: own Get EID response *)
                      else 0 in
            if is_resp && negb (cc =? 0) then
              sv_kf (match x with
                     | XDecode (inr (m, DControlMessage (CEUnsuccessfulCompletionCode c))) => msg_type_eqb m MCtpControl && (c =? cc)
                     | _ => false end) kf id
            else
              let hl := if is_ctl then (if h then 11 else 12)%nat else 9%nat in
              sv_kf (match x with
                     | XDecode (inl (m, (off, len))) =>
                         (msg_type_to_u8 m =? mt) && (off =? hl)%nat && (len =? n - 1 - hl)%nat
                         && list_eqb (sub p off len) (skipn (hl - 9) body)
                     | _ => false end) kf id
        | None => sv_triv
        end
      else sv_triv
  | _, _ => sv_triv
  end.

(* ================================================================ C02 *)
(* success only with a correct PEC; a bad PEC produces no response bytes and changes no EID *)
Definition c02_step (s : ost) (o : op) (x3 : obs3) : sv :=
  let x := fst x3 in
  match x with
  | XBad =>
      (* the harness ran the same history without the bad-PEC packets on a twin context and this
         observation differs from the twin's: a rejected packet changed a later output *)
      match o with
      | OProcess _ _ | ODecode _ | OGetLength _ | OSetEid _ _ | OSetUuid _ => sv_of false 9
      | OEncode h id _ _ _ => if known_encoder h id then sv_of false 9 else sv_triv
      | _ => sv_triv
      end
  | _ =>
  match o with
  | ODecode p =>
      if (1 <=? length p)%nat then
        if pec_good p then sv_triv
        else sv_of (match x with XDecode (inl _) => false | _ => true end) 1
      else sv_triv
  | OProcess p buf =>
      if (1 <=? length p)%nat && negb (pec_good p) then
        sv_of (match x with
               | XProcess (inl _) _ => false
               | XProcess (inr _) b => list_eqb b buf
               | XPanic b => list_eqb b buf
               | _ => false
               end && (fst (snd x3) =? fst (os_eids s)) && (snd (snd x3) =? snd (os_eids s))) 2
      else sv_triv
  | _ => sv_triv
  end
  end.

(* ================================================================ C11 *)
(* processing agrees with decoding; a response only for accepted control requests; otherwise the buffer is
   untouched, and bytes beyond the reported length always are *)
Definition c11_step (s : ost) (o : op) (x : obs) : sv :=
  match o with
  | OProcess p buf =>
      let agrees :=
          match os_last_dec s with
          | Some (p', d) =>
              if list_eqb p p' then
                match d, x with
                | XDecode (inl d1), XProcess (inl (d2, _)) _ => decoded_eqb d1 d2
                | XDecode (inr e1), XProcess (inr e2) _ => derror_eqb e1 e2
                | XPanic _, _ => true         (* decode panicked: a C10 class, nothing to agree with *)
                | _, XPanic _ => true         (* process panicked after decoding: C10 *)
                | _, _ => false
                end
              else true
          | None => true
          end in
      let accepted_request := wf_packet p && (nth 8 p 0 =? 0) && is_request p in
      let writes :=
          match x with
          | XProcess (inl (_, Some n)) b =>
              accepted_request && (length b =? length buf)%nat && list_eqb (skipn n b) (skipn n buf)
          | XProcess (inl (_, None)) b => list_eqb b buf
          | XProcess (inr _) b => list_eqb b buf
          | XPanic _ => true
          | _ => false
          end in
      sv_of (agrees && writes) (nth 8 p 0)
  | _ => sv_triv
  end.

(* ================================================================ responses to accepted requests (C12-C15) *)
(* the commands the responder answers *)
Definition answerable (cmd : N) : bool := (1 <=? cmd) && (cmd <=? 6).
Definition accepted_request (p : list N) : bool :=
  wf_packet p && (nth 8 p 0 =? 0) && is_request p && (12 <=? length p)%nat.   (* 12 = headers + control header + PEC *)
Definition instance_of (p : list N) : N := nth 9 p 0 mod 32.

Definition enc_vendor_set (v : vendor_id) : list N :=
  if v_format v =? 0
  then [0; (v_data v / 256) mod 256; v_data v mod 256; (v_numeric v / 256) mod 256; v_numeric v mod 256]
  else [1; (v_data v / 16777216) mod 256; (v_data v / 65536) mod 256; (v_data v / 256) mod 256; v_data v mod 256;
        (v_numeric v / 256) mod 256; v_numeric v mod 256].

(* framing, byte count, transport header of a response of n bytes from addr back to requester: SOM 1, EOM 1, sequence 0
   (tag owner / tag of a response are not pinned by the property), control message type *)
Definition resp_head_ok (r : list N) (requester addr : N) (n : nat) : bool :=
  list_eqb (firstn 7 r) [(requester mod 128) * 2; 15; N.of_nat (n - 4); (addr mod 128) * 2 + 1; 1; requester; addr]
  && (nth 7 r 0 / 16 =? 12) && (nth 8 r 0 =? 0).

(* C12: the response is a well-formed packet travelling back to the requester, same command, same instance *)
Definition c12_step (g : config) (o : op) (x : obs) : sv :=
  match o with
  | OProcess p buf =>
      if accepted_request p && answerable (ctl_cmd p) && (nth 6 p 0 =? nth 3 p 0 / 2)
         && (64 <=? length buf)%nat && (process_panic_class true g p =? 0) && valid_cfg g
         && (if ctl_cmd p =? 1 then (1 <=? nth 12 p 0) && (nth 12 p 0 <=? 254) else true) then
        match x with
        | XProcess (inl (_, Some n)) b =>
            let r := firstn n b in
            let requester := nth 6 p 0 in
            let others :=
                (13 <=? n)%nat && (n <=? length b)%nat &&
                resp_head_ok r requester (g_addr g) n
                && pec_ok n b
                && (nth 9 r 0 <? 32)                     (* Rq 0, D 0, rsvd 0 *)
                && (nth 10 r 0 =? ctl_cmd p)
                && (nth 11 r 0 <=? 5) in
            if others then sv_kf (nth 9 r 0 =? instance_of p) (if instance_of p =? 0 then 0 else 1201) (ctl_cmd p)
            else sv_of false (ctl_cmd p)
        | _ => sv_of false (ctl_cmd p)
        end
      else sv_triv
  | _ => sv_triv
  end.

(* C13: EID = last assigned; the abstract machine's state is os_spec_eid *)
Definition assigning (p : list N) : bool :=
  accepted_request p && (ctl_cmd p =? 1) && ((nth 11 p 0 =? 0) || (nth 11 p 0 =? 1)).
Definition c13_step (g : config) (s : ost) (o : op) (x3 : obs3) : sv :=
  let x := fst x3 in
  let '(er, es) := snd x3 in
  let '(er0, es0) := os_eids s in
  match o with
  | OSetEid true e => sv_of ((er =? e) && (es =? es0)) 1
  | OSetEid false e => sv_of ((es =? e) && (er =? er0)) 2
  | OProcess p buf =>
      if assigning p && (64 <=? length buf)%nat then
        let e := nth 12 p 0 in
        sv_of ((er =? e) && (es =? e) &&
               match x with
               | XProcess (inl (_, Some n)) b =>
                   (n =? 16)%nat && list_eqb (sub b 10 4) [1; 0; 0; e]     (* Set EID, Success, accepted / no pool, new EID *)
               | _ => false end) 3
      else
        let unchanged := (er =? er0) && (es =? es0) in
        if accepted_request p && (64 <=? length buf)%nat then
          if (ctl_cmd p =? 1) && (nth 11 p 0 =? 3) then
            (* Set Discovered Flag: invalid-data completion code, EID as it was *)
            sv_of (unchanged && match x with
                                | XProcess (inl (_, Some n)) b => (n =? 16)%nat && list_eqb (sub b 10 2) [1; 2] && (nth 13 b 0 =? es0)
                                | _ => false end) 4
          else if ctl_cmd p =? 2 then
            (* Get Endpoint ID reports the current EID *)
            sv_of (unchanged && match x with
                                | XProcess (inl (_, Some n)) b => (n =? 16)%nat && list_eqb (sub b 10 3) [2; 0; es0]
                                | _ => false end) 5
          else sv_of unchanged 6
        else if assigning p then sv_of ((er =? nth 12 p 0) && (es =? nth 12 p 0)) 9   (* assigned even if the short buffer makes the answer fail *)
        else sv_of unchanged 7
  | _ => sv_of ((er =? er0) && (es =? es0)) 8
  end.

(* C14: vendor ID set i, next selector i+1 or 0xFF *)
Definition c14_step (g : config) (o : op) (x : obs) : sv :=
  match o with
  | OProcess p buf =>
      if accepted_request p && (ctl_cmd p =? 6) && valid_cfg g && (64 <=? length buf)%nat then
        let i := nth 11 p 0 in
        let n := N.of_nat (length (g_vendor_ids g)) in
        if i <? n then
          match nth_error (g_vendor_ids g) (N.to_nat i) with
          | Some v =>
              let field := enc_vendor_set v in
              let next := if i + 1 =? n then 255 else i + 1 in
              sv_of (match x with
                     | XProcess (inl (_, Some m)) b =>
                         (m =? 14 + length field)%nat && list_eqb (sub b 10 (3 + length field)) ([6; 0; next] ++ field)
                     | _ => false end) i
          | None => sv_triv
          end
        else sv_triv
      else sv_triv
  | _ => sv_triv
  end.

(* C15: message types, UUID, version *)
Definition c15_step (g : config) (s : ost) (o : op) (x : obs) : sv :=
  match o with
  | OProcess p buf =>
      if accepted_request p && valid_cfg g && (64 <=? length buf)%nat then
        let cmd := ctl_cmd p in
        let want :=
            if cmd =? 5 then Some ([5; 0; N.of_nat (length (g_msg_types g))] ++ g_msg_types g)
            else if cmd =? 3 then Some ([3; 0] ++ os_uuid s)
            else if cmd =? 4 then Some [4; 0; 1; 241; 243; 241; 0]
            else None in
        match want with
        | Some body =>
            sv_of (match x with
                   | XProcess (inl (_, Some m)) b => (m =? 11 + length body)%nat && list_eqb (sub b 10 (length body)) body
                   | _ => false end) cmd
        | None => sv_triv
        end
      else sv_triv
  | _ => sv_triv
  end.

(* ================================================================ C18 *)
(* documented wire layout of every field: (byte index, shift within the byte, width); the two wide fields
   are big-endian over the whole buffer *)
Definition field_layout (fld : N) : option (nat * N * N) :=
  match fld with
  | 0 => Some (0%nat, 4, 4) | 1 => Some (0%nat, 0, 4) | 2 => Some (1%nat, 0, 8) | 3 => Some (2%nat, 0, 8)
  | 4 => Some (3%nat, 7, 1) | 5 => Some (3%nat, 6, 1) | 6 => Some (3%nat, 4, 2) | 7 => Some (3%nat, 3, 1)
  | 8 => Some (3%nat, 0, 3)
  | 9 => Some (0%nat, 7, 1) | 10 => Some (0%nat, 0, 7)
  | 11 => Some (0%nat, 7, 1) | 12 => Some (0%nat, 6, 1) | 13 => Some (0%nat, 5, 1) | 14 => Some (0%nat, 0, 5)
  | 15 => Some (1%nat, 0, 8)
  | 16 => Some (0%nat, 0, 1) | 17 => Some (0%nat, 1, 7) | 18 => Some (1%nat, 0, 8) | 19 => Some (2%nat, 0, 8)
  | 20 => Some (3%nat, 0, 1) | 21 => Some (3%nat, 1, 7)
  | 22 => Some (0%nat, 0, 4) | 23 => Some (0%nat, 4, 4) | 24 => Some (1%nat, 0, 8) | 25 => Some (2%nat, 0, 8)
  | 26 => Some (3%nat, 0, 8)
  | _ => None
  end.
Definition be_value (l : list N) : N := fold_left (fun a b => a * 256 + b) l 0.
Fixpoint be_bytes (k : nat) (v : N) : list N :=
  match k with O => [] | S k' => be_bytes k' (v / 256) ++ [v mod 256] end.

Definition spec_get (fld : N) (raw : list N) : N :=
  match field_layout fld with
  | Some (k, sh, w) => (nth k raw 0 / 2 ^ sh) mod 2 ^ w
  | None => be_value raw
  end.
Definition spec_set (fld : N) (raw : list N) (v : N) : list N :=
  match field_layout fld with
  | Some (k, sh, w) =>
      upd k (fun b => b - ((b / 2 ^ sh) mod 2 ^ w) * 2 ^ sh + (v mod 2 ^ w) * 2 ^ sh) raw
  | None => be_bytes (length raw) v
  end.

Definition c18_step (o : op) (x : obs) : sv :=
  match o with
  | OHdr 0 fld raw v =>
      if (fld <=? 28) && (length raw =? struct_len fld)%nat
      then sv_of (match x with XVal r => r =? spec_get fld raw | _ => false end) fld else sv_triv
  | OHdr 1 fld raw v =>
      if (fld <=? 28) && (length raw =? struct_len fld)%nat
      then sv_of (match x with XBytes r => list_eqb r (spec_set fld raw v) | _ => false end) (100 + fld) else sv_triv
  | OHdr 12 fld raw v =>
      (* a view over a longer buffer: the struct-sized prefix is what is read / rewritten, the rest is untouched *)
      if (fld <=? 28) && (struct_len fld <=? length raw)%nat
      then sv_of (match x with XVal r => r =? spec_get fld (firstn (struct_len fld) raw) | _ => false end) (300 + fld)
      else sv_triv
  | OHdr 13 fld raw v =>
      if (fld <=? 28) && (struct_len fld <=? length raw)%nat
      then sv_of (match x with
                  | XBytes r => list_eqb r (spec_set fld (firstn (struct_len fld) raw) v ++ skipn (struct_len fld) raw)
                  | _ => false end) (400 + fld)
      else sv_triv
  | OHdr 2 _ raw v =>
      (* transport header from bytes: succeeds exactly when reserved bits are zero and the version matches *)
      if (length raw =? 4)%nat then
        sv_of (match x with XVal r => r =? N.b2n ((nth 0 raw 0 / 16 =? 0) && (nth 0 raw 0 mod 16 =? v mod 256)) | _ => false end) 200
      else sv_triv
  | OHdr 3 _ raw _ =>
      (* message body header from bytes: integrity bit clear and a supported type *)
      if (length raw =? 1)%nat then
        sv_of (match x with XVal r => r =? N.b2n ((nth 0 raw 0 <? 128) && supported_type (nth 0 raw 0)) | _ => false end) 201
      else sv_triv
  | _ => sv_triv
  end.

(* ================================================================ encoders refine the specification (C16 core) *)
(* the argument shapes the API documents: u8 / u16 / u32 values, enum discriminants, 16-byte UUIDs,
   4-byte routing entries, vendor ID fields of at most 7 bytes *)
Definition u8s (l : list N) : bool := forallb (fun x => x <? 256) l.
Definition ok_gen (a : list N) : bool := (arg a 0 <? 256) && (arg a 2 <? 256).
Definition ok_req (a : list N) : bool := (arg a 0 <? 256) && (arg a 1 <? 256) && (arg a 2 <? 256) && (arg a 3 <? 256).
Definition ok_req20 (a : list N) : bool := (arg a 0 <? 256) && (arg a 1 <? 256) && (arg a 2 <? 4294967296).
Definition ok_resp (a : list N) : bool := (arg a 0 <=? 5) && (arg a 1 <? 256).
Definition args_okb (request_half : bool) (id : N) (a : list N) (ls : list (list N)) : bool :=
  forallb u8s ls &&
  (if 30 <=? id then ok_gen a
   else if request_half then
     (if id =? 20 then ok_req20 a
      else ok_req a &&
           (if id =? 9 then forallb (fun e => (length e =? 4)%nat) ls
            else if id =? 16 then (length (larg ls 0) =? 16)%nat else true))
   else
     ok_resp a &&
     match id with
     | 1 => (arg a 2 <=? 1) && (arg a 3 <=? 2)
     | 2 => (arg a 2 <=? 1) && (arg a 3 <=? 3)
     | 3 => (length (larg ls 0) =? 16)%nat
     | 6 => (arg a 2 <? 256) && (length (larg ls 0) <=? 7)%nat
     | _ => true
     end).

(* what an encoder call must do to a buffer, given the message it stands for *)
Definition enc_spec (addr dest : N) (m : option (N * list N)) (buf : list N) (r : list N * res (option nat)) : Prop :=
  match m with
  | None => r = (buf, Val None)
  | Some (mt, body) =>
      if (259 <? 10 + length body)%nat then r = (buf, Val None)
      else if (10 + length body <=? length buf)%nat
           then r = (spec_packet addr dest mt body ++ skipn (10 + length body) buf, Val (Some (10 + length body)%nat))
           else forall m out, r <> (out, Val (Some m))       (* a buffer shorter than the packet: never a success *)
  end.
