(* Process.v — the context (MCTPSMBusContext), accessors, set_uuid, process_packet.  MODEL FILE. *)
Require Import Base Crc Bitfield Headers Encode Decode.
Open Scope N_scope.

(* vendor_packets.rs:5-16 *)
Record vendor_id := { v_format : N; v_data : N; v_numeric : N }.

(* smbus.rs:172-194; eid_req / eid_resp are the two Cell<u8> of the request / response halves *)
Record ctx := {
  c_addr : N;
  c_eid_req : N;
  c_eid_resp : N;
  c_uuid : list N;
  c_msg_types : list N;
  c_selector : N;
  c_vendor_ids : list vendor_id
}.

Definition ctx_new (addr : N) (msg_types : list N) (vendor_ids : list vendor_id) : ctx :=
  {| c_addr := addr; c_eid_req := 0; c_eid_resp := 0; c_uuid := zeros 16;
     c_msg_types := msg_types; c_selector := 0; c_vendor_ids := vendor_ids |}.

Definition set_eid_req (c : ctx) (e : N) : ctx :=
  {| c_addr := c_addr c; c_eid_req := e; c_eid_resp := c_eid_resp c; c_uuid := c_uuid c;
     c_msg_types := c_msg_types c; c_selector := c_selector c; c_vendor_ids := c_vendor_ids c |}.
Definition set_eid_resp (c : ctx) (e : N) : ctx :=
  {| c_addr := c_addr c; c_eid_req := c_eid_req c; c_eid_resp := e; c_uuid := c_uuid c;
     c_msg_types := c_msg_types c; c_selector := c_selector c; c_vendor_ids := c_vendor_ids c |}.
Definition set_selector (c : ctx) (s : N) : ctx :=
  {| c_addr := c_addr c; c_eid_req := c_eid_req c; c_eid_resp := c_eid_resp c; c_uuid := c_uuid c;
     c_msg_types := c_msg_types c; c_selector := s; c_vendor_ids := c_vendor_ids c |}.
(* smbus.rs:210-212: self.uuid.copy_from_slice(uuid) panics unless uuid.len() == 16 *)
Definition set_uuid (c : ctx) (u : list N) : ctx * res unit :=
  if (length u =? 16)%nat then
    ({| c_addr := c_addr c; c_eid_req := c_eid_req c; c_eid_resp := c_eid_resp c; c_uuid := u;
        c_msg_types := c_msg_types c; c_selector := c_selector c; c_vendor_ids := c_vendor_ids c |}, Val tt)
  else (c, Panic PIndex).

(* Result<usize,()>::unwrap() *)
Definition unwrap_len (x : list N * res (option nat)) : list N * res nat :=
  match x with
  | (b, Val (Some n)) => (b, Val n)
  | (b, Val None) => (b, Panic PUnwrap)
  | (b, Panic k) => (b, Panic k)
  end.

(* the outcome of process_packet *)
Definition process_ok : Type := (decoded * option nat)%type.
(* state threaded through process_packet: context and response buffer; both survive a panic *)
Definition pstate : Type := (ctx * list N)%type.

(* smbus.rs:481-637: the dispatch on the command code of an accepted control request *)
Definition dispatch_request (ovf : bool) (c : ctx) (buf : list N) (cmd : N) (src_eid : N)
           (payload : list N) : pstate * res nat :=
  let respond (c' : ctx) (w : W (option nat)) : pstate * res nat :=
      let '(b, r) := unwrap_len (w buf) in ((c', b), r) in
  match cmd_from_u8 cmd with
  | 0 => ((c, buf), Panic PUnreach)
  | 1 =>
      match index payload 0 with
      | Panic k => ((c, buf), Panic k)
      | Val op =>
          if (op =? 0) || (op =? 1) then
            match index payload 1 with
            | Panic k => ((c, buf), Panic k)
            | Val e =>
                let c' := set_eid_req (set_eid_resp c e) e in
                respond c' (resp_set_endpoint_id ovf (c_addr c') (c_eid_resp c') 0 src_eid 0 0)
            end
          else if op =? 2 then ((c, buf), Panic PUnimpl)
          else if op =? 3 then
            respond c (resp_set_endpoint_id ovf (c_addr c) (c_eid_resp c) 2 src_eid 0 0)
          else ((c, buf), Panic PUnreach)
      end
  | 2 => respond c (resp_get_endpoint_id ovf (c_addr c) (c_eid_resp c) 0 src_eid 0 0 false)
  | 3 => respond c (resp_get_endpoint_uuid ovf (c_addr c) 0 src_eid (c_uuid c))
  | 4 => respond c (resp_get_mctp_version_support ovf (c_addr c) 0 src_eid)
  | 5 => respond c (resp_get_message_type_suport ovf (c_addr c) 0 src_eid (c_msg_types c))
  | 6 =>
      match index payload 0 with
      | Panic k => ((c, buf), Panic k)
      | Val sel =>
          match u8_add ovf sel 1 with
          | Panic k => ((c, buf), Panic k)
          | Val s1 =>
              let n8 := N.of_nat (length (c_vendor_ids c)) mod 256 in
              (* the second `payload[0] + 1` (smbus.rs:571) is the same expression; it cannot fail if the first did not *)
              let c' := set_selector c (if s1 =? n8 then 255 else s1) in
              match nth_error (c_vendor_ids c') (N.to_nat sel) with
              | None => ((c', buf), Panic PIndex)
              | Some v =>
                  if v_format v =? 0 then
                    let vd := [v_format v; (v_data v / 256) mod 256; v_data v mod 256;
                               (v_numeric v / 256) mod 256; v_numeric v mod 256] in
                    respond c' (resp_get_vendor_defined_message_support ovf (c_addr c') 0 src_eid (c_selector c') vd)
                  else if v_format v =? 1 then
                    let vd := [v_format v; (v_data v / 16777216) mod 256; (v_data v / 65536) mod 256;
                               (v_data v / 256) mod 256; v_data v mod 256;
                               (v_numeric v / 256) mod 256; v_numeric v mod 256] in
                    respond c' (resp_get_vendor_defined_message_support ovf (c_addr c') 0 src_eid (c_selector c') vd)
                  else ((c', buf), Panic PUnreach)
              end
          end
      end
  | _ => ((c, buf), Panic PUnimpl)
  end.

(* smbus.rs:456-651 *)
Definition process_packet (ovf : bool) (c : ctx) (p : list N) (buf : list N)
  : pstate * rr process_ok :=
  match decode_packet p with
  | Panic k => ((c, buf), Panic k)
  | Val (inr e) => ((c, buf), Val (inr e))
  | Val (inl (mt, payload_rng)) =>
      match mt with
      | MCtpControl =>
          match get_smbus_headers p with
          | Panic k => ((c, buf), Panic k)
          | Val (inr e) => ((c, buf), Val (inr e))
          | Val (inl (sh, th, bh)) =>
              let r :=
                  lm1 <-- rlift (usub (length p) 1) ;;
                  pre <-- rlift (slice p 0 lm1) ;;
                  p9 <-- rlift (slice_from p 9) ;;
                  cr <-- get_mctp_control_packet p9 (pec pre) ;;
                  (* MCTPSMBusPacket::new(..) -> finalise() only rewrites the local copy of the SMBus header *)
                  ok cr in
              match r with
              | Panic k => ((c, buf), Panic k)
              | Val (inr e) => ((c, buf), Val (inr e))
              | Val (inl cr) =>
                  match cr_cc cr with
                  | None =>
                      let payload := firstn (snd payload_rng) (skipn (fst payload_rng) p) in
                      let '(st, r) := dispatch_request ovf c buf (get_field ch_command_code (cr_header cr))
                                                       (get_field th_source th) payload in
                      match r with
                      | Panic k => (st, Panic k)
                      | Val len => (st, ok ((mt, payload_rng), Some len))
                      end
                  | Some _ => ((c, buf), ok ((mt, payload_rng), None))
                  end
              end
          end
      | VendorDefinedPCI => ((c, buf), ok ((mt, payload_rng), None))
      | VendorDefinedIANA => ((c, buf), ok ((mt, payload_rng), None))
      | SpdmOverMctp => ((c, buf), ok ((mt, payload_rng), None))
      | SecuredMessages => ((c, buf), ok ((mt, payload_rng), None))
      | _ => ((c, buf), err MInvalid DUnknown)
      end
  end.
