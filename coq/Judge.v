(* Judge.v — what the correspondence driver evaluates for one case of one property. *)
Require Import Base Crc Bitfield Headers Encode Decode Process Ops Spec.
Open Scope N_scope.

Record verdict := {
  v_full : bool;            (* the model's whole observation list equals the implementation's *)
  v_oracle : bool;          (* the property's statement holds on the implementation's output, outside known classes *)
  v_proj : bool;            (* the slice of the output the property's theorem talks about agrees with the model *)
  v_kf_failed : list N;     (* known-finding classes on which the statement failed (as recorded) *)
  v_kf_held : list N;       (* known-finding classes met on which the statement nevertheless held *)
  v_nontrivial : bool;
  v_tags : list N;
  v_first_diff : nat        (* index of the first step whose full observation differs (length if none) *)
}.

Fixpoint first_diff (a b : list obs3) (i : nat) : nat :=
  match a, b with
  | x :: a', y :: b' => if obs3_eqb x y then first_diff a' b' (S i) else i
  | [], [] => i
  | _, _ => i
  end.
Fixpoint all_eq (a b : list obs3) : bool :=
  match a, b with
  | x :: a', y :: b' => obs3_eqb x y && all_eq a' b'
  | [], [] => true
  | _, _ => false
  end.

(* per-step properties: the oracle looks at (eids before, op, observation, eids after) *)
Definition step_oracle : Type := (N * N) -> op -> obs3 -> sv.

Fixpoint steps (f : step_oracle) (pre : N * N) (ops : list op) (xs : list obs3) : list sv :=
  match ops, xs with
  | o :: ops', x :: xs' => f pre o x :: steps f (snd x) ops' xs'
  | _, _ => []
  end.

Definition summarise (full : bool) (fd : nat) (proj : bool) (l : list sv) : verdict :=
  {| v_full := full;
     v_oracle := forallb (fun s => s_o s || negb (s_kf s =? 0)) l;
     v_proj := proj;
     v_kf_failed := map s_kf (filter (fun s => negb (s_o s) && negb (s_kf s =? 0)) l);
     v_kf_held := map s_kf (filter (fun s => s_o s && negb (s_kf s =? 0)) l);
     v_nontrivial := existsb s_nontrivial l;
     v_tags := map s_tag (filter s_nontrivial l);
     v_first_diff := fd |}.

Definition oracle_of (p : N) : step_oracle :=
  match p with
  | 3 => fun _ o x => c03_step o (fst x)
  | _ => fun _ _ _ => sv_triv
  end.

(* For the closed-form properties the projection is the oracle's own verdict: the theorem says the model's
   output satisfies the statement, so the implementation agrees with the model on the projected slice
   exactly when the statement holds of its output. *)
Definition judge (p : N) (ovf : bool) (g : config) (ops : list op) (impl : list obs3) : verdict :=
  let model := run ovf (ctx_of g) ops in
  let full := all_eq impl model && (length impl =? length ops)%nat in
  let fd := first_diff impl model 0 in
  let svs := steps (oracle_of p) (0, 0) ops impl in
  let msvs := steps (oracle_of p) (0, 0) ops model in
  let proj := list_eqb (map (fun s => N.b2n (s_o s)) svs) (map (fun s => N.b2n (s_o s)) msvs) in
  summarise full fd proj svs.
