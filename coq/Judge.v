(* Judge.v — what the correspondence driver evaluates for one case of one property. *)
Require Import Base Crc Bitfield Headers Encode Decode Process Ops Spec.
Open Scope N_scope.

Record verdict := {
  v_full : bool;            (* the model's whole observation list equals the implementation's *)
  v_oracle : bool;          (* the property's statement holds on the implementation's output, outside known classes *)
  v_proj : bool;            (* the slice of the output the property's theorem talks about agrees with the model *)
  v_kf_failed : list N;     (* known-finding classes on which the statement failed (as recorded) *)
  v_kf_held : list N;       (* known-finding classes met on which the statement nevertheless held *)
  v_nontrivial : bool;
  v_tags : list N;
  v_first_diff : nat        (* index of the first step whose full observation differs (length if none) *)
}.

Fixpoint first_diff (a b : list obs3) (i : nat) : nat :=
  match a, b with
  | x :: a', y :: b' => if obs3_eqb x y then first_diff a' b' (S i) else i
  | [], [] => i
  | _, _ => i
  end.
Fixpoint all_eq (a b : list obs3) : bool :=
  match a, b with
  | x :: a', y :: b' => obs3_eqb x y && all_eq a' b'
  | [], [] => true
  | _, _ => false
  end.

Definition ost0 : ost :=
  {| os_eids := (0, 0); os_last_enc := None; os_last_dec := None; os_uuid := zeros 16; os_spec_eid := 0 |}.

(* how the oracle's memory evolves: a function of the operations and what was observed, not of the property *)
Definition ost_next (s : ost) (o : op) (x : obs3) : ost :=
  {| os_eids := snd x;
     os_last_enc := match o, fst x with
                    | OEncode _ _ _ _ _, XEnc (Some n) out => Some (o, n, out)
                    | OEncode _ _ _ _ _, _ => None
                    | OProcess _ _, _ | OSetEid _ _, _ | OSetUuid _, _ => None   (* the context may have changed *)
                    | _, _ => os_last_enc s
                    end;
     os_last_dec := match o with ODecode p => Some (p, fst x) | _ => os_last_dec s end;
     os_uuid := match o, fst x with OSetUuid u, XUnit => u | _, _ => os_uuid s end;
     os_spec_eid := os_spec_eid s |}.

(* the step oracle of each property; the number is the property's (Cnn) *)
Definition oracle_of (p : N) (ovf : bool) (g : config) (s : ost) (o : op) (x : obs3) : sv :=
  match p with
  | 1 => c01_step s o (fst x)
  | 2 => c02_step s o x
  | 3 => c03_step o (fst x)
  | 4 => sv_and (c04_step g s o (fst x)) (c04_oversize s o (fst x))
  | 5 => c05_step g s o (fst x)
  | 6 => c06_step s o (fst x)
  | 7 => c07_step s o (fst x)
  | 8 => c08_step s o (fst x)
  | 9 => c09_step o (fst x)
  | 10 => c10_step ovf g o (fst x)
  | 11 => c11_step s o (fst x)
  | 12 => c12_step g o (fst x)
  | 13 => c13_step g s o x
  | 14 => c14_step g o (fst x)
  | 15 => c15_step g s o (fst x)
  | 16 => c16_step s o (fst x)
  | 17 => c17_step o (fst x)
  | 18 => c18_step o (fst x)
  | 19 => c19_step o (fst x)
  | _ => sv_triv
  end.

Fixpoint steps (p : N) (ovf : bool) (g : config) (s : ost) (ops : list op) (xs : list obs3) : list sv :=
  match ops, xs with
  | o :: ops', x :: xs' => oracle_of p ovf g s o x :: steps p ovf g (ost_next s o x) ops' xs'
  | _, _ => []
  end.

(* The projection compared between implementation and model is, for every property, the oracle's own verdict
   per step: the theorem says the model's output satisfies the statement, so the implementation agrees with the
   model on the slice the property constrains exactly when the statement holds of its output.  Differences outside
   that slice are reported as whole-model fidelity (v_full, v_first_diff), never as a verdict. *)

Definition summarise (full : bool) (fd : nat) (proj : bool) (l : list sv) : verdict :=
  {| v_full := full;
     v_oracle := forallb (fun s => s_o s || negb (s_kf s =? 0)) l;
     v_proj := proj;
     v_kf_failed := map s_kf (filter (fun s => negb (s_o s) && negb (s_kf s =? 0)) l);
     v_kf_held := map s_kf (filter (fun s => s_o s && negb (s_kf s =? 0)) l);
     v_nontrivial := existsb s_nontrivial l;
     v_tags := map s_tag (filter s_nontrivial l);
     v_first_diff := fd |}.

Definition judge (p : N) (ovf : bool) (g : config) (ops : list op) (impl : list obs3) : verdict :=
  let model := run ovf (ctx_of g) ops in
  let full := all_eq impl model && (length impl =? length ops)%nat in
  let fd := first_diff impl model 0 in
  let svs := steps p ovf g ost0 ops impl in
  let msvs := steps p ovf g ost0 ops model in
  let goodb := fun s => N.b2n (s_o s || negb (s_kf s =? 0)) in
  let proj := list_eqb (map goodb svs) (map goodb msvs) in
  summarise full fd proj svs.
