(* DecodeFacts.v — closed forms of the receive path: get_length, get_smbus_headers, decode_packet. *)
Require Import Base Crc Bitfield Headers Encode Decode Process Ops Spec.
Require Import BitfieldFacts HeaderFacts.
Open Scope N_scope.

Lemma In_fields8 f : In f fields8 -> In f fields8. Proof. auto. Qed.

(* getters of whole-byte fields return the byte *)
Lemma get_whole_byte f buf : In f fields8 -> bytes_ok buf -> f_shift f = 0 -> f_w f = 8 ->
  get_field f buf = nth (f_byte f) buf 0.
Proof. intros Hin Hok Hs Hw. rewrite get_field_closed by assumption. unfold byte_get_spec. rewrite Hs, Hw.
  change (2 ^ 0) with 1. change (2 ^ 8) with 256. rewrite N.div_1_r. apply N.mod_small. apply nth_ok. exact Hok. Qed.

Lemma bytes_ok_cons x l : bytes_ok (x :: l) <-> x < 256 /\ bytes_ok l.
Proof. unfold bytes_ok. split; [intros H; inversion H; auto | intros [? ?]; constructor; auto]. Qed.
Lemma bytes_ok_app a b : bytes_ok (a ++ b) <-> bytes_ok a /\ bytes_ok b.
Proof. unfold bytes_ok. apply Forall_app. Qed.

(* ---------- C17: the length probe ---------- *)
Theorem get_length_closed p : bytes_ok p ->
  get_length p =
    if (length p <? 3)%nat then err MInvalid DUnknown
    else if nth 1 p 0 =? 15 then ok (N.to_nat (nth 2 p 0%N) + 4)%nat else err MInvalid DUnknown.
Proof.
  intros Hok. unfold get_length.
  destruct (length p <? 3)%nat eqn:Hl; [reflexivity|].
  destruct p as [|b0 [|b1 [|b2 rest]]]; try discriminate.
  apply bytes_ok_cons in Hok as [H0 Hok]. apply bytes_ok_cons in Hok as [H1 Hok]. apply bytes_ok_cons in Hok as [H2 Hok].
  unfold slice. cbn [length Nat.leb andb Nat.sub skipn firstn rlift rbind app nth].
  assert (Hb : bytes_ok [b0; b1; b2; 0]) by (repeat constructor; assumption).
  rewrite (get_whole_byte sh_command_code) by (try exact Hb; cbn; tauto || reflexivity).
  rewrite (get_whole_byte sh_byte_count) by (try exact Hb; cbn; tauto || reflexivity).
  reflexivity.
Qed.
