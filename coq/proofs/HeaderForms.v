(* HeaderForms.v — closed forms of the header constructors used by the encoders (finite sweeps over u8
   arguments; the 16- and 32-bit vendor IDs by chunking the bit loop into bytes). *)
Require Import Base Bitfield Headers Encode.
Require Import BitfieldFacts HeaderFacts.
Open Scope N_scope.

Fixpoint list_eqb' (a b : list N) : bool :=
  match a, b with
  | [], [] => true
  | x :: a', y :: b' => (x =? y) && list_eqb' a' b'
  | _, _ => false
  end.
Lemma list_eqb'_eq a b : list_eqb' a b = true -> a = b.
Proof. revert b; induction a as [|x a IH]; intros [|y b] H; try discriminate; [reflexivity|].
  cbn in H. apply andb_true_iff in H as [H1 H2]. apply N.eqb_eq in H1. f_equal; auto. Qed.

(* mctp_traits.rs:119-128 *)
Lemma smbus_header_closed addr dest : addr < 256 -> dest < 256 ->
  generate_smbus_header addr dest = [(dest mod 128) * 2; 15; 0; (addr mod 128) * 2 + 1].
Proof. intros Ha Hd. apply list_eqb'_eq. revert addr dest Ha Hd. apply sweep2. vm_compute. reflexivity. Qed.

(* mctp_traits.rs:105-116: version 1, dest, source = own address, SOM 1 EOM 1 seq 0 TO 1 tag 0 = 0xC8 *)
Lemma transport_header_closed addr dest : addr < 256 -> dest < 256 ->
  generate_transport_header addr dest = [1; dest; addr; 200].
Proof. intros Ha Hd. apply list_eqb'_eq. revert addr dest Ha Hd. apply sweep2. vm_compute. reflexivity. Qed.

(* base_packet.rs:115-127 *)
Lemma body_header_closed mt : mt < 256 -> body_header_new false mt = Val [mt mod 128].
Proof. intros H. assert (match body_header_new false mt with Val b => list_eqb' b [mt mod 128] | Panic _ => false end = true) as E.
  { revert mt H. apply sweep1. vm_compute. reflexivity. }
  destruct (body_header_new false mt); [|discriminate]. apply list_eqb'_eq in E. subst. reflexivity. Qed.

(* control_packet.rs:278-288 *)
Lemma control_header_closed (rq d : bool) inst cmd : inst < 256 -> cmd < 256 ->
  control_header_new rq d inst cmd = [N.b2n rq * 128 + N.b2n d * 64 + inst mod 32; cmd].
Proof. intros Hi Hc. apply list_eqb'_eq. revert inst cmd Hi Hc. apply sweep2.
  destruct rq, d; vm_compute; reflexivity. Qed.

(* smbus_proto.rs:84-86 on a 4-byte header *)
Lemma set_byte_count_closed a b c d v : a < 256 -> b < 256 -> c < 256 -> d < 256 -> v < 256 ->
  set_field sh_byte_count [a; b; c; d] v = [a; b; v; d].
Proof. intros Ha Hb Hc Hd Hv.
  rewrite set_field_closed; [| cbn; tauto | repeat constructor; assumption | exact Hv].
  change (f_byte sh_byte_count) with 2%nat. cbn [upd].
  f_equal. f_equal. f_equal.
  unfold byte_set_spec.
  change (2 ^ f_shift sh_byte_count) with 1. change (2 ^ f_w sh_byte_count) with 256.
  rewrite !N.div_1_r, !N.mul_1_r.
  rewrite (N.mod_small c 256), (N.mod_small v 256) by assumption. lia. Qed.

(* ---------- PCI: 16-bit, by sweeping the two bytes ---------- *)
Lemma pci_new_closed v : v < 65536 -> pci_new v = [v / 256; v mod 256].
Proof. intros Hv.
  assert (forall h l, h < 256 -> l < 256 -> list_eqb' (pci_new (h * 256 + l)) [h; l] = true) as S.
  { apply sweep2. vm_compute. reflexivity. }
  rewrite (N.div_mod v 256) at 1 by discriminate. rewrite N.mul_comm.
  apply list_eqb'_eq, S; [apply N.div_lt_upper_bound; [discriminate|exact Hv] | apply N.mod_lt; discriminate]. Qed.

