(* Twin.v — "a packet whose PEC does not match changes ... nor any later output" (C02), for whole histories.
   The harness checks this against the code with a twin context that sees the same history minus the processed
   packets whose PEC is wrong (DESIGN 4, C02).  Here is the same statement about the model, for every history:
   dropping every such operation from a history drops exactly its own observation and changes no other one. *)
Require Import Base Crc Bitfield Headers Encode Decode Process Ops Spec Judge.
Require Import Hist StepsRecv.
Open Scope N_scope.

(* the operations the twin does not see: process_packet on a string whose last byte is not the PEC of the rest *)
Definition bad_pec_process (o : op) : bool :=
  match o with OProcess p _ => negb (pec_good p) | _ => false end.

(* the history, with each operation's observation beside it, without those operations *)
Fixpoint run_keep (ovf : bool) (c : ctx) (ops : list op) : list obs3 :=
  match ops with
  | [] => []
  | o :: r => let '(c', x) := step ovf c o in
              if bad_pec_process o then run_keep ovf c' r
              else (x, (c_eid_req c', c_eid_resp c')) :: run_keep ovf c' r
  end.

(* a processed packet with a wrong PEC leaves the whole context — not only the EIDs — as it was *)
Lemma bad_pec_step_ctx ovf c p buf : bytes_ok p -> pec_good p = false -> fst (step ovf c (OProcess p buf)) = c.
Proof.
  intros Hok Hp. destruct (bad_pec_inert ovf c p buf Hok Hp) as (r & E & _).
  cbn [step]. rewrite E. destruct r as [[?|?]|?]; reflexivity.
Qed.

(* ... and is never answered: the observation is an error or a panic with the buffer untouched *)
Lemma bad_pec_step_obs ovf c p buf : bytes_ok p -> pec_good p = false ->
  match snd (step ovf c (OProcess p buf)) with
  | XProcess (inr _) b => b = buf
  | XPanic b => b = buf
  | _ => False
  end.
Proof.
  intros Hok Hp. destruct (bad_pec_inert ovf c p buf Hok Hp) as (r & E & Hr).
  cbn [step]. rewrite E. destruct r as [[x|e]|k]; cbn [snd]; try reflexivity. exfalso. exact (Hr x eq_refl).
Qed.

(* the twin theorem: the observations that remain are the observations of the history without those operations *)
Theorem twin_history ovf : forall ops c, Forall wf_op ops ->
  run_keep ovf c ops = run ovf c (filter (fun o => negb (bad_pec_process o)) ops).
Proof.
  induction ops as [|o r IH]; intros c Hw; [reflexivity|].
  inversion Hw as [|? ? Ho Hr]; subst.
  cbn [run_keep filter]. destruct (step ovf c o) as [c' x] eqn:Es.
  destruct (bad_pec_process o) eqn:Eb; cbn [negb].
  - (* dropped: the context did not move *)
    destruct o as [p buf|p|p|h e|u|h id a ls buf|what fld raw v|what b]; try discriminate Eb.
    cbn [bad_pec_process] in Eb. apply negb_true_iff in Eb.
    cbn [wf_op] in Ho. destruct Ho as [Hp _].
    pose proof (bad_pec_step_ctx ovf c p buf Hp Eb) as Ec. rewrite Es in Ec. cbn [fst] in Ec. subst c'.
    apply IH, Hr.
  - rewrite run_cons, Es. cbn [obs3_of fst snd]. f_equal. apply IH, Hr.
Qed.

(* in particular the final context — both EIDs, UUID, selector — is that of the history without them *)
Theorem twin_final_ctx ovf : forall ops c, Forall wf_op ops ->
  run_ctx ovf c ops = run_ctx ovf c (filter (fun o => negb (bad_pec_process o)) ops).
Proof.
  induction ops as [|o r IH]; intros c Hw; [reflexivity|].
  inversion Hw as [|? ? Ho Hr]; subst. cbn [run_ctx filter].
  destruct (bad_pec_process o) eqn:Eb; cbn [negb].
  - destruct o as [p buf|p|p|h e|u|h id a ls buf|what fld raw v|what b]; try discriminate Eb.
    cbn [bad_pec_process] in Eb. apply negb_true_iff in Eb. cbn [wf_op] in Ho. destruct Ho as [Hp _].
    rewrite (bad_pec_step_ctx ovf c p buf Hp Eb). apply IH, Hr.
  - cbn [run_ctx]. apply IH, Hr.
Qed.

Example twin_nonvacuous :
  let g := {| g_addr := 0x10; g_msg_types := [5]; g_vendor_ids := [] |} in
  let seid := [32; 15; 10; 71; 1; 16; 35; 200; 0; 128; 1; 0; 86; 176] in
  let bad := [32; 15; 10; 71; 1; 16; 35; 200; 0; 128; 1; 0; 87; 176] in       (* Set EID 0x57 with the PEC of 0x56 *)
  let geid := [32; 15; 8; 71; 1; 16; 35; 200; 0; 128; 2; 250] in
  let ops := [OProcess bad (repeat 0 64); OProcess seid (repeat 0 64); OProcess bad (repeat 0 64);
              OProcess geid (repeat 0 64)] in
  map bad_pec_process ops = [true; false; true; false] /\
  length (run_keep true (ctx_of g) ops) = 2%nat /\
  run_keep true (ctx_of g) ops = run true (ctx_of g) [OProcess seid (repeat 0 64); OProcess geid (repeat 0 64)] /\
  map snd (run true (ctx_of g) ops) = [(0, 0); (86, 86); (86, 86); (86, 86)].
Proof. vm_compute. repeat split; reflexivity. Qed.

Print Assumptions twin_history.
Print Assumptions twin_final_ctx.
