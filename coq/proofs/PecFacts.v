(* PecFacts.v — every packet the writer produces ends with the PEC of what precedes it (C03). *)
Require Import Base Crc Bitfield Headers Encode Decode Process Ops Spec.
Require Import CrcFacts.
Open Scope N_scope.

Lemma firstn_app_exact {A} (l r : list A) n : length l = n -> firstn n (l ++ r) = l.
Proof. intros <-. rewrite firstn_app, Nat.sub_diag, firstn_all. cbn. apply app_nil_r. Qed.

Lemma nth_app_exact (l r : list N) x n : length l = n -> nth n (l ++ x :: r) 0 = x.
Proof. intros <-. rewrite app_nth2 by lia. rewrite Nat.sub_diag. reflexivity. Qed.

Lemma pec_ok_final b size :
  (size < length b)%nat ->
  pec_ok (size + 1) (firstn size b ++ [pec (firstn size b)] ++ skipn (size + 1) b) = true.
Proof.
  intros Hlt. unfold pec_ok.
  assert (Hl : length (firstn size b) = size) by (apply firstn_length_le; lia).
  replace (size + 1 - 1)%nat with size by lia.
  rewrite (firstn_app_exact _ _ size Hl).
  cbn [app]. rewrite (nth_app_exact _ _ _ size Hl).
  replace (firstn (size + 1) (firstn size b ++ pec (firstn size b) :: skipn (size + 1) b))
    with (firstn size b ++ [pec (firstn size b)]).
  2:{ symmetry. change (firstn size b ++ pec (firstn size b) :: skipn (size + 1) b)
        with (firstn size b ++ [pec (firstn size b)] ++ skipn (size + 1) b).
      rewrite app_assoc. apply firstn_app_exact. rewrite app_length, Hl. reflexivity. }
  rewrite pec_self, N.eqb_refl.
  rewrite app_length, Hl. cbn [length]. rewrite skipn_length.
  replace (1 <=? size + 1)%nat with true by (symmetry; apply Nat.leb_le; lia).
  replace (size + 1 <=? size + S (length b - (size + 1)))%nat with true by (symmetry; apply Nat.leb_le; lia).
  rewrite N.eqb_refl. reflexivity.
Qed.

Lemma slice0 b size pre : slice b 0 size = Val pre -> pre = firstn size b.
Proof. unfold slice. destruct ((0 <=? size)%nat && (size <=? length b)%nat); [|discriminate].
  intros E. inversion E. rewrite Nat.sub_0_r. reflexivity. Qed.

Lemma packet_to_raw_pec smb tr bh hdr data buf out n :
  packet_to_raw smb tr bh hdr data buf = (out, Val n) -> pec_ok n out = true.
Proof.
  unfold packet_to_raw, wbind.
  destruct (wr 0 smb buf) as [b1 [u1|k1]]; [|discriminate].
  destruct (wr 4 tr b1) as [b2 [u2|k2]]; [|discriminate].
  destruct (slice_from b2 8) as [s|k]; cbn [bind]; [|discriminate].
  destruct (body_to_raw 8 bh hdr data b2) as [b3 [bl|k3]]; [|discriminate].
  generalize (8 + bl)%nat. intros size.
  destruct (slice b3 0 size) as [pre|k4] eqn:Hs; [|discriminate].
  destruct (size <? length b3)%nat eqn:Hlt; [|discriminate].
  intros E. injection E as E1 E2. subst out n.
  apply slice0 in Hs. subst pre. apply pec_ok_final. apply Nat.ltb_lt. exact Hlt.
Qed.

Lemma generate_packet_bytes_pec ovf addr dest mt hdr data buf out n :
  generate_packet_bytes ovf addr dest mt hdr data buf = (out, Val (Some n)) -> pec_ok n out = true.
Proof.
  unfold generate_packet_bytes, wbind, wlift, wret.
  destruct (body_header_new false mt) as [bh|k]; [|discriminate].
  destruct (MAX_PACKET_LEN <? packet_len hdr data)%nat; [discriminate|].
  destruct (packet_to_raw _ _ _ _ _ buf) as [b [m|k]] eqn:Hp; [|discriminate].
  intros E. inversion E; subst. eapply packet_to_raw_pec. exact Hp.
Qed.

(* a writer all of whose successful results end with the PEC *)
Definition pec_writer (w : W (option nat)) : Prop :=
  forall buf out n, w buf = (out, Val (Some n)) -> pec_ok n out = true.

Lemma pw_gen ovf addr dest mt hdr data : pec_writer (generate_packet_bytes ovf addr dest mt hdr data).
Proof. intros buf out n. apply generate_packet_bytes_pec. Qed.
Lemma pw_none : pec_writer (wret None).
Proof. intros buf out n. unfold wret. discriminate. Qed.
Lemma pw_panic k : pec_writer (wlift (Panic k)).
Proof. intros buf out n. unfold wlift. discriminate. Qed.
Lemma pw_if (b : bool) w1 w2 : pec_writer w1 -> pec_writer w2 -> pec_writer (if b then w1 else w2).
Proof. destruct b; auto. Qed.

Ltac pw := repeat first [ apply pw_gen | apply pw_none | apply pw_panic | apply pw_if ].

Lemma encode_call_pec ovf c h id a ls w : encode_call ovf c h id a ls = Some w -> pec_writer w.
Proof.
  unfold encode_call. intros E.
  repeat match type of E with
         | (match ?x with _ => _ end) = _ => destruct x; try discriminate
         | (if ?x then _ else _) = _ => destruct x; try discriminate
         end;
  inversion E; subst w; clear E;
  unfold control_packet, req_set_endpoint_id, req_get_endpoint_id, req_get_endpoint_uuid,
    req_get_mctp_version_support, req_get_message_type_suport, req_get_vendor_defined_message_support,
    req_resolve_endpoint_id, req_allocate_endpoint_ids, req_routing_information_update,
    req_get_routing_table_entries, req_prepare_for_endpoint_discovery, req_endpoint_discovery,
    req_discovery_notify, req_get_network_id, req_query_hop, req_resolve_uuid, req_query_rate_limit,
    req_vendor_defined, resp_set_endpoint_id, resp_get_endpoint_id, resp_get_endpoint_uuid,
    resp_get_mctp_version_support, resp_get_message_type_suport, resp_get_vendor_defined_message_support,
    control_packet; pw.
Qed.

(* C03 for encoder calls: whatever encoder is called, the model's observation satisfies c03_step *)
Lemma c03_encode_step ovf c h id a ls buf :
  s_o (c03_step (OEncode h id a ls buf) (snd (step ovf c (OEncode h id a ls buf)))) = true.
Proof.
  cbn [step snd].
  destruct (encode_call ovf c h id a ls) as [w|] eqn:Hw; [|reflexivity].
  destruct (w buf) as [b [[n|]|k]] eqn:Hr; try reflexivity.
  cbn [c03_step s_o sv_of]. eapply encode_call_pec; eassumption.
Qed.

(* ---------- a successful encode implies the buffer was long enough ---------- *)
Lemma wr_length off d buf b : wr off d buf = (b, Val tt) -> length b = length buf.
Proof. unfold wr. destruct (off + length d <=? length buf)%nat eqn:E; [|discriminate].
  intros H; injection H as <-. apply Nat.leb_le in E.
  rewrite !app_length, firstn_length_le, skipn_length by lia. lia. Qed.

Lemma packet_to_raw_fits smb tr bh hdr data buf out n :
  packet_to_raw smb tr bh hdr data buf = (out, Val n) -> (n <= length buf)%nat /\ n = packet_len hdr data.
Proof.
  unfold packet_to_raw, wbind.
  destruct (wr 0 smb buf) as [b1 [[]|k1]] eqn:W1; [|discriminate].
  destruct (wr 4 tr b1) as [b2 [[]|k2]] eqn:W2; [|discriminate].
  destruct (slice_from b2 8) as [s|k]; cbn [bind]; [|discriminate].
  unfold body_to_raw, wbind.
  destruct (wr 8 bh b2) as [b3 [[]|k3]] eqn:W3; [|discriminate].
  assert ((exists b4, (match hdr with Some h => wr (8 + 1) h | None => wret tt end) b3 = (b4, Val tt) /\ length b4 = length b3)
          \/ (exists b4 k, (match hdr with Some h => wr (8 + 1) h | None => wret tt end) b3 = (b4, Panic k))) as [[b4 [E4 L4]]|[b4 [k E4]]].
  { destruct hdr as [h|].
    - destruct (wr (8 + 1) h b3) as [b4 [[]|k4]] eqn:W4; [left; exists b4; split; [reflexivity|eapply wr_length; eassumption]|right; eauto].
    - left. exists b3. split; reflexivity. }
  2:{ rewrite E4. discriminate. }
  rewrite E4.
  destruct (wr (8 + 1 + opt_len hdr) data b4) as [b5 [[]|k5]] eqn:W5; [|discriminate].
  unfold wret.
  assert (Hsz : packet_len hdr data = (8 + body_len hdr data + 1)%nat) by (unfold packet_len; lia).
  revert Hsz. generalize (8 + body_len hdr data)%nat. intros size Hsz.
  destruct (slice b5 0 size) as [pre|k6]; [|discriminate].
  destruct (size <? length b5)%nat eqn:Hlt; [|discriminate].
  intros E. injection E as E1 E2. subst n. apply Nat.ltb_lt in Hlt.
  apply wr_length in W1, W2, W3, W5. split; lia.
Qed.

Definition fit_writer (w : W (option nat)) : Prop :=
  forall buf out n, w buf = (out, Val (Some n)) -> (n <= length buf)%nat.
Lemma fw_gen ovf addr dest mt hdr data : fit_writer (generate_packet_bytes ovf addr dest mt hdr data).
Proof. intros buf out n. unfold generate_packet_bytes, wbind, wlift, wret.
  destruct (body_header_new false mt) as [bh|k]; [|discriminate].
  destruct (MAX_PACKET_LEN <? packet_len hdr data)%nat; [discriminate|].
  destruct (packet_to_raw _ _ _ _ _ buf) as [b [m|k]] eqn:Hp; [|discriminate].
  intros E. inversion E; subst. eapply packet_to_raw_fits. exact Hp. Qed.

Lemma generate_packet_bytes_success ovf addr dest mt hdr data buf out n :
  generate_packet_bytes ovf addr dest mt hdr data buf = (out, Val (Some n)) -> (n <= length buf)%nat /\ n = packet_len hdr data.
Proof. unfold generate_packet_bytes, wbind, wlift, wret.
  destruct (body_header_new false mt) as [bh|k]; [|discriminate].
  destruct (MAX_PACKET_LEN <? packet_len hdr data)%nat; [discriminate|].
  destruct (packet_to_raw _ _ _ _ _ buf) as [b [m|k]] eqn:Hp; [|discriminate].
  intros E. inversion E; subst. eapply packet_to_raw_fits. exact Hp. Qed.
Lemma fw_none : fit_writer (wret None).
Proof. intros buf out n. unfold wret. discriminate. Qed.
Lemma fw_panic k : fit_writer (wlift (Panic k)).
Proof. intros buf out n. unfold wlift. discriminate. Qed.
Lemma fw_if (b : bool) w1 w2 : fit_writer w1 -> fit_writer w2 -> fit_writer (if b then w1 else w2).
Proof. destruct b; auto. Qed.
Ltac fw := repeat first [ apply fw_gen | apply fw_none | apply fw_panic | apply fw_if ].

Lemma encode_call_fits ovf c h id a ls w : encode_call ovf c h id a ls = Some w -> fit_writer w.
Proof.
  unfold encode_call. intros E.
  repeat match type of E with
         | (match ?x with _ => _ end) = _ => destruct x; try discriminate
         | (if ?x then _ else _) = _ => destruct x; try discriminate
         end;
  inversion E; subst w; clear E;
  unfold control_packet, req_set_endpoint_id, req_get_endpoint_id, req_get_endpoint_uuid,
    req_get_mctp_version_support, req_get_message_type_suport, req_get_vendor_defined_message_support,
    req_resolve_endpoint_id, req_allocate_endpoint_ids, req_routing_information_update,
    req_get_routing_table_entries, req_prepare_for_endpoint_discovery, req_endpoint_discovery,
    req_discovery_notify, req_get_network_id, req_query_hop, req_resolve_uuid, req_query_rate_limit,
    req_vendor_defined, resp_set_endpoint_id, resp_get_endpoint_id, resp_get_endpoint_uuid,
    resp_get_mctp_version_support, resp_get_message_type_suport, resp_get_vendor_defined_message_support,
    control_packet; fw.
Qed.
