(* Hist.v — lifting a one-step fact about the model to every step of every history:
   well-formed inputs, the context invariant, the oracle-state invariant, and the induction over operations. *)
Require Import Base Crc Bitfield Headers Encode Decode Process Ops Spec Judge.
Open Scope N_scope.

Definition good (s : sv) : bool := s_o s || negb (s_kf s =? 0).

(* ---------- what a caller can actually pass through the Rust API ---------- *)
Definition wf_vendor (v : vendor_id) : Prop := v_format v < 256 /\ v_data v < 4294967296 /\ v_numeric v < 65536.
Definition wf_cfg (g : config) : Prop :=
  g_addr g < 256 /\ bytes_ok (g_msg_types g) /\ Forall wf_vendor (g_vendor_ids g).
Definition wf_op (o : op) : Prop :=
  match o with
  | OProcess p b => bytes_ok p /\ bytes_ok b
  | ODecode p => bytes_ok p
  | OGetLength p => bytes_ok p
  | OSetEid _ e => e < 256
  | OSetUuid u => bytes_ok u
  | OEncode h id a ls buf => args_okb h id a ls = true /\ bytes_ok buf
  | OHdr what fld raw v => bytes_ok raw /\ v < 4294967296 /\ fld < 256
  | OConv _ b => b < 256
  end.

(* ---------- the context during a history ---------- *)
Definition cinv (g : config) (c : ctx) : Prop :=
  c_addr c = g_addr g /\ c_msg_types c = g_msg_types g /\ c_vendor_ids c = g_vendor_ids g /\
  c_eid_req c < 256 /\ c_eid_resp c < 256 /\ bytes_ok (c_uuid c) /\ length (c_uuid c) = 16%nat.

Lemma cinv_init g : wf_cfg g -> cinv g (ctx_of g).
Proof. intros _. unfold cinv, ctx_of, ctx_new; cbn. repeat split; try reflexivity.
  repeat constructor. Qed.

Lemma index_In l i x : index l i = Val x -> In x l.
Proof. unfold index. destruct (nth_error l i) eqn:E; [|discriminate]. intros H; inversion H; subst. eapply nth_error_In; eauto. Qed.
Lemma bytes_ok_In l x : bytes_ok l -> In x l -> x < 256.
Proof. intros H. unfold bytes_ok in H. rewrite Forall_forall in H. apply H. Qed.
Lemma In_firstn {A} (l : list A) a x : In x (firstn a l) -> In x l.
Proof. revert l. induction a as [|a IH]; intros l H; [destruct H|]. destruct l; [destruct H|].
  cbn [firstn] in H. destruct H as [->|H]; [left; reflexivity|right; apply IH; exact H]. Qed.
Lemma In_skipn {A} (l : list A) b x : In x (skipn b l) -> In x l.
Proof. revert l. induction b as [|b IH]; intros l H; [exact H|]. destruct l; [destruct H|]. right. apply IH. exact H. Qed.
Lemma In_firstn_skipn {A} (l : list A) a b x : In x (firstn a (skipn b l)) -> In x l.
Proof. intros H. eapply In_skipn, In_firstn, H. Qed.

(* what process_packet can do to the context: nothing, a new selector, or both EIDs := a byte of the packet *)
Inductive ctx_step (p : list N) (c : ctx) : ctx -> Prop :=
| cs_same : ctx_step p c c
| cs_sel s : ctx_step p c (set_selector c s)
| cs_eid e : In e p -> ctx_step p c (set_eid_req (set_eid_resp c e) e).

Lemma dispatch_ctx_step ovf c buf cmd src payload p :
  (forall x, In x payload -> In x p) ->
  ctx_step p c (fst (fst (dispatch_request ovf c buf cmd src payload))).
Proof.
  intros Hin. unfold dispatch_request.
  repeat match goal with
         | |- context [match ?x with _ => _ end] =>
             match x with
             | index _ _ => let E := fresh "E" in destruct x eqn:E
             | unwrap_len _ => let b := fresh "b" in let r := fresh "r" in destruct x as [b r]
             | _ => destruct x
             end
         | |- context [if ?x then _ else _] => destruct x
         end; cbn [fst]; try apply cs_same; try apply cs_sel.
  all: try (apply cs_eid; apply Hin; eapply index_In; eassumption).
Qed.

Lemma process_ctx_step ovf c p buf : ctx_step p c (fst (fst (process_packet ovf c p buf))).
Proof.
  unfold process_packet.
  destruct (decode_packet p) as [[[mt rng]|e]|k]; cbn [fst]; try apply cs_same.
  destruct mt; cbn [fst]; try apply cs_same.
  destruct (get_smbus_headers p) as [[[[sh th] bh]|e]|k]; cbn [fst]; try apply cs_same.
  match goal with |- context [match ?r with _ => _ end] => destruct r as [[cr|e]|k] end; cbn [fst]; try apply cs_same.
  destruct (cr_cc cr); cbn [fst]; try apply cs_same.
  match goal with |- context [dispatch_request ?o ?c ?b ?cmd ?src ?pl] =>
    pose proof (dispatch_ctx_step o c b cmd src pl p) as D; destruct (dispatch_request o c b cmd src pl) as [st r] end.
  cbn [fst] in D. destruct r; cbn [fst]; apply D; intros x Hx; eapply In_firstn_skipn; exact Hx.
Qed.

Definition pure_op (o : op) : bool :=
  match o with OProcess _ _ | OSetEid _ _ | OSetUuid _ => false | _ => true end.
Lemma step_pure ovf c o : pure_op o = true -> fst (step ovf c o) = c.
Proof. destruct o; try discriminate; reflexivity. Qed.

Lemma cinv_step ovf g c o : cinv g c -> wf_op o -> cinv g (fst (step ovf c o)).
Proof.
  intros Hc Hw. destruct (pure_op o) eqn:Hp; [rewrite step_pure by exact Hp; exact Hc|].
  destruct Hc as (Ha & Hm & Hv & Hr & Hs & Hu & Hl).
  destruct o; try discriminate.
  - (* process *)
    pose proof (process_ctx_step ovf c pkt buf) as S. cbn [step].
    destruct (process_packet ovf c pkt buf) as [[c' b] r]. cbn [fst] in S.
    assert (cinv g c') as R.
    { destruct Hw as [Hp' _].
      destruct S as [|s|e He]; unfold cinv; cbn; repeat split; try assumption;
        eapply bytes_ok_In; eassumption. }
    destruct r; exact R.
  - (* set eid *)
    cbn in Hw. destruct request_half; cbn [step fst]; unfold cinv; cbn; repeat split; assumption.
  - (* set uuid *)
    cbn in Hw. cbn [step]. unfold set_uuid. destruct (Nat.eqb_spec (length u) 16) as [E|E]; cbn [fst];
      unfold cinv; cbn; repeat split; assumption.
Qed.

(* ---------- the oracle's memory agrees with the model's context ---------- *)
Definition obs3_of (cx : ctx * obs) : obs3 := (snd cx, (c_eid_req (fst cx), c_eid_resp (fst cx))).

Definition oinv (ovf : bool) (s : ost) (c : ctx) : Prop :=
  os_eids s = (c_eid_req c, c_eid_resp c) /\
  os_uuid s = c_uuid c /\
  (forall o n out, os_last_enc s = Some (o, n, out) ->
     snd (step ovf c o) = XEnc (Some n) out /\ wf_op o /\ exists h id a ls b, o = OEncode h id a ls b) /\
  (forall p x, os_last_dec s = Some (p, x) -> x = snd (step ovf c (ODecode p))).

Lemma oinv_init ovf g : oinv ovf ost0 (ctx_of g).
Proof. unfold oinv, ost0; cbn. repeat split; try reflexivity; intros; discriminate. Qed.

Lemma run_cons ovf c o ops :
  run ovf c (o :: ops) = obs3_of (step ovf c o) :: run ovf (fst (step ovf c o)) ops.
Proof. cbn [run]. destruct (step ovf c o) as [c' x]. reflexivity. Qed.

Lemma ctx_step_uuid p c c' : ctx_step p c c' -> c_uuid c' = c_uuid c.
Proof. destruct 1; reflexivity. Qed.
Lemma ctx_step_cfg p c c' : ctx_step p c c' ->
  c_addr c' = c_addr c /\ c_msg_types c' = c_msg_types c /\ c_vendor_ids c' = c_vendor_ids c.
Proof. destruct 1; repeat split; reflexivity. Qed.

Lemma step_process_ctx ovf c pkt buf : ctx_step pkt c (fst (step ovf c (OProcess pkt buf))).
Proof. cbn [step]. pose proof (process_ctx_step ovf c pkt buf) as S.
  destruct (process_packet ovf c pkt buf) as [[c' b] r]. destruct r; exact S. Qed.


Lemma decode_ctx_indep ovf c c' p : snd (step ovf c (ODecode p)) = snd (step ovf c' (ODecode p)).
Proof. reflexivity. Qed.

Lemma oinv_step ovf g s c o : cinv g c -> oinv ovf s c -> wf_op o ->
  oinv ovf (ost_next s o (obs3_of (step ovf c o))) (fst (step ovf c o)).
Proof.
  intros Hc (He & Hu & Henc & Hdec) Hw.
  unfold oinv, ost_next, obs3_of. cbn [os_eids os_uuid os_last_enc os_last_dec fst snd].
  split; [reflexivity|].
  destruct (pure_op o) eqn:Hp.
  - (* operations that leave the context alone *)
    rewrite (step_pure ovf c o Hp).
    split; [|split].
    + destruct o; try discriminate; exact Hu.
    + destruct o; try discriminate; try exact Henc.
      (* encode *)
      intros o' n out. destruct (snd (step ovf c (OEncode request_half id nums lists buf))) as [| | | |r b| | | |] eqn:Ex;
        try discriminate. destruct r as [m|]; [|discriminate].
      intros E. injection E as <- <- <-. split; [exact Ex|]. split; [exact Hw|]. repeat eexists.
    + destruct o; try discriminate; try exact Hdec.
      intros p x E. injection E as <- <-. reflexivity.
  - (* process / set_eid / set_uuid *)
    split; [|split].
    + destruct o; try discriminate.
      * rewrite (ctx_step_uuid _ _ _ (step_process_ctx ovf c pkt buf)).
        destruct (snd (step ovf c (OProcess pkt buf))); exact Hu.
      * destruct request_half; exact Hu.
      * cbn [step]. unfold set_uuid. destruct (length u =? 16)%nat; cbn [fst snd]; [reflexivity|exact Hu].
    + destruct o; try discriminate; intros; discriminate.
    + destruct o; try discriminate; intros p x E; rewrite (Hdec p x E); reflexivity.
Qed.

(* ---------- the induction over operations ---------- *)
Lemma steps_good p ovf g :
  (forall s c o, cinv g c -> oinv ovf s c -> wf_op o ->
     good (oracle_of p ovf g s o (obs3_of (step ovf c o))) = true) ->
  forall ops s c, cinv g c -> oinv ovf s c -> Forall wf_op ops ->
    forallb good (steps p ovf g s ops (run ovf c ops)) = true.
Proof.
  intros Hstep ops. induction ops as [|o ops IH]; intros s c Hc Ho Hw; [reflexivity|].
  inversion Hw as [|? ? Hwo Hwr]; subst.
  rewrite run_cons. cbn [steps forallb].
  rewrite (Hstep s c o Hc Ho Hwo). cbn [andb].
  apply IH; [apply cinv_step; assumption | eapply oinv_step; eassumption | exact Hwr].
Qed.

(* the form in which every property theorem is stated: on every well-formed history, at every step, the
   property's oracle accepts what the model does (or the step lies in a recorded known-finding class) *)
Definition holds_on_model (p : N) : Prop :=
  forall ovf g ops, wf_cfg g -> Forall wf_op ops ->
    forallb good (steps p ovf g ost0 ops (run ovf (ctx_of g) ops)) = true.

Lemma holds_from_step p :
  (forall ovf g s c o, wf_cfg g -> cinv g c -> oinv ovf s c -> wf_op o ->
     good (oracle_of p ovf g s o (obs3_of (step ovf c o))) = true) ->
  holds_on_model p.
Proof. intros H ovf g ops Hg Hw. apply steps_good; auto using cinv_init, oinv_init. Qed.
