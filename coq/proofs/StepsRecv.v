(* StepsRecv.v — one-step facts for the receive path: C11 (process agrees with decode, buffer discipline),
   C02 (no success without a correct PEC; bursts), C10 (panic classes of process_packet), C01 (decode of the
   model's own encoder output). *)
Require Import Base Crc Bitfield Headers Encode Decode Process Ops Spec Judge.
Require Import CrcFacts BitfieldFacts HeaderFacts HeaderForms PecFacts EncodeFacts DecodeFacts Hist StepsSimple StepsEncode.
Require Import DecodeChar ProcessChar.
Open Scope N_scope.

(* ================================================================ writers that respect the frame *)
(* a success leaves the length of the buffer and everything beyond the reported length alone *)
Definition frame_writer (w : W (option nat)) : Prop :=
  forall buf out n, w buf = (out, Val (Some n)) -> length out = length buf /\ skipn n out = skipn n buf.

Lemma enc_spec_frame addr dest m buf out n :
  enc_spec addr dest m buf (out, Val (Some n)) -> length out = length buf /\ skipn n out = skipn n buf.
Proof.
  unfold enc_spec. destruct m as [[mt body]|]; [|discriminate].
  destruct (259 <? 10 + length body)%nat; [discriminate|].
  destruct (Nat.leb_spec (10 + length body) (length buf)) as [L|L].
  - intros E. injection E as -> ->. split; [apply spec_packet_out_length, L|apply spec_packet_tail].
  - intros H. exfalso. exact (H n out eq_refl).
Qed.

Lemma fr_ctl ovf addr dest cmd data : addr < 256 -> dest < 256 -> cmd < 256 ->
  frame_writer (control_packet ovf addr dest (resp_hdr cmd) data).
Proof. intros Ha Hd Hc buf out n E. eapply enc_spec_frame. rewrite <- E.
  apply (enc_spec_ctl ovf addr dest false cmd data buf Ha Hd Hc). Qed.
Lemma fr_none : frame_writer (wret None).
Proof. intros buf out n. unfold wret. discriminate. Qed.
Lemma fr_panic k : frame_writer (wlift (Panic k)).
Proof. intros buf out n. unfold wlift. discriminate. Qed.
Lemma fr_if (b : bool) w1 w2 : frame_writer w1 -> frame_writer w2 -> frame_writer (if b then w1 else w2).
Proof. destruct b; auto. Qed.

(* what dispatch_request can do: panic with the buffer as it was, or run one framed response encoder *)
Inductive disp_shape (buf : list N) : pstate * res nat -> Prop :=
| ds_panic c' k : disp_shape buf ((c', buf), Panic k)
| ds_respond c' w : frame_writer w -> disp_shape buf (let '(b, r) := unwrap_len (w buf) in ((c', b), r)).

Lemma dispatch_shape ovf c buf cmd src payload : c_addr c < 256 -> src < 256 ->
  disp_shape buf (dispatch_request ovf c buf cmd src payload).
Proof.
  intros Ha Hs. unfold dispatch_request.
  repeat match goal with
         | |- context [match ?x with _ => _ end] =>
             match x with
             | unwrap_len _ => fail 1
             | _ => destruct x
             end
         | |- context [if ?x then _ else _] => destruct x
         end; try apply ds_panic;
  match goal with
  | |- disp_shape _ (let '(b, r) := unwrap_len (?w _) in ((?c', b), r)) => apply (ds_respond buf c' w)
  end;
  unfold resp_set_endpoint_id, resp_get_endpoint_id, resp_get_endpoint_uuid, resp_get_mctp_version_support,
    resp_get_message_type_suport, resp_get_vendor_defined_message_support;
  repeat lazymatch goal with
         | |- frame_writer (if _ then _ else _) => apply fr_if
         | |- frame_writer (wret None) => apply fr_none
         | |- frame_writer (wlift (Panic _)) => apply fr_panic
         | |- frame_writer (control_packet _ _ _ (resp_hdr _) _) =>
             apply fr_ctl; first [exact Ha | exact Hs | reflexivity]
         end.
Qed.

Lemma disp_shape_frame buf st r : disp_shape buf (st, r) ->
  match r with
  | Val n => length (snd st) = length buf /\ skipn n (snd st) = skipn n buf
  | Panic _ => True
  end.
Proof.
  intros H. inversion H as [c' k E|c' w Hw E].
  - exact I.
  - destruct (w buf) as [b [[n|]|k]] eqn:Ew; cbn [unwrap_len] in E; injection E as <- <-; try exact I.
    cbn [snd]. exact (Hw buf b n Ew).
Qed.

(* ================================================================ what a process step observes *)
Definition is_ctl_request (p : list N) (mt : msg_type) : bool := msg_type_eqb mt MCtpControl && is_request p.
(* well-formed control request (the condition c11_step and process_panic_class use); Spec.accepted_request adds
   the length bound, which class 0 of the decoder supplies *)
Definition accepted3 (p : list N) : bool := wf_packet p && (nth 8 p 0 =? 0) && is_request p.
Lemma accepted_request_split p : accepted_request p = accepted3 p && (12 <=? length p)%nat.
Proof. reflexivity. Qed.

Lemma accept_wf_request3 p mt rng : bytes_ok p -> decode_packet p = Val (inl (mt, rng)) ->
  is_ctl_request p mt = true -> accepted3 p = true.
Proof.
  intros Hok Hd Hq. destruct (decode_accept_inv p mt rng Hok Hd) as (Hc & Hh & Hp & S).
  unfold is_ctl_request in Hq. apply andb_true_iff in Hq as [Hm Hr].
  destruct S as [(E8 & -> & _)|[(E8 & _ & _ & _ & Hlen)|(_ & _ & Hr' & _)]].
  - exfalso. unfold header_ok in Hh. apply andb_true_iff in Hh as [_ Hs].
    destruct (supported_cases _ Hs) as [E|[E|[E|[E|E]]]]; rewrite E in *; discriminate.
  - unfold accepted3, wf_packet. rewrite Hh, Hp, E8, Hr, (payload_len_req p E8 Hr).
    rewrite model_req_len_spec in Hlen. rewrite Hlen. reflexivity.
  - rewrite Hr in Hr'. discriminate.
Qed.

Lemma accept_wf_request p mt rng : bytes_ok p -> decode_packet p = Val (inl (mt, rng)) ->
  is_ctl_request p mt = true -> accepted_request p = true.
Proof.
  intros Hok Hd Hq. rewrite accepted_request_split, (accept_wf_request3 p mt rng Hok Hd Hq). cbn [andb].
  destruct (decode_accept_inv p mt rng Hok Hd) as (Hc & Hh & _ & _).
  pose proof (accept_wf_request3 p mt rng Hok Hd Hq) as H3. unfold accepted3 in H3.
  apply andb_true_iff in H3 as [H3 Hr]. apply andb_true_iff in H3 as [_ E8].
  apply Nat.leb_le. exact (proj1 (class0_req p Hc Hh E8 Hr)).
Qed.

(* the state and observation of a process step, by cases on what decode_packet says of the same bytes *)
Lemma process_step_obs ovf c p buf : bytes_ok p -> c_addr c < 256 ->
  let cx := step ovf c (OProcess p buf) in
  match decode_packet p with
  | Panic _ => cx = (c, XPanic buf)
  | Val (inr e) => cx = (c, XProcess (inr e) buf)
  | Val (inl (mt, rng)) =>
      if is_ctl_request p mt then
        (exists c' b k, dispatch_request ovf c buf (ctl_cmd p) (nth 6 p 0) (sub p 11 (length p - 12)) = ((c', b), Panic k)
                        /\ cx = (c', XPanic b)) \/
        (exists c' b n, dispatch_request ovf c buf (ctl_cmd p) (nth 6 p 0) (sub p 11 (length p - 12)) = ((c', b), Val n)
                        /\ cx = (c', XProcess (inl ((mt, rng), Some n)) b)
                        /\ length b = length buf /\ skipn n b = skipn n buf)
      else cx = (c, XProcess (inl ((mt, rng), None)) buf)
  end.
Proof.
  intros Hok Ha. cbv zeta. cbn [step]. pose proof (process_char ovf c p buf Hok) as P.
  destruct (decode_packet p) as [[[mt rng]|e]|k] eqn:Hd.
  - fold (is_ctl_request p mt) in P. destruct (is_ctl_request p mt) eqn:Hq.
    + destruct P as [-> P]. rewrite P.
      assert (Hm : mt = MCtpControl).
      { unfold is_ctl_request in Hq. apply andb_true_iff in Hq as [Hm _]. destruct mt; try discriminate. reflexivity. }
      subst mt.
      pose proof (dispatch_shape ovf c buf (ctl_cmd p) (nth 6 p 0) (sub p 11 (length p - 12)) Ha (nth_ok p 6 Hok)) as D.
      destruct (dispatch_request ovf c buf (ctl_cmd p) (nth 6 p 0) (sub p 11 (length p - 12))) as [[c' b] [n|k]] eqn:Ed.
      * right. exists c', b, n. apply disp_shape_frame in D. cbn [snd] in D. destruct D as [D1 D2].
        repeat split; assumption.
      * left. exists c', b, k. split; reflexivity.
    + rewrite P. reflexivity.
  - rewrite P. reflexivity.
  - rewrite P. reflexivity.
Qed.

(* ================================================================ C11 *)
Lemma msg_type_eqb_refl m : msg_type_eqb m m = true.
Proof. apply N.eqb_refl. Qed.
Lemma decoded_eqb_refl d : decoded_eqb d d = true.
Proof. unfold decoded_eqb. rewrite msg_type_eqb_refl, !Nat.eqb_refl. reflexivity. Qed.
Lemma derror_eqb_refl e : derror_eqb e e = true.
Proof. unfold derror_eqb. rewrite msg_type_eqb_refl, N.eqb_refl. reflexivity. Qed.

Lemma cinv_addr g c : wf_cfg g -> cinv g c -> c_addr c < 256.
Proof. intros (Hg & _) (Ha & _). rewrite Ha. exact Hg. Qed.

Lemma c11_step_ok ovf g s c o : wf_cfg g -> cinv g c -> oinv ovf s c -> wf_op o ->
  good (c11_step s o (snd (step ovf c o))) = true.
Proof.
  intros Hg Hc Ho Hw. destruct o as [p buf| | | | | | |]; try apply good_triv.
  destruct Hw as [Hok Hb]. pose proof (cinv_addr g c Hg Hc) as Ha.
  pose proof (process_step_obs ovf c p buf Hok Ha) as S. cbv zeta in S.
  destruct Ho as (_ & _ & _ & Hdec).
  unfold c11_step. apply good_of.
  (* what the remembered decode observation can be *)
  assert (Hag : forall x,
    (match decode_packet p, x with
     | Val (inl d1), XProcess (inl (d2, _)) _ => d1 = d2
     | Val (inr e1), XProcess (inr e2) _ => e1 = e2
     | Panic _, _ => True
     | _, XPanic _ => True
     | _, _ => False
     end) ->
    match os_last_dec s with
    | Some (p', d) =>
        if list_eqb p p' then
          match d, x with
          | XDecode (inl d1), XProcess (inl (d2, _)) _ => decoded_eqb d1 d2
          | XDecode (inr e1), XProcess (inr e2) _ => derror_eqb e1 e2
          | XPanic _, _ => true
          | _, XPanic _ => true
          | _, _ => false
          end
        else true
    | None => true
    end = true).
  { intros x Hx. destruct (os_last_dec s) as [[p' d]|] eqn:El; [|reflexivity].
    destruct (list_eqb p p') eqn:Ep; [|reflexivity]. apply list_eqb_eq in Ep. subst p'.
    rewrite (Hdec p d eq_refl). cbn [step snd].
    destruct (decode_packet p) as [[d1|e1]|k]; [| |reflexivity].
    - destruct x as [?| | |[[d2 ?]|?] ?| | | | |]; try contradiction; try reflexivity.
      subst d2. apply decoded_eqb_refl.
    - destruct x as [?| | |[[d2 ?]|?] ?| | | | |]; try contradiction; try reflexivity.
      subst. apply derror_eqb_refl. }
  cbv zeta. apply andb_true_iff. split.
  - (* agrees *)
    apply Hag. destruct (decode_packet p) as [[[mt rng]|e]|k] eqn:Hd; [| |exact I].
    + destruct (is_ctl_request p mt).
      * destruct S as [(c' & b & k & _ & E)|(c' & b & n & _ & E & _)]; rewrite E; cbn [snd]; [exact I|reflexivity].
      * rewrite S. reflexivity.
    + rewrite S. reflexivity.
  - (* writes *)
    destruct (decode_packet p) as [[[mt rng]|e]|k] eqn:Hd.
    + destruct (is_ctl_request p mt) eqn:Hq.
      * pose proof (accept_wf_request3 p mt rng Hok Hd Hq) as Hacc. unfold accepted3 in Hacc.
        destruct S as [(c' & b & k & _ & E)|(c' & b & n & _ & E & L1 & L2)]; rewrite E; cbn [snd]; [reflexivity|].
        rewrite Hacc, L1, L2, Nat.eqb_refl, list_eqb_refl. reflexivity.
      * rewrite S. cbn [snd]. apply list_eqb_refl.
    + rewrite S. cbn [snd]. apply list_eqb_refl.
    + rewrite S. reflexivity.
Qed.

Theorem c11_holds : holds_on_model 11.
Proof. apply holds_from_step. intros ovf g s c o Hg Hc Ho Hw. cbn [oracle_of obs3_of fst]. apply (c11_step_ok ovf g); assumption. Qed.

(* readable forms *)
Definition decode_part (r : process_ok + derror) : decoded + derror :=
  match r with inl (d, _) => inl d | inr e => inr e end.

Theorem process_agrees_with_decode ovf c p buf st r : bytes_ok p ->
  process_packet ovf c p buf = (st, Val r) -> decode_packet p = Val (decode_part r).
Proof.
  intros Hok E. pose proof (process_char ovf c p buf Hok) as P.
  destruct (decode_packet p) as [[[mt rng]|e]|k].
  - destruct (msg_type_eqb mt MCtpControl && is_request p) eqn:Hq.
    + destruct P as [-> P]. rewrite P in E.
      apply andb_true_iff in Hq as [Hm _]. assert (mt = MCtpControl) by (destruct mt; try discriminate; reflexivity). subst mt.
      destruct (dispatch_request ovf c buf (ctl_cmd p) (nth 6 p 0) (sub p 11 (length p - 12))) as [st' [n|k]];
        [|discriminate]. injection E as _ <-. reflexivity.
    + rewrite P in E. injection E as _ <-. reflexivity.
  - rewrite P in E. injection E as _ <-. reflexivity.
  - rewrite P in E. discriminate.
Qed.

Theorem buffer_untouched_unless_request ovf c p buf c' b r : bytes_ok p -> c_addr c < 256 ->
  process_packet ovf c p buf = ((c', b), Val r) ->
  match r with
  | inl (_, Some n) => accepted_request p = true /\ length b = length buf /\ skipn n b = skipn n buf
  | _ => b = buf /\ c' = c
  end.
Proof.
  intros Hok Ha E. pose proof (process_step_obs ovf c p buf Hok Ha) as S. cbv zeta in S. cbn [step] in S.
  rewrite E in S.
  destruct (decode_packet p) as [[[mt rng]|e]|k] eqn:Hd.
  - destruct (is_ctl_request p mt) eqn:Hq.
    + destruct S as [(c2 & b2 & k & _ & S)|(c2 & b2 & n & _ & S & L1 & L2)]; [discriminate|].
      injection S as -> -> ->. split; [|split; assumption]. eapply accept_wf_request; eassumption.
    + injection S as -> -> ->. split; reflexivity.
  - injection S as -> -> ->. split; reflexivity.
  - discriminate.
Qed.

(* ================================================================ C02 *)
Theorem decode_ok_implies_pec p d : bytes_ok p -> decode_packet p = Val (inl d) -> pec_good p = true.
Proof. intros Hok Hd. destruct d as [mt rng]. destruct (decode_accept_inv p mt rng Hok Hd) as (_ & _ & Hp & _). exact Hp. Qed.

Theorem process_ok_implies_pec ovf c p buf st r : bytes_ok p ->
  process_packet ovf c p buf = (st, Val (inl r)) -> pec_good p = true.
Proof. intros Hok E. apply process_agrees_with_decode in E; [|exact Hok]. destruct r as [d o].
  eapply decode_ok_implies_pec; eassumption. Qed.

Theorem bad_pec_inert ovf c p buf : bytes_ok p -> pec_good p = false ->
  exists r, process_packet ovf c p buf = ((c, buf), r) /\ forall x, r <> Val (inl x).
Proof.
  intros Hok Hp. destruct (decode_packet p) as [[d|e]|k] eqn:Hd.
  - rewrite (decode_ok_implies_pec p d Hok Hd) in Hp. discriminate.
  - exists (Val (inr e)). split; [apply process_decode_err, Hd|discriminate].
  - exists (Panic k). split; [apply process_decode_panic, Hd|discriminate].
Qed.

Lemma c02_step_ok ovf g s c o : wf_cfg g -> cinv g c -> oinv ovf s c -> wf_op o ->
  good (c02_step s o (obs3_of (step ovf c o))) = true.
Proof.
  intros Hg Hc Ho Hw. unfold c02_step, obs3_of.
  destruct o as [p buf|p|p|rh e|u|h id a ls buf|what fld raw v|what b].
  - (* process: the observation is XProcess or XPanic *)
    destruct Hw as [Hok Hb]. cbn [step].
    destruct (process_packet ovf c p buf) as [[c' b] r] eqn:E.
    destruct ((1 <=? length p)%nat && negb (pec_good p)) eqn:Ec.
    2:{ destruct r; apply good_triv. }
    apply andb_true_iff in Ec as [Ec1 Hp]. apply negb_true_iff in Hp.
    destruct (bad_pec_inert ovf c p buf Hok Hp) as (r0 & E' & Hr). rewrite E in E'. injection E' as -> -> ->.
    destruct Ho as (He & _). rewrite He.
    destruct r0 as [[x|e]|k]; cbn [fst snd]; apply good_of.
    + exfalso. exact (Hr x eq_refl).
    + rewrite list_eqb_refl, !N.eqb_refl. reflexivity.
    + rewrite list_eqb_refl, !N.eqb_refl. reflexivity.
  - (* decode: XDecode or XPanic *)
    cbn [wf_op] in Hw. cbn [step fst snd].
    destruct (decode_packet p) as [[d|e]|k] eqn:Hd;
      destruct (1 <=? length p)%nat; try apply good_triv;
      destruct (pec_good p) eqn:Hp; try apply good_triv; apply good_of; try reflexivity.
    rewrite (decode_ok_implies_pec p d Hw Hd) in Hp. discriminate.
  - (* get_length *)
    cbn [step fst snd]. destruct (get_length p) as [r|k]; apply good_triv.
  - destruct rh; apply good_triv.
  - cbn [step]. unfold set_uuid. destruct (length u =? 16)%nat; apply good_triv.
  - (* encode: XBad only for an unknown encoder *)
    cbn [step fst snd]. destruct (encode_call ovf c h id a ls) as [w|] eqn:Ew.
    + destruct (w buf) as [b0 [r|k]]; apply good_triv.
    + destruct (known_encoder h id) eqn:Hk; [|apply good_triv].
      destruct (known_encoder_call ovf c h id a ls Hk) as [w Ew']. rewrite Ew' in Ew. discriminate.
  - cbn [step fst snd]. destruct (hdr_op what fld raw v); apply good_triv.
  - cbn [step fst snd]. destruct (conv_op what b); apply good_triv.
Qed.

Theorem c02_holds : holds_on_model 2.
Proof. apply holds_from_step. intros ovf g s c o Hg Hc Ho Hw. cbn [oracle_of]. apply (c02_step_ok ovf g); assumption. Qed.

(* ---------- bursts ---------- *)
Lemma skipn_last (l : list N) k : S k = length l -> skipn k l = [nth k l 0].
Proof. revert l. induction k as [|k IH]; intros l H.
  - destruct l as [|x [|y l]]; try discriminate. reflexivity.
  - destruct l as [|x l]; [discriminate|]. cbn [skipn nth]. apply IH. cbn [length] in H. lia. Qed.
Lemma abl_last p : (1 <= length p)%nat -> p = all_but_last p ++ [last_byte p].
Proof. intros H. unfold all_but_last, last_byte. rewrite <- (skipn_last p (length p - 1)) by lia.
  symmetry. apply firstn_skipn. Qed.

Lemma pec_good_whole p : bytes_ok p -> (1 <= length p)%nat -> (pec_good p = true <-> pec p = 0).
Proof.
  intros Hok L. rewrite (abl_last p L) at 2. unfold pec_good.
  rewrite pec_append_zero by (first [apply bytes_ok_first, Hok | apply nth_ok, Hok]).
  apply N.eqb_eq.
Qed.

Lemma xorl_ok a b : bytes_ok a -> bytes_ok b -> bytes_ok (xorl a b).
Proof. revert b. induction a as [|x a IH]; intros [|y b] Ha Hb; try constructor.
  - inversion Ha; inversion Hb; subst. apply lxor_lt256; assumption.
  - inversion Ha; inversion Hb; subst. apply IH; assumption. Qed.
Lemma xorl_length a b : length a = length b -> length (xorl a b) = length a.
Proof. revert b. induction a as [|x a IH]; intros [|y b] H; try discriminate; [reflexivity|].
  cbn [xorl length]. f_equal. apply IH. cbn [length] in H. lia. Qed.

(* an error pattern whose set bits lie within 8 consecutive bit positions: a window w (8 bits, nonzero) placed
   j bits into byte i, spilling into byte i+1; or, when the window starts in the last byte, whatever part of
   it falls inside that byte (any nonzero value) *)
Definition burst (e : list N) : Prop :=
  (exists i k w j, 0 < w /\ w < 256 /\ j < 8 /\ e = repeat 0 i ++ [hi w j; lo w j] ++ repeat 0 k) \/
  (exists i x, 0 < x /\ x < 256 /\ e = repeat 0 i ++ [x]).

Lemma burst_crc e : burst e -> bytes_ok e /\ crc_from 0 e <> 0.
Proof.
  intros [(i & k & w & j & H0 & H1 & Hj & ->)|(i & x & H0 & H1 & ->)].
  - split.
    + apply bytes_ok_app. split; [apply zeros_ok|]. apply bytes_ok_cons. split; [apply hi_lt, H1|].
      apply bytes_ok_cons. split; [apply lo_lt|apply zeros_ok].
    + apply burst_detected; assumption.
  - split.
    + apply bytes_ok_app. split; [apply zeros_ok|]. apply bytes_ok_cons. split; [exact H1|constructor].
    + rewrite crc_from_app, crc_zeros, crc_from_cons, crc_from_nil, crc_step_0_l.
      intros E. apply U_inj0 in E; [lia|exact H1].
Qed.

Theorem burst_never_accepted p e d : bytes_ok p -> decode_packet p = Val (inl d) ->
  length e = length p -> burst e -> forall d', decode_packet (xorl p e) <> Val (inl d').
Proof.
  intros Hok Hd Hl Hb d' Hd'. destruct (burst_crc e Hb) as [He Hc].
  destruct d as [mt rng]. destruct (decode_accept_inv p mt rng Hok Hd) as (Hk & Hh & Hp & _).
  pose proof (class0_len9 p Hk Hh) as L9.
  pose proof (xorl_ok p e Hok He) as Hok'. pose proof (xorl_length p e (eq_sym Hl)) as Hl'.
  pose proof (decode_ok_implies_pec _ d' Hok' Hd') as Hp'.
  apply pec_good_whole in Hp; [|exact Hok|lia]. apply pec_good_whole in Hp'; [|exact Hok'|lia].
  change (pec (xorl p e)) with (crc_from (N.lxor 0 0) (xorl p e)) in Hp'.
  rewrite crc_from_lin in Hp' by (first [reflexivity | assumption | symmetry; assumption]).
  change (crc_from 0 p) with (pec p) in Hp'. rewrite Hp, N.lxor_0_l in Hp'. exact (Hc Hp').
Qed.

Theorem burst_process_never_ok ovf c p e buf d : bytes_ok p -> decode_packet p = Val (inl d) ->
  length e = length p -> burst e ->
  exists r, process_packet ovf c (xorl p e) buf = ((c, buf), r) /\ forall x, r <> Val (inl x).
Proof.
  intros Hok Hd Hl Hb. destruct (burst_crc e Hb) as [He _]. pose proof (xorl_ok p e Hok He) as Hok'.
  pose proof (burst_never_accepted p e d Hok Hd Hl Hb) as N.
  destruct (decode_packet (xorl p e)) as [[x|er]|k] eqn:Hx.
  - exfalso. exact (N x eq_refl).
  - exists (Val (inr er)). split; [apply process_decode_err, Hx|discriminate].
  - exists (Panic k). split; [apply process_decode_panic, Hx|discriminate].
Qed.

(* ================================================================ C10: the request processor *)
Lemma ctl_succeeds ovf addr dest cmd data buf : addr < 256 -> dest < 256 -> cmd < 256 ->
  (12 + length data <= length buf)%nat -> (12 + length data <= 259)%nat ->
  exists out n, control_packet ovf addr dest (resp_hdr cmd) data buf = (out, Val (Some n)).
Proof.
  intros Ha Hd Hc L1 L2. pose proof (enc_spec_ctl ovf addr dest false cmd data buf Ha Hd Hc) as H.
  unfold enc_spec in H. fold (resp_hdr cmd) in H.
  destruct (Nat.ltb_spec 259 (10 + length ([N.b2n false * 128; cmd] ++ data))) as [L|L];
    [cbn [app length] in L; lia|].
  destruct (Nat.leb_spec (10 + length ([N.b2n false * 128; cmd] ++ data)) (length buf)) as [L'|L'];
    [|cbn [app length] in L'; lia].
  eexists. eexists. exact H.
Qed.

Lemma respond_ok (c' : ctx) (w : W (option nat)) buf : (exists out n, w buf = (out, Val (Some n))) ->
  exists st n, (let '(b, r) := unwrap_len (w buf) in ((c', b), r)) = (st, Val n).
Proof. intros (out & n & E). rewrite E. cbn [unwrap_len]. eexists. eexists. reflexivity. Qed.

Lemma index_sub p i m : (i < m)%nat -> (11 + m <= length p)%nat -> index (sub p 11 m) i = Val (nth (11 + i) p 0).
Proof. intros Hi Hm. unfold sub. rewrite index_val by (rewrite firstn_length, skipn_length; lia).
  rewrite nth_first by exact Hi. rewrite nth_skip. reflexivity. Qed.

Lemma valid_cfg_facts g : valid_cfg g = true ->
  (length (g_msg_types g) <= 30)%nat /\ (1 <= length (g_vendor_ids g))%nat /\ (length (g_vendor_ids g) <= 255)%nat /\
  forall v, In v (g_vendor_ids g) -> v_format v = 0 \/ v_format v = 1.
Proof.
  unfold valid_cfg. intros H. apply andb_true_iff in H as [H H4]. apply andb_true_iff in H as [H H3].
  apply andb_true_iff in H as [H1 H2]. apply Nat.leb_le in H1, H2, H3. repeat split; try assumption.
  intros v Hv. rewrite forallb_forall in H4. specialize (H4 v Hv). apply N.leb_le in H4. lia.
Qed.

Lemma accepted3_facts p : accepted3 p = true ->
  wf_packet p = true /\ (nth 8 p 0 =? 0) = true /\ is_request p = true /\
  len_ok (req_fixed_len (ctl_cmd p)) (length p - 12) = true.
Proof.
  unfold accepted3. intros H. apply andb_true_iff in H as [H Hr]. apply andb_true_iff in H as [Hw E8].
  repeat split; try assumption. unfold wf_packet in Hw. rewrite E8, Hr in Hw.
  apply andb_true_iff in Hw as [_ Hl]. rewrite (payload_len_req p E8 Hr) in Hl. exact Hl.
Qed.

Lemma cmd_lt9_cases x : (9 <=? x) = false ->
  x = 0 \/ x = 1 \/ x = 2 \/ x = 3 \/ x = 4 \/ x = 5 \/ x = 6 \/ x = 7 \/ x = 8.
Proof. intros H. apply N.leb_gt in H. lia. Qed.

(* the request dispatcher on an accepted request (command < 9, at least 12 bytes): it panics exactly on the
   classes P2-P5 *)
Lemma dispatch_panics_iff ovf g c buf p :
  wf_cfg g -> cinv g c -> valid_cfg g = true -> (64 <= length buf)%nat -> bytes_ok p ->
  accepted3 p = true -> (9 <=? ctl_cmd p) = false -> (12 <= length p)%nat ->
  let d := dispatch_request ovf c buf (ctl_cmd p) (nth 6 p 0) (sub p 11 (length p - 12)) in
  (process_panic_class ovf g p = 0 /\ exists st n, d = (st, Val n)) \/
  (process_panic_class ovf g p <> 0 /\ exists st k, d = (st, Panic k)).
Proof.
  intros Hg Hc Hv Lb Hok Hacc Hcmd L12. cbv zeta.
  pose proof (cinv_addr g c Hg Hc) as Ha. pose proof (nth_ok p 6 Hok) as Hs.
  destruct (valid_cfg_facts g Hv) as (Vm & V1 & V16 & Vf).
  destruct Hc as (_ & Cm & Cv & _ & Cr & Cu & Cul).
  destruct (accepted3_facts p Hacc) as (_ & _ & _ & Hlen).
  unfold process_panic_class. fold (accepted3 p). rewrite Hacc. cbv zeta.
  unfold dispatch_request.
  destruct (cmd_lt9_cases _ Hcmd) as [E|[E|[E|[E|[E|[E|[E|[E|E]]]]]]]]; rewrite E in *;
    cbn [cmd_from_u8 N.leb N.compare Pos.compare Pos.compare_cont N.eqb Pos.eqb orb]; cbv beta iota zeta.
  - (* 0 *) right. split; [discriminate|]. eexists. eexists. reflexivity.
  - (* 1: Set Endpoint ID *)
    unfold len_ok in Hlen. cbn [req_fixed_len Nat.eqb orb] in Hlen. apply Nat.eqb_eq in Hlen.
    rewrite Hlen. rewrite !index_sub by lia. change (11 + 0)%nat with 11%nat. change (11 + 1)%nat with 12%nat.
    assert (Hop : nth 11 p 0 = 0 \/ nth 11 p 0 = 1 \/ nth 11 p 0 = 2 \/ nth 11 p 0 = 3 \/ 4 <= nth 11 p 0) by lia.
    destruct Hop as [Eo|[Eo|[Eo|[Eo|Eo]]]]; try rewrite Eo; cbn [N.eqb Pos.eqb orb N.leb N.compare Pos.compare Pos.compare_cont].
    + left. split; [reflexivity|]. apply respond_ok. unfold resp_set_endpoint_id.
      apply ctl_succeeds; cbn [length c_addr set_eid_req set_eid_resp]; first [assumption | reflexivity | lia].
    + left. split; [reflexivity|]. apply respond_ok. unfold resp_set_endpoint_id.
      apply ctl_succeeds; cbn [length c_addr set_eid_req set_eid_resp]; first [assumption | reflexivity | lia].
    + right. split; [discriminate|]. eexists. eexists. reflexivity.
    + left. split; [reflexivity|]. apply respond_ok. unfold resp_set_endpoint_id.
      apply ctl_succeeds; cbn [length]; first [assumption | reflexivity | lia].
    + assert (F : (nth 11 p 0 =? 0) = false /\ (nth 11 p 0 =? 1) = false /\ (nth 11 p 0 =? 2) = false /\
                  (nth 11 p 0 =? 3) = false /\ (4 <=? nth 11 p 0) = true).
      { repeat split; first [apply N.eqb_neq; lia | apply N.leb_le; lia]. }
      destruct F as (F0 & F1 & F2 & F3 & F4). rewrite F0, F1, F2, F3, F4. cbn [orb].
      right. split; [discriminate|]. eexists. eexists. reflexivity.
  - (* 2: Get Endpoint ID *)
    left. split; [reflexivity|]. apply respond_ok. unfold resp_get_endpoint_id.
    apply ctl_succeeds; cbn [length]; first [assumption | reflexivity | lia].
  - (* 3: Get Endpoint UUID *)
    left. split; [reflexivity|]. apply respond_ok. unfold resp_get_endpoint_uuid.
    apply ctl_succeeds; cbn [length]; first [assumption | reflexivity | lia].
  - (* 4: Get MCTP Version Support *)
    left. split; [reflexivity|]. apply respond_ok. unfold resp_get_mctp_version_support.
    apply ctl_succeeds; cbn [length]; first [assumption | reflexivity | lia].
  - (* 5: Get Message Type Support *)
    left. split; [reflexivity|]. apply respond_ok. unfold resp_get_message_type_suport. rewrite Cm.
    replace (30 <? length (g_msg_types g))%nat with false by (symmetry; apply Nat.ltb_ge; lia).
    apply ctl_succeeds; cbn [length]; first [assumption | reflexivity | lia].
  - (* 6: Get Vendor Defined Message Support *)
    unfold len_ok in Hlen. cbn [req_fixed_len Nat.eqb orb] in Hlen. apply Nat.eqb_eq in Hlen.
    rewrite Hlen. rewrite !index_sub by lia. change (11 + 0)%nat with 11%nat.
    cbn [c_vendor_ids set_selector c_addr c_selector]. rewrite Cv.
    pose proof (nth_ok p 11 Hok) as Hsel. set (sel := nth 11 p 0) in *.
    destruct (N.leb_spec (N.of_nat (length (g_vendor_ids g))) sel) as [Ls|Ls].
    + (* selector out of range *)
      right. split; [discriminate|].
      assert (En : nth_error (g_vendor_ids g) (N.to_nat sel) = None) by (apply nth_error_None; lia).
      unfold u8_add. destruct (sel + 1 <? 256); [rewrite En; eexists; eexists; reflexivity|].
      destruct ovf; [eexists; eexists; reflexivity|]. rewrite En. eexists. eexists. reflexivity.
    + left. split; [reflexivity|].
      unfold u8_add. replace (sel + 1 <? 256) with true by (symmetry; apply N.ltb_lt; lia).
      destruct (nth_error (g_vendor_ids g) (N.to_nat sel)) as [v|] eqn:En;
        [|apply nth_error_None in En; lia].
      pose proof (Vf v (nth_error_In _ _ En)) as Hf.
      assert (Hsel' : (if sel + 1 =? N.of_nat (length (g_vendor_ids g)) mod 256 then 255 else sel + 1) < 256).
      { destruct (sel + 1 =? N.of_nat (length (g_vendor_ids g)) mod 256); lia. }
      destruct Hf as [Ef|Ef]; rewrite Ef; cbn [N.eqb Pos.eqb];
        apply respond_ok; unfold resp_get_vendor_defined_message_support; cbn [length Nat.ltb Nat.leb];
        apply ctl_succeeds; cbn [length]; first [assumption | reflexivity | lia].
  - (* 7 *) right. split; [discriminate|]. eexists. eexists. reflexivity.
  - (* 8 *) right. split; [discriminate|]. eexists. eexists. reflexivity.
Qed.

Lemma accepted3_decodes p : accepted3 p = true ->
  spec_decode p = inl (MCtpControl, (11%nat, (length p - 12)%nat)) /\ header_ok p = true.
Proof.
  intros Hacc. destruct (accepted3_facts p Hacc) as (Hw & E8 & Hr & Hlen).
  unfold wf_packet in Hw. apply andb_true_iff in Hw as [Hw _]. apply andb_true_iff in Hw as [Hh Hp].
  split; [|exact Hh]. unfold spec_decode. rewrite Hh, E8, Hr, Hp. cbn [negb].
  rewrite model_req_len_spec, Hlen. reflexivity.
Qed.

Definition recv_panic_class (ovf : bool) (g : config) (p : list N) : N :=
  if decode_panic_class p =? 0 then process_panic_class ovf g p else decode_panic_class p.

Theorem process_panics_iff ovf g c p buf :
  wf_cfg g -> cinv g c -> valid_cfg g = true -> (64 <= length buf)%nat -> bytes_ok p ->
  (is_panic (snd (process_packet ovf c p buf)) = true <-> recv_panic_class ovf g p <> 0).
Proof.
  intros Hg Hc Hv Lb Hok. unfold recv_panic_class.
  pose proof (process_char ovf c p buf Hok) as P.
  destruct (decode_char p Hok) as [[Hk Hd]|[Hk [k Hd]]].
  2:{ rewrite Hd in P. rewrite P. cbn [snd is_panic]. apply N.eqb_neq in Hk. rewrite Hk.
      apply N.eqb_neq in Hk. split; [intros _; exact Hk|reflexivity]. }
  rewrite Hk. cbn [N.eqb]. rewrite Hd in P.
  destruct (accepted3 p) eqn:Hacc.
  - destruct (accepted3_decodes p Hacc) as [Es Hh]. rewrite Es in P.
    destruct (accepted3_facts p Hacc) as (_ & E8 & Hr & _).
    destruct (class0_req p Hk Hh E8 Hr) as [L12 Hcmd].
    rewrite Hr in P. change (msg_type_eqb MCtpControl MCtpControl && true) with true in P. cbv iota in P.
    destruct P as [_ P]. rewrite P.
    pose proof (dispatch_panics_iff ovf g c buf p Hg Hc Hv Lb Hok Hacc Hcmd L12) as D. cbv zeta in D.
    destruct D as [(Hz & st & n & E)|(Hz & st & k & E)]; rewrite E; cbn [snd is_panic].
    + rewrite Hz. split; [discriminate|intros H; contradiction].
    + split; [intros _; exact Hz|reflexivity].
  - assert (Hz : process_panic_class ovf g p = 0).
    { unfold process_panic_class. fold (accepted3 p). rewrite Hacc. reflexivity. }
    rewrite Hz. split; [|intros H; contradiction]. intros Hpan. exfalso.
    destruct (spec_decode p) as [[mt rng]|e] eqn:Es.
    + fold (is_ctl_request p mt) in P. destruct (is_ctl_request p mt) eqn:Hq.
      * rewrite (accept_wf_request3 p mt rng Hok Hd Hq) in Hacc. discriminate.
      * rewrite P in Hpan. discriminate.
    + rewrite P in Hpan. discriminate.
Qed.

Lemma c10_process_step ovf g c p buf : wf_cfg g -> cinv g c -> bytes_ok p ->
  good (c10_step ovf g (OProcess p buf) (snd (step ovf c (OProcess p buf)))) = true.
Proof.
  intros Hg Hc Hok. unfold c10_step.
  destruct (valid_cfg g && (64 <=? length buf)%nat) eqn:E; [|apply good_triv].
  apply andb_true_iff in E as [Hv Lb]. apply Nat.leb_le in Lb.
  pose proof (process_panics_iff ovf g c p buf Hg Hc Hv Lb Hok) as I. unfold recv_panic_class in I.
  cbv zeta. unfold good, sv_kf; cbn [s_o s_kf].
  set (k := if decode_panic_class p =? 0 then process_panic_class ovf g p else decode_panic_class p) in *.
  cbn [step]. destruct (process_packet ovf c p buf) as [[c' b] [r|kk]]; cbn [snd is_panic] in *.
  - reflexivity.
  - cbn [is_panic_obs negb orb]. destruct I as [I _]. specialize (I eq_refl). apply N.eqb_neq in I. rewrite I. reflexivity.
Qed.

Lemma c10_step_ok ovf g c o : wf_cfg g -> cinv g c -> wf_op o ->
  good (c10_step ovf g o (snd (step ovf c o))) = true.
Proof.
  intros Hg Hc Hw. destruct o as [p buf|p|p| | | | |]; try apply good_triv.
  - destruct Hw as [Hok _]. apply c10_process_step; assumption.
  - apply c10_decode_ok; [exact Hw|]. left. eexists. reflexivity.
  - apply c10_decode_ok; [exact Hw|]. right. eexists. reflexivity.
Qed.

Theorem c10_holds : holds_on_model 10.
Proof. apply holds_from_step. intros ovf g s c o Hg Hc Ho Hw. cbn [oracle_of obs3_of fst]. apply c10_step_ok; assumption. Qed.

(* ================================================================ C01: decoding a specified packet *)
Lemma spec_packet_pre A D M B : spec_packet A D M B = spec_prefix A D M B ++ [pec (spec_prefix A D M B)].
Proof. reflexivity. Qed.
Lemma spec_prefix_length A D M B : length (spec_prefix A D M B) = (9 + length B)%nat.
Proof. unfold spec_prefix. rewrite app_length. reflexivity. Qed.

Lemma spec_packet_pec_good A D M B : pec_good (spec_packet A D M B) = true.
Proof.
  unfold pec_good, last_byte, all_but_last. rewrite spec_packet_length.
  replace (10 + length B - 1)%nat with (length (spec_prefix A D M B)) by (rewrite spec_prefix_length; lia).
  rewrite spec_packet_pre. rewrite nth_app_exact by reflexivity. rewrite firstn_app_exact by reflexivity.
  apply N.eqb_refl.
Qed.
Lemma spec_packet_nth4 A D M B : nth 4 (spec_packet A D M B) 0 = 1.
Proof. reflexivity. Qed.
Lemma spec_packet_nth8 A D M B : nth 8 (spec_packet A D M B) 0 = M.
Proof. reflexivity. Qed.
Lemma spec_packet_header_ok A D M B : supported_type M = true -> header_ok (spec_packet A D M B) = true.
Proof. intros H. unfold header_ok. rewrite spec_packet_nth4, spec_packet_nth8, H. reflexivity. Qed.

Lemma spec_packet_sub A D M B1 B2 : sub (spec_packet A D M (B1 ++ B2)) (9 + length B1) (length B2) = B2.
Proof. rewrite <- (app_nil_r (spec_packet A D M (B1 ++ B2))). apply spec_packet_body. Qed.

(* SPDM, secured, vendor defined *)
Lemma decode_spec_vendor A D M B : bytes_ok (spec_packet A D M B) -> supported_type M = true -> (M =? 0) = false ->
  decode_packet (spec_packet A D M B) = Val (inl (msg_type_from_u8 M, (9%nat, length B))).
Proof.
  intros Hok Hs Hm. set (P := spec_packet A D M B) in *.
  assert (Hh : header_ok P = true) by (apply spec_packet_header_ok, Hs).
  assert (Hp : pec_good P = true) by apply spec_packet_pec_good.
  assert (E8 : nth 8 P 0 = M) by reflexivity.
  assert (L : length P = (10 + length B)%nat) by apply spec_packet_length.
  assert (Hk : decode_panic_class P = 0).
  { unfold decode_panic_class. rewrite Hh, Hp, E8, Hm. cbn [negb andb]. dn. reflexivity. }
  rewrite (decode_exact_all P Hok Hk). unfold spec_decode. rewrite Hh, Hp, E8, Hm. cbn [negb].
  do 4 f_equal. lia.
Qed.

(* control requests *)
Lemma decode_spec_request A D code params : bytes_ok (spec_packet A D 0 ([128; code] ++ params)) ->
  (9 <=? code) = false -> len_ok (model_req_len code) (length params) = true ->
  decode_packet (spec_packet A D 0 ([128; code] ++ params)) = Val (inl (MCtpControl, (11%nat, length params))).
Proof.
  intros Hok Hc Hl. set (P := spec_packet A D 0 ([128; code] ++ params)) in *.
  assert (Hh : header_ok P = true) by (apply spec_packet_header_ok; reflexivity).
  assert (Hp : pec_good P = true) by apply spec_packet_pec_good.
  assert (E8 : nth 8 P 0 = 0) by reflexivity.
  assert (Hr : is_request P = true) by reflexivity.
  assert (Ec : ctl_cmd P = code) by reflexivity.
  assert (L : length P = (12 + length params)%nat) by (unfold P; rewrite spec_packet_length, app_length; reflexivity).
  assert (L' : (length P - 12)%nat = length params) by lia.
  assert (Hk : decode_panic_class P = 0).
  { unfold decode_panic_class. rewrite Hh, E8, Hr, Ec, Hc. cbn [negb andb N.eqb]. dn. reflexivity. }
  rewrite (decode_exact_all P Hok Hk). unfold spec_decode. rewrite Hh, Hp, E8, Hr, Ec, L', Hl. reflexivity.
Qed.

(* control responses *)
Lemma decode_spec_response_cc A D code cc fields : bytes_ok (spec_packet A D 0 ([0; code; cc] ++ fields)) ->
  (cc =? 0) = false -> cc <= 5 ->
  decode_packet (spec_packet A D 0 ([0; code; cc] ++ fields)) =
  Val (inr (MCtpControl, DControlMessage (CEUnsuccessfulCompletionCode cc))).
Proof.
  intros Hok Hc0 Hc5. set (P := spec_packet A D 0 ([0; code; cc] ++ fields)) in *.
  assert (Hh : header_ok P = true) by (apply spec_packet_header_ok; reflexivity).
  assert (E8 : nth 8 P 0 = 0) by reflexivity.
  assert (Hr : is_request P = false) by reflexivity.
  assert (Ecc : ctl_cc P = cc) by reflexivity.
  assert (L : length P = (13 + length fields)%nat) by (unfold P; rewrite spec_packet_length, app_length; reflexivity).
  assert (Hk : decode_panic_class P = 0).
  { unfold decode_panic_class. rewrite Hh, E8, Hr, Ecc, Hc0. cbn [negb andb N.eqb]. dn.
    replace (5 <? cc) with false by (symmetry; apply N.ltb_ge; exact Hc5). reflexivity. }
  rewrite (decode_exact_all P Hok Hk). unfold spec_decode. rewrite Hh, E8, Hr, Ecc, Hc0. reflexivity.
Qed.

Lemma decode_spec_response_ok A D code fields : bytes_ok (spec_packet A D 0 ([0; code; 0] ++ fields)) ->
  ((code =? 7) || (10 <=? code)) = false -> len_ok (model_resp_len code) (length fields) = true ->
  decode_packet (spec_packet A D 0 ([0; code; 0] ++ fields)) = Val (inl (MCtpControl, (12%nat, length fields))).
Proof.
  intros Hok Hc Hl. set (P := spec_packet A D 0 ([0; code; 0] ++ fields)) in *.
  assert (Hh : header_ok P = true) by (apply spec_packet_header_ok; reflexivity).
  assert (Hp : pec_good P = true) by apply spec_packet_pec_good.
  assert (E8 : nth 8 P 0 = 0) by reflexivity.
  assert (Hr : is_request P = false) by reflexivity.
  assert (Ec : ctl_cmd P = code) by reflexivity.
  assert (Ecc : ctl_cc P = 0) by reflexivity.
  assert (L : length P = (13 + length fields)%nat) by (unfold P; rewrite spec_packet_length, app_length; reflexivity).
  assert (L' : (length P - 13)%nat = length fields) by lia.
  assert (Hk : decode_panic_class P = 0).
  { unfold decode_panic_class. rewrite Hh, E8, Hr, Ecc, Ec, Hc. cbn [negb andb N.eqb]. dn. reflexivity. }
  rewrite (decode_exact_all P Hok Hk). unfold spec_decode. rewrite Hh, Hp, E8, Hr, Ecc, Ec, L', Hl. reflexivity.
Qed.

(* ---------- the shapes of the messages the encoders stand for ---------- *)
Lemma spec_request_lenok id a ls code params : spec_request id a ls = Some (code, params) ->
  (9 <=? code) = false -> len_ok (model_req_len code) (length params) = true.
Proof.
  unfold spec_request. intros E Hc.
  repeat match type of E with
         | (match ?x with _ => _ end) = _ => destruct x; try discriminate
         | (if ?x then _ else _) = _ => destruct x; try discriminate
         end;
  injection E as <- <-; first [reflexivity | discriminate].
Qed.

Lemma spec_response_ids id a ls eid r : spec_response id a ls eid = Some r ->
  id = 1 \/ id = 2 \/ id = 3 \/ id = 4 \/ id = 5 \/ id = 6.
Proof.
  unfold spec_response. intros E.
  repeat match type of E with
         | (match ?x with _ => _ end) = _ => destruct x; try discriminate
         | (if ?x then _ else _) = _ => destruct x; try discriminate
         end; tauto.
Qed.

Lemma args_resp_cc id a ls : (30 <=? id) = false -> args_okb false id a ls = true -> arg a 0 <= 5.
Proof. intros H30 H. unfold args_okb in H. rewrite H30 in H. apply andb_true_iff in H as [_ H].
  apply andb_true_iff in H as [H _]. unfold ok_resp in H. apply andb_true_iff in H as [H _].
  apply N.leb_le. exact H. Qed.
Lemma args_resp_uuid a ls : args_okb false 3 a ls = true -> length (larg ls 0) = 16%nat.
Proof. intros H. unfold args_okb in H. apply andb_true_iff in H as [_ H]. change (30 <=? 3) with false in H.
  cbv iota in H. apply andb_true_iff in H as [_ H]. apply Nat.eqb_eq. exact H. Qed.

Lemma spec_response_shape id a ls eid code cc fields : spec_response id a ls eid = Some (code, cc, fields) ->
  args_okb false id a ls = true ->
  cc = arg a 0 /\ cc <= 5 /\
  (id <> 2 -> ((code =? 7) || (10 <=? code)) = false /\ len_ok (model_resp_len code) (length fields) = true).
Proof.
  intros E Hok. pose proof (spec_response_ids _ _ _ _ _ E) as Hid.
  destruct Hid as [->|[->|[->|[->|[->| ->]]]]].
  - pose proof (args_resp_cc 1 a ls eq_refl Hok). cbn [spec_response] in E. injection E as <- <- <-.
    repeat split; try assumption; reflexivity.
  - pose proof (args_resp_cc 2 a ls eq_refl Hok). cbn [spec_response] in E. injection E as <- <- <-.
    repeat split; try assumption; contradiction.
  - pose proof (args_resp_cc 3 a ls eq_refl Hok). pose proof (args_resp_uuid a ls Hok) as Hu.
    cbn [spec_response] in E. injection E as <- <- <-.
    repeat split; try assumption; try reflexivity. rewrite Hu. reflexivity.
  - pose proof (args_resp_cc 4 a ls eq_refl Hok). cbn [spec_response] in E. injection E as <- <- <-.
    repeat split; try assumption; reflexivity.
  - pose proof (args_resp_cc 5 a ls eq_refl Hok). cbn [spec_response] in E.
    destruct (30 <? length (larg ls 0))%nat; [discriminate|]. injection E as <- <- <-.
    repeat split; try assumption; reflexivity.
  - pose proof (args_resp_cc 6 a ls eq_refl Hok). cbn [spec_response] in E. injection E as <- <- <-.
    repeat split; try assumption; reflexivity.
Qed.

Lemma spec_message_other h id a ls eid : id <> 30 -> id <> 31 -> id <> 32 -> id <> 33 ->
  spec_message h id a ls eid =
  if h then
    if id =? 20 then
      let d := arg a 2 in
      if arg a 1 =? 0 then Some (126, [(d / 256) mod 256; d mod 256] ++ larg ls 0)
      else if arg a 1 =? 1 then
        Some (127, [(d / 16777216) mod 256; (d / 65536) mod 256; (d / 256) mod 256; d mod 256] ++ larg ls 0)
      else None
    else
      match spec_request id a ls with
      | Some (code, params) => Some (0, [128; code] ++ params)
      | None => None
      end
  else
    match spec_response id a ls eid with
    | Some (code, cc, fields) => Some (0, [0; code; cc] ++ fields)
    | None => None
    end.
Proof.
  intros H30 H31 H32 H33. unfold spec_message.
  destruct id as [|q]; [reflexivity|].
  do 6 (try (destruct q as [q|q|]; try reflexivity; try (exfalso; apply H30; reflexivity); try (exfalso; apply H31; reflexivity); try (exfalso; apply H32; reflexivity); try (exfalso; apply H33; reflexivity))).
Qed.

(* ---------- the oracle's verdict on a decode of an encoded message ---------- *)
Definition c01_inner (h : bool) (id : N) (a : list N) (p : list N) (n : nat) (mt : N) (body : list N) (x : obs) : sv :=
  let is_ctl := mt =? 0 in
  let is_resp := is_ctl && negb h in
  let cc := arg a 0 in
  let kf := if is_ctl && h && (9 <=? nth 1 body 0) then 102
            else if is_resp && (cc =? 0) && (id =? 2) then 101
            else 0 in
  if is_resp && negb (cc =? 0) then
    sv_kf (match x with
           | XDecode (inr (m, DControlMessage (CEUnsuccessfulCompletionCode c))) => msg_type_eqb m MCtpControl && (c =? cc)
           | _ => false end) kf id
  else
    let hl := if is_ctl then (if h then 11 else 12)%nat else 9%nat in
    sv_kf (match x with
           | XDecode (inl (m, (off, len))) =>
               (msg_type_to_u8 m =? mt) && (off =? hl)%nat && (len =? n - 1 - hl)%nat
               && list_eqb (sub p off len) (skipn (hl - 9) body)
           | _ => false end) kf id.

Lemma good_kf_true kf t : good (sv_kf true kf t) = true.
Proof. reflexivity. Qed.
Lemma good_kf_class o kf t : kf <> 0 -> good (sv_kf o kf t) = true.
Proof. intros H. unfold good, sv_kf; cbn [s_o s_kf]. apply N.eqb_neq in H. rewrite H. apply orb_true_r. Qed.

Lemma c01_vendor h id a A D mt body : bytes_ok (spec_packet A D mt body) ->
  supported_type mt = true -> (mt =? 0) = false ->
  good (c01_inner h id a (spec_packet A D mt body) (10 + length body) mt body
          (match decode_packet (spec_packet A D mt body) with Val r => XDecode r | Panic _ => XPanic [] end)) = true.
Proof.
  intros Hok Hs Hm. rewrite (decode_spec_vendor A D mt body Hok Hs Hm). unfold c01_inner. rewrite Hm. cbn [andb].
  cbv zeta. cbv iota.
  replace (msg_type_to_u8 (msg_type_from_u8 mt) =? mt) with true
    by (destruct (supported_cases _ Hs) as [E|[E|[E|[E|E]]]]; rewrite E; reflexivity).
  rewrite Nat.eqb_refl. replace (10 + length body - 1 - 9)%nat with (length body) by lia. rewrite Nat.eqb_refl.
  change (9 - 9)%nat with 0%nat. change (skipn 0 body) with body.
  pose proof (spec_packet_sub A D mt [] body) as Sb. cbn [app length] in Sb. change (9 + 0)%nat with 9%nat in Sb. rewrite Sb.
  rewrite list_eqb_refl. reflexivity.
Qed.

Lemma c01_request id a A D code params : bytes_ok (spec_packet A D 0 ([128; code] ++ params)) ->
  ((9 <=? code) = false -> len_ok (model_req_len code) (length params) = true) ->
  good (c01_inner true id a (spec_packet A D 0 ([128; code] ++ params)) (10 + length ([128; code] ++ params)) 0
          ([128; code] ++ params)
          (match decode_packet (spec_packet A D 0 ([128; code] ++ params)) with Val r => XDecode r | Panic _ => XPanic [] end)) = true.
Proof.
  intros Hok Hl. unfold c01_inner. cbn [N.eqb andb negb nth app]. cbv zeta. cbv iota.
  destruct (9 <=? code) eqn:Hc; [apply good_kf_class; discriminate|].
  pose proof (decode_spec_request A D code params Hok Hc (Hl eq_refl)) as Hd. cbn [app] in Hd. rewrite Hd.
  change (msg_type_to_u8 MCtpControl =? 0) with true. rewrite Nat.eqb_refl. cbn [length].
  replace (10 + S (S (length params)) - 1 - 11)%nat with (length params) by lia. rewrite Nat.eqb_refl.
  change (11 - 9)%nat with 2%nat. cbn [skipn].
  pose proof (spec_packet_sub A D 0 [128; code] params) as Sb. cbn [app length] in Sb. change (9 + 2)%nat with 11%nat in Sb. rewrite Sb.
  rewrite list_eqb_refl. reflexivity.
Qed.

Lemma c01_response id a A D code fields : bytes_ok (spec_packet A D 0 ([0; code; arg a 0] ++ fields)) ->
  arg a 0 <= 5 ->
  (id <> 2 -> ((code =? 7) || (10 <=? code)) = false /\ len_ok (model_resp_len code) (length fields) = true) ->
  good (c01_inner false id a (spec_packet A D 0 ([0; code; arg a 0] ++ fields)) (10 + length ([0; code; arg a 0] ++ fields)) 0
          ([0; code; arg a 0] ++ fields)
          (match decode_packet (spec_packet A D 0 ([0; code; arg a 0] ++ fields)) with Val r => XDecode r | Panic _ => XPanic [] end)) = true.
Proof.
  intros Hok Hcc Hl. unfold c01_inner. cbn [N.eqb andb negb]. cbv zeta.
  destruct (arg a 0 =? 0) eqn:Hc0; cbn [negb andb].
  - apply N.eqb_eq in Hc0. rewrite Hc0 in *.
    destruct (N.eqb_spec id 2) as [E2|E2]; [apply good_kf_class; discriminate|].
    destruct (Hl E2) as [Hcode Hlen].
    pose proof (decode_spec_response_ok A D code fields Hok Hcode Hlen) as Hd. cbn [app] in Hd. cbn [app]. rewrite Hd.
    change (msg_type_to_u8 MCtpControl =? 0) with true. rewrite Nat.eqb_refl. cbn [app length].
    replace (10 + S (S (S (length fields))) - 1 - 12)%nat with (length fields) by lia. rewrite Nat.eqb_refl.
    change (12 - 9)%nat with 3%nat. cbn [skipn].
    pose proof (spec_packet_sub A D 0 [0; code; 0] fields) as Sb. cbn [app length] in Sb. change (9 + 3)%nat with 12%nat in Sb. rewrite Sb.
    rewrite list_eqb_refl. reflexivity.
  - pose proof (decode_spec_response_cc A D code (arg a 0) fields Hok Hc0 Hcc) as Hd. cbn [app] in Hd. cbn [app]. rewrite Hd.
    rewrite N.eqb_refl. reflexivity.
Qed.

Lemma c01_step_unfold s p h id a ls b n out x :
  os_last_enc s = Some (OEncode h id a ls b, n, out) ->
  c01_step s (ODecode p) x =
    if list_eqb p (firstn n out) && negb (id =? 30) && negb ((id =? 32) && negb ((arg a 2 =? 5) || (arg a 2 =? 6))) then
      match spec_message h id a ls (snd (os_eids s)) with
      | Some (mt, body) => c01_inner h id a p n mt body x
      | None => sv_triv
      end
    else sv_triv.
Proof. intros E. unfold c01_step. rewrite E. reflexivity. Qed.

Lemma c01_step_ok ovf g s c o : wf_cfg g -> cinv g c -> oinv ovf s c -> wf_op o ->
  good (c01_step s o (snd (step ovf c o))) = true.
Proof.
  intros Hg Hc Ho Hw. destruct o as [|p| | | | | |]; try apply good_triv.
  destruct (os_last_enc s) as [[[oe n] out]|] eqn:El; [|unfold c01_step; rewrite El; apply good_triv].
  pose proof (oinv_eid _ _ _ Ho) as Heid. destruct Ho as (_ & _ & Henc & _).
  destruct (Henc oe n out El) as (Hx & Hwe & (h & id & a & ls & b & ->)). destruct Hwe as [Hargs Hb].
  rewrite (c01_step_unfold s p h id a ls b n out _ El). rewrite Heid.
  destruct (list_eqb p (firstn n out) && negb (id =? 30) && negb ((id =? 32) && negb ((arg a 2 =? 5) || (arg a 2 =? 6)))) eqn:Eg;
    [|apply good_triv].
  apply andb_true_iff in Eg as [Eg E32]. apply andb_true_iff in Eg as [Ep E30].
  apply list_eqb_eq in Ep. apply negb_true_iff in E30, E32.
  destruct (spec_message h id a ls (c_eid_resp c)) as [[mt body]|] eqn:Es; [|apply good_triv].
  pose proof (step_encode_obs ovf g c h id a ls b Hg Hc Hargs) as S. cbv zeta in S. rewrite Hx in S.
  destruct (encode_call ovf c h id a ls); [|discriminate].
  destruct (model_message h id a ls (c_eid_resp c)) as [[mt' body']|] eqn:Em; [|discriminate].
  destruct (259 <? 10 + length body')%nat; [discriminate|].
  destruct (10 + length body' <=? length b)%nat; [|exfalso; exact (S n out eq_refl)].
  assert (En : n = (10 + length body')%nat) by congruence.
  assert (Eo : out = spec_packet (g_addr g) (enc_dest h id a) mt' body' ++ skipn (10 + length body') b) by congruence.
  clear S. subst n out. rewrite firstn_spec_packet in Ep. subst p.
  cbn [wf_op] in Hw. cbn [step snd].
  unfold model_message in Em. destruct ((id =? 15) && h) eqn:E15.
  - (* query_hop: the model writes command 0x0E, the specification names 0x0F: class 102 either way *)
    apply andb_true_iff in E15 as [Ei ->]. apply N.eqb_eq in Ei. subst id.
    rewrite (proj2 (model_spec_15 a ls (c_eid_resp c))) in Es. injection Es as <- <-.
    unfold c01_inner. cbv zeta. cbn [N.eqb andb negb]. apply good_kf_class. vm_compute. discriminate.
  - rewrite Es in Em. injection Em as <- <-. apply N.eqb_neq in E30.
    destruct (N.eq_dec id 31) as [->|N31].
    { cbn [spec_message] in Es. injection Es as <- <-. apply c01_vendor; [exact Hw|reflexivity|reflexivity]. }
    destruct (N.eq_dec id 33) as [->|N33].
    { cbn [spec_message] in Es. injection Es as <- <-. apply c01_vendor; [exact Hw|reflexivity|reflexivity]. }
    destruct (N.eq_dec id 32) as [->|N32].
    { cbn [spec_message] in Es. injection Es as <- <-.
      change (32 =? 32) with true in E32. cbn [andb] in E32. apply negb_false_iff in E32.
      apply orb_true_iff in E32. destruct E32 as [E|E]; apply N.eqb_eq in E; rewrite E in *;
        (apply c01_vendor; [exact Hw|reflexivity|reflexivity]). }
    rewrite (spec_message_other h id a ls _ E30 N31 N32 N33) in Es. destruct h.
    + destruct (id =? 20).
      * cbv zeta in Es. destruct (arg a 1 =? 0).
        -- injection Es as <- <-. apply c01_vendor; [exact Hw|reflexivity|reflexivity].
        -- destruct (arg a 1 =? 1); [|discriminate].
           injection Es as <- <-. apply c01_vendor; [exact Hw|reflexivity|reflexivity].
      * destruct (spec_request id a ls) as [[code params]|] eqn:Er; [|discriminate].
        injection Es as <- <-. apply c01_request; [exact Hw|]. apply (spec_request_lenok id a ls code params Er).
    + destruct (spec_response id a ls (c_eid_resp c)) as [[[code cc] fields]|] eqn:Er; [|discriminate].
      injection Es as <- <-.
      destruct (spec_response_shape id a ls _ code cc fields Er Hargs) as (-> & Hcc & Hl).
      apply c01_response; assumption.
Qed.

Theorem c01_holds : holds_on_model 1.
Proof. apply holds_from_step. intros ovf g s c o Hg Hc Ho Hw. cbn [oracle_of obs3_of fst]. apply (c01_step_ok ovf g); assumption. Qed.

(* readable form: decoding what an encoder wrote gives back the type and the payload *)
Theorem roundtrip_vendor A D mt body : bytes_ok (spec_packet A D mt body) -> supported_type mt = true -> mt <> 0 ->
  decode_packet (spec_packet A D mt body) = ok (msg_type_from_u8 mt, (9%nat, length body)) /\
  sub (spec_packet A D mt body) 9 (length body) = body.
Proof. intros Hok Hs Hm. split; [apply decode_spec_vendor; [exact Hok|exact Hs|apply N.eqb_neq, Hm]|].
  exact (spec_packet_sub A D mt [] body). Qed.
Theorem roundtrip_request A D code params : bytes_ok (spec_packet A D 0 ([128; code] ++ params)) ->
  code < 9 -> len_ok (model_req_len code) (length params) = true ->
  decode_packet (spec_packet A D 0 ([128; code] ++ params)) = ok (MCtpControl, (11%nat, length params)) /\
  sub (spec_packet A D 0 ([128; code] ++ params)) 11 (length params) = params.
Proof. intros Hok Hc Hl. split; [apply decode_spec_request; [exact Hok|apply N.leb_gt, Hc|exact Hl]|].
  exact (spec_packet_sub A D 0 [128; code] params). Qed.
Theorem roundtrip_response A D code fields : bytes_ok (spec_packet A D 0 ([0; code; 0] ++ fields)) ->
  ((code =? 7) || (10 <=? code)) = false -> len_ok (model_resp_len code) (length fields) = true ->
  decode_packet (spec_packet A D 0 ([0; code; 0] ++ fields)) = ok (MCtpControl, (12%nat, length fields)) /\
  sub (spec_packet A D 0 ([0; code; 0] ++ fields)) 12 (length fields) = fields.
Proof. intros Hok Hc Hl. split; [apply decode_spec_response_ok; assumption|].
  exact (spec_packet_sub A D 0 [0; code; 0] fields). Qed.
Theorem roundtrip_response_cc A D code cc fields : bytes_ok (spec_packet A D 0 ([0; code; cc] ++ fields)) ->
  cc <> 0 -> cc <= 5 ->
  decode_packet (spec_packet A D 0 ([0; code; cc] ++ fields)) =
  err MCtpControl (DControlMessage (CEUnsuccessfulCompletionCode cc)).
Proof. intros Hok Hc Hc5. apply decode_spec_response_cc; [exact Hok|apply N.eqb_neq, Hc|exact Hc5]. Qed.
