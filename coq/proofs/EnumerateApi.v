(* EnumerateApi.v — enumerating a peer's vendor ID sets entirely through the library's own API.
   Extra.walk sends the SPECIFICATION's Get Vendor Defined Message Support request to the responder and reads the
   answer at fixed offsets.  Here both sides are the library, as a user of the crate writes it:
     A (configuration gA, context cA) calls its get_vendor_defined_message_support request encoder (request encoder
     6, arguments [dest; sel]) on a 16-byte buffer; the bytes it reports are handed to B's process_packet
     (configuration gB, context cB, 64-byte response buffer); the bytes B reports are handed to A's decode_packet;
     A takes the next selector (payload byte 0) and the vendor ID set (rest of the payload) out of the payload the
     decoder points at, and goes on until the selector is 0xFF.
   Composition of Conversation.v (one round trip) and the structure of Extra.walk_enumerates:
     api_walk_step            one round trip
     api_enumerate(_any_fuel) the walk from selector 0 returns the configured vendor ID sets of B, in order
     api_walk_agrees_with_walk  and so does exactly what the specification-side walk of Extra.v does *)
Require Import Base Crc Bitfield Headers Encode Decode Process Ops Spec Judge.
Require Import CrcFacts BitfieldFacts HeaderFacts PecFacts EncodeFacts DecodeFacts Hist StepsSimple StepsEncode
               DecodeChar ProcessChar StepsRecv StepsProcess Readable Interop Conversation Extra.
Open Scope N_scope.

(* ================================================================ the walk, both sides through the API *)
Fixpoint api_walk (fuel : nat) (ovf : bool) (cA cB : ctx) (dest sel : N) : list (list N) :=
  match fuel with
  | O => []
  | S f =>
      match encode_call ovf cA true 6 [dest; sel] [] with
      | Some w =>
          match w (repeat 0 16) with
          | (outA, Val (Some n)) =>
              match process_packet ovf cB (firstn n outA) (repeat 0 64) with
              | ((cB', b), Val (inl (_, Some len))) =>
                  match decode_packet (firstn len b) with
                  | Val (inl (_, (off, plen))) =>
                      let payload := sub (firstn len b) off plen in
                      tl payload :: (if nth 0 payload 0 =? 255 then []
                                     else api_walk f ovf cA cB' dest (nth 0 payload 0))
                  | _ => []
                  end
              | _ => []
              end
          | _ => []
          end
      | None => []
      end
  end.

(* ================================================================ the encoder side *)
Lemma vendor_args_ok dest sel : dest < 256 -> sel < 256 -> args_okb true 6 [dest; sel] [] = true.
Proof.
  intros Hd Hs. apply N.ltb_lt in Hd, Hs.
  unfold args_okb, ok_req, arg. cbn [forallb nth N.leb N.eqb N.compare Pos.compare Pos.compare_cont Pos.eqb andb].
  rewrite Hd, Hs. reflexivity.
Qed.

(* A's encoder call for (dest, sel) succeeds on a 16-byte buffer and reports 13 bytes *)
Lemma vendor_request_encodes ovf g c dest sel :
  wf_cfg g -> cinv g c -> dest < 256 -> sel < 256 ->
  exists w out, encode_call ovf c true 6 [dest; sel] [] = Some w /\ w (repeat 0 16) = (out, Val (Some 13%nat)).
Proof.
  intros Hg Hc Hd Hs.
  assert (Ew : exists w, encode_call ovf c true 6 [dest; sel] [] = Some w) by (eexists; reflexivity).
  destruct Ew as (w & Ew).
  pose proof (vendor_args_ok dest sel Hd Hs) as Hargs.
  destruct Hc as (Ha & _ & _ & _ & He & _).
  pose proof (encode_call_model ovf c true 6 [dest; sel] [] w (repeat 0 16)) as M.
  rewrite Ha in M. specialize (M (proj1 Hg) He Hargs Ew).
  pose proof (model_request 6 [dest; sel] [] (c_eid_resp c) eq_refl) as MR.
  cbn [spec_request] in MR. change (6 =? 15) with false in MR. cbv iota in MR.
  rewrite MR in M. unfold enc_spec in M. rewrite repeat_length in M.
  cbn [app length] in M.
  change (259 <? 10 + 3)%nat with false in M. change (10 + 3 <=? 16)%nat with true in M. cbv iota in M.
  exists w. eexists. split; [exact Ew|]. rewrite M. reflexivity.
Qed.

(* ================================================================ one round trip *)
Theorem api_walk_step ovf gA cA gB cB dest i v :
  let n := N.of_nat (length (g_vendor_ids gB)) in
  let next := if i + 1 =? n then 255 else i + 1 in
  let k := S (length (enc_vendor_set v)) in
  wf_cfg gA -> cinv gA cA -> wf_cfg gB -> valid_cfg gB = true -> cinv gB cB -> dest < 256 -> i < n ->
  nth_error (g_vendor_ids gB) (N.to_nat i) = Some v ->
  exists w outA outB,
    (* the encoder succeeds *)
    encode_call ovf cA true 6 [dest; i] [] = Some w /\ w (repeat 0 16) = (outA, Val (Some 13%nat)) /\
    (* B answers 13 + k bytes and remembers the next selector *)
    process_packet ovf cB (firstn 13 outA) (repeat 0 64) =
      ((set_selector cB next, outB), Val (inl ((MCtpControl, (11%nat, 1%nat)), Some (13 + k)%nat))) /\
    (* A's decoder accepts the answer, and the payload it points at is the next selector and vendor ID set i *)
    decode_packet (firstn (13 + k) outB) = ok (MCtpControl, (12%nat, k)) /\
    sub (firstn (13 + k) outB) 12 k = next :: enc_vendor_set v.
Proof.
  intros n next k HgA HcA HgB Hv HcB Hd Hi Hnth.
  assert (Hi256 : i < 256).
  { destruct (StepsProcess.valid_cfg_facts gB Hv) as (_ & _ & H255 & _). unfold n in Hi. lia. }
  destruct (vendor_request_encodes ovf gA cA dest i HgA HcA Hd Hi256) as (w & outA & Ew & Hw).
  pose proof (conversation_get_vendor ovf gA cA gB cB [dest; i] [] w (repeat 0 16) outA 13%nat (repeat 0 64) v) as T.
  cbv zeta in T. change (arg [dest; i] 1) with i in T.
  specialize (T HgA HcA HgB HcB Hv ltac:(rewrite repeat_length; lia) (vendor_args_ok dest i Hd Hi256) Hi Hnth Ew Hw).
  destruct T as (outB & S & D & B & _).
  fold n in S, B. fold next in S, B. fold k in S, D, B.
  exists w, outA, outB. split; [exact Ew|]. split; [exact Hw|]. split; [|split; [exact D|exact B]].
  cbn [step] in S.
  destruct (process_packet ovf cB (firstn 13 outA) (repeat 0 64)) as [[c' b] [r|e]]; [|discriminate].
  injection S as E1 E2 E3. rewrite E1, E2, E3. reflexivity.
Qed.

(* ================================================================ the whole walk *)
Lemma api_walk_from ovf gA cA gB dest :
  wf_cfg gA -> cinv gA cA -> wf_cfg gB -> valid_cfg gB = true -> dest < 256 ->
  forall fuel i cB, cinv gB cB -> (i < length (g_vendor_ids gB))%nat ->
    (length (g_vendor_ids gB) - i <= fuel)%nat ->
    api_walk fuel ovf cA cB dest (N.of_nat i) = map enc_vendor_set (skipn i (g_vendor_ids gB)).
Proof.
  intros HgA HcA HgB Hv Hd.
  induction fuel as [|f IH]; intros i cB HcB Hi Hf; [lia|].
  destruct (nth_error (g_vendor_ids gB) i) as [v|] eqn:Hnth; [|apply nth_error_None in Hnth; lia].
  rewrite (skipn_nth_error _ _ _ Hnth). cbn [map].
  destruct (api_walk_step ovf gA cA gB cB dest (N.of_nat i) v HgA HcA HgB Hv HcB Hd ltac:(lia)
              ltac:(rewrite Nat2N.id; exact Hnth)) as (w & outA & outB & Ew & Hw & P & D & B).
  cbv zeta in P, D, B. unfold ok in D.
  cbn [api_walk]. rewrite Ew, Hw, P, D. cbv zeta. rewrite B. cbn [tl nth]. f_equal.
  destruct (N.eqb_spec (N.of_nat i + 1) (N.of_nat (length (g_vendor_ids gB)))) as [E|E].
  - (* the last set *)
    cbn [N.eqb Pos.eqb]. rewrite skipn_all2 by lia. reflexivity.
  - replace (N.of_nat i + 1 =? 255) with false.
    2:{ symmetry. apply N.eqb_neq. destruct (StepsProcess.valid_cfg_facts gB Hv) as (_ & _ & H255 & _). lia. }
    replace (N.of_nat i + 1) with (N.of_nat (S i)) by lia.
    apply IH; [apply cinv_set_selector; exact HcB|lia|lia].
Qed.

(* the API walk from selector 0 visits every configured vendor ID set of B exactly once, in configuration order,
   and stops: whatever the two contexts remember (EIDs, UUID, B's stored selector), whatever destination A names,
   in either overflow mode, with any fuel >= the number of sets *)
Theorem api_enumerate_any_fuel ovf gA cA gB cB dest fuel :
  wf_cfg gA -> cinv gA cA -> wf_cfg gB -> valid_cfg gB = true -> cinv gB cB -> dest < 256 ->
  (length (g_vendor_ids gB) <= fuel)%nat ->
  api_walk fuel ovf cA cB dest 0 = map enc_vendor_set (g_vendor_ids gB).
Proof.
  intros HgA HcA HgB Hv HcB Hd Hf. destruct (StepsProcess.valid_cfg_facts gB Hv) as (_ & H1 & _ & _).
  exact (api_walk_from ovf gA cA gB dest HgA HcA HgB Hv Hd fuel 0%nat cB HcB ltac:(lia) ltac:(lia)).
Qed.

Theorem api_enumerate ovf gA cA gB cB dest :
  wf_cfg gA -> cinv gA cA -> wf_cfg gB -> valid_cfg gB = true -> cinv gB cB -> dest < 256 ->
  api_walk (S (length (g_vendor_ids gB))) ovf cA cB dest 0 = map enc_vendor_set (g_vendor_ids gB).
Proof.
  intros HgA HcA HgB Hv HcB Hd. apply (api_enumerate_any_fuel ovf gA cA gB cB dest _ HgA HcA HgB Hv HcB Hd). lia.
Qed.

(* the walk through the API and the walk with the specification's request see the same thing *)
Theorem api_walk_agrees_with_walk ovf gA cA gB cB dest fuel :
  wf_cfg gA -> cinv gA cA -> wf_cfg gB -> valid_cfg gB = true -> cinv gB cB -> dest < 256 ->
  (length (g_vendor_ids gB) <= fuel)%nat ->
  api_walk fuel ovf cA cB dest 0 = walk (g_addr gA) fuel ovf cB 0.
Proof.
  intros HgA HcA HgB Hv HcB Hd Hf.
  rewrite (api_enumerate_any_fuel ovf gA cA gB cB dest fuel HgA HcA HgB Hv HcB Hd Hf).
  symmetry. exact (walk_enumerates ovf gB cB (g_addr gA) fuel HgB Hv HcB (proj1 HgA) Hf).
Qed.

(* ================================================================ on concrete bytes *)
(* requester 0x23 walks responder 0x10, which has three vendor ID sets (PCI 0x8086 / 0x1234, IANA 0xA2B3C4D5 / 7,
   PCI 0x1AF4 / 0xFFFF): all three with enough fuel, the first two with fuel 2, in both overflow modes *)
Example api_walk_nonvacuous :
  let gA := {| g_addr := 0x23; g_msg_types := [0]; g_vendor_ids := [{| v_format := 0; v_data := 1; v_numeric := 1 |}] |} in
  let gB := {| g_addr := 0x10; g_msg_types := [0; 5; 0x7E];
               g_vendor_ids := [{| v_format := 0; v_data := 0x8086; v_numeric := 0x1234 |};
                                {| v_format := 1; v_data := 0xA2B3C4D5; v_numeric := 7 |};
                                {| v_format := 0; v_data := 0x1AF4; v_numeric := 0xFFFF |}] |} in
  let cA := ctx_of gA in let cB := ctx_of gB in
  valid_cfg gB = true /\
  api_walk 4 true cA cB 0x10 0 =
    [[0; 0x80; 0x86; 0x12; 0x34]; [1; 0xA2; 0xB3; 0xC4; 0xD5; 0; 7]; [0; 0x1A; 0xF4; 0xFF; 0xFF]] /\
  api_walk 4 true cA cB 0x10 0 = map enc_vendor_set (g_vendor_ids gB) /\
  api_walk 3 true cA cB 0x10 0 = api_walk 4 true cA cB 0x10 0 /\
  api_walk 2 true cA cB 0x10 0 = [[0; 0x80; 0x86; 0x12; 0x34]; [1; 0xA2; 0xB3; 0xC4; 0xD5; 0; 7]] /\
  api_walk 4 false cA cB 0x10 0 = api_walk 4 true cA cB 0x10 0 /\
  api_walk 4 true cA cB 0x10 0 = walk 0x23 4 true cB 0.
Proof. vm_compute. repeat split; reflexivity. Qed.

Print Assumptions api_walk_step.
Print Assumptions api_enumerate_any_fuel.
Print Assumptions api_enumerate.
Print Assumptions api_walk_agrees_with_walk.
Print Assumptions api_walk_nonvacuous.
