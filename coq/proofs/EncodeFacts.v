(* EncodeFacts.v — the packet writer and generate_*_packet_bytes in closed form:
   what is written is exactly spec_packet, followed by the untouched rest of the buffer. *)
Require Import Base Crc Bitfield Headers Encode Decode Process Ops Spec.
Require Import BitfieldFacts HeaderFacts HeaderForms IanaForm PecFacts.
Open Scope N_scope.

(* ---------- sequential writes ---------- *)
Lemma skipn_skipn {A} (l : list A) a b : skipn a (skipn b l) = skipn (b + a) l.
Proof. revert l. induction b as [|b IH]; intros l; [reflexivity|]. destruct l; cbn [skipn Nat.add].
  - destruct a; reflexivity.
  - apply IH. Qed.

Lemma wr_append (A d buf0 : list N) :
  (length A + length d <= length buf0)%nat ->
  wr (length A) d (A ++ skipn (length A) buf0) = ((A ++ d) ++ skipn (length (A ++ d)) buf0, Val tt).
Proof.
  intros H. unfold wr.
  assert (Hl : length (A ++ skipn (length A) buf0) = length buf0).
  { rewrite app_length, skipn_length. lia. }
  rewrite Hl. replace (length A + length d <=? length buf0)%nat with true by (symmetry; apply Nat.leb_le; exact H).
  f_equal. rewrite firstn_app, Nat.sub_diag, firstn_all. cbn [firstn]. rewrite app_nil_r.
  rewrite <- app_assoc. f_equal. f_equal.
  rewrite skipn_app. rewrite skipn_all2 by lia. cbn [app].
  replace (length A + length d - length A)%nat with (length d) by lia.
  rewrite skipn_skipn, app_length. reflexivity.
Qed.

Lemma app_skipn_length (A buf0 : list N) : (length A <= length buf0)%nat -> length (A ++ skipn (length A) buf0) = length buf0.
Proof. intros H. rewrite app_length, skipn_length. lia. Qed.

Lemma wr_at off (A d buf0 : list N) :
  length A = off -> (off + length d <= length buf0)%nat ->
  wr off d (A ++ skipn off buf0) = ((A ++ d) ++ skipn (off + length d) buf0, Val tt).
Proof. intros <- H. rewrite wr_append by exact H. rewrite app_length. reflexivity. Qed.

(* smbus_proto.rs to_raw_bytes, when the buffer is long enough *)
Lemma packet_to_raw_spec smb tr bh hdr data buf :
  length smb = 4%nat -> length tr = 4%nat -> length bh = 1%nat ->
  (10 + length (opt_list hdr ++ data) <= length buf)%nat ->
  packet_to_raw smb tr bh hdr data buf =
    ((smb ++ tr ++ bh ++ opt_list hdr ++ data) ++ [pec (smb ++ tr ++ bh ++ opt_list hdr ++ data)]
       ++ skipn (10 + length (opt_list hdr ++ data)) buf,
     Val (10 + length (opt_list hdr ++ data))%nat).
Proof.
  intros Hs Ht Hb Hlen. rewrite app_length in Hlen.
  assert (Hol : length (opt_list hdr) = opt_len hdr) by (destruct hdr; reflexivity).
  unfold packet_to_raw, wbind.
  (* write 1: SMBus header *)
  change buf with ([] ++ skipn 0 buf) at 1.
  rewrite (wr_at 0 [] smb buf eq_refl) by lia. cbn [app]. rewrite Hs. change (0 + 4)%nat with 4%nat.
  (* write 2: transport header *)
  rewrite (wr_at 4 smb tr buf Hs) by lia. rewrite Ht. change (4 + 4)%nat with 8%nat.
  assert (L2 : length (smb ++ tr) = 8%nat) by (rewrite app_length; lia).
  (* &mut buf[8..] *)
  unfold slice_from. rewrite app_length, skipn_length, L2.
  replace (8 <=? 8 + (length buf - 8))%nat with true by (symmetry; apply Nat.leb_le; lia). cbn [bind].
  (* body *)
  unfold body_to_raw, wbind.
  rewrite (wr_at 8 (smb ++ tr) bh buf L2) by lia. rewrite Hb. change (8 + 1)%nat with 9%nat.
  assert (L3 : length ((smb ++ tr) ++ bh) = 9%nat) by (rewrite app_length; lia).
  assert (Hh : (match hdr with Some h => wr 9 h | None => wret tt end) (((smb ++ tr) ++ bh) ++ skipn 9 buf) =
     ((((smb ++ tr) ++ bh) ++ opt_list hdr) ++ skipn (9 + opt_len hdr) buf, Val tt)).
  { destruct hdr as [h|]; cbn [opt_list opt_len].
    - cbn [opt_len opt_list] in Hlen, Hol. rewrite (wr_at 9 _ h buf L3) by lia. reflexivity.
    - unfold wret. rewrite app_nil_r, Nat.add_0_r. reflexivity. }
  rewrite Hh. clear Hh.
  assert (L4 : length (((smb ++ tr) ++ bh) ++ opt_list hdr) = (9 + opt_len hdr)%nat).
  { rewrite app_length, L3, Hol. reflexivity. }
  rewrite (wr_at (9 + opt_len hdr) _ data buf L4) by lia. unfold wret.
  set (A := (((smb ++ tr) ++ bh) ++ opt_list hdr) ++ data).
  assert (LA : length A = (9 + opt_len hdr + length data)%nat) by (unfold A; rewrite app_length, L4; reflexivity).
  unfold body_len. replace (8 + (1 + opt_len hdr + length data))%nat with (length A) by lia.
  replace (9 + opt_len hdr + length data)%nat with (length A) by lia.
  unfold slice. rewrite app_skipn_length by lia.
  replace ((0 <=? length A)%nat && (length A <=? length buf)%nat) with true
    by (symmetry; apply andb_true_iff; split; apply Nat.leb_le; lia).
  replace (length A <? length buf)%nat with true by (symmetry; apply Nat.ltb_lt; lia).
  rewrite Nat.sub_0_r, skipn_O.
  rewrite firstn_app, Nat.sub_diag, firstn_all, firstn_O, !app_nil_r.
  rewrite skipn_app. rewrite skipn_all2 by lia. cbn [app].
  replace (length A + 1 - length A)%nat with 1%nat by lia.
  rewrite skipn_skipn.
  assert (EA : A = smb ++ tr ++ bh ++ opt_list hdr ++ data) by (unfold A; rewrite <- !app_assoc; reflexivity).
  rewrite app_length, Hol. replace (10 + (opt_len hdr + length data))%nat with (length A + 1)%nat by lia.
  rewrite <- EA. reflexivity.
Qed.

(* mctp_traits.rs generate_*_packet_bytes: three outcomes *)
Definition packet_total (hdr : option (list N)) (data : list N) : nat := (10 + length (opt_list hdr ++ data))%nat.

Lemma packet_len_total hdr data : packet_len hdr data = packet_total hdr data.
Proof. unfold packet_len, body_len, packet_total. rewrite app_length. destruct hdr; cbn [opt_len opt_list length]; lia. Qed.

Lemma generate_packet_bytes_oversize ovf addr dest mt hdr data buf :
  mt < 256 -> (259 < packet_total hdr data)%nat ->
  generate_packet_bytes ovf addr dest mt hdr data buf = (buf, Val None).
Proof.
  intros Hm H. unfold generate_packet_bytes, wbind, wlift, wret. rewrite body_header_closed by exact Hm.
  rewrite packet_len_total. unfold MAX_PACKET_LEN.
  replace (259 <? packet_total hdr data)%nat with true by (symmetry; apply Nat.ltb_lt; exact H). reflexivity.
Qed.

Lemma generate_packet_bytes_fits ovf addr dest mt hdr data buf :
  addr < 256 -> dest < 256 -> mt < 256 ->
  (packet_total hdr data <= 259)%nat -> (packet_total hdr data <= length buf)%nat ->
  generate_packet_bytes ovf addr dest mt hdr data buf =
    (spec_packet addr dest (mt mod 128) (opt_list hdr ++ data) ++ skipn (packet_total hdr data) buf,
     Val (Some (packet_total hdr data))).
Proof.
  intros Ha Hd Hm Hfit Hbuf. unfold generate_packet_bytes, wbind, wlift, wret.
  rewrite body_header_closed by exact Hm.
  rewrite packet_len_total. unfold MAX_PACKET_LEN.
  replace (259 <? packet_total hdr data)%nat with false by (symmetry; apply Nat.ltb_ge; exact Hfit).
  rewrite smbus_header_closed, transport_header_closed by assumption.
  unfold finalise.
  assert (Hbc : N.of_nat (packet_total hdr data - 4) mod 256 = N.of_nat (length (opt_list hdr ++ data) + 6)).
  { unfold packet_total in *. rewrite N.mod_small by lia. f_equal. lia. }
  rewrite Hbc.
  rewrite set_byte_count_closed.
  2:{ apply N.mul_lt_mono_pos_r with (p := 2) in Ha; pose proof (N.mod_lt dest 128); lia. }
  2:{ reflexivity. } 2:{ reflexivity. }
  2:{ pose proof (N.mod_lt addr 128); lia. }
  2:{ unfold packet_total in Hfit. lia. }
  rewrite packet_to_raw_spec; [| reflexivity | reflexivity | reflexivity | exact Hbuf].
  unfold spec_packet, spec_prefix, packet_total. cbn [app]. rewrite <- !app_assoc. reflexivity.
Qed.

(* ---------- every encoder refines the specification ---------- *)
Lemma enc_spec_gen ovf addr dest mt hdr data buf : addr < 256 -> dest < 256 -> mt < 256 ->
  enc_spec addr dest (Some (mt mod 128, opt_list hdr ++ data)) buf (generate_packet_bytes ovf addr dest mt hdr data buf).
Proof.
  intros Ha Hd Hm. unfold enc_spec. fold (packet_total hdr data).
  destruct (259 <? packet_total hdr data)%nat eqn:E.
  - apply generate_packet_bytes_oversize; [exact Hm | apply Nat.ltb_lt; exact E].
  - destruct (Nat.leb_spec (packet_total hdr data) (length buf)) as [Hb|Hb].
    + apply generate_packet_bytes_fits; auto. apply Nat.ltb_ge. exact E.
    + intros m out Hs. apply PecFacts.generate_packet_bytes_success in Hs as [Hs1 Hs2].
      rewrite packet_len_total in Hs2. lia.
Qed.

Lemma enc_spec_ctl ovf addr dest (rq : bool) cmd data buf : addr < 256 -> dest < 256 -> cmd < 256 ->
  enc_spec addr dest (Some (0, [N.b2n rq * 128; cmd] ++ data)) buf
           (control_packet ovf addr dest (control_header_new rq false 0 cmd) data buf).
Proof.
  intros Ha Hd Hc. unfold control_packet. rewrite control_header_closed by (try reflexivity; exact Hc).
  change (N.b2n false * 64) with 0. change (0 mod 32) with 0. rewrite !N.add_0_r.
  apply (enc_spec_gen ovf addr dest MT_CONTROL (Some [N.b2n rq * 128; cmd]) data buf Ha Hd). reflexivity.
Qed.

Lemma enc_spec_none addr dest buf : enc_spec addr dest None buf (wret None buf).
Proof. reflexivity. Qed.

Lemma ltb_lt' a b : (a <? b) = true -> a < b. Proof. apply N.ltb_lt. Qed.
Lemma leb_le' a b : (a <=? b) = true -> a <= b. Proof. apply N.leb_le. Qed.

(* split a conjunction of boolean facts and turn comparisons into propositions *)
Ltac okb H :=
  unfold ok_req, ok_gen, ok_req20, ok_resp in H;
  repeat match type of H with
         | (_ && _) = true => let H2 := fresh "Hk" in apply andb_true_iff in H; destruct H as [H H2]
         end;
  repeat match goal with
         | X : (_ && _) = true |- _ => let H2 := fresh "Hk" in apply andb_true_iff in X; destruct X as [X H2]
         | X : (_ <? _) = true |- _ => apply N.ltb_lt in X
         | X : (_ <=? _) = true |- _ => apply N.leb_le in X
         | X : (_ <=? _)%nat = true |- _ => apply Nat.leb_le in X
         | X : (_ =? _)%nat = true |- _ => apply Nat.eqb_eq in X
         end.

Lemma spec_req_2 ovf addr a ls eid buf : addr < 256 -> args_okb true 2 a ls = true ->
  enc_spec addr (arg a 0) (spec_message true 2 a ls eid) buf (req_get_endpoint_id ovf addr (nth_n a 0) buf).
Proof. intros Ha H. change (args_okb true 2 a ls) with (forallb u8s ls && (ok_req a && true)) in H. okb H.
  apply (enc_spec_ctl ovf addr (arg a 0) true 2 [] buf); first [assumption | reflexivity | lia]. Qed.

Lemma spec_req_3 ovf addr a ls eid buf : addr < 256 -> args_okb true 3 a ls = true ->
  enc_spec addr (arg a 0) (spec_message true 3 a ls eid) buf (req_get_endpoint_uuid ovf addr (nth_n a 0) buf).
Proof. intros Ha H. change (args_okb true 3 a ls) with (forallb u8s ls && (ok_req a && true)) in H. okb H.
  apply (enc_spec_ctl ovf addr (arg a 0) true 3 [] buf); first [assumption | reflexivity | lia]. Qed.

Lemma spec_req_4 ovf addr a ls eid buf : addr < 256 -> args_okb true 4 a ls = true ->
  enc_spec addr (arg a 0) (spec_message true 4 a ls eid) buf (req_get_mctp_version_support ovf addr (nth_n a 0) (nth_n a 1) buf).
Proof. intros Ha H. change (args_okb true 4 a ls) with (forallb u8s ls && (ok_req a && true)) in H. okb H.
  apply (enc_spec_ctl ovf addr (arg a 0) true 4 [arg a 1] buf); first [assumption | reflexivity | lia]. Qed.

Lemma spec_req_5 ovf addr a ls eid buf : addr < 256 -> args_okb true 5 a ls = true ->
  enc_spec addr (arg a 0) (spec_message true 5 a ls eid) buf (req_get_message_type_suport ovf addr (nth_n a 0) buf).
Proof. intros Ha H. change (args_okb true 5 a ls) with (forallb u8s ls && (ok_req a && true)) in H. okb H.
  apply (enc_spec_ctl ovf addr (arg a 0) true 5 [] buf); first [assumption | reflexivity | lia]. Qed.

Lemma spec_req_6 ovf addr a ls eid buf : addr < 256 -> args_okb true 6 a ls = true ->
  enc_spec addr (arg a 0) (spec_message true 6 a ls eid) buf (req_get_vendor_defined_message_support ovf addr (nth_n a 0) (nth_n a 1) buf).
Proof. intros Ha H. change (args_okb true 6 a ls) with (forallb u8s ls && (ok_req a && true)) in H. okb H.
  apply (enc_spec_ctl ovf addr (arg a 0) true 6 [arg a 1] buf); first [assumption | reflexivity | lia]. Qed.

Lemma spec_req_7 ovf addr a ls eid buf : addr < 256 -> args_okb true 7 a ls = true ->
  enc_spec addr (arg a 0) (spec_message true 7 a ls eid) buf (req_resolve_endpoint_id ovf addr (nth_n a 0) (nth_n a 1) buf).
Proof. intros Ha H. change (args_okb true 7 a ls) with (forallb u8s ls && (ok_req a && true)) in H. okb H.
  apply (enc_spec_ctl ovf addr (arg a 0) true 7 [arg a 1] buf); first [assumption | reflexivity | lia]. Qed.

Lemma spec_req_8 ovf addr a ls eid buf : addr < 256 -> args_okb true 8 a ls = true ->
  enc_spec addr (arg a 0) (spec_message true 8 a ls eid) buf (req_allocate_endpoint_ids ovf addr (nth_n a 0) (nth_n a 1) (nth_n a 2) (nth_n a 3) buf).
Proof. intros Ha H. change (args_okb true 8 a ls) with (forallb u8s ls && (ok_req a && true)) in H. okb H.
  apply (enc_spec_ctl ovf addr (arg a 0) true 8 [arg a 1; arg a 2; arg a 3] buf); first [assumption | reflexivity | lia]. Qed.

Lemma spec_req_10 ovf addr a ls eid buf : addr < 256 -> args_okb true 10 a ls = true ->
  enc_spec addr (arg a 0) (spec_message true 10 a ls eid) buf (req_get_routing_table_entries ovf addr (nth_n a 0) (nth_n a 1) buf).
Proof. intros Ha H. change (args_okb true 10 a ls) with (forallb u8s ls && (ok_req a && true)) in H. okb H.
  apply (enc_spec_ctl ovf addr (arg a 0) true 10 [arg a 1] buf); first [assumption | reflexivity | lia]. Qed.

Lemma spec_req_11 ovf addr a ls eid buf : addr < 256 -> args_okb true 11 a ls = true ->
  enc_spec addr (arg a 0) (spec_message true 11 a ls eid) buf (req_prepare_for_endpoint_discovery ovf addr (nth_n a 0) buf).
Proof. intros Ha H. change (args_okb true 11 a ls) with (forallb u8s ls && (ok_req a && true)) in H. okb H.
  apply (enc_spec_ctl ovf addr (arg a 0) true 11 [] buf); first [assumption | reflexivity | lia]. Qed.

Lemma spec_req_12 ovf addr a ls eid buf : addr < 256 -> args_okb true 12 a ls = true ->
  enc_spec addr (arg a 0) (spec_message true 12 a ls eid) buf (req_endpoint_discovery ovf addr (nth_n a 0) buf).
Proof. intros Ha H. change (args_okb true 12 a ls) with (forallb u8s ls && (ok_req a && true)) in H. okb H.
  apply (enc_spec_ctl ovf addr (arg a 0) true 12 [] buf); first [assumption | reflexivity | lia]. Qed.

Lemma spec_req_13 ovf addr a ls eid buf : addr < 256 -> args_okb true 13 a ls = true ->
  enc_spec addr (arg a 0) (spec_message true 13 a ls eid) buf (req_discovery_notify ovf addr (nth_n a 0) buf).
Proof. intros Ha H. change (args_okb true 13 a ls) with (forallb u8s ls && (ok_req a && true)) in H. okb H.
  apply (enc_spec_ctl ovf addr (arg a 0) true 13 [] buf); first [assumption | reflexivity | lia]. Qed.

Lemma spec_req_14 ovf addr a ls eid buf : addr < 256 -> args_okb true 14 a ls = true ->
  enc_spec addr (arg a 0) (spec_message true 14 a ls eid) buf (req_get_network_id ovf addr (nth_n a 0) buf).
Proof. intros Ha H. change (args_okb true 14 a ls) with (forallb u8s ls && (ok_req a && true)) in H. okb H.
  apply (enc_spec_ctl ovf addr (arg a 0) true 14 [] buf); first [assumption | reflexivity | lia]. Qed.

Lemma spec_req_17 ovf addr a ls eid buf : addr < 256 -> args_okb true 17 a ls = true ->
  enc_spec addr (arg a 0) (spec_message true 17 a ls eid) buf (req_query_rate_limit ovf addr (nth_n a 0) buf).
Proof. intros Ha H. change (args_okb true 17 a ls) with (forallb u8s ls && (ok_req a && true)) in H. okb H.
  apply (enc_spec_ctl ovf addr (arg a 0) true 17 [] buf); first [assumption | reflexivity | lia]. Qed.

Lemma spec_req_1 ovf addr a ls eid buf : addr < 256 -> args_okb true 1 a ls = true ->
  enc_spec addr (arg a 0) (spec_message true 1 a ls eid) buf
           (req_set_endpoint_id ovf addr (nth_n a 0) (nth_n a 1) (nth_n a 2) buf).
Proof. intros Ha H. change (args_okb true 1 a ls) with (forallb u8s ls && (ok_req a && true)) in H. okb H.
  unfold req_set_endpoint_id.
  change (spec_message true 1 a ls eid) with
    (match (if (arg a 2 =? 0) || (arg a 2 =? 255) then None else Some (1, [arg a 1; arg a 2])) with
     | Some (code, params) => Some (0, [128; code] ++ params) | None => None end).
  change (nth_n a 2) with (arg a 2).
  destruct (arg a 2 =? 0), (arg a 2 =? 255); cbn [orb]; try apply enc_spec_none.
  apply (enc_spec_ctl ovf addr (arg a 0) true 1 [arg a 1; arg a 2] buf); first [assumption | reflexivity | lia]. Qed.

Lemma concat_len4 (ls : list (list N)) : forallb (fun e => (length e =? 4)%nat) ls = true -> length (concat ls) = (4 * length ls)%nat.
Proof. induction ls as [|e r IH]; intros H; [reflexivity|]. cbn [forallb] in H. apply andb_true_iff in H as [H1 H2].
  apply Nat.eqb_eq in H1. cbn [concat length]. rewrite app_length, IH by exact H2. lia. Qed.

Lemma spec_req_9 ovf addr a ls eid buf : addr < 256 -> args_okb true 9 a ls = true ->
  enc_spec addr (arg a 0) (spec_message true 9 a ls eid) buf
           (req_routing_information_update ovf addr (nth_n a 0) ls buf).
Proof. intros Ha H.
  change (args_okb true 9 a ls) with (forallb u8s ls && (ok_req a && forallb (fun e => (length e =? 4)%nat) ls)) in H. okb H.
  unfold req_routing_information_update.
  change (spec_message true 9 a ls eid) with
    (match (if (8 <=? length ls)%nat then None else Some (9, N.of_nat (length ls) :: concat ls)) with
     | Some (code, params) => Some (0, [128; code] ++ params) | None => None end).
  destruct (Nat.leb_spec 8 (length ls)) as [Hn|Hn].
  - replace (31 <? length ls * 4)%nat with true by (symmetry; apply Nat.ltb_lt; lia). apply enc_spec_none.
  - replace (31 <? length ls * 4)%nat with false by (symmetry; apply Nat.ltb_ge; lia).
    rewrite N.mod_small by lia.
    apply (enc_spec_ctl ovf addr (arg a 0) true 9 (N.of_nat (length ls) :: concat ls) buf); first [assumption | reflexivity | lia]. Qed.

(* query_hop: the model (like the code) sends command code 0x0E; everything else is as specified *)
Lemma model_req_15 ovf addr a ls buf : addr < 256 -> args_okb true 15 a ls = true ->
  enc_spec addr (arg a 0) (Some (0, [128; 14] ++ [arg a 1; arg a 2])) buf
           (req_query_hop ovf addr (nth_n a 0) (nth_n a 1) (nth_n a 2) buf).
Proof. intros Ha H. change (args_okb true 15 a ls) with (forallb u8s ls && (ok_req a && true)) in H. okb H.
  apply (enc_spec_ctl ovf addr (arg a 0) true 14 [arg a 1; arg a 2] buf); first [assumption | reflexivity | lia]. Qed.

Lemma spec_req_16 ovf addr a ls eid buf : addr < 256 -> args_okb true 16 a ls = true ->
  enc_spec addr (arg a 0) (spec_message true 16 a ls eid) buf
           (req_resolve_uuid ovf addr (nth_n a 0) (nth_l ls 0) (nth_n a 1) buf).
Proof. intros Ha H.
  change (args_okb true 16 a ls) with (forallb u8s ls && (ok_req a && (length (larg ls 0) =? 16)%nat)) in H. okb H.
  apply (enc_spec_ctl ovf addr (arg a 0) true 16 (larg ls 0 ++ [arg a 1]) buf); first [assumption | reflexivity | lia]. Qed.

Lemma pci_hi d : (d mod 65536) / 256 = (d / 256) mod 256.
Proof. change 65536 with (256 * 256). rewrite N.mod_mul_r by discriminate.
  rewrite (N.add_comm (d mod 256)), (N.mul_comm 256), N.div_add_l by discriminate.
  rewrite (N.div_small (d mod 256)) by (apply N.mod_lt; discriminate). apply N.add_0_r. Qed.
Lemma pci_lo d : (d mod 65536) mod 256 = d mod 256.
Proof. change 65536 with (256 * 256). rewrite N.mod_mul_r by discriminate.
  rewrite (N.mul_comm 256), N.mod_add by discriminate. apply N.mod_mod. discriminate. Qed.
Lemma pci_bytes d : [(d mod 65536) / 256; (d mod 65536) mod 256] = [(d / 256) mod 256; d mod 256].
Proof. rewrite pci_hi, pci_lo. reflexivity. Qed.

Lemma spec_req_20 ovf addr a ls eid buf : addr < 256 -> args_okb true 20 a ls = true ->
  enc_spec addr (arg a 0) (spec_message true 20 a ls eid) buf
           (req_vendor_defined ovf addr (nth_n a 0) (nth_n a 1) (nth_n a 2) (nth_l ls 0) buf).
Proof. intros Ha H. change (args_okb true 20 a ls) with (forallb u8s ls && ok_req20 a) in H. okb H.
  unfold req_vendor_defined.
  change (spec_message true 20 a ls eid) with
    (if arg a 1 =? 0 then Some (126, [(arg a 2 / 256) mod 256; arg a 2 mod 256] ++ larg ls 0)
     else if arg a 1 =? 1 then
       Some (127, [(arg a 2 / 16777216) mod 256; (arg a 2 / 65536) mod 256; (arg a 2 / 256) mod 256; arg a 2 mod 256] ++ larg ls 0)
     else None).
  change (nth_n a 1) with (arg a 1). change (nth_n a 2) with (arg a 2). change (nth_n a 0) with (arg a 0).
  destruct (arg a 1 =? 0).
  - rewrite pci_new_closed by (apply N.mod_lt; discriminate). rewrite pci_bytes.
    apply (enc_spec_gen ovf addr (arg a 0) MT_PCI (Some [(arg a 2 / 256) mod 256; arg a 2 mod 256]) (nth_l ls 0) buf); first [assumption | reflexivity | lia].
  - destruct (arg a 1 =? 1); [|apply enc_spec_none].
    rewrite iana_new_closed.
    apply (enc_spec_gen ovf addr (arg a 0) MT_IANA
             (Some [(arg a 2 / 16777216) mod 256; (arg a 2 / 65536) mod 256; (arg a 2 / 256) mod 256; arg a 2 mod 256])
             (nth_l ls 0) buf); first [assumption | reflexivity | lia].
Qed.

(* ---------- responses ---------- *)
Lemma le1_cases x : x <= 1 -> x = 0 \/ x = 1. Proof. lia. Qed.
Lemma le2_cases x : x <= 2 -> x = 0 \/ x = 1 \/ x = 2. Proof. lia. Qed.
Lemma le3_cases x : x <= 3 -> x = 0 \/ x = 1 \/ x = 2 \/ x = 3. Proof. lia. Qed.

Lemma spec_resp_1 ovf addr a ls eid buf : addr < 256 -> eid < 256 -> args_okb false 1 a ls = true ->
  enc_spec addr (arg a 1) (spec_message false 1 a ls eid) buf
           (resp_set_endpoint_id ovf addr eid (nth_n a 0) (nth_n a 1) (nth_n a 2) (nth_n a 3) buf).
Proof. intros Ha He H.
  change (args_okb false 1 a ls) with (forallb u8s ls && (ok_resp a && ((arg a 2 <=? 1) && (arg a 3 <=? 2)))) in H. okb H.
  unfold resp_set_endpoint_id.
  change (spec_message false 1 a ls eid) with (Some (0, [0; 1; arg a 0] ++ [arg a 2 * 16 + arg a 3; eid; 0])).
  change (nth_n a 2) with (arg a 2). change (nth_n a 3) with (arg a 3).
  assert (E : (if arg a 2 =? 1 then N.lor (arg a 3) 16 else arg a 3) = arg a 2 * 16 + arg a 3).
  { assert (E2 : arg a 2 = 0 \/ arg a 2 = 1) by lia.
    assert (E3 : arg a 3 = 0 \/ arg a 3 = 1 \/ arg a 3 = 2) by lia.
    destruct E2 as [E2|E2]; rewrite E2; destruct E3 as [E3|[E3|E3]]; rewrite E3; reflexivity. }
  rewrite E.
  apply (enc_spec_ctl ovf addr (arg a 1) false 1 [arg a 0; arg a 2 * 16 + arg a 3; eid; 0] buf); first [assumption | reflexivity | lia]. Qed.

Lemma spec_resp_2 ovf addr a ls eid buf : addr < 256 -> eid < 256 -> args_okb false 2 a ls = true ->
  enc_spec addr (arg a 1) (spec_message false 2 a ls eid) buf
           (resp_get_endpoint_id ovf addr eid (nth_n a 0) (nth_n a 1) (nth_n a 2) (nth_n a 3) (negb (nth_n a 4 =? 0)) buf).
Proof. intros Ha He H.
  change (args_okb false 2 a ls) with (forallb u8s ls && (ok_resp a && ((arg a 2 <=? 1) && (arg a 3 <=? 3)))) in H. okb H.
  unfold resp_get_endpoint_id.
  change (spec_message false 2 a ls eid) with
    (Some (0, [0; 2; arg a 0] ++ [eid; arg a 2 * 16 + arg a 3; N.b2n (negb (arg a 4 =? 0))])).
  change (nth_n a 2) with (arg a 2). change (nth_n a 3) with (arg a 3). change (nth_n a 4) with (arg a 4).
  assert (E : N.lor ((arg a 2 * 16) mod 256) (arg a 3) = arg a 2 * 16 + arg a 3).
  { assert (E2 : arg a 2 = 0 \/ arg a 2 = 1) by lia.
    assert (E3 : arg a 3 = 0 \/ arg a 3 = 1 \/ arg a 3 = 2 \/ arg a 3 = 3) by lia.
    destruct E2 as [E2|E2]; rewrite E2; destruct E3 as [E3|[E3|[E3|E3]]]; rewrite E3; reflexivity. }
  rewrite E.
  apply (enc_spec_ctl ovf addr (arg a 1) false 2 [arg a 0; eid; arg a 2 * 16 + arg a 3; N.b2n (negb (arg a 4 =? 0))] buf); first [assumption | reflexivity | lia]. Qed.

Lemma spec_resp_3 ovf addr a ls eid buf : addr < 256 -> args_okb false 3 a ls = true ->
  enc_spec addr (arg a 1) (spec_message false 3 a ls eid) buf
           (resp_get_endpoint_uuid ovf addr (nth_n a 0) (nth_n a 1) (nth_l ls 0) buf).
Proof. intros Ha H.
  change (args_okb false 3 a ls) with (forallb u8s ls && (ok_resp a && (length (larg ls 0) =? 16)%nat)) in H. okb H.
  apply (enc_spec_ctl ovf addr (arg a 1) false 3 (arg a 0 :: larg ls 0) buf); first [assumption | reflexivity | lia]. Qed.

Lemma spec_resp_4 ovf addr a ls eid buf : addr < 256 -> args_okb false 4 a ls = true ->
  enc_spec addr (arg a 1) (spec_message false 4 a ls eid) buf
           (resp_get_mctp_version_support ovf addr (nth_n a 0) (nth_n a 1) buf).
Proof. intros Ha H. change (args_okb false 4 a ls) with (forallb u8s ls && (ok_resp a && true)) in H. okb H.
  apply (enc_spec_ctl ovf addr (arg a 1) false 4 [arg a 0; 1; 241; 243; 241; 0] buf); first [assumption | reflexivity | lia]. Qed.

Lemma spec_resp_5 ovf addr a ls eid buf : addr < 256 -> args_okb false 5 a ls = true ->
  enc_spec addr (arg a 1) (spec_message false 5 a ls eid) buf
           (resp_get_message_type_suport ovf addr (nth_n a 0) (nth_n a 1) (nth_l ls 0) buf).
Proof. intros Ha H. change (args_okb false 5 a ls) with (forallb u8s ls && (ok_resp a && true)) in H. okb H.
  unfold resp_get_message_type_suport.
  change (spec_message false 5 a ls eid) with
    (match (if (30 <? length (larg ls 0))%nat then None
            else Some (5, arg a 0, N.of_nat (length (larg ls 0)) :: larg ls 0)) with
     | Some (code, cc, fields) => Some (0, [0; code; cc] ++ fields) | None => None end).
  change (nth_l ls 0) with (larg ls 0).
  destruct (Nat.ltb_spec 30 (length (larg ls 0))) as [Hn|Hn]; [apply enc_spec_none|].
  rewrite N.mod_small by lia.
  apply (enc_spec_ctl ovf addr (arg a 1) false 5 (arg a 0 :: N.of_nat (length (larg ls 0)) :: larg ls 0) buf); first [assumption | reflexivity | lia]. Qed.

Lemma spec_resp_6 ovf addr a ls eid buf : addr < 256 -> args_okb false 6 a ls = true ->
  enc_spec addr (arg a 1) (spec_message false 6 a ls eid) buf
           (resp_get_vendor_defined_message_support ovf addr (nth_n a 0) (nth_n a 1) (nth_n a 2) (nth_l ls 0) buf).
Proof. intros Ha H.
  change (args_okb false 6 a ls) with (forallb u8s ls && (ok_resp a && ((arg a 2 <? 256) && (length (larg ls 0) <=? 7)%nat))) in H. okb H.
  unfold resp_get_vendor_defined_message_support. change (nth_l ls 0) with (larg ls 0).
  replace (7 <? length (larg ls 0))%nat with false by (symmetry; apply Nat.ltb_ge; assumption).
  apply (enc_spec_ctl ovf addr (arg a 1) false 6 (arg a 0 :: arg a 2 :: larg ls 0) buf); first [assumption | reflexivity | lia]. Qed.

(* ---------- the four public generate_*_packet_bytes ---------- *)
Lemma spec_gen h id mt ovf addr a ls eid buf :
  (id = 30 /\ mt = MT_CONTROL) \/ (id = 31 /\ mt = MT_PCI) \/ (id = 32 /\ mt = arg a 2) \/ (id = 33 /\ mt = MT_IANA) ->
  addr < 256 -> ok_gen a = true ->
  enc_spec addr (arg a 0) (spec_message h id a ls eid) buf
           (generate_packet_bytes ovf addr (nth_n a 0) mt (if nth_n a 1 =? 0 then None else Some (nth_l ls 0)) (nth_l ls 1) buf).
Proof. intros Hid Ha H. okb H.
  assert (E : opt_list (if nth_n a 1 =? 0 then None else Some (nth_l ls 0)) = (if arg a 1 =? 0 then [] else larg ls 0)).
  { change (nth_n a 1) with (arg a 1). destruct (arg a 1 =? 0); reflexivity. }
  destruct Hid as [[-> ->]|[[-> ->]|[[-> ->]|[-> ->]]]].
  - change (spec_message h 30 a ls eid) with (Some (MT_CONTROL mod 128, (if arg a 1 =? 0 then [] else larg ls 0) ++ larg ls 1)).
    rewrite <- E. apply enc_spec_gen; first [assumption | reflexivity | lia].
  - change (spec_message h 31 a ls eid) with (Some (MT_PCI mod 128, (if arg a 1 =? 0 then [] else larg ls 0) ++ larg ls 1)).
    rewrite <- E. apply enc_spec_gen; first [assumption | reflexivity | lia].
  - change (spec_message h 32 a ls eid) with (Some (arg a 2 mod 128, (if arg a 1 =? 0 then [] else larg ls 0) ++ larg ls 1)).
    rewrite <- E. apply enc_spec_gen; first [assumption | reflexivity | lia].
  - change (spec_message h 33 a ls eid) with (Some (MT_IANA mod 128, (if arg a 1 =? 0 then [] else larg ls 0) ++ larg ls 1)).
    rewrite <- E. apply enc_spec_gen; first [assumption | reflexivity | lia].
Qed.

(* ---------- all encoders at once ---------- *)
(* what the model encodes: the specification, except that query_hop carries command code 0x0E (finding C06-QHOP) *)
Definition model_message (h : bool) (id : N) (a : list N) (ls : list (list N)) (eid : N) : option (N * list N) :=
  if (id =? 15) && h then Some (0, [128; 14] ++ [arg a 1; arg a 2]) else spec_message h id a ls eid.

Theorem encode_call_model ovf c h id a ls w buf :
  c_addr c < 256 -> c_eid_resp c < 256 -> args_okb h id a ls = true ->
  encode_call ovf c h id a ls = Some w ->
  enc_spec (c_addr c) (enc_dest h id a) (model_message h id a ls (c_eid_resp c)) buf (w buf).
Proof.
  intros Ha He Hok E. unfold encode_call in E.
  repeat match type of E with
         | (match ?x with _ => _ end) = _ => destruct x; try discriminate
         | (if ?x then _ else _) = _ => destruct x; try discriminate
         end;
  injection E as E; subst w;
  lazymatch goal with
  | |- enc_spec _ _ _ _ (req_set_endpoint_id _ _ _ _ _ _) => eapply spec_req_1
  | |- enc_spec _ _ _ _ (req_get_endpoint_id _ _ _ _) => eapply spec_req_2
  | |- enc_spec _ _ _ _ (req_get_endpoint_uuid _ _ _ _) => eapply spec_req_3
  | |- enc_spec _ _ _ _ (req_get_mctp_version_support _ _ _ _ _) => eapply spec_req_4
  | |- enc_spec _ _ _ _ (req_get_message_type_suport _ _ _ _) => eapply spec_req_5
  | |- enc_spec _ _ _ _ (req_get_vendor_defined_message_support _ _ _ _ _) => eapply spec_req_6
  | |- enc_spec _ _ _ _ (req_resolve_endpoint_id _ _ _ _ _) => eapply spec_req_7
  | |- enc_spec _ _ _ _ (req_allocate_endpoint_ids _ _ _ _ _ _ _) => eapply spec_req_8
  | |- enc_spec _ _ _ _ (req_routing_information_update _ _ _ _ _) => eapply spec_req_9
  | |- enc_spec _ _ _ _ (req_get_routing_table_entries _ _ _ _ _) => eapply spec_req_10
  | |- enc_spec _ _ _ _ (req_prepare_for_endpoint_discovery _ _ _ _) => eapply spec_req_11
  | |- enc_spec _ _ _ _ (req_endpoint_discovery _ _ _ _) => eapply spec_req_12
  | |- enc_spec _ _ _ _ (req_discovery_notify _ _ _ _) => eapply spec_req_13
  | |- enc_spec _ _ _ _ (req_get_network_id _ _ _ _) => eapply spec_req_14
  | |- enc_spec _ _ _ _ (req_query_hop _ _ _ _ _ _) => eapply model_req_15
  | |- enc_spec _ _ _ _ (req_resolve_uuid _ _ _ _ _ _) => eapply spec_req_16
  | |- enc_spec _ _ _ _ (req_query_rate_limit _ _ _ _) => eapply spec_req_17
  | |- enc_spec _ _ _ _ (req_vendor_defined _ _ _ _ _ _ _) => eapply spec_req_20
  | |- enc_spec _ _ _ _ (resp_set_endpoint_id _ _ _ _ _ _ _ _) => eapply spec_resp_1
  | |- enc_spec _ _ _ _ (resp_get_endpoint_id _ _ _ _ _ _ _ _ _) => eapply spec_resp_2
  | |- enc_spec _ _ _ _ (resp_get_endpoint_uuid _ _ _ _ _ _) => eapply spec_resp_3
  | |- enc_spec _ _ _ _ (resp_get_mctp_version_support _ _ _ _ _) => eapply spec_resp_4
  | |- enc_spec _ _ _ _ (resp_get_message_type_suport _ _ _ _ _ _) => eapply spec_resp_5
  | |- enc_spec _ _ _ _ (resp_get_vendor_defined_message_support _ _ _ _ _ _ _) => eapply spec_resp_6
  | |- enc_spec _ (enc_dest _ 30 _) _ _ _ => apply (spec_gen _ 30); [tauto | assumption | idtac]
  | |- enc_spec _ (enc_dest _ 31 _) _ _ _ => apply (spec_gen _ 31); [tauto | assumption | idtac]
  | |- enc_spec _ (enc_dest _ 32 _) _ _ _ => apply (spec_gen _ 32); [tauto | assumption | idtac]
  | |- enc_spec _ (enc_dest _ 33 _) _ _ _ => apply (spec_gen _ 33); [tauto | assumption | idtac]
  end;
  try eassumption;
  (* the generate_* family: ok_gen from args_okb *)
  match goal with
  | H : args_okb _ _ _ _ = true |- ok_gen _ = true =>
      apply andb_true_iff in H; destruct H as [_ H]; exact H
  end.
Qed.
