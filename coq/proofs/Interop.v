(* Interop.v — responder meets requester: what process_packet writes in answer to an accepted request is what the
   library's own decode_packet accepts (properties C12-C15 composed with C01/C09), command by command; and the one
   place where it does not: the library's Get Endpoint ID response is rejected by the library's own decoder
   (known finding 101, here in the process -> decode direction). *)
Require Import Base Crc Bitfield Headers Encode Decode Process Ops Spec Judge.
Require Import CrcFacts BitfieldFacts HeaderFacts PecFacts EncodeFacts DecodeFacts Hist StepsSimple StepsEncode
               DecodeChar ProcessChar StepsRecv StepsProcess Readable.
Open Scope N_scope.

(* ================================================================ the bytes of a response *)
Definition bad_length {A} : rr A := err MCtpControl (DControlMessage CEInvalidRequestDataLength).

(* the response packet the responder g writes to the request p: completion code cc, data fields *)
Definition response_to (g : config) (p : list N) (cc : N) (fields : list N) : list N :=
  spec_packet (g_addr g) (nth 6 p 0) 0 ([0; ctl_cmd p; cc] ++ fields).

Lemma response_to_length g p cc fields : length (response_to g p cc fields) = (13 + length fields)%nat.
Proof. unfold response_to. rewrite spec_packet_length. cbn [app length]. lia. Qed.

Lemma response_to_first g p cc fields T :
  firstn (13 + length fields) (response_to g p cc fields ++ T) = response_to g p cc fields.
Proof. apply firstn_app_exact. apply response_to_length. Qed.

Lemma response_to_bytes_ok g p cc fields :
  wf_cfg g -> bytes_ok p -> cc <= 5 -> bytes_ok fields -> (length fields <= 31)%nat ->
  bytes_ok (response_to g p cc fields).
Proof.
  intros Hg Hok Hcc Hf Hl. unfold response_to. apply spec_packet_bytes_ok.
  - exact (proj1 Hg).
  - apply nth_byte, Hok.
  - reflexivity.
  - cbn [app]. repeat (apply bytes_ok_cons; split); try lia; [apply nth_byte, Hok|exact Hf].
  - cbn [app length]. lia.
Qed.

(* a Success response whose data length is not the one the library's table expects: rejected for its length *)
Lemma decode_spec_response_badlen A D code fields : bytes_ok (spec_packet A D 0 ([0; code; 0] ++ fields)) ->
  ((code =? 7) || (10 <=? code)) = false -> len_ok (model_resp_len code) (length fields) = false ->
  decode_packet (spec_packet A D 0 ([0; code; 0] ++ fields)) = bad_length.
Proof.
  intros Hok Hc Hl. set (P := spec_packet A D 0 ([0; code; 0] ++ fields)) in *.
  assert (Hh : header_ok P = true) by (apply spec_packet_header_ok; reflexivity).
  assert (Hp : pec_good P = true) by apply spec_packet_pec_good.
  assert (E8 : nth 8 P 0 = 0) by reflexivity.
  assert (Hr : is_request P = false) by reflexivity.
  assert (Ec : ctl_cmd P = code) by reflexivity.
  assert (Ecc : ctl_cc P = 0) by reflexivity.
  assert (L : length P = (13 + length fields)%nat) by (unfold P; rewrite spec_packet_length, app_length; reflexivity).
  assert (L' : (length P - 13)%nat = length fields) by lia.
  assert (Hk : decode_panic_class P = 0).
  { unfold decode_panic_class. rewrite Hh, E8, Hr, Ecc, Ec, Hc. cbn [negb andb N.eqb]. dn. reflexivity. }
  rewrite (decode_exact_all P Hok Hk). unfold spec_decode. rewrite Hh, Hp, E8, Hr, Ecc, Ec, L', Hl. reflexivity.
Qed.

Lemma answerable_known cmd : answerable cmd = true -> ((cmd =? 7) || (10 <=? cmd)) = false.
Proof.
  unfold answerable. intros H. apply andb_true_iff in H as [_ H]. apply N.leb_le in H.
  apply orb_false_iff. split; [apply N.eqb_neq; lia|apply N.leb_gt; lia].
Qed.

(* what decode_packet says about a response of the responder, in closed form *)
Definition decode_of_response (cmd cc : N) (fields : list N) : rr decoded :=
  if cc =? 0 then
    if len_ok (model_resp_len cmd) (length fields) then ok (MCtpControl, (12%nat, length fields)) else bad_length
  else err MCtpControl (DControlMessage (CEUnsuccessfulCompletionCode cc)).

Lemma decode_response_to g p cc fields :
  bytes_ok (response_to g p cc fields) -> answerable (ctl_cmd p) = true -> cc <= 5 ->
  decode_packet (response_to g p cc fields) = decode_of_response (ctl_cmd p) cc fields.
Proof.
  intros Hok Hans Hcc. unfold decode_of_response, response_to in *.
  pose proof (answerable_known _ Hans) as Hk.
  destruct (N.eqb_spec cc 0) as [E|E].
  - subst cc. destruct (len_ok (model_resp_len (ctl_cmd p)) (length fields)) eqn:Hl.
    + apply decode_spec_response_ok; assumption.
    + apply decode_spec_response_badlen; assumption.
  - apply roundtrip_response_cc; assumption.
Qed.

(* ================================================================ every answer, with its bytes *)
Lemma enc_vendor_set_bytes_ok v : bytes_ok (enc_vendor_set v).
Proof.
  unfold enc_vendor_set. destruct (v_format v =? 0);
    repeat (apply bytes_ok_cons; split); try (apply N.mod_lt; discriminate); try lia; constructor.
Qed.

Lemma bytes3 a b c : a < 256 -> b < 256 -> c < 256 -> bytes_ok [a; b; c].
Proof. intros. repeat (apply bytes_ok_cons; split); try assumption. constructor. Qed.

(* what the library's decoder says about the library's answer to the accepted request p, k data bytes long:
   rejected for its length when p is Get Endpoint ID, the completion code Error Invalid Data when p is Set Endpoint
   ID with operation 3 (set discovered flag), accepted with k bytes of payload at offset 12 in every other case *)
Definition expected_decode (p : list N) (k : nat) : rr decoded :=
  if ctl_cmd p =? 2 then bad_length
  else if (ctl_cmd p =? 1) && (nth 11 p 0 =? 3) then err MCtpControl (DControlMessage (CEUnsuccessfulCompletionCode 2))
  else ok (MCtpControl, (12%nat, k)).

(* answer_exists (StepsProcess.v), and: the data fields are bytes; completion code and length are such that ... *)
Lemma answer_exists_bytes ovf g c p buf :
  wf_cfg g -> cinv g c -> bytes_ok p -> accepted_request p = true -> answerable (ctl_cmd p) = true ->
  (64 <= length buf)%nat -> process_panic_class true g p = 0 -> valid_cfg g = true ->
  exists c' cc fields, cc <= 5 /\ (length fields <= 31)%nat /\ bytes_ok fields /\
    decode_of_response (ctl_cmd p) cc fields = expected_decode p (length fields) /\
    step ovf c (OProcess p buf) = (c', resp_obs g p cc fields buf).
Proof.
  intros Hg Hc Hok Ha Hans Hbuf Hpp Hv.
  destruct (valid_cfg_facts g Hv) as (H30 & H1 & H16 & Hfmt).
  assert (He : c_eid_resp c < 256) by apply Hc.
  unfold process_panic_class in Hpp. rewrite (accepted_wf p Ha) in Hpp.
  unfold answerable in Hans. apply andb_true_iff in Hans as [Hlo Hhi]. apply N.leb_le in Hlo, Hhi.
  assert (Hcases : ctl_cmd p = 1 \/ ctl_cmd p = 2 \/ ctl_cmd p = 3 \/ ctl_cmd p = 4 \/ ctl_cmd p = 5 \/ ctl_cmd p = 6)
    by lia.
  destruct Hcases as [E|[E|[E|[E|[E|E]]]]]; rewrite E in Hpp; cbn [N.eqb Pos.eqb orb] in Hpp.
  - destruct ((nth 11 p 0 =? 2) || (4 <=? nth 11 p 0)) eqn:Eop; [discriminate|].
    apply orb_false_iff in Eop as [E2 E4]. apply N.eqb_neq in E2. apply N.leb_gt in E4.
    assert (Hop : (nth 11 p 0 = 0 \/ nth 11 p 0 = 1) \/ nth 11 p 0 = 3) by lia.
    destruct Hop as [Hop|Hop].
    + eexists _, 0, [0; nth 12 p 0; 0]. split; [lia|]. split; [cbn [length]; lia|].
      split; [apply bytes3; try lia; apply nth_byte, Hok|].
      split; [unfold expected_decode; rewrite E; destruct Hop as [-> | ->]; reflexivity|].
      apply step_set_eid_assign; assumption.
    + eexists _, 2, [0; c_eid_resp c; 0]. split; [lia|]. split; [cbn [length]; lia|].
      split; [apply bytes3; lia|].
      split; [unfold expected_decode; rewrite E, Hop; reflexivity|].
      apply step_set_eid_flag; assumption.
  - eexists _, 0, _. split; [lia|]. split; [|split; [|split; [|apply step_get_eid; assumption]]].
    + cbn [length]; lia.
    + apply bytes3; lia.
    + unfold expected_decode. rewrite E. reflexivity.
  - assert (Lu : length (c_uuid c) = 16%nat) by apply Hc.
    eexists _, 0, _. split; [lia|]. split; [|split; [|split; [|apply step_get_uuid; assumption]]].
    + rewrite Lu. lia.
    + apply Hc.
    + unfold expected_decode, decode_of_response. rewrite E, Lu. reflexivity.
  - eexists _, 0, _. split; [lia|]. split; [|split; [|split; [|apply step_get_version; assumption]]].
    + cbn [length]; lia.
    + repeat (apply bytes_ok_cons; split); try lia. constructor.
    + unfold expected_decode. rewrite E. reflexivity.
  - eexists _, 0, _. split; [lia|]. split; [|split; [|split; [|apply step_get_msg_types; assumption]]].
    + cbn [length]; lia.
    + apply bytes_ok_cons. split; [lia|apply Hg].
    + unfold expected_decode. rewrite E. reflexivity.
  - destruct (N.of_nat (length (g_vendor_ids g)) <=? nth 11 p 0) eqn:Esel; [discriminate|].
    apply N.leb_gt in Esel.
    destruct (nth_error (g_vendor_ids g) (N.to_nat (nth 11 p 0))) as [v|] eqn:Ev.
    2:{ apply nth_error_None in Ev. lia. }
    eexists _, 0, _. split; [lia|]. split; [|split; [|split]].
    4:{ apply (step_get_vendor ovf g c p buf Hg Hc Hok Ha Hbuf v); try assumption; try lia. eapply Hfmt, Ev. }
    + unfold enc_vendor_set. destruct (v_format v =? 0); cbn [length]; lia.
    + apply bytes_ok_cons. split; [|apply enc_vendor_set_bytes_ok].
      destruct (nth 11 p 0 + 1 =? N.of_nat (length (g_vendor_ids g))); lia.
    + unfold expected_decode. rewrite E. reflexivity.
Qed.

(* ================================================================ 1. the interoperability theorem *)
(* Under exactly the hypotheses of C12_answerable_requests_are_answered: the request is answered with n = 13 + |fields|
   bytes r = response_to g p cc fields in front of the untouched rest of the buffer; r consists of bytes, it is what
   a requester cuts out of the buffer (the first n bytes), and what decode_packet says about it is decided by cc and
   the length of the data alone: accepted with exactly the data fields as payload when cc = Success and the length
   is the one the library's response table expects (or the table has none), rejected as InvalidRequestDataLength
   when cc = Success and it is not, and reported as UnsuccessfulCompletionCode cc otherwise.  Never a panic. *)
Theorem response_decodes : forall ovf g c p buf,
  wf_cfg g -> cinv g c -> bytes_ok p -> accepted_request p = true -> answerable (ctl_cmd p) = true ->
  (64 <= length buf)%nat -> process_panic_class true g p = 0 -> valid_cfg g = true ->
  exists c' cc fields, cc <= 5 /\ (length fields <= 31)%nat /\
    let r := spec_packet (g_addr g) (nth 6 p 0) 0 ([0; ctl_cmd p; cc] ++ fields) in
    step ovf c (OProcess p buf) =
      (c', XProcess (inl ((MCtpControl, (11%nat, (length p - 12)%nat)), Some (13 + length fields)%nat))
                    (r ++ skipn (13 + length fields) buf)) /\
    bytes_ok r /\
    firstn (13 + length fields) (r ++ skipn (13 + length fields) buf) = r /\
    (cc = 0 -> len_ok (model_resp_len (ctl_cmd p)) (length fields) = true ->
       decode_packet r = ok (MCtpControl, (12%nat, length fields)) /\ sub r 12 (length fields) = fields) /\
    (cc = 0 -> len_ok (model_resp_len (ctl_cmd p)) (length fields) = false ->
       decode_packet r = err MCtpControl (DControlMessage CEInvalidRequestDataLength)) /\
    (cc <> 0 -> decode_packet r = err MCtpControl (DControlMessage (CEUnsuccessfulCompletionCode cc))).
Proof.
  intros ovf g c p buf Hg Hc Hok Ha Hans Hbuf Hpp Hv.
  destruct (answer_exists_bytes ovf g c p buf Hg Hc Hok Ha Hans Hbuf Hpp Hv) as (c' & cc & fields & Hcc & Hl & Hf & _ & St).
  exists c', cc, fields. split; [exact Hcc|]. split; [exact Hl|]. cbv zeta.
  change (spec_packet (g_addr g) (nth 6 p 0) 0 ([0; ctl_cmd p; cc] ++ fields)) with (response_to g p cc fields).
  pose proof (response_to_bytes_ok g p cc fields Hg Hok Hcc Hf Hl) as Hr.
  pose proof (decode_response_to g p cc fields Hr Hans Hcc) as D. unfold decode_of_response in D.
  split; [exact St|]. split; [exact Hr|]. split; [apply response_to_first|].
  split; [|split].
  - intros -> Hlen. rewrite Hlen in D. cbn [N.eqb] in D. split; [exact D|].
    exact (spec_packet_sub (g_addr g) (nth 6 p 0) 0 [0; ctl_cmd p; 0] fields).
  - intros -> Hlen. rewrite Hlen in D. exact D.
  - intros Hne. apply N.eqb_neq in Hne. rewrite Hne in D. exact D.
Qed.

(* ================================================================ 2. command by command *)
(* one step that answers p with (cc, fields), followed by a decode of the n bytes written: the response decodes to
   d, and the data fields are found at offset 12 *)
Lemma answer_then_decode ovf g c c' p buf cc fields :
  step ovf c (OProcess p buf) = (c', resp_obs g p cc fields buf) ->
  wf_cfg g -> bytes_ok p -> answerable (ctl_cmd p) = true -> cc <= 5 -> bytes_ok fields -> (length fields <= 31)%nat ->
  exists out,
    step ovf c (OProcess p buf) =
      (c', XProcess (inl ((MCtpControl, (11%nat, (length p - 12)%nat)), Some (13 + length fields)%nat)) out) /\
    decode_packet (firstn (13 + length fields) out) = decode_of_response (ctl_cmd p) cc fields /\
    sub (firstn (13 + length fields) out) 12 (length fields) = fields.
Proof.
  intros St Hg Hok Hans Hcc Hf Hl. eexists. split; [exact St|].
  change (spec_packet (g_addr g) (nth 6 p 0) 0 ([0; ctl_cmd p; cc] ++ fields)) with (response_to g p cc fields).
  rewrite response_to_first. split.
  - apply decode_response_to; try assumption. apply response_to_bytes_ok; assumption.
  - exact (spec_packet_sub (g_addr g) (nth 6 p 0) 0 [0; ctl_cmd p; cc] fields).
Qed.

Section PerCommand.
Variables (ovf : bool) (g : config) (c : ctx) (p buf : list N).
Hypothesis Hg : wf_cfg g.
Hypothesis Hc : cinv g c.
Hypothesis Hok : bytes_ok p.
Hypothesis Hbuf : (64 <= length buf)%nat.

(* Set Endpoint ID, operation set / force: both EIDs assigned; the 16 bytes written decode, and the data the
   requester reads is [assignment status 0; the new EID; pool size 0] *)
Theorem set_eid_response_decodes : assigning p = true ->
  exists out,
    step ovf c (OProcess p buf) =
      (set_eid_req (set_eid_resp c (nth 12 p 0)) (nth 12 p 0),
       XProcess (inl ((MCtpControl, (11%nat, 2%nat)), Some 16%nat)) out) /\
    decode_packet (firstn 16 out) = ok (MCtpControl, (12%nat, 3%nat)) /\
    sub (firstn 16 out) 12 3 = [0; nth 12 p 0; 0].
Proof.
  intros A. destruct (assigning_facts p A) as (Ha & Hcmd & Hop & L).
  pose proof (step_set_eid_assign ovf g c p buf Hg Hc Hok Ha Hbuf Hcmd Hop) as St.
  destruct (answer_then_decode ovf g c _ p buf 0 [0; nth 12 p 0; 0] St Hg Hok) as (out & S & D & B).
  - rewrite Hcmd. reflexivity.
  - lia.
  - apply bytes3; try lia. apply nth_byte, Hok.
  - cbn [length]. lia.
  - exists out. rewrite L in S. split; [exact S|]. rewrite Hcmd in D. split; [exact D|exact B].
Qed.

(* Set Endpoint ID, operation 3 (set discovered flag): answered Error Invalid Data, which is what the decoder reports *)
Theorem set_discovered_flag_response_decodes :
  accepted_request p = true -> ctl_cmd p = 1 -> nth 11 p 0 = 3 ->
  exists out,
    step ovf c (OProcess p buf) = (c, XProcess (inl ((MCtpControl, (11%nat, 2%nat)), Some 16%nat)) out) /\
    decode_packet (firstn 16 out) = err MCtpControl (DControlMessage (CEUnsuccessfulCompletionCode 2)).
Proof.
  intros Ha Hcmd Hop.
  assert (L : length p = 14%nat) by (apply (accepted_fixed_len p 1 Ha); rewrite Hcmd; reflexivity).
  pose proof (step_set_eid_flag ovf g c p buf Hg Hc Hok Ha Hbuf Hcmd Hop) as St.
  assert (He : c_eid_resp c < 256) by apply Hc.
  destruct (answer_then_decode ovf g c _ p buf 2 [0; c_eid_resp c; 0] St Hg Hok) as (out & S & D & B).
  - rewrite Hcmd. reflexivity.
  - lia.
  - apply bytes3; lia.
  - cbn [length]. lia.
  - exists out. rewrite L in S. split; [exact S|exact D].
Qed.

(* Get Endpoint ID: the responder writes three data bytes [EID; endpoint type; medium-specific], the library's
   response-length table says four: the library's decoder rejects the library's own answer (known finding 101) *)
Theorem get_eid_response_rejected : accepted_request p = true -> ctl_cmd p = 2 ->
  exists out,
    step ovf c (OProcess p buf) =
      (c, XProcess (inl ((MCtpControl, (11%nat, (length p - 12)%nat)), Some 16%nat)) out) /\
    decode_packet (firstn 16 out) = err MCtpControl (DControlMessage CEInvalidRequestDataLength) /\
    sub (firstn 16 out) 12 3 = [c_eid_resp c; 0; 0].
Proof.
  intros Ha Hcmd.
  pose proof (step_get_eid ovf g c p buf Hg Hc Hok Ha Hbuf Hcmd) as St.
  assert (He : c_eid_resp c < 256) by apply Hc.
  destruct (answer_then_decode ovf g c _ p buf 0 [c_eid_resp c; 0; 0] St Hg Hok) as (out & S & D & B).
  - rewrite Hcmd. reflexivity.
  - lia.
  - apply bytes3; lia.
  - cbn [length]. lia.
  - exists out. split; [exact S|]. rewrite Hcmd in D. split; [exact D|exact B].
Qed.

(* Get Endpoint UUID: the 16 bytes last installed *)
Theorem get_uuid_response_decodes : accepted_request p = true -> ctl_cmd p = 3 ->
  exists out,
    step ovf c (OProcess p buf) =
      (c, XProcess (inl ((MCtpControl, (11%nat, (length p - 12)%nat)), Some 29%nat)) out) /\
    decode_packet (firstn 29 out) = ok (MCtpControl, (12%nat, 16%nat)) /\
    sub (firstn 29 out) 12 16 = c_uuid c.
Proof.
  intros Ha Hcmd.
  pose proof (step_get_uuid ovf g c p buf Hg Hc Hok Ha Hbuf Hcmd) as St.
  assert (Lu : length (c_uuid c) = 16%nat) by apply Hc.
  destruct (answer_then_decode ovf g c _ p buf 0 (c_uuid c) St Hg Hok) as (out & S & D & B).
  - rewrite Hcmd. reflexivity.
  - lia.
  - apply Hc.
  - lia.
  - exists out. rewrite Hcmd in D. unfold decode_of_response in D. rewrite Lu in S, D, B.
    split; [exact S|]. split; [exact D|exact B].
Qed.

(* Get MCTP Version Support: one entry, version 1.3.1 *)
Theorem get_version_response_decodes : accepted_request p = true -> ctl_cmd p = 4 ->
  exists out,
    step ovf c (OProcess p buf) = (c, XProcess (inl ((MCtpControl, (11%nat, 1%nat)), Some 18%nat)) out) /\
    decode_packet (firstn 18 out) = ok (MCtpControl, (12%nat, 5%nat)) /\
    sub (firstn 18 out) 12 5 = [1; 241; 243; 241; 0].
Proof.
  intros Ha Hcmd.
  assert (L : length p = 13%nat) by (apply (accepted_fixed_len p 0 Ha); rewrite Hcmd; reflexivity).
  pose proof (step_get_version ovf g c p buf Hg Hc Hok Ha Hbuf Hcmd) as St.
  destruct (answer_then_decode ovf g c _ p buf 0 [1; 241; 243; 241; 0] St Hg Hok) as (out & S & D & B).
  - rewrite Hcmd. reflexivity.
  - lia.
  - repeat (apply bytes_ok_cons; split); try lia. constructor.
  - cbn [length]. lia.
  - exists out. rewrite L in S. split; [exact S|]. rewrite Hcmd in D. split; [exact D|exact B].
Qed.

(* Get Message Type Support: the count and the configured types (the table has no fixed length for command 5) *)
Theorem get_msg_types_response_decodes :
  accepted_request p = true -> ctl_cmd p = 5 -> (length (g_msg_types g) <= 30)%nat ->
  let k := S (length (g_msg_types g)) in
  exists out,
    step ovf c (OProcess p buf) =
      (c, XProcess (inl ((MCtpControl, (11%nat, (length p - 12)%nat)), Some (13 + k)%nat)) out) /\
    decode_packet (firstn (13 + k) out) = ok (MCtpControl, (12%nat, k)) /\
    sub (firstn (13 + k) out) 12 k = N.of_nat (length (g_msg_types g)) :: g_msg_types g.
Proof.
  intros Ha Hcmd H30 k.
  pose proof (step_get_msg_types ovf g c p buf Hg Hc Hok Ha Hbuf Hcmd H30) as St.
  destruct (answer_then_decode ovf g c _ p buf 0 (N.of_nat (length (g_msg_types g)) :: g_msg_types g) St Hg Hok)
    as (out & S & D & B).
  - rewrite Hcmd. reflexivity.
  - lia.
  - apply bytes_ok_cons. split; [lia|apply Hg].
  - cbn [length]. lia.
  - exists out. split; [exact S|]. rewrite Hcmd in D. split; [exact D|exact B].
Qed.

(* Get Vendor Defined Message Support, selector i < number of sets: the selector of the next set (0xFF after the
   last) and vendor ID set i *)
Theorem get_vendor_response_decodes : forall v,
  let n := N.of_nat (length (g_vendor_ids g)) in
  let i := nth 11 p 0 in
  let next := if i + 1 =? n then 255 else i + 1 in
  let k := S (length (enc_vendor_set v)) in
  valid_cfg g = true -> accepted_request p = true -> ctl_cmd p = 6 -> i < n ->
  nth_error (g_vendor_ids g) (N.to_nat i) = Some v ->
  exists out,
    step ovf c (OProcess p buf) =
      (set_selector c next, XProcess (inl ((MCtpControl, (11%nat, 1%nat)), Some (13 + k)%nat)) out) /\
    decode_packet (firstn (13 + k) out) = ok (MCtpControl, (12%nat, k)) /\
    sub (firstn (13 + k) out) 12 k = next :: enc_vendor_set v.
Proof.
  intros v n i next k Hv Ha Hcmd Hi Hnth.
  destruct (valid_cfg_facts g Hv) as (_ & _ & H16 & Hfmt).
  assert (L : length p = 13%nat) by (apply (accepted_fixed_len p 0 Ha); rewrite Hcmd; reflexivity).
  assert (St : step ovf c (OProcess p buf) = (set_selector c next, resp_obs g p 0 (next :: enc_vendor_set v) buf)).
  { apply (step_get_vendor ovf g c p buf Hg Hc Hok Ha Hbuf v); try assumption; try (fold n; lia). eapply Hfmt, Hnth. }
  assert (Hnext : next < 256) by (unfold next; destruct (i + 1 =? n); lia).
  assert (Hlen : (length (enc_vendor_set v) <= 7)%nat)
    by (unfold enc_vendor_set; destruct (v_format v =? 0); cbn [length]; lia).
  destruct (answer_then_decode ovf g c _ p buf 0 (next :: enc_vendor_set v) St Hg Hok) as (out & S & D & B).
  - rewrite Hcmd. reflexivity.
  - lia.
  - apply bytes_ok_cons. split; [exact Hnext|apply enc_vendor_set_bytes_ok].
  - cbn [length]. lia.
  - exists out. rewrite L in S. split; [exact S|]. rewrite Hcmd in D. split; [exact D|exact B].
Qed.
End PerCommand.

(* ================================================================ all six commands in one statement *)
(* Under the hypotheses of C12_answerable_requests_are_answered the responder writes n bytes (13..44), and what the
   library's decoder says about exactly those n bytes is expected_decode: it accepts every answer, with the n-13
   data bytes as payload, except the Error Invalid Data answer to Set Discovered Flag (reported as that completion
   code) and the Success answer to Get Endpoint ID, which it rejects for its length (known finding 101). *)
Theorem own_answers_decoded : forall ovf g c p buf,
  wf_cfg g -> cinv g c -> bytes_ok p -> accepted_request p = true -> answerable (ctl_cmd p) = true ->
  (64 <= length buf)%nat -> process_panic_class true g p = 0 -> valid_cfg g = true ->
  exists c' n out, (13 <= n <= 44)%nat /\
    step ovf c (OProcess p buf) =
      (c', XProcess (inl ((MCtpControl, (11%nat, (length p - 12)%nat)), Some n)) out) /\
    decode_packet (firstn n out) = expected_decode p (n - 13).
Proof.
  intros ovf g c p buf Hg Hc Hok Ha Hans Hbuf Hpp Hv.
  destruct (answer_exists_bytes ovf g c p buf Hg Hc Hok Ha Hans Hbuf Hpp Hv)
    as (c' & cc & fields & Hcc & Hl & Hf & Hx & St).
  destruct (answer_then_decode ovf g c c' p buf cc fields St Hg Hok Hans Hcc Hf Hl) as (out & S & D & _).
  exists c', (13 + length fields)%nat, out. split; [lia|]. split; [exact S|].
  replace (13 + length fields - 13)%nat with (length fields) by lia. rewrite D. exact Hx.
Qed.

(* ================================================================ 3. on concrete bytes *)
(* the configuration and the five requests of C12_nonvacuous (Get Endpoint ID, Set Endpoint ID 0x56, Get Vendor
   Defined Message Support selector 1, Get Endpoint UUID, Get Message Type Support, from requester 0x23 to the
   responder 0x10), processed one after the other from the initial context; after each, the first n bytes of the
   output are handed to decode_packet: (n, what the decoder says, the n-13 bytes at offset 12) *)
Definition decode_answer (x3 : obs3) : option (nat * rr decoded * list N) :=
  match fst x3 with
  | XProcess (inl (_, Some n)) out => Some (n, decode_packet (firstn n out), sub (firstn n out) 12 (n - 13))
  | _ => None
  end.

Example interop_nonvacuous :
  let g := {| g_addr := 0x10; g_msg_types := [0; 5; 0x7E];
              g_vendor_ids := [{| v_format := 0; v_data := 0x8086; v_numeric := 0x1234 |};
                               {| v_format := 1; v_data := 0xA2B3; v_numeric := 7 |}] |} in
  let reqs := [[32; 15; 8; 71; 1; 16; 35; 200; 0; 128; 2; 250];
               [32; 15; 10; 71; 1; 16; 35; 200; 0; 128; 1; 0; 86; 176];
               [32; 15; 9; 71; 1; 16; 35; 200; 0; 128; 6; 1; 211];
               [32; 15; 8; 71; 1; 16; 35; 200; 0; 128; 3; 253];
               [32; 15; 8; 71; 1; 16; 35; 200; 0; 128; 5; 239]] in
  let ops := map (fun p => OProcess p (repeat 0 64)) reqs in
  (* the hypotheses of response_decodes / own_answers_decoded hold of every request *)
  valid_cfg g = true /\
  forallb (fun p => bytes_okb p && accepted_request p && answerable (ctl_cmd p)
                    && (process_panic_class true g p =? 0)) reqs = true /\
  (* four answers are accepted, the Get Endpoint ID answer is rejected for its length *)
  map decode_answer (run true (ctx_of g) ops) =
    [Some (16%nat, err MCtpControl (DControlMessage CEInvalidRequestDataLength), [0; 0; 0]);
     Some (16%nat, ok (MCtpControl, (12%nat, 3%nat)), [0; 86; 0]);
     Some (21%nat, ok (MCtpControl, (12%nat, 8%nat)), [255; 1; 0; 0; 0xA2; 0xB3; 0; 7]);
     Some (29%nat, ok (MCtpControl, (12%nat, 16%nat)), repeat 0 16);
     Some (17%nat, ok (MCtpControl, (12%nat, 4%nat)), [3; 0; 5; 0x7E])] /\
  (* ... which is what expected_decode predicts from the request alone *)
  map (fun x => match x with Some (n, d, _) => Some d | None => None end) (map decode_answer (run true (ctx_of g) ops)) =
  map (fun px => match snd px with Some (n, _, _) => Some (expected_decode (fst px) (n - 13)) | None => None end)
      (combine reqs (map decode_answer (run true (ctx_of g) ops))) /\
  (* the same in the wrapping-arithmetic mode *)
  map decode_answer (run false (ctx_of g) ops) = map decode_answer (run true (ctx_of g) ops).
Proof. vm_compute. repeat split; reflexivity. Qed.

Print Assumptions response_decodes.
Print Assumptions own_answers_decoded.
Print Assumptions set_eid_response_decodes.
Print Assumptions set_discovered_flag_response_decodes.
Print Assumptions get_eid_response_rejected.
Print Assumptions get_uuid_response_decodes.
Print Assumptions get_version_response_decodes.
Print Assumptions get_msg_types_response_decodes.
Print Assumptions get_vendor_response_decodes.
Print Assumptions interop_nonvacuous.
