(* UuidLast.v — C15 over histories, from the refinement: the UUID the endpoint reports is the one most recently
   installed by a well-formed set_uuid (16 bytes), all zero before any; no other operation touches it. *)
Require Import Base Crc Bitfield Headers Encode Decode Process Ops Spec Judge.
Require Import Hist StepsProcess Refine.
Open Scope N_scope.

(* the last 16-byte argument of set_uuid in a history, d if there is none *)
Fixpoint last_uuid (ops : list op) (d : list N) : list N :=
  match ops with
  | [] => d
  | OSetUuid u :: r => last_uuid r (if (length u =? 16)%nat then u else d)
  | _ :: r => last_uuid r d
  end.

Lemma answer_uuid g s cmd d : a_uuid (fst (answer g s cmd d)) = a_uuid s.
Proof.
  unfold answer.
  destruct cmd as [|p]; [reflexivity|].
  do 3 (try (destruct p as [p|p|]; try reflexivity));
    try (destruct ((nth 0 d 0 =? 0) || (nth 0 d 0 =? 1)); reflexivity).
Qed.

Lemma astep_uuid g s o :
  a_uuid (astep g s o) = match o with
                         | OSetUuid u => if (length u =? 16)%nat then u else a_uuid s
                         | _ => a_uuid s
                         end.
Proof.
  destruct o as [p buf|p|p|h e|u|h id a ls buf|what fld raw v|what b]; cbn [astep]; try reflexivity.
  - destruct (serviced g p); [apply answer_uuid|reflexivity].
  - destruct h; reflexivity.
  - destruct (length u =? 16)%nat; reflexivity.
Qed.

Lemma fold_uuid g : forall ops s, a_uuid (fold_left (astep g) ops s) = last_uuid ops (a_uuid s).
Proof.
  induction ops as [|o r IH]; intros s; [reflexivity|].
  cbn [fold_left]. rewrite IH, astep_uuid.
  destruct o as [p buf|p|p|h e|u|h id a ls buf|what fld raw v|what b]; reflexivity.
Qed.

(* after any well-formed history the context's UUID is the last one installed (16 zero bytes before any) *)
Theorem uuid_is_last_installed ovf g ops :
  wf_cfg g -> valid_cfg g = true -> Forall wf_op ops ->
  c_uuid (run_ctx ovf (ctx_of g) ops) = last_uuid ops (repeat 0 16).
Proof.
  intros Hg Hv Hw. change (c_uuid (run_ctx ovf (ctx_of g) ops)) with (a_uuid (abs (run_ctx ovf (ctx_of g) ops))).
  rewrite (run_refines ovf g ops Hg Hv Hw). apply fold_uuid.
Qed.

(* ... and a Get Endpoint UUID request at any point of a history is answered with exactly those 16 bytes *)
Theorem get_uuid_answers_last_installed ovf g pre p buf post :
  wf_cfg g -> valid_cfg g = true -> Forall wf_op (pre ++ OProcess p buf :: post) ->
  answered g p buf = true -> ctl_cmd p = 3 ->
  exists eids,
    nth_error (run ovf (ctx_of g) (pre ++ OProcess p buf :: post)) (length pre) =
    Some (resp_obs g p 0 (last_uuid pre (repeat 0 16)) buf, eids).
Proof.
  intros Hg Hv Hw Ha Hc.
  pose proof (answers_refine ovf g pre p buf post Hg Hv Hw Ha) as H. cbv zeta in H.
  eexists. rewrite H. f_equal. f_equal. unfold aobs. rewrite Hc. cbn [answer snd].
  rewrite fold_uuid. reflexivity.
Qed.

Print Assumptions uuid_is_last_installed.
Print Assumptions get_uuid_answers_last_installed.
