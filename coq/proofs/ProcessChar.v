(* ProcessChar.v — process_packet in terms of the decode result: panics and rejections are passed on with
   context and buffer untouched; non-control messages and control responses are reported and nothing else
   happens; an accepted control request is handed to dispatch_request with the command code (byte 10), the
   source EID (byte 6) and the payload bytes 11..len-2. *)
Require Import Base Crc Bitfield Headers Encode Decode Process Ops Spec Judge.
Require Import BitfieldFacts HeaderFacts DecodeFacts Hist StepsSimple DecodeChar.
Open Scope N_scope.

(* ================================================================ what an accepted packet looks like *)
Definition accept_shape (p : list N) (mt : msg_type) (rng : nat * nat) : Prop :=
  ((nth 8 p 0 =? 0) = false /\ mt = msg_type_from_u8 (nth 8 p 0) /\ rng = (9%nat, (length p - 10)%nat)) \/
  ((nth 8 p 0 =? 0) = true /\ mt = MCtpControl /\ is_request p = true /\ rng = (11%nat, (length p - 12)%nat) /\
     len_ok (model_req_len (ctl_cmd p)) (length p - 12) = true) \/
  ((nth 8 p 0 =? 0) = true /\ mt = MCtpControl /\ is_request p = false /\ (ctl_cc p =? 0) = true /\
     rng = (12%nat, (length p - 13)%nat) /\ len_ok (model_resp_len (ctl_cmd p)) (length p - 13) = true).

Lemma spec_decode_accept p mt rng : spec_decode p = inl (mt, rng) ->
  header_ok p = true /\ pec_good p = true /\ accept_shape p mt rng.
Proof.
  unfold spec_decode, e_pec, e_len, accept_shape.
  destruct (header_ok p); cbn [negb]; [|discriminate].
  destruct (nth 8 p 0 =? 0); cbn [negb].
  - destruct (is_request p).
    + destruct (pec_good p); cbn [negb]; [|discriminate].
      destruct (len_ok (model_req_len (ctl_cmd p)) (length p - 12)); cbn [negb]; [|discriminate].
      intros H. injection H as <- <-. repeat split. right. left. repeat split.
    + destruct (ctl_cc p =? 0); cbn [negb]; [|discriminate].
      destruct (pec_good p); cbn [negb]; [|discriminate].
      destruct (len_ok (model_resp_len (ctl_cmd p)) (length p - 13)); cbn [negb]; [|discriminate].
      intros H. injection H as <- <-. repeat split. right. right. repeat split.
  - cbv zeta. destruct (pec_good p); cbn [negb]; [|discriminate].
    intros H. injection H as <- <-. repeat split. left. repeat split.
Qed.

Theorem decode_accept_inv p mt rng : bytes_ok p -> decode_packet p = Val (inl (mt, rng)) ->
  decode_panic_class p = 0 /\ header_ok p = true /\ pec_good p = true /\ accept_shape p mt rng.
Proof.
  intros Hok Hd. destruct (decode_char p Hok) as [[Hc Hs]|[_ [k Hk]]]; [|rewrite Hk in Hd; discriminate].
  split; [exact Hc|]. rewrite Hs in Hd. injection Hd as Hd. apply spec_decode_accept. exact Hd.
Qed.

(* an accepted type is one of the five supported ones *)
Lemma accepted_type_supported p mt rng : header_ok p = true -> accept_shape p mt rng ->
  mt = MCtpControl \/ (mt <> MCtpControl /\ mt <> MInvalid).
Proof.
  intros Hh S. unfold header_ok in Hh. apply andb_true_iff in Hh as [_ Hs].
  destruct S as [(E8 & -> & _)|[(_ & -> & _)|(_ & -> & _)]]; [|left; reflexivity|left; reflexivity].
  destruct (supported_cases _ Hs) as [E|[E|[E|[E|E]]]]; rewrite E in *; try discriminate;
    right; split; discriminate.
Qed.

(* the lengths that class 0 guarantees *)
Lemma class0_len9 p : decode_panic_class p = 0 -> header_ok p = true -> (9 <= length p)%nat.
Proof.
  unfold decode_panic_class, header_ok. intros Hc Hh. apply andb_true_iff in Hh as [H4 _].
  rewrite H4 in Hc. destruct (Nat.ltb_spec (length p) 8) as [L|L]; cbn [orb] in Hc; [discriminate|].
  destruct (Nat.eqb_spec (length p) 8) as [E|E]; cbn [andb] in Hc; [discriminate|]. lia.
Qed.
Lemma class0_req p : decode_panic_class p = 0 -> header_ok p = true -> (nth 8 p 0 =? 0) = true ->
  is_request p = true -> (12 <= length p)%nat /\ (9 <=? ctl_cmd p) = false.
Proof.
  intros Hc Hh E8 Hr. pose proof (class0_len9 p Hc Hh) as L9. unfold decode_panic_class in Hc.
  rewrite Hh, E8, Hr in Hc. cbn [negb] in Hc.
  replace (length p <? 8)%nat with false in Hc by (symmetry; apply Nat.ltb_ge; lia).
  replace (length p =? 8)%nat with false in Hc by (symmetry; apply Nat.eqb_neq; lia).
  cbn [orb andb] in Hc.
  destruct (Nat.ltb_spec (length p) 11) as [L|L]; [discriminate|].
  destruct (9 <=? ctl_cmd p); [discriminate|].
  destruct (Nat.eqb_spec (length p) 11) as [E|E]; [discriminate|]. split; [lia|reflexivity].
Qed.
Lemma class0_resp p : decode_panic_class p = 0 -> header_ok p = true -> (nth 8 p 0 =? 0) = true ->
  is_request p = false -> (ctl_cc p =? 0) = true ->
  (13 <= length p)%nat /\ ((ctl_cmd p =? 7) || (10 <=? ctl_cmd p)) = false.
Proof.
  intros Hc Hh E8 Hr Hcc. pose proof (class0_len9 p Hc Hh) as L9. unfold decode_panic_class in Hc.
  rewrite Hh, E8, Hr, Hcc in Hc. cbn [negb] in Hc.
  replace (length p <? 8)%nat with false in Hc by (symmetry; apply Nat.ltb_ge; lia).
  replace (length p =? 8)%nat with false in Hc by (symmetry; apply Nat.eqb_neq; lia).
  cbn [orb andb] in Hc.
  destruct (Nat.ltb_spec (length p) 11) as [L|L]; [discriminate|].
  destruct (Nat.eqb_spec (length p) 11) as [E|E]; [discriminate|].
  destruct ((ctl_cmd p =? 7) || (10 <=? ctl_cmd p)); [discriminate|].
  destruct (Nat.eqb_spec (length p) 12) as [E'|E']; [discriminate|]. split; [lia|reflexivity].
Qed.

(* ================================================================ the second parse *)
Lemma gsh_value p : bytes_ok p -> (9 <= length p)%nat -> header_ok p = true ->
  get_smbus_headers p = Val (inl (firstn 4 p, firstn 4 (skipn 4 p), [nth 8 p 0])).
Proof.
  intros Hok L Hh. rewrite (gsh_closed p Hok). unfold gsh_closed_form.
  unfold header_ok in Hh. apply andb_true_iff in Hh as [H4 Hs]. rewrite H4, Hs. cbn [negb].
  replace (length p <? 8)%nat with false by (symmetry; apply Nat.ltb_ge; lia).
  replace (length p <? 9)%nat with false by (symmetry; apply Nat.ltb_ge; lia). reflexivity.
Qed.

Lemma skip_skip (l : list N) a b : skipn a (skipn b l) = skipn (b + a) l.
Proof. revert l. induction b as [|b IH]; intros l; [reflexivity|].
  destruct l as [|x l]; [rewrite !skipn_nil; reflexivity|]. cbn [skipn Nat.add]. apply IH. Qed.

Lemma last_skip9 p : (10 <= length p)%nat -> nth (length p - 9 - 1) (skipn 9 p) 0 = last_byte p.
Proof. intros L. rewrite nth_skip. unfold last_byte. f_equal. lia. Qed.

Lemma gm_req_value p : bytes_ok p -> (12 <= length p)%nat -> is_request p = true -> (9 <=? ctl_cmd p) = false ->
  pec_good p = true -> len_ok (model_req_len (ctl_cmd p)) (length p - 12) = true ->
  get_mctp_control_packet (skipn 9 p) (pec (all_but_last p)) =
  Val (inl {| cr_header := firstn 2 (skipn 9 p); cr_cc := None; cr_off := 2;
              cr_data := firstn (length p - 12) (skipn 11 p) |}).
Proof.
  intros Hok L Hr Hcmd Hp Hlen. rewrite gm_closed by (apply bytes_ok_skip, Hok). unfold gm_closed_form.
  rewrite skipn_length, !nth_skip.
  change (9 + 0)%nat with 9%nat. change (9 + 1)%nat with 10%nat.
  fold (ctl_cmd p). fold (is_request p). rewrite Hr.
  replace (length p - 9 <? 2)%nat with false by (symmetry; apply Nat.ltb_ge; lia).
  rewrite (req_table (ctl_cmd p)) by (apply nth_ok, Hok). rewrite Hcmd.
  unfold gm_tail. rewrite skipn_length, last_skip9 by lia. fold (pec_good p). rewrite Hp. cbn [negb].
  replace (length p - 9 - 1 <? 2)%nat with false by (symmetry; apply Nat.ltb_ge; lia).
  replace (length p - 9 - 1 - 2)%nat with (length p - 12)%nat by lia.
  rewrite len_test, Hlen. cbn [negb]. rewrite skip_skip. reflexivity.
Qed.

Lemma gm_resp_value p : bytes_ok p -> (13 <= length p)%nat -> is_request p = false -> (ctl_cc p =? 0) = true ->
  ((ctl_cmd p =? 7) || (10 <=? ctl_cmd p)) = false ->
  pec_good p = true -> len_ok (model_resp_len (ctl_cmd p)) (length p - 13) = true ->
  get_mctp_control_packet (skipn 9 p) (pec (all_but_last p)) =
  Val (inl {| cr_header := firstn 2 (skipn 9 p); cr_cc := Some 0; cr_off := 3;
              cr_data := firstn (length p - 13) (skipn 12 p) |}).
Proof.
  intros Hok L Hr Hcc Hcmd Hp Hlen. rewrite gm_closed by (apply bytes_ok_skip, Hok). unfold gm_closed_form.
  rewrite skipn_length, !nth_skip.
  change (9 + 0)%nat with 9%nat. change (9 + 1)%nat with 10%nat. change (9 + 2)%nat with 11%nat.
  fold (ctl_cmd p). fold (ctl_cc p). fold (is_request p). rewrite Hr, Hcc. cbn [negb].
  replace (length p - 9 <? 2)%nat with false by (symmetry; apply Nat.ltb_ge; lia).
  replace (length p - 9 <? 3)%nat with false by (symmetry; apply Nat.ltb_ge; lia).
  rewrite (resp_table (ctl_cmd p)) by (apply nth_ok, Hok). rewrite Hcmd.
  unfold gm_tail. rewrite skipn_length, last_skip9 by lia. fold (pec_good p). rewrite Hp. cbn [negb].
  replace (length p - 9 - 1 <? 3)%nat with false by (symmetry; apply Nat.ltb_ge; lia).
  replace (length p - 9 - 1 - 3)%nat with (length p - 13)%nat by lia.
  rewrite len_test, Hlen. cbn [negb]. rewrite skip_skip. reflexivity.
Qed.

Lemma th_source_closed th : bytes_ok th -> get_field th_source th = nth 2 th 0.
Proof. intros Hok. rewrite (get_whole_byte th_source) by (try exact Hok; cbn; tauto || reflexivity). reflexivity. Qed.

(* ================================================================ process_packet *)
Theorem process_decode_panic ovf c p buf k : decode_packet p = Panic k ->
  process_packet ovf c p buf = ((c, buf), Panic k).
Proof. intros H. unfold process_packet. rewrite H. reflexivity. Qed.

Theorem process_decode_err ovf c p buf e : decode_packet p = Val (inr e) ->
  process_packet ovf c p buf = ((c, buf), Val (inr e)).
Proof. intros H. unfold process_packet. rewrite H. reflexivity. Qed.

Theorem process_non_control ovf c p buf mt rng : bytes_ok p ->
  decode_packet p = Val (inl (mt, rng)) -> mt <> MCtpControl ->
  process_packet ovf c p buf = ((c, buf), ok ((mt, rng), None)).
Proof.
  intros Hok Hd Hm. destruct (decode_accept_inv p mt rng Hok Hd) as (_ & Hh & _ & S).
  unfold process_packet. rewrite Hd.
  destruct (accepted_type_supported p mt rng Hh S) as [E|[_ Hi]]; [contradiction|].
  destruct mt; try reflexivity; contradiction.
Qed.

Theorem process_control_response ovf c p buf rng : bytes_ok p ->
  decode_packet p = Val (inl (MCtpControl, rng)) -> is_request p = false ->
  process_packet ovf c p buf = ((c, buf), ok ((MCtpControl, rng), None)).
Proof.
  intros Hok Hd Hr. destruct (decode_accept_inv p _ rng Hok Hd) as (Hc & Hh & Hp & S).
  destruct S as [(E8 & Hm & _)|[(_ & _ & Hr' & _)|(E8 & _ & _ & Hcc & -> & Hlen)]].
  - exfalso. unfold header_ok in Hh. apply andb_true_iff in Hh as [_ Hs].
    destruct (supported_cases _ Hs) as [E|[E|[E|[E|E]]]]; rewrite E in *; discriminate.
  - rewrite Hr in Hr'. discriminate.
  - destruct (class0_resp p Hc Hh E8 Hr Hcc) as [L Hcmd].
    unfold process_packet. rewrite Hd. rewrite (gsh_value p Hok) by (assumption || lia).
    rewrite usub_val by lia. cbn [rlift rbind]. rewrite slice_abl by lia. cbn [rlift rbind].
    rewrite slice_from_val by lia. cbn [rlift rbind].
    rewrite (gm_resp_value p) by assumption. reflexivity.
Qed.

Theorem process_control_request ovf c p buf rng : bytes_ok p ->
  decode_packet p = Val (inl (MCtpControl, rng)) -> is_request p = true ->
  rng = (11%nat, (length p - 12)%nat) /\
  process_packet ovf c p buf =
    (let '(st, r) := dispatch_request ovf c buf (ctl_cmd p) (nth 6 p 0) (sub p 11 (length p - 12)) in
     (st, match r with
          | Panic k => Panic k
          | Val len => ok ((MCtpControl, (11%nat, (length p - 12)%nat)), Some len)
          end)).
Proof.
  intros Hok Hd Hr. destruct (decode_accept_inv p _ rng Hok Hd) as (Hc & Hh & Hp & S).
  destruct S as [(E8 & Hm & _)|[(E8 & _ & _ & -> & Hlen)|(_ & _ & Hr' & _)]].
  - exfalso. unfold header_ok in Hh. apply andb_true_iff in Hh as [_ Hs].
    destruct (supported_cases _ Hs) as [E|[E|[E|[E|E]]]]; rewrite E in *; discriminate.
  - split; [reflexivity|].
    destruct (class0_req p Hc Hh E8 Hr) as [L Hcmd].
    unfold process_packet. rewrite Hd. rewrite (gsh_value p Hok) by (assumption || lia).
    rewrite usub_val by lia. cbn [rlift rbind]. rewrite slice_abl by lia. cbn [rlift rbind].
    rewrite slice_from_val by lia. cbn [rlift rbind].
    rewrite (gm_req_value p) by assumption. cbn [rbind ok cr_cc cr_header fst snd].
    rewrite cmd_closed by (apply bytes_ok_first, bytes_ok_skip, Hok).
    rewrite th_source_closed by (apply bytes_ok_fs, Hok).
    rewrite (nth_first _ 2 1) by lia. rewrite (nth_first _ 4 2) by lia. rewrite !nth_skip.
    change (9 + 1)%nat with 10%nat. change (4 + 2)%nat with 6%nat. fold (ctl_cmd p). unfold sub.
    destruct (dispatch_request ovf c buf (ctl_cmd p) (nth 6 p 0) (firstn (length p - 12) (skipn 11 p))) as [st [len|k]];
      reflexivity.
  - rewrite Hr in Hr'. discriminate.
Qed.

(* the four cases in one statement *)
Theorem process_char ovf c p buf : bytes_ok p ->
  match decode_packet p with
  | Panic k => process_packet ovf c p buf = ((c, buf), Panic k)
  | Val (inr e) => process_packet ovf c p buf = ((c, buf), Val (inr e))
  | Val (inl (mt, rng)) =>
      if msg_type_eqb mt MCtpControl && is_request p then
        rng = (11%nat, (length p - 12)%nat) /\
        process_packet ovf c p buf =
          (let '(st, r) := dispatch_request ovf c buf (ctl_cmd p) (nth 6 p 0) (sub p 11 (length p - 12)) in
           (st, match r with
                | Panic k => Panic k
                | Val len => ok ((MCtpControl, (11%nat, (length p - 12)%nat)), Some len)
                end))
      else process_packet ovf c p buf = ((c, buf), ok ((mt, rng), None))
  end.
Proof.
  intros Hok. destruct (decode_packet p) as [[[mt rng]|e]|k] eqn:Hd.
  - destruct mt; cbn [msg_type_eqb msg_type_to_u8 N.eqb Pos.eqb andb];
      try (apply (process_non_control ovf c p buf _ rng Hok Hd); discriminate).
    change (msg_type_eqb MCtpControl MCtpControl) with true. cbn [andb].
    destruct (is_request p) eqn:Hr.
    + apply process_control_request; assumption.
    + apply process_control_response; assumption.
  - apply process_decode_err, Hd.
  - apply process_decode_panic, Hd.
Qed.
