(* C03Full.v — C03 for every operation: encoder calls and the responses process_packet encodes. *)
Require Import Base Crc Bitfield Headers Encode Decode Process Ops Spec Judge.
Require Import PecFacts Hist StepsSimple Extra.
Open Scope N_scope.

Theorem c03_step_all ovf c o : s_o (c03_step o (snd (step ovf c o))) = true.
Proof.
  destruct o as [pkt buf| | | | |h id a ls buf| |]; try reflexivity.
  - cbn [step]. destruct (process_packet ovf c pkt buf) as [[c' b] [r|k]] eqn:E; cbn [snd]; [|reflexivity].
    destruct r as [[d [n|]]|e]; try reflexivity.
    cbn [c03_step sv_of s_o]. eapply responses_end_with_pec. exact E.
  - apply c03_encode_step.
Qed.

Theorem c03_holds_hist : holds_on_model 3.
Proof. apply holds_from_step. intros ovf g s c o _ _ _ _. cbn [oracle_of obs3_of fst]. unfold good. rewrite c03_step_all. reflexivity. Qed.
