(* Readable.v — the encoder properties stated directly about the result of an encoder call on the model,
   without going through the boolean oracles.  Everything here is about one call:
     a context c of a configuration g (cinv g c, wf_cfg g), documented argument shapes (args_okb),
     the writer w the call stands for (encode_call ... = Some w), and what w does to a buffer buf. *)
Require Import Base Crc Bitfield Headers Encode Decode Process Ops Spec Judge.
Require Import CrcFacts BitfieldFacts HeaderFacts HeaderForms PecFacts EncodeFacts DecodeFacts Hist StepsSimple StepsEncode.
Require Import DecodeChar ProcessChar StepsRecv.
Open Scope N_scope.

(* ================================================================ the central fact: a success is a specified packet *)
Lemma encode_success ovf g c h id a ls w buf out n :
  wf_cfg g -> cinv g c -> args_okb h id a ls = true ->
  encode_call ovf c h id a ls = Some w -> w buf = (out, Val (Some n)) ->
  exists mt body, model_message h id a ls (c_eid_resp c) = Some (mt, body) /\
    n = (10 + length body)%nat /\ (n <= 259)%nat /\ (n <= length buf)%nat /\
    out = spec_packet (g_addr g) (enc_dest h id a) mt body ++ skipn n buf.
Proof.
  intros Hg (Ha & _ & _ & _ & Hs & _) Hok Ew Hw.
  pose proof (encode_call_model ovf c h id a ls w buf) as M.
  rewrite Ha in M. specialize (M (proj1 Hg) Hs Hok Ew). unfold enc_spec in M.
  destruct (model_message h id a ls (c_eid_resp c)) as [[mt body]|].
  - destruct (Nat.ltb_spec 259 (10 + length body)) as [Hov|Hov].
    { rewrite M in Hw. discriminate. }
    destruct (Nat.leb_spec (10 + length body) (length buf)) as [Hl|Hl].
    + rewrite M in Hw.
      assert (En : n = (10 + length body)%nat) by congruence.
      assert (Eo : out = spec_packet (g_addr g) (enc_dest h id a) mt body ++ skipn (10 + length body) buf) by congruence.
      exists mt, body. rewrite En. repeat split; try assumption; reflexivity.
    + exfalso. exact (M n out Hw).
  - rewrite M in Hw. discriminate.
Qed.

(* ================================================================ C16 *)
Lemma exact_bytes_and_untouched_tail ovf g c h id a ls w buf out n :
  wf_cfg g -> cinv g c -> args_okb h id a ls = true ->
  encode_call ovf c h id a ls = Some w -> w buf = (out, Val (Some n)) ->
  exists mt body, model_message h id a ls (c_eid_resp c) = Some (mt, body) /\
    n = (10 + length body)%nat /\
    out = spec_packet (g_addr g) (enc_dest h id a) mt body ++ skipn n buf.
Proof.
  intros Hg Hc Hok Ew Hw.
  destruct (encode_success ovf g c h id a ls w buf out n Hg Hc Hok Ew Hw) as (mt & body & M & En & _ & _ & Eo).
  exists mt, body. repeat split; assumption.
Qed.

Lemma short_buffer_never_succeeds ovf g c h id a ls w buf mt body :
  wf_cfg g -> cinv g c -> args_okb h id a ls = true ->
  encode_call ovf c h id a ls = Some w ->
  model_message h id a ls (c_eid_resp c) = Some (mt, body) -> (length buf < 10 + length body)%nat ->
  forall m out, w buf <> (out, Val (Some m)).
Proof.
  intros Hg Hc Hok Ew M Hl m out Hw.
  destruct (encode_success ovf g c h id a ls w buf out m Hg Hc Hok Ew Hw) as (mt' & body' & M' & En & _ & Hb & _).
  rewrite M in M'. assert (E : body = body') by congruence. subst body'. lia.
Qed.

(* a refusal (Err(())) never comes with a modified buffer: it is decided before anything is written *)
Definition refusal_writer (w : W (option nat)) : Prop := forall buf out, w buf = (out, Val None) -> out = buf.
Lemma rw_gen ovf addr dest mt hdr data : refusal_writer (generate_packet_bytes ovf addr dest mt hdr data).
Proof. intros buf out. unfold generate_packet_bytes, wbind, wlift, wret.
  destruct (body_header_new false mt) as [bh|k]; [|discriminate].
  destruct (MAX_PACKET_LEN <? packet_len hdr data)%nat; [intros E; injection E as <-; reflexivity|].
  destruct (packet_to_raw _ _ _ _ _ buf) as [b [m|k]]; discriminate. Qed.
Lemma rw_none : refusal_writer (wret None).
Proof. intros buf out. unfold wret. intros E. injection E as <-. reflexivity. Qed.
Lemma rw_panic k : refusal_writer (wlift (Panic k)).
Proof. intros buf out. unfold wlift. discriminate. Qed.
Lemma rw_if (b : bool) w1 w2 : refusal_writer w1 -> refusal_writer w2 -> refusal_writer (if b then w1 else w2).
Proof. destruct b; auto. Qed.
Ltac rw := repeat first [ apply rw_gen | apply rw_none | apply rw_panic | apply rw_if ].

Lemma encode_call_refusal ovf c h id a ls w : encode_call ovf c h id a ls = Some w -> refusal_writer w.
Proof.
  unfold encode_call. intros E.
  repeat match type of E with
         | (match ?x with _ => _ end) = _ => destruct x; try discriminate
         | (if ?x then _ else _) = _ => destruct x; try discriminate
         end;
  inversion E; subst w; clear E;
  unfold control_packet, req_set_endpoint_id, req_get_endpoint_id, req_get_endpoint_uuid,
    req_get_mctp_version_support, req_get_message_type_suport, req_get_vendor_defined_message_support,
    req_resolve_endpoint_id, req_allocate_endpoint_ids, req_routing_information_update,
    req_get_routing_table_entries, req_prepare_for_endpoint_discovery, req_endpoint_discovery,
    req_discovery_notify, req_get_network_id, req_query_hop, req_resolve_uuid, req_query_rate_limit,
    req_vendor_defined, resp_set_endpoint_id, resp_get_endpoint_id, resp_get_endpoint_uuid,
    resp_get_mctp_version_support, resp_get_message_type_suport, resp_get_vendor_defined_message_support,
    control_packet; rw.
Qed.

Lemma refusal_leaves_buffer ovf c h id a ls w buf out :
  encode_call ovf c h id a ls = Some w -> w buf = (out, Val None) -> out = buf.
Proof. intros Ew. exact (encode_call_refusal ovf c h id a ls w Ew buf out). Qed.

(* ================================================================ C05 *)
Lemma bytes_4_to_8 ovf g c h id a ls w buf out n :
  wf_cfg g -> cinv g c -> args_okb h id a ls = true ->
  encode_call ovf c h id a ls = Some w -> w buf = (out, Val (Some n)) ->
  exists mt, sub out 4 5 = [1; enc_dest h id a; g_addr g; 200; mt] /\ mt < 128 /\
    (exists body, model_message h id a ls (c_eid_resp c) = Some (mt, body)).
Proof.
  intros Hg Hc Hok Ew Hw.
  destruct (encode_success ovf g c h id a ls w buf out n Hg Hc Hok Ew Hw) as (mt & body & M & _ & _ & _ & Eo).
  exists mt. split; [rewrite Eo; apply spec_packet_4_8|]. split; [eapply model_mt_lt; exact M|].
  exists body. exact M.
Qed.

(* ================================================================ C04 *)
(* the probe reads nothing beyond the first three bytes *)
Lemma get_length_first3 p : (3 <= length p)%nat -> get_length p = get_length (firstn 3 p).
Proof.
  intros H. destruct p as [|b0 [|b1 [|b2 r]]]; cbn [length] in H; try lia.
  unfold get_length. cbn [firstn length]. replace (S (S (S (length r))) <? 3)%nat with false by (symmetry; apply Nat.ltb_ge; lia).
  change (3 <? 3)%nat with false. cbv iota.
  unfold slice. cbn [length]. replace ((0 <=? 3)%nat && (3 <=? S (S (S (length r))))%nat) with true by reflexivity.
  reflexivity.
Qed.

Lemma framing ovf g c h id a ls w buf out n :
  wf_cfg g -> cinv g c -> args_okb h id a ls = true ->
  encode_call ovf c h id a ls = Some w -> w buf = (out, Val (Some n)) ->
  firstn 4 out = [(enc_dest h id a mod 128) * 2; 15; N.of_nat (n - 4); (g_addr g mod 128) * 2 + 1] /\
  (10 <= n <= 259)%nat /\ (n <= length buf)%nat /\
  forall k, (3 <= k <= n)%nat -> get_length (firstn k out) = ok n.
Proof.
  intros Hg Hc Hok Ew Hw.
  destruct (encode_success ovf g c h id a ls w buf out n Hg Hc Hok Ew Hw) as (mt & body & M & En & H259 & Hb & Eo).
  assert (E4 : (n - 4 = length body + 6)%nat) by lia.
  split; [rewrite Eo, E4; apply spec_packet_0_3|].
  split; [lia|]. split; [exact Hb|].
  intros k Hk.
  assert (Hlen : length out = length buf).
  { rewrite Eo, En. apply spec_packet_out_length. lia. }
  assert (Lk : length (firstn k out) = k) by (apply firstn_length_le; lia).
  rewrite get_length_first3 by lia.
  rewrite firstn_firstn. replace (Nat.min 3 k) with 3%nat by lia.
  assert (E3 : firstn 3 out = [(enc_dest h id a mod 128) * 2; 15; N.of_nat (length body + 6)]) by (rewrite Eo; reflexivity).
  rewrite E3. rewrite get_length_closed.
  - cbn [length nth]. change (3 <? 3)%nat with false. change (15 =? 15) with true. cbv iota.
    rewrite Nat2N.id. unfold ok. do 2 f_equal. lia.
  - repeat constructor; try lia. pose proof (N.mod_lt (enc_dest h id a) 128). lia.
Qed.

(* ================================================================ C06 *)
Lemma sub_whole_body A D M B R : sub (spec_packet A D M B ++ R) 9 (length B) = B.
Proof. exact (spec_packet_body A D M [] B R). Qed.

Lemma body_of_every_request ovf g c id a ls w buf out n :
  wf_cfg g -> cinv g c -> args_okb true id a ls = true ->
  encode_call ovf c true id a ls = Some w -> w buf = (out, Val (Some n)) ->
  (1 <=? id) && (id <=? 17) = true -> id <> 15 ->
  exists code params, spec_request id a ls = Some (code, params) /\ sub out 9 (n - 10) = [128; code] ++ params.
Proof.
  intros Hg Hc Hok Ew Hw Hid H15.
  destruct (encode_success ovf g c true id a ls w buf out n Hg Hc Hok Ew Hw) as (mt & body & M & En & _ & _ & Eo).
  pose proof (model_request id a ls (c_eid_resp c) Hid) as MR.
  destruct (spec_request id a ls) as [[code params]|]; [|rewrite MR in M; discriminate].
  apply N.eqb_neq in H15. rewrite H15 in MR. rewrite MR in M.
  assert (Eb : body = [128; code] ++ params) by congruence.
  exists code, params. split; [reflexivity|].
  rewrite Eo, En. replace (10 + length body - 10)%nat with (length body) by lia.
  rewrite sub_whole_body. exact Eb.
Qed.

Lemma query_hop_body ovf g c a ls w buf out n :
  wf_cfg g -> cinv g c -> args_okb true 15 a ls = true ->
  encode_call ovf c true 15 a ls = Some w -> w buf = (out, Val (Some n)) ->
  sub out 9 (n - 10) = [128; 14; arg a 1; arg a 2].
Proof.
  intros Hg Hc Hok Ew Hw.
  destruct (encode_success ovf g c true 15 a ls w buf out n Hg Hc Hok Ew Hw) as (mt & body & M & En & _ & _ & Eo).
  rewrite (proj1 (model_spec_15 a ls (c_eid_resp c))) in M.
  assert (Eb : body = [128; 14; arg a 1; arg a 2]) by congruence.
  rewrite Eo, En. replace (10 + length body - 10)%nat with (length body) by lia.
  rewrite sub_whole_body. exact Eb.
Qed.

(* ================================================================ C07 *)
Lemma body_of_every_response ovf g c id a ls w buf out n :
  wf_cfg g -> cinv g c -> args_okb false id a ls = true ->
  encode_call ovf c false id a ls = Some w -> w buf = (out, Val (Some n)) ->
  (1 <=? id) && (id <=? 6) = true ->
  exists code cc fields, spec_response id a ls (c_eid_resp c) = Some (code, cc, fields) /\
    sub out 9 (n - 10) = [0; code; cc] ++ fields.
Proof.
  intros Hg Hc Hok Ew Hw Hid.
  destruct (encode_success ovf g c false id a ls w buf out n Hg Hc Hok Ew Hw) as (mt & body & M & En & _ & _ & Eo).
  pose proof (model_response id a ls (c_eid_resp c) Hid) as MR.
  destruct (spec_response id a ls (c_eid_resp c)) as [[[code cc] fields]|]; [|rewrite MR in M; discriminate].
  rewrite MR in M.
  assert (Eb : body = [0; code; cc] ++ fields) by congruence.
  exists code, cc, fields. split; [reflexivity|].
  rewrite Eo, En. replace (10 + length body - 10)%nat with (length body) by lia.
  rewrite sub_whole_body. exact Eb.
Qed.

(* ================================================================ C01: what was encoded consists of bytes *)
Lemma u8s_bytes_ok l : u8s l = true -> bytes_ok l.
Proof. unfold u8s, bytes_ok. intros H. apply Forall_forall. intros x Hx.
  rewrite forallb_forall in H. apply N.ltb_lt. exact (H x Hx). Qed.
Lemma larg_bytes_ok ls i : forallb u8s ls = true -> bytes_ok (larg ls i).
Proof. intros H. unfold larg. destruct (nth_in_or_default i ls []) as [Hin|E].
  - rewrite forallb_forall in H. apply u8s_bytes_ok. exact (H _ Hin).
  - rewrite E. constructor. Qed.
Lemma concat_bytes_ok ls : forallb u8s ls = true -> bytes_ok (concat ls).
Proof. induction ls as [|l r IH]; intros H; [constructor|]. cbn [forallb] in H. apply andb_true_iff in H as [H1 H2].
  cbn [concat]. apply bytes_ok_app. split; [apply u8s_bytes_ok, H1|apply IH, H2]. Qed.

Lemma enc_dest_lt h id a ls : args_okb h id a ls = true -> enc_dest h id a < 256.
Proof.
  unfold args_okb, enc_dest. intros H. apply andb_true_iff in H as [_ H].
  destruct (30 <=? id); cbn [orb]; [okb H; assumption|].
  destruct h; [destruct (id =? 20); okb H; assumption|]. okb H. assumption.
Qed.

(* reduce args_okb at a concrete encoder id and split it into facts about the arguments *)
Ltac args_at H :=
  unfold args_okb in H;
  repeat match type of H with
         | context [30 <=? ?i] => let v := eval vm_compute in (30 <=? i) in change (30 <=? i) with v in H
         | context [?i =? 20] => let v := eval vm_compute in (i =? 20) in change (i =? 20) with v in H
         | context [?i =? 9] => let v := eval vm_compute in (i =? 9) in change (i =? 9) with v in H
         | context [?i =? 16] => let v := eval vm_compute in (i =? 16) in change (i =? 16) with v in H
         end;
  cbv iota in H; okb H.

Lemma spec_request_bytes id a ls code params : args_okb true id a ls = true ->
  spec_request id a ls = Some (code, params) -> code < 256 /\ bytes_ok params.
Proof.
  unfold spec_request. intros Hok E.
  repeat match type of E with
         | (if (?p <=? ?q)%nat then _ else _) = _ => destruct (Nat.leb_spec p q); try discriminate
         | (match ?x with _ => _ end) = _ => destruct x; try discriminate
         end;
  injection E as <- <-; (split; [reflexivity|]); args_at Hok.
  all: try (repeat constructor; assumption).
  - constructor; [lia|apply concat_bytes_ok, Hok].
  - apply bytes_ok_app. split; [apply larg_bytes_ok, Hok|repeat constructor; assumption].
Qed.

Lemma spec_response_bytes id a ls eid code cc fields : args_okb false id a ls = true -> eid < 256 ->
  spec_response id a ls eid = Some (code, cc, fields) -> code < 256 /\ cc < 256 /\ bytes_ok fields.
Proof.
  intros Hok He E. pose proof (spec_response_ids _ _ _ _ _ E) as Hid.
  destruct Hid as [->|[->|[->|[->|[->| ->]]]]]; cbn [spec_response] in E;
  repeat match type of E with
         | (if (?p <? ?q)%nat then _ else _) = _ => destruct (Nat.ltb_spec p q); try discriminate
         end;
  injection E as <- <- <-; args_at Hok; (split; [reflexivity|]); (split; [lia|]).
  - repeat constructor; lia.
  - repeat constructor; try lia. destruct (negb (arg a 4 =? 0)); reflexivity.
  - apply larg_bytes_ok, Hok.
  - repeat constructor.
  - constructor; [lia|apply larg_bytes_ok, Hok].
  - constructor; [assumption|apply larg_bytes_ok, Hok].
Qed.

Lemma known_cases h id : known_encoder h id = true ->
  (id = 30 \/ id = 31 \/ id = 32 \/ id = 33) \/
  (h = true /\ (1 <=? id) && (id <=? 17) = true) \/ (h = true /\ id = 20) \/
  (h = false /\ (1 <=? id) && (id <=? 6) = true).
Proof.
  unfold known_encoder. intros H. apply orb_true_iff in H as [H|H].
  - left. apply andb_true_iff in H as [H1 H2]. apply N.leb_le in H1, H2. lia.
  - right. destruct h.
    + apply orb_true_iff in H as [H|H]; [left; split; [reflexivity|exact H]|right; left; split; [reflexivity|apply N.eqb_eq, H]].
    + right; right. split; [reflexivity|exact H].
Qed.

(* the body of the message an encoder call stands for consists of bytes *)
Lemma model_body_bytes_ok h id a ls eid mt body :
  known_encoder h id = true -> args_okb h id a ls = true -> eid < 256 ->
  model_message h id a ls eid = Some (mt, body) -> bytes_ok body.
Proof.
  intros Hk Hok He M. apply known_cases in Hk.
  destruct Hk as [Hk|[[-> Hid]|[[-> ->]|[-> Hid]]]].
  - assert (Eb : body = (if arg a 1 =? 0 then [] else larg ls 0) ++ larg ls 1).
    { destruct Hk as [->|[->|[->| ->]]]; cbn [model_message N.eqb Pos.eqb andb spec_message] in M; congruence. }
    assert (Hls : forallb u8s ls = true) by (unfold args_okb in Hok; apply andb_true_iff in Hok as [Hok _]; exact Hok).
    rewrite Eb. apply bytes_ok_app. split; [|apply larg_bytes_ok, Hls].
    destruct (arg a 1 =? 0); [constructor|apply larg_bytes_ok, Hls].
  - pose proof (model_request id a ls eid Hid) as MR.
    destruct (spec_request id a ls) as [[code params]|] eqn:Er; [|rewrite MR in M; discriminate].
    destruct (spec_request_bytes id a ls code params Hok Er) as [Hc Hp].
    rewrite MR in M. assert (Eb : body = [128; if id =? 15 then 14 else code] ++ params) by congruence.
    rewrite Eb. cbn [app]. repeat constructor; try exact Hp; try lia. destruct (id =? 15); [lia|exact Hc].
  - args_at Hok.
    change (model_message true 20 a ls eid) with
      (if arg a 1 =? 0 then Some (126, [(arg a 2 / 256) mod 256; arg a 2 mod 256] ++ larg ls 0)
       else if arg a 1 =? 1 then
         Some (127, [(arg a 2 / 16777216) mod 256; (arg a 2 / 65536) mod 256; (arg a 2 / 256) mod 256; arg a 2 mod 256] ++ larg ls 0)
       else None) in M.
    destruct (arg a 1 =? 0).
    + assert (Eb : body = [(arg a 2 / 256) mod 256; arg a 2 mod 256] ++ larg ls 0) by congruence.
      rewrite Eb. cbn [app]. repeat constructor; try (apply N.mod_lt; discriminate). apply larg_bytes_ok, Hok.
    + destruct (arg a 1 =? 1); [|discriminate].
      assert (Eb : body = [(arg a 2 / 16777216) mod 256; (arg a 2 / 65536) mod 256; (arg a 2 / 256) mod 256; arg a 2 mod 256] ++ larg ls 0) by congruence.
      rewrite Eb. cbn [app]. repeat constructor; try (apply N.mod_lt; discriminate). apply larg_bytes_ok, Hok.
  - pose proof (model_response id a ls eid Hid) as MR.
    destruct (spec_response id a ls eid) as [[[code cc] fields]|] eqn:Er; [|rewrite MR in M; discriminate].
    destruct (spec_response_bytes id a ls eid code cc fields Hok He Er) as (Hc & Hcc & Hf).
    rewrite MR in M. assert (Eb : body = [0; code; cc] ++ fields) by congruence.
    rewrite Eb. cbn [app]. repeat constructor; try exact Hf; try lia; assumption.
Qed.

Lemma spec_packet_bytes_ok A D M B : A < 256 -> D < 256 -> M < 256 -> bytes_ok B -> (10 + length B <= 259)%nat ->
  bytes_ok (spec_packet A D M B).
Proof.
  intros HA HD HM HB HL.
  assert (Hp : bytes_ok (spec_prefix A D M B)).
  { unfold spec_prefix. apply bytes_ok_app. split; [|exact HB].
    pose proof (N.mod_lt D 128). pose proof (N.mod_lt A 128). repeat constructor; lia. }
  rewrite spec_packet_pre. apply bytes_ok_app. split; [exact Hp|]. constructor; [apply pec_lt, Hp|constructor].
Qed.

(* the first n bytes after a successful encode: the specified packet, and it consists of bytes *)
Lemma encoded_packet ovf g c h id a ls w buf out n mt body :
  wf_cfg g -> cinv g c -> args_okb h id a ls = true ->
  encode_call ovf c h id a ls = Some w -> w buf = (out, Val (Some n)) ->
  model_message h id a ls (c_eid_resp c) = Some (mt, body) ->
  firstn n out = spec_packet (g_addr g) (enc_dest h id a) mt body /\ n = (10 + length body)%nat /\
  bytes_ok (spec_packet (g_addr g) (enc_dest h id a) mt body).
Proof.
  intros Hg Hc Hok Ew Hw M.
  destruct (encode_success ovf g c h id a ls w buf out n Hg Hc Hok Ew Hw) as (mt' & body' & M' & En & H259 & _ & Eo).
  rewrite M in M'. assert (E1 : mt' = mt) by congruence. assert (E2 : body' = body) by congruence. subst mt' body'.
  split; [rewrite Eo, En; apply firstn_spec_packet|]. split; [exact En|].
  destruct Hc as (_ & _ & _ & _ & He & _).
  apply spec_packet_bytes_ok.
  - exact (proj1 Hg).
  - eapply enc_dest_lt; exact Hok.
  - pose proof (model_mt_lt _ _ _ _ _ _ _ M). lia.
  - eapply model_body_bytes_ok; [eapply encode_call_known; exact Ew|exact Hok|exact He|exact M].
  - lia.
Qed.

(* ================================================================ C01 *)
Lemma encode_then_decode_non_control ovf g c h id a ls w buf out n mt body :
  wf_cfg g -> cinv g c -> args_okb h id a ls = true ->
  encode_call ovf c h id a ls = Some w -> w buf = (out, Val (Some n)) ->
  model_message h id a ls (c_eid_resp c) = Some (mt, body) ->
  mt <> 0 -> supported_type mt = true ->
  decode_packet (firstn n out) = ok (msg_type_from_u8 mt, (9%nat, (n - 10)%nat)) /\
  sub (firstn n out) 9 (n - 10) = body.
Proof.
  intros Hg Hc Hok Ew Hw M Hm Hs.
  destruct (encoded_packet ovf g c h id a ls w buf out n mt body Hg Hc Hok Ew Hw M) as (Ep & En & Hb).
  rewrite Ep, En. replace (10 + length body - 10)%nat with (length body) by lia.
  exact (roundtrip_vendor _ _ mt body Hb Hs Hm).
Qed.

Lemma encode_then_decode_request ovf g c h id a ls w buf out n code params :
  wf_cfg g -> cinv g c -> args_okb h id a ls = true ->
  encode_call ovf c h id a ls = Some w -> w buf = (out, Val (Some n)) ->
  model_message h id a ls (c_eid_resp c) = Some (0, [128; code] ++ params) ->
  code < 9 -> len_ok (model_req_len code) (length params) = true ->
  decode_packet (firstn n out) = ok (MCtpControl, (11%nat, (n - 12)%nat)) /\
  sub (firstn n out) 11 (n - 12) = params.
Proof.
  intros Hg Hc Hok Ew Hw M Hcode Hl.
  destruct (encoded_packet ovf g c h id a ls w buf out n 0 _ Hg Hc Hok Ew Hw M) as (Ep & En & Hb).
  rewrite Ep, En. cbn [app length]. replace (10 + S (S (length params)) - 12)%nat with (length params) by lia.
  exact (roundtrip_request _ _ code params Hb Hcode Hl).
Qed.

Lemma encode_then_decode_response ovf g c h id a ls w buf out n code fields :
  wf_cfg g -> cinv g c -> args_okb h id a ls = true ->
  encode_call ovf c h id a ls = Some w -> w buf = (out, Val (Some n)) ->
  model_message h id a ls (c_eid_resp c) = Some (0, [0; code; 0] ++ fields) ->
  ((code =? 7) || (10 <=? code)) = false -> len_ok (model_resp_len code) (length fields) = true ->
  decode_packet (firstn n out) = ok (MCtpControl, (12%nat, (n - 13)%nat)) /\
  sub (firstn n out) 12 (n - 13) = fields.
Proof.
  intros Hg Hc Hok Ew Hw M Hcode Hl.
  destruct (encoded_packet ovf g c h id a ls w buf out n 0 _ Hg Hc Hok Ew Hw M) as (Ep & En & Hb).
  rewrite Ep, En. cbn [app length]. replace (10 + S (S (S (length fields))) - 13)%nat with (length fields) by lia.
  exact (roundtrip_response _ _ code fields Hb Hcode Hl).
Qed.

Lemma encode_then_decode_completion_code ovf g c h id a ls w buf out n code cc fields :
  wf_cfg g -> cinv g c -> args_okb h id a ls = true ->
  encode_call ovf c h id a ls = Some w -> w buf = (out, Val (Some n)) ->
  model_message h id a ls (c_eid_resp c) = Some (0, [0; code; cc] ++ fields) ->
  1 <= cc <= 5 ->
  decode_packet (firstn n out) = err MCtpControl (DControlMessage (CEUnsuccessfulCompletionCode cc)).
Proof.
  intros Hg Hc Hok Ew Hw M Hcc.
  destruct (encoded_packet ovf g c h id a ls w buf out n 0 _ Hg Hc Hok Ew Hw M) as (Ep & En & Hb).
  rewrite Ep. apply (roundtrip_response_cc _ _ code cc fields Hb); lia.
Qed.

(* the library's own request encoders for the commands the decoder knows (Set Endpoint ID .. Allocate Endpoint IDs) *)
Lemma own_requests_decode ovf g c id a ls w buf out n :
  wf_cfg g -> cinv g c -> args_okb true id a ls = true ->
  encode_call ovf c true id a ls = Some w -> w buf = (out, Val (Some n)) ->
  (1 <=? id) && (id <=? 8) = true ->
  exists params, spec_request id a ls = Some (id, params) /\
    decode_packet (firstn n out) = ok (MCtpControl, (11%nat, (n - 12)%nat)) /\
    sub (firstn n out) 11 (n - 12) = params.
Proof.
  intros Hg Hc Hok Ew Hw Hid.
  assert (Hid' : (1 <=? id) && (id <=? 17) = true).
  { apply andb_true_iff in Hid as [H1 H2]. apply N.leb_le in H1, H2. apply andb_true_iff. split; apply N.leb_le; lia. }
  assert (H15 : id <> 15) by (apply andb_true_iff in Hid as [H1 H2]; apply N.leb_le in H2; lia).
  destruct (body_of_every_request ovf g c id a ls w buf out n Hg Hc Hok Ew Hw Hid' H15) as (code & params & Er & _).
  assert (Ecode : code = id).
  { apply andb_true_iff in Hid as [H1 H2]. apply N.leb_le in H1, H2.
    assert (Hc8 : id = 1 \/ id = 2 \/ id = 3 \/ id = 4 \/ id = 5 \/ id = 6 \/ id = 7 \/ id = 8) by lia.
    destruct Hc8 as [->|[->|[->|[->|[->|[->|[->| ->]]]]]]]; cbn [spec_request] in Er;
      repeat match type of Er with (if ?x then _ else _) = _ => destruct x; try discriminate end; congruence. }
  subst code. exists params. split; [exact Er|].
  assert (H9 : id < 9) by (apply andb_true_iff in Hid as [H1 H2]; apply N.leb_le in H2; lia).
  pose proof (model_request id a ls (c_eid_resp c) Hid') as MR. rewrite Er in MR.
  apply N.eqb_neq in H15. rewrite H15 in MR.
  apply (encode_then_decode_request ovf g c true id a ls w buf out n id params Hg Hc Hok Ew Hw MR H9).
  apply (spec_request_lenok id a ls id params Er). apply N.leb_gt. exact H9.
Qed.

(* the library's own response encoders (Get Endpoint ID's Success response aside: known finding 101) *)
Lemma own_responses_decode ovf g c id a ls w buf out n :
  wf_cfg g -> cinv g c -> args_okb false id a ls = true ->
  encode_call ovf c false id a ls = Some w -> w buf = (out, Val (Some n)) ->
  (1 <=? id) && (id <=? 6) = true ->
  (arg a 0 = 0 -> id <> 2 ->
     decode_packet (firstn n out) = ok (MCtpControl, (12%nat, (n - 13)%nat)) /\
     exists code fields, spec_response id a ls (c_eid_resp c) = Some (code, 0, fields) /\ sub (firstn n out) 12 (n - 13) = fields) /\
  (arg a 0 <> 0 ->
     decode_packet (firstn n out) = err MCtpControl (DControlMessage (CEUnsuccessfulCompletionCode (arg a 0)))).
Proof.
  intros Hg Hc Hok Ew Hw Hid.
  destruct (body_of_every_response ovf g c id a ls w buf out n Hg Hc Hok Ew Hw Hid) as (code & cc & fields & Er & _).
  destruct (spec_response_shape id a ls _ code cc fields Er Hok) as (-> & Hcc & Hl).
  pose proof (model_response id a ls (c_eid_resp c) Hid) as MR. rewrite Er in MR.
  split.
  - intros E0 H2. rewrite E0 in MR, Er. destruct (Hl H2) as [Hcode Hlen].
    destruct (encode_then_decode_response ovf g c false id a ls w buf out n code fields Hg Hc Hok Ew Hw MR Hcode Hlen) as [Hd Hs].
    split; [exact Hd|]. exists code, fields. split; [exact Er|exact Hs].
  - intros E0. apply (encode_then_decode_completion_code ovf g c false id a ls w buf out n code (arg a 0) fields Hg Hc Hok Ew Hw MR). lia.
Qed.
