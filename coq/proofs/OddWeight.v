(* OddWeight.v — x^8+x^2+x+1 = (x+1)(x^7+x^6+x^5+x^4+x^3+x^2+1): the PEC polynomial has the factor x+1, so the
   CRC state keeps the parity of everything fed into it, and EVERY error pattern with an odd number of set bits
   is detected: an accepted packet with an odd number of flipped bits is never accepted again. *)
Require Import Base Crc Bitfield Headers Encode Decode Process Ops Spec Judge.
Require Import CrcFacts DecodeFacts DecodeChar ProcessChar StepsRecv BurstBits TwoBit.
Open Scope N_scope.

(* ================================================================ 1. parity of a byte, of a byte string *)
Definition par (b : N) : bool :=
  xorb (N.testbit b 7) (xorb (N.testbit b 6) (xorb (N.testbit b 5) (xorb (N.testbit b 4)
  (xorb (N.testbit b 3) (xorb (N.testbit b 2) (xorb (N.testbit b 1) (N.testbit b 0))))))).
Definition parl (l : list N) : bool := fold_right (fun b acc => xorb (par b) acc) false l.

Lemma parl_cons b l : parl (b :: l) = xorb (par b) (parl l).
Proof. reflexivity. Qed.
Lemma parl_nil : parl [] = false.
Proof. reflexivity. Qed.

(* ================================================================ 2. the byte step of the CRC keeps the parity *)
Lemma par_U c : c < 256 -> par (U c) = par c.
Proof. intros H. apply Bool.eqb_prop. revert c H. apply sweep1. vm_compute. reflexivity. Qed.
Lemma par_lxor a b : a < 256 -> b < 256 -> par (N.lxor a b) = xorb (par a) (par b).
Proof. intros Ha Hb. apply Bool.eqb_prop. revert a b Ha Hb. apply sweep2. vm_compute. reflexivity. Qed.
Lemma par_0 : par 0 = false.
Proof. reflexivity. Qed.
Lemma par_nonzero b : par b = true -> b <> 0.
Proof. intros H E. rewrite E, par_0 in H. discriminate H. Qed.

(* ================================================================ 3. the CRC state carries the parity of its input *)
Theorem par_crc_from c l : c < 256 -> bytes_ok l -> par (crc_from c l) = xorb (par c) (parl l).
Proof. revert c. induction l as [|b l IH]; intros c Hc Hl.
  - rewrite crc_from_nil, parl_nil, xorb_false_r. reflexivity.
  - inversion Hl as [|? ? Hb Hl']; subst.
    assert (Hx : N.lxor c b < 256) by (apply lxor_lt256; assumption).
    rewrite crc_from_cons, crc_step_def, IH by (first [apply U_lt, Hx | exact Hl']).
    rewrite (par_U _ Hx), (par_lxor c b Hc Hb), parl_cons. apply xorb_assoc. Qed.

(* ================================================================ 4. odd weight is detected *)
Theorem odd_weight_detected e : bytes_ok e -> parl e = true -> crc_from 0 e <> 0.
Proof. intros He Hp. apply par_nonzero. rewrite par_crc_from by (first [reflexivity | exact He]).
  rewrite par_0, xorb_false_l. exact Hp. Qed.

(* ================================================================ 5. ... hence never accepted *)
Theorem odd_weight_never_accepted p e d : bytes_ok p -> decode_packet p = Val (inl d) ->
  bytes_ok e -> length e = length p -> parl e = true ->
  forall d', decode_packet (xorl p e) <> Val (inl d').
Proof. intros Hok Hd He Hl Hp.
  exact (detected_never_accepted p e d Hok Hd He Hl (odd_weight_detected e He Hp)). Qed.

Theorem odd_weight_process_never_ok ovf c p e buf d : bytes_ok p -> decode_packet p = Val (inl d) ->
  bytes_ok e -> length e = length p -> parl e = true ->
  exists r, process_packet ovf c (xorl p e) buf = ((c, buf), r) /\ forall x, r <> Val (inl x).
Proof. intros Hok Hd He Hl Hp.
  exact (detected_process_never_ok ovf c p e buf d Hok Hd He Hl (odd_weight_detected e He Hp)). Qed.

(* ================================================================ 6. parl = "the number of set bits is odd" *)
(* number of set bits of e, bits numbered as BurstBits.ebit *)
Definition weight (e : list N) : nat := length (filter (ebit e) (seq 0 (8 * length e))).

Lemma par_count b : b < 256 ->
  par b = Nat.odd (length (filter (fun m => N.testbit b (N.of_nat (7 - m))) (seq 0 8))).
Proof. intros H. apply Bool.eqb_prop. revert b H. apply sweep1. vm_compute. reflexivity. Qed.

Lemma count_shift (f : nat -> bool) s a n :
  length (filter f (seq (a + s) n)) = length (filter (fun k => f (k + s)%nat) (seq a n)).
Proof. revert a. induction n as [|n IH]; intros a; [reflexivity|].
  cbn [seq filter]. specialize (IH (S a)). rewrite Nat.add_succ_l in IH.
  destruct (f (a + s)%nat); cbn [length]; rewrite IH; reflexivity. Qed.

Lemma ebit_cons_low x e m : (m < 8)%nat -> ebit (x :: e) m = N.testbit x (N.of_nat (7 - m)).
Proof. intros H. pose proof (ebit_at (x :: e) 0 m H) as A. rewrite Nat.mul_0_r, Nat.add_0_l in A. exact A. Qed.
Lemma ebit_cons_high x e k : ebit (x :: e) (k + 8) = ebit e k.
Proof. destruct (divmod8 k) as [D M].
  replace (k + 8)%nat with (8 * S (k / 8) + k mod 8)%nat by lia.
  rewrite (ebit_at (x :: e) (S (k / 8)) (k mod 8) M). reflexivity. Qed.

Lemma weight_cons x e :
  weight (x :: e) = (length (filter (fun m => N.testbit x (N.of_nat (7 - m))) (seq 0 8)) + weight e)%nat.
Proof. unfold weight. cbn [length].
  replace (8 * S (length e))%nat with (8 + 8 * length e)%nat by lia.
  rewrite seq_app, filter_app, app_length. f_equal.
  (* the first byte's eight positions agree by computation (f_equal closes that goal); the rest is shifted by 8 *)
  rewrite (count_shift (ebit (x :: e)) 8 0). apply (f_equal (@length nat)). apply filter_ext_in. intros k _. apply ebit_cons_high. Qed.

Theorem parl_count e : bytes_ok e -> parl e = Nat.odd (length (filter (ebit e) (seq 0 (8 * length e)))).
Proof. change (bytes_ok e -> parl e = Nat.odd (weight e)).
  induction e as [|x e IH]; intros H; [reflexivity|].
  inversion H as [|? ? Hx He]; subst.
  rewrite parl_cons, weight_cons, Nat.odd_add, <- (par_count x Hx), (IH He). reflexivity. Qed.

Theorem odd_number_of_flipped_bits_detected e : bytes_ok e ->
  Nat.odd (length (filter (ebit e) (seq 0 (8 * length e)))) = true -> crc_from 0 e <> 0.
Proof. intros He Hw. apply odd_weight_detected; [exact He|]. rewrite parl_count by exact He. exact Hw. Qed.

Theorem odd_number_of_flipped_bits_never_accepted p e d : bytes_ok p -> decode_packet p = Val (inl d) ->
  bytes_ok e -> length e = length p ->
  Nat.odd (length (filter (ebit e) (seq 0 (8 * length e)))) = true ->
  forall d', decode_packet (xorl p e) <> Val (inl d').
Proof. intros Hok Hd He Hl Hw. apply (odd_weight_never_accepted p e d Hok Hd He Hl).
  rewrite parl_count by exact He. exact Hw. Qed.

Theorem odd_number_of_flipped_bits_process_never_ok ovf c p e buf d : bytes_ok p -> decode_packet p = Val (inl d) ->
  bytes_ok e -> length e = length p ->
  Nat.odd (length (filter (ebit e) (seq 0 (8 * length e)))) = true ->
  exists r, process_packet ovf c (xorl p e) buf = ((c, buf), r) /\ forall x, r <> Val (inl x).
Proof. intros Hok Hd He Hl Hw. apply (odd_weight_process_never_ok ovf c p e buf d Hok Hd He Hl).
  rewrite parl_count by exact He. exact Hw. Qed.

(* ================================================================ 7. an example *)
(* the 30-byte witness packet of TwoBit.v; bits 90 and 217 (127 apart: invisible to the PEC on their own) and
   bit 100 are flipped: three set bits, odd parity, rejected with InvalidPEC *)
Example three_bits_rejected :
  let p := [104; 15; 26; 71; 1; 52; 35; 200; 126; 128; 134; 1; 2; 3; 4; 5; 6; 7; 8; 9; 10; 11; 12; 13; 14; 15; 16; 17; 18; 223] in
  let e := xorl (two_bit 30 90 217) (bit_err 30 100) in
  decode_packet p = Val (inl (VendorDefinedPCI, (9%nat, 20%nat))) /\
  e = [0; 0; 0; 0; 0; 0; 0; 0; 0; 0; 0; 32; 8; 0; 0; 0; 0; 0; 0; 0; 0; 0; 0; 0; 0; 0; 0; 64; 0; 0] /\
  filter (ebit e) (seq 0 (8 * length e)) = [90; 100; 217]%nat /\
  parl e = true /\ crc_from 0 e = 87 /\
  decode_packet (xorl p e) = Val (inr (VendorDefinedPCI, DControlMessage CEInvalidPEC)).
Proof. vm_compute. repeat split; reflexivity. Qed.

Print Assumptions par_crc_from.
Print Assumptions odd_weight_detected.
Print Assumptions odd_weight_never_accepted.
Print Assumptions odd_weight_process_never_ok.
Print Assumptions parl_count.
Print Assumptions odd_number_of_flipped_bits_detected.
Print Assumptions odd_number_of_flipped_bits_never_accepted.
Print Assumptions odd_number_of_flipped_bits_process_never_ok.
Print Assumptions three_bits_rejected.
