(* StepsHdr.v — C18: every header view reads and writes exactly its documented bit positions.
   (1) closed forms of getter and setter for all 29 declared fields on an arbitrary buffer of the struct's
       length and an arbitrary written value (the 27 one-byte fields by the sweep of HeaderFacts plus
       byte_set_mod; the 16- and 32-bit vendor IDs by chunking the bit loops into bytes);
   (2) the two validating constructors;
   (3) the one-step lemma and `holds_on_model 18`;
   (4) generic consequences: read-after-write, frame (other fields unchanged), length and byte range kept. *)
Require Import Base Crc Bitfield Headers Encode Decode Process Ops Spec Judge.
Require Import BitfieldFacts HeaderFacts HeaderForms IanaForm Hist StepsSimple.
Open Scope N_scope.

(* ================================================================ small generic facts *)
Lemma list_eqb_refl l : list_eqb l l = true.
Proof. induction l as [|x l IH]; [reflexivity|]. cbn [list_eqb]. rewrite N.eqb_refl, IH. reflexivity. Qed.

Lemma upd_oob i f l : (length l <= i)%nat -> upd i f l = l.
Proof. revert i. induction l as [|b r IH]; intros i Hi; [destruct i; reflexivity|].
  destruct i as [|i]; cbn [length] in Hi; [lia|]. cbn [upd]. rewrite IH by lia. reflexivity. Qed.
Lemma nth_upd_ne i j f l : i <> j -> nth j (upd i f l) 0 = nth j l 0.
Proof. revert i j. induction l as [|b r IH]; intros i j Hne; [destruct i; reflexivity|].
  destruct i as [|i], j as [|j]; cbn [upd nth]; try reflexivity; [congruence|]. apply IH. congruence. Qed.

Lemma f_pos_lt f i : f_pos f i < 8.
Proof. unfold f_pos. destruct (f_msb0 f); [apply pos_msb0_lt|apply pos_lsb0_lt]. Qed.

(* the setter of ANY declared field keeps the length and the byte range of the buffer *)
Lemma set_field_length f buf v : length (set_field f buf v) = length buf.
Proof. unfold set_field. apply set_loop_length. Qed.
Lemma set_field_ok f buf v : bytes_ok buf -> bytes_ok (set_field f buf v).
Proof. intros H. unfold set_field. apply set_loop_ok; [apply f_pos_lt|exact H]. Qed.

Lemma set_order_length f : length (set_order f) = f_width f.
Proof. unfold set_order, f_idxs. destruct (f_msb0 f); [rewrite rev_length|]; apply seq_length. Qed.

(* ================================================================ the 27 one-byte fields, any written value *)
Lemma fields8_w_sweep : forallb (fun f => f_w f <=? 8) fields8 = true.
Proof. vm_compute. reflexivity. Qed.
Lemma f_w_le8 f : In f fields8 -> f_w f <= 8.
Proof. intros Hin. pose proof fields8_w_sweep as S. rewrite forallb_forall in S. apply N.leb_le, S, Hin. Qed.
Lemma mod_w_lt f v : In f fields8 -> v mod 2 ^ f_w f < 256.
Proof. intros Hin. pose proof (f_w_le8 f Hin) as Hw.
  assert (2 ^ f_w f <= 2 ^ 8) as Hp by (apply N.pow_le_mono_r; [discriminate|exact Hw]).
  assert (v mod 2 ^ f_w f < 2 ^ f_w f) as Hm by (apply N.mod_lt, N.pow_nonzero; discriminate).
  change (2 ^ 8) with 256 in Hp. lia. Qed.

Lemma byte_set_spec_mod f b v : byte_set_spec f b v = byte_set_spec f b (v mod 2 ^ f_w f).
Proof. unfold byte_set_spec. rewrite N.mod_mod by (apply N.pow_nonzero; discriminate). reflexivity. Qed.

(* the setter uses only the low `width` bits of the value it is given: no bound on v *)
Theorem set_field_closed_any f buf v : In f fields8 -> bytes_ok buf ->
  set_field f buf v = upd (f_byte f) (fun b => byte_set_spec f b v) buf.
Proof. intros Hin Hok. destruct (fields8_facts f Hin) as [Hs [_ Hset]].
  rewrite set_field_local by exact Hs. apply upd_ext_ok; [exact Hok|]. intros b Hb.
  rewrite (byte_set_mod (f_pos f) (set_order f) b v), set_order_length. fold (f_w f).
  rewrite (byte_set_spec_mod f b v). apply Hset; [exact Hb|apply mod_w_lt, Hin]. Qed.

(* ---------- field numbers ---------- *)
Lemma fld_cases (P : N -> Prop) (m : nat) :
  (forall n, (n < m)%nat -> P (N.of_nat n)) -> forall fld, fld < N.of_nat m -> P fld.
Proof. intros H fld Hf. rewrite <- (N2Nat.id fld). apply H. lia. Qed.

Ltac in_list := repeat (first [left; reflexivity | right]).

Ltac split_pos p n :=
  lazymatch n with O => idtac | S ?m => destruct p as [p|p|]; [split_pos p m|split_pos p m|] end.
Lemma field_of_none fld : 28 < fld -> field_of fld = None.
Proof. intros H. destruct fld as [|p]; [lia|]. split_pos p 5%nat; first [reflexivity | exfalso; lia]. Qed.
Lemma field_of_le fld f : field_of fld = Some f -> fld <= 28.
Proof. intros Hf. destruct (N.le_gt_cases fld 28) as [H|H]; [exact H|].
  rewrite field_of_none in Hf by exact H. discriminate Hf. Qed.

(* the table of Spec.field_layout is the layout computed from the declarations in Headers.v *)
Lemma field8_table fld : fld <= 26 ->
  exists f, field_of fld = Some f /\ In f fields8 /\
            field_layout fld = Some (f_byte f, f_shift f, f_w f) /\ (f_byte f < struct_len fld)%nat.
Proof. intros H. assert (fld < N.of_nat 27) as H' by lia. revert fld H' H.
  apply (fld_cases (fun fld => fld <= 26 -> exists f, field_of fld = Some f /\ In f fields8 /\
            field_layout fld = Some (f_byte f, f_shift f, f_w f) /\ (f_byte f < struct_len fld)%nat)).
  intros n Hn _.
  do 27 (destruct n as [|n];
         [eexists; split; [reflexivity|]; split; [in_list|]; split; [reflexivity|vm_compute; lia]|]).
  lia. Qed.

Lemma get8_ok fld f raw : fld <= 26 -> field_of fld = Some f -> bytes_ok raw ->
  get_field f raw = spec_get fld raw.
Proof. intros H Hf Hok. destruct (field8_table fld H) as (f' & Hf' & Hin & Hlay & _).
  rewrite Hf in Hf'. injection Hf' as <-.
  rewrite get_field_closed by assumption. unfold spec_get. rewrite Hlay. reflexivity. Qed.
Lemma set8_ok fld f raw v : fld <= 26 -> field_of fld = Some f -> bytes_ok raw ->
  set_field f raw v = spec_set fld raw v.
Proof. intros H Hf Hok. destruct (field8_table fld H) as (f' & Hf' & Hin & Hlay & _).
  rewrite Hf in Hf'. injection Hf' as <-.
  rewrite set_field_closed_any by assumption. unfold spec_set. rewrite Hlay. reflexivity. Qed.

(* ================================================================ the getter loop, linear in the accumulator *)
Section GetLin.
Variable pos : nat -> N.
Variable W : N.

Lemma get_loop_app l1 : forall l2 buf acc,
  get_loop pos W (l1 ++ l2) buf acc = get_loop pos W l2 buf (get_loop pos W l1 buf acc).
Proof. induction l1 as [|i r IH]; intros l2 buf acc; [reflexivity|]. cbn [app get_loop]. apply IH. Qed.

Lemma lor_double a (x : bool) : N.lor (a * 2) (N.b2n x) = 2 * a + N.b2n x.
Proof. rewrite (N.mul_comm a 2). destruct x; cbn [N.b2n]; destruct a; reflexivity. Qed.

Lemma get_loop_lin idxs : forall buf acc,
  N.of_nat (length idxs) <= W -> acc < 2 ^ (W - N.of_nat (length idxs)) ->
  get_loop pos W idxs buf acc = acc * 2 ^ N.of_nat (length idxs) + get_loop pos W idxs buf 0.
Proof. induction idxs as [|i r IH]; intros buf acc HW Hacc.
  - cbn [get_loop length]. change (2 ^ N.of_nat 0) with 1. lia.
  - cbn [get_loop]. cbn [length] in HW, Hacc.
    set (n := N.of_nat (length r)) in *.
    assert (En : N.of_nat (S (length r)) = N.succ n) by (unfold n; lia).
    rewrite En in HW, Hacc.
    assert (Ew : W - n = N.succ (W - N.succ n)) by lia.
    assert (Hq : 2 ^ (W - n) = 2 * 2 ^ (W - N.succ n)) by (rewrite Ew; apply N.pow_succ_r').
    assert (Hsmall : acc * 2 < 2 ^ W).
    { assert (E : W = (W - n) + n) by lia. rewrite E at 1. rewrite N.pow_add_r, Hq.
      pose proof (N.pow_nonzero 2 n) as Hnz.
      set (p := 2 ^ n) in *. set (q := 2 ^ (W - N.succ n)) in *. nia. }
    rewrite N.mod_small by exact Hsmall.
    rewrite N.mul_0_l, N.mod_0_l by (apply N.pow_nonzero; discriminate).
    set (bit := get_bit pos buf i).
    rewrite lor_double, N.lor_0_l.
    rewrite (IH buf (2 * acc + N.b2n bit)); [|lia|].
    2:{ fold n. rewrite Hq. destruct bit; cbn [N.b2n]; lia. }
    rewrite (IH buf (N.b2n bit)); [|lia|].
    2:{ fold n. rewrite Hq. pose proof (N.pow_nonzero 2 (W - N.succ n)) as Hnz.
        destruct bit; cbn [N.b2n]; lia. }
    fold n. cbn [length]. rewrite En, N.pow_succ_r'. ring. Qed.
End GetLin.

(* a field that fills its value type: the final shift pair is the identity *)
Lemma get_field_full f buf : N.of_nat (f_width f) = f_W f ->
  get_field f buf = get_loop (f_pos f) (f_W f) (get_order f) buf 0 mod 2 ^ f_W f.
Proof. intros E. unfold get_field, get_order. cbv zeta. rewrite E, N.sub_diag, N.shiftl_0_r, N.shiftr_0_r. reflexivity. Qed.

(* ================================================================ the wide fields, byte by byte *)
Definition gchunk (k : nat) : list nat := seq (8 * k) 8.   (* MSB0 getter order inside byte k *)
Lemma gchunk_byte k : (k < 4)%nat -> Forall (fun i => (i / 8)%nat = k) (gchunk k).
Proof. intros H. do 4 (destruct k as [|k]; [repeat constructor|]). lia. Qed.
Lemma gchunk_length k : length (gchunk k) = 8%nat.
Proof. apply seq_length. Qed.
Lemma gchunk_get W b k : W = 16 \/ W = 32 -> b < 256 -> (k < 4)%nat ->
  byte_get pos_msb0 W (gchunk k) b 0 = b.
Proof. intros HW Hb Hk.
  assert (forallb (fun k => forallb (fun b =>
            (byte_get pos_msb0 16 (gchunk (N.to_nat k)) b 0 =? b) &&
            (byte_get pos_msb0 32 (gchunk (N.to_nat k)) b 0 =? b)) range256) (range 4) = true) as S
    by (vm_compute; reflexivity).
  pose proof (sweep 4 _ S (N.of_nat k) ltac:(lia)) as S1. cbv beta in S1. rewrite Nat2N.id in S1.
  pose proof (sweep1 _ S1 b Hb) as S2. cbv beta in S2. apply andb_true_iff in S2 as [S16 S32].
  destruct HW as [->| ->]; apply N.eqb_eq; assumption. Qed.

(* one byte of the getter loop: shift the accumulator by 8 and add byte k *)
Lemma get_chunk W buf k acc : W = 16 \/ W = 32 -> bytes_ok buf -> (k < 4)%nat -> acc < 2 ^ (W - 8) ->
  get_loop pos_msb0 W (gchunk k) buf acc = acc * 256 + nth k buf 0.
Proof. intros HW Hok Hk Hacc.
  rewrite get_loop_lin; rewrite gchunk_length; change (N.of_nat 8) with 8;
    [|destruct HW as [->| ->]; discriminate|exact Hacc].
  rewrite (get_loop_local pos_msb0 W k (gchunk k)) by (apply gchunk_byte, Hk).
  rewrite gchunk_get by (try assumption; apply nth_ok, Hok). reflexivity. Qed.

Lemma bytes_ok2 a b : bytes_ok [a; b] -> a < 256 /\ b < 256.
Proof. intros H. inversion H as [|? ? Ha H1]; subst. inversion H1 as [|? ? Hb H2]; subst. split; assumption. Qed.
Lemma bytes_ok4 a b c d : bytes_ok [a; b; c; d] -> a < 256 /\ b < 256 /\ c < 256 /\ d < 256.
Proof. intros H. inversion H as [|? ? Ha H1]; subst. inversion H1 as [|? ? Hb H2]; subst.
  inversion H2 as [|? ? Hc H3]; subst. inversion H3 as [|? ? Hd H4]; subst. repeat split; assumption. Qed.

(* ---------- PCIMessageFormat: vendor_id, set_vendor_id : 15, 0 (u16, MSB0) ---------- *)
Lemma pci_get_closed a b : bytes_ok [a; b] -> get_field pci_vendor_id [a; b] = a * 256 + b.
Proof. intros Hok. destruct (bytes_ok2 a b Hok) as [Ha Hb].
  rewrite get_field_full by reflexivity.
  change (f_pos pci_vendor_id) with pos_msb0. change (f_W pci_vendor_id) with 16.
  change (get_order pci_vendor_id) with (gchunk 0 ++ gchunk 1).
  rewrite get_loop_app.
  rewrite (get_chunk 16 [a; b] 0 0) by (auto; reflexivity).
  rewrite (get_chunk 16 [a; b] 1) by (auto; cbn [nth]; change (2 ^ (16 - 8)) with 256; lia).
  cbn [nth]. apply N.mod_small. change (2 ^ 16) with 65536. lia. Qed.

Lemma pci_set_closed a b v : bytes_ok [a; b] ->
  set_field pci_vendor_id [a; b] v = [(v / 256) mod 256; v mod 256].
Proof. intros Hok. destruct (bytes_ok2 a b Hok) as [Ha Hb].
  unfold set_field. cbn [f_msb0 pci_vendor_id mk f_pos].
  change (rev (f_idxs pci_vendor_id)) with (chunk 1 ++ chunk 0).
  rewrite !set_loop_app.
  rewrite !(set_loop_local pos_msb0 1 (chunk 1)) by (apply chunk_byte; lia).
  rewrite !(set_loop_local pos_msb0 0 (chunk 0)) by (apply chunk_byte; lia).
  cbn [upd].
  rewrite !chunk_set_any by (try assumption; lia).
  replace (length (chunk 1)) with 8%nat by reflexivity. change (N.of_nat 8) with 8.
  rewrite !N.shiftr_div_pow2. change (2 ^ 8) with 256. reflexivity. Qed.

(* ---------- IANAMessageFormat: vendor_id, set_vendor_id : 31, 0 (u32, MSB0) ---------- *)
Lemma iana_get_closed a b c d : bytes_ok [a; b; c; d] ->
  get_field iana_vendor_id [a; b; c; d] = ((a * 256 + b) * 256 + c) * 256 + d.
Proof. intros Hok. destruct (bytes_ok4 a b c d Hok) as (Ha & Hb & Hc & Hd).
  rewrite get_field_full by reflexivity.
  change (f_pos iana_vendor_id) with pos_msb0. change (f_W iana_vendor_id) with 32.
  change (get_order iana_vendor_id) with (gchunk 0 ++ gchunk 1 ++ gchunk 2 ++ gchunk 3).
  rewrite !get_loop_app.
  change (2 ^ 32) with 4294967296.
  rewrite (get_chunk 32 [a; b; c; d] 0 0) by (auto; reflexivity).
  cbn [nth]. rewrite N.mul_0_l, N.add_0_l.
  rewrite (get_chunk 32 [a; b; c; d] 1) by (auto; change (2 ^ (32 - 8)) with 16777216; lia).
  cbn [nth].
  rewrite (get_chunk 32 [a; b; c; d] 2) by (auto; change (2 ^ (32 - 8)) with 16777216; lia).
  cbn [nth].
  rewrite (get_chunk 32 [a; b; c; d] 3) by (auto; change (2 ^ (32 - 8)) with 16777216; lia).
  cbn [nth]. apply N.mod_small. lia. Qed.

Lemma iana_set_closed a b c d v : bytes_ok [a; b; c; d] ->
  set_field iana_vendor_id [a; b; c; d] v =
    [(v / 256 / 256 / 256) mod 256; (v / 256 / 256) mod 256; (v / 256) mod 256; v mod 256].
Proof. intros Hok. destruct (bytes_ok4 a b c d Hok) as (Ha & Hb & Hc & Hd).
  unfold set_field. cbn [f_msb0 iana_vendor_id mk f_pos].
  change (rev (f_idxs iana_vendor_id)) with (chunk 3 ++ chunk 2 ++ chunk 1 ++ chunk 0).
  rewrite !set_loop_app.
  rewrite !(set_loop_local pos_msb0 3 (chunk 3)) by (apply chunk_byte; lia).
  rewrite !(set_loop_local pos_msb0 2 (chunk 2)) by (apply chunk_byte; lia).
  rewrite !(set_loop_local pos_msb0 1 (chunk 1)) by (apply chunk_byte; lia).
  rewrite !(set_loop_local pos_msb0 0 (chunk 0)) by (apply chunk_byte; lia).
  cbn [upd].
  rewrite !chunk_set_any by (try assumption; lia).
  replace (length (chunk 3)) with 8%nat by reflexivity. replace (length (chunk 2)) with 8%nat by reflexivity.
  replace (length (chunk 1)) with 8%nat by reflexivity. change (N.of_nat 8) with 8.
  rewrite !N.shiftr_div_pow2. change (2 ^ 8) with 256. reflexivity. Qed.

(* ---------- big-endian values ---------- *)
Lemma be_value_snoc l x : be_value (l ++ [x]) = be_value l * 256 + x.
Proof. unfold be_value. rewrite fold_left_app. reflexivity. Qed.
Lemma be_bytes_length k : forall v, length (be_bytes k v) = k.
Proof. induction k as [|k IH]; intros v; [reflexivity|]. cbn [be_bytes]. rewrite app_length, IH. cbn [length]. lia. Qed.
Lemma be_value_bytes k : forall v, be_value (be_bytes k v) = v mod 256 ^ N.of_nat k.
Proof. induction k as [|k IH]; intros v.
  - cbn [be_bytes]. change (256 ^ N.of_nat 0) with 1. rewrite N.mod_1_r. reflexivity.
  - cbn [be_bytes]. rewrite be_value_snoc, IH.
    replace (N.of_nat (S k)) with (N.succ (N.of_nat k)) by lia. rewrite N.pow_succ_r'.
    rewrite N.mod_mul_r by (try discriminate; apply N.pow_nonzero; discriminate). lia. Qed.

(* ================================================================ C18 core: all 29 fields *)
Theorem get_field_spec fld f raw : field_of fld = Some f -> length raw = struct_len fld -> bytes_ok raw ->
  get_field f raw = spec_get fld raw.
Proof. intros Hf Hlen Hok.
  assert (Hc : fld <= 26 \/ fld = 27 \/ fld = 28 \/ 28 < fld) by lia.
  destruct Hc as [H|[->|[->|H]]].
  - apply get8_ok; assumption.
  - injection Hf as <-. change (struct_len 27) with 2%nat in Hlen.
    destruct raw as [|a [|b [|x r]]]; try discriminate Hlen.
    rewrite pci_get_closed by exact Hok. unfold spec_get. cbn [field_layout be_value fold_left]. lia.
  - injection Hf as <-. change (struct_len 28) with 4%nat in Hlen.
    destruct raw as [|a [|b [|c [|d [|x r]]]]]; try discriminate Hlen.
    rewrite iana_get_closed by exact Hok. unfold spec_get. cbn [field_layout be_value fold_left]. lia.
  - rewrite field_of_none in Hf by exact H. discriminate Hf. Qed.

Theorem set_field_spec fld f raw v : field_of fld = Some f -> length raw = struct_len fld -> bytes_ok raw ->
  set_field f raw v = spec_set fld raw v.
Proof. intros Hf Hlen Hok.
  assert (Hc : fld <= 26 \/ fld = 27 \/ fld = 28 \/ 28 < fld) by lia.
  destruct Hc as [H|[->|[->|H]]].
  - apply set8_ok; assumption.
  - injection Hf as <-. change (struct_len 27) with 2%nat in Hlen.
    destruct raw as [|a [|b [|x r]]]; try discriminate Hlen.
    rewrite pci_set_closed by exact Hok. reflexivity.
  - injection Hf as <-. change (struct_len 28) with 4%nat in Hlen.
    destruct raw as [|a [|b [|c [|d [|x r]]]]]; try discriminate Hlen.
    rewrite iana_set_closed by exact Hok. reflexivity.
  - rewrite field_of_none in Hf by exact H. discriminate Hf. Qed.

Lemma field_of_some fld : fld <= 28 -> exists f, field_of fld = Some f.
Proof. intros H. assert (fld < N.of_nat 29) as H' by lia. revert fld H' H.
  apply (fld_cases (fun fld => fld <= 28 -> exists f, field_of fld = Some f)).
  intros n Hn _. do 29 (destruct n as [|n]; [eexists; reflexivity|]). lia. Qed.

(* ================================================================ the validating constructors *)
Lemma th_byte0_sweep b : b < 256 ->
  byte_get_spec th_rsvd b = b / 16 /\ byte_get_spec th_hdr_version b = b mod 16.
Proof. intros Hb.
  assert (forallb (fun b => (byte_get_spec th_rsvd b =? b / 16) && (byte_get_spec th_hdr_version b =? b mod 16))
            range256 = true) as S by (vm_compute; reflexivity).
  pose proof (sweep1 _ S b Hb) as S1. cbv beta in S1. apply andb_true_iff in S1 as [S1 S2].
  split; apply N.eqb_eq; assumption. Qed.

(* base_packet.rs:77-89 *)
Lemma transport_from_buf_closed raw w : bytes_ok raw ->
  (match transport_new_from_buf raw w with Some _ => 1 | None => 0 end) =
  N.b2n ((nth 0 raw 0 / 16 =? 0) && (nth 0 raw 0 mod 16 =? w)).
Proof. intros Hok. unfold transport_new_from_buf.
  rewrite (get_field_closed th_rsvd raw) by (try assumption; in_list).
  rewrite (get_field_closed th_hdr_version raw) by (try assumption; in_list).
  change (f_byte th_rsvd) with 0%nat. change (f_byte th_hdr_version) with 0%nat.
  destruct (th_byte0_sweep (nth 0 raw 0) (nth_ok raw 0 Hok)) as [-> ->].
  destruct (nth 0 raw 0 / 16 =? 0); cbn [negb andb]; [|reflexivity].
  destruct (nth 0 raw 0 mod 16 =? w); reflexivity. Qed.

(* base_packet.rs:133-146 *)
Lemma body_from_buf_closed b : b < 256 ->
  (match body_header_new_from_buf [b] with Some _ => 1 | None => 0 end) =
  N.b2n ((b <? 128) && supported_type b).
Proof. intros Hb. apply N.eqb_eq. revert b Hb. apply sweep1. vm_compute. reflexivity. Qed.

(* ================================================================ views over buffers of any length
   The bitfield crate's views are generic in their storage (T: AsRef<[u8]> + AsMut<[u8]>): libmctp instantiates them
   at [u8;1] / [u8;2] / [u8;4], a user may instantiate them over a longer buffer (a Vec, a slice of a whole packet).
   The bit loops only touch the bytes the declared indices name, so on a buffer at least as long as the struct a
   getter reads what it reads on the struct-sized prefix and a setter rewrites that prefix and leaves the rest. *)

Lemma upd_app_l i f (pre post : list N) : (i < length pre)%nat -> upd i f (pre ++ post) = upd i f pre ++ post.
Proof.
  revert i. induction pre as [|b r IH]; intros i Hi; cbn [length] in Hi; [lia|].
  destruct i as [|i']; cbn [upd app]; [reflexivity|]. rewrite IH by lia. reflexivity.
Qed.

Section Loops.
  Variable pos : nat -> N.

  Lemma set_loop_prefix idxs : forall (pre post : list N) v,
    Forall (fun i => (i / 8 < length pre)%nat) idxs ->
    set_loop pos idxs (pre ++ post) v = set_loop pos idxs pre v ++ post.
  Proof.
    induction idxs as [|i r IH]; intros pre post v H; cbn [set_loop]; [reflexivity|].
    inversion H as [|? ? Hi Hr]; subst. unfold set1 at 1. rewrite upd_app_l by exact Hi.
    fold (set1 pos pre i (N.odd v)). apply IH.
    rewrite set1_length. exact Hr.
  Qed.

  Variable W : N.
  Lemma get_loop_prefix idxs : forall (pre post : list N) acc,
    Forall (fun i => (i / 8 < length pre)%nat) idxs ->
    get_loop pos W idxs (pre ++ post) acc = get_loop pos W idxs pre acc.
  Proof.
    induction idxs as [|i r IH]; intros pre post acc H; cbn [get_loop]; [reflexivity|].
    inversion H as [|? ? Hi Hr]; subst. unfold get_bit. rewrite app_nth1 by exact Hi. apply IH. exact Hr.
  Qed.
End Loops.

(* every declared bit index lies inside the struct: checked for the 29 fields *)
Definition idxs_inside (fld : N) : bool :=
  match field_of fld with
  | Some f => forallb (fun i => (i / 8 <? struct_len fld)%nat) (f_idxs f)
  | None => true
  end.
Lemma idxs_inside_all fld : fld <= 28 -> idxs_inside fld = true.
Proof.
  intros H. assert (E : forallb idxs_inside (map N.of_nat (seq 0 29)) = true) by (vm_compute; reflexivity).
  rewrite forallb_forall in E. apply E. apply in_map_iff. exists (N.to_nat fld). split; [lia|].
  apply in_seq. lia.
Qed.

Lemma idxs_forall fld f (pre : list N) : field_of fld = Some f -> length pre = struct_len fld ->
  Forall (fun i => (i / 8 < length pre)%nat) (f_idxs f) /\ Forall (fun i => (i / 8 < length pre)%nat) (rev (f_idxs f)).
Proof.
  intros Hf Hl.
  assert (Hfld : fld <= 28).
  { destruct (N.le_gt_cases fld 28) as [H|H]; [exact H|]. rewrite field_of_none in Hf by exact H. discriminate Hf. }
  pose proof (idxs_inside_all fld Hfld) as Hi. unfold idxs_inside in Hi. rewrite Hf in Hi.
  rewrite forallb_forall in Hi.
  assert (A : Forall (fun i => (i / 8 < length pre)%nat) (f_idxs f)).
  { apply Forall_forall. intros i Hin. rewrite Hl. apply Nat.ltb_lt, Hi, Hin. }
  split; [exact A|]. apply Forall_rev. exact A.
Qed.

Lemma firstn_In_any (k : nat) (l : list N) x : In x (firstn k l) -> In x l.
Proof. intros H. rewrite <- (firstn_skipn k l). apply in_or_app. left. exact H. Qed.

Lemma hi_inside fld f : field_of fld = Some f -> (f_hi f / 8 < struct_len fld)%nat.
Proof.
  intros Hf.
  assert (Hfld : fld <= 28).
  { destruct (N.le_gt_cases fld 28) as [H|H]; [exact H|]. rewrite field_of_none in Hf by exact H. discriminate Hf. }
  assert (E : forallb (fun k => match field_of k with Some g => (f_hi g / 8 <? struct_len k)%nat | None => true end)
                      (map N.of_nat (seq 0 29)) = true) by (vm_compute; reflexivity).
  rewrite forallb_forall in E. specialize (E fld). rewrite Hf in E. apply Nat.ltb_lt, E.
  apply in_map_iff. exists (N.to_nat fld). split; [lia|]. apply in_seq. lia.
Qed.

Theorem get_field_prefix fld f (pre post : list N) : field_of fld = Some f -> length pre = struct_len fld ->
  get_field f (pre ++ post) = get_field f pre.
Proof.
  intros Hf Hl. destruct (idxs_forall fld f pre Hf Hl) as [A B]. unfold get_field.
  destruct (f_msb0 f); rewrite get_loop_prefix by assumption; reflexivity.
Qed.

Theorem set_field_prefix fld f (pre post : list N) v : field_of fld = Some f -> length pre = struct_len fld ->
  set_field f (pre ++ post) v = set_field f pre v ++ post.
Proof.
  intros Hf Hl. destruct (idxs_forall fld f pre Hf Hl) as [A B]. unfold set_field.
  destruct (f_msb0 f); apply set_loop_prefix; assumption.
Qed.

(* the documented layout on any buffer that contains the struct *)
Theorem get_field_any fld f raw : field_of fld = Some f -> (struct_len fld <= length raw)%nat -> bytes_ok raw ->
  get_field f raw = spec_get fld (firstn (struct_len fld) raw).
Proof.
  intros Hf Hl Hok. rewrite <- (firstn_skipn (struct_len fld) raw) at 1.
  assert (L : length (firstn (struct_len fld) raw) = struct_len fld) by (rewrite firstn_length; lia).
  rewrite (get_field_prefix fld f _ _ Hf L). apply get_field_spec; [exact Hf|exact L|].
  unfold bytes_ok in *. apply Forall_forall. intros x Hx. rewrite Forall_forall in Hok. apply Hok.
  apply (firstn_In_any _ _ _ Hx).
Qed.

Theorem set_field_any fld f raw v : field_of fld = Some f -> (struct_len fld <= length raw)%nat -> bytes_ok raw ->
  set_field f raw v = spec_set fld (firstn (struct_len fld) raw) v ++ skipn (struct_len fld) raw.
Proof.
  intros Hf Hl Hok. rewrite <- (firstn_skipn (struct_len fld) raw) at 1.
  assert (L : length (firstn (struct_len fld) raw) = struct_len fld) by (rewrite firstn_length; lia).
  rewrite (set_field_prefix fld f _ _ v Hf L). f_equal. apply set_field_spec; [exact Hf|exact L|].
  unfold bytes_ok in *. apply Forall_forall. intros x Hx. rewrite Forall_forall in Hok. apply Hok.
  apply (firstn_In_any _ _ _ Hx).
Qed.

(* ================================================================ the one-step lemma *)
Lemma hdr_get_ok fld raw v : fld <= 28 -> length raw = struct_len fld -> bytes_ok raw ->
  hdr_op 0 fld raw v = XVal (spec_get fld raw).
Proof. intros Hfld Hlen Hok. destruct (field_of_some fld Hfld) as [f Hf].
  cbn [hdr_op]. rewrite Hf, Hlen, Nat.eqb_refl. f_equal. apply get_field_spec; assumption. Qed.
Lemma hdr_set_ok fld raw v : fld <= 28 -> length raw = struct_len fld -> bytes_ok raw ->
  hdr_op 1 fld raw v = XBytes (spec_set fld raw v).
Proof. intros Hfld Hlen Hok. destruct (field_of_some fld Hfld) as [f Hf].
  cbn [hdr_op]. rewrite Hf, Hlen, Nat.eqb_refl. f_equal. apply set_field_spec; assumption. Qed.

Lemma hdr_get_any_ok fld raw v : fld <= 28 -> (struct_len fld <= length raw)%nat -> bytes_ok raw ->
  hdr_op 12 fld raw v = XVal (spec_get fld (firstn (struct_len fld) raw)).
Proof. intros Hfld Hlen Hok. destruct (field_of_some fld Hfld) as [f Hf].
  cbn [hdr_op]. rewrite Hf.
  assert (Hin : (f_hi f / 8 <? length raw)%nat = true).
  { apply Nat.ltb_lt. pose proof (hi_inside fld f Hf) as H. lia. }
  rewrite Hin. f_equal. apply get_field_any; assumption. Qed.
Lemma hdr_set_any_ok fld raw v : fld <= 28 -> (struct_len fld <= length raw)%nat -> bytes_ok raw ->
  hdr_op 13 fld raw v = XBytes (spec_set fld (firstn (struct_len fld) raw) v ++ skipn (struct_len fld) raw).
Proof. intros Hfld Hlen Hok. destruct (field_of_some fld Hfld) as [f Hf].
  cbn [hdr_op]. rewrite Hf.
  assert (Hin : (f_hi f / 8 <? length raw)%nat = true).
  { apply Nat.ltb_lt. pose proof (hi_inside fld f Hf) as H. lia. }
  rewrite Hin. f_equal. apply set_field_any; assumption. Qed.

Lemma c18_step_ok ovf c o : wf_op o -> good (c18_step o (snd (step ovf c o))) = true.
Proof.
  intros Hw. destruct o as [p b|p|p|h e|u|h id a ls b|what fld raw v|what b]; try apply good_triv.
  cbn in Hw. destruct Hw as (Hraw & Hv & Hfld).
  cbn [step snd].
  assert (Hcases : what = 0 \/ what = 1 \/ what = 2 \/ what = 3 \/ what = 12 \/ what = 13 \/
                   (what <> 0 /\ what <> 1 /\ what <> 2 /\ what <> 3 /\ what <> 12 /\ what <> 13)) by lia.
  destruct Hcases as [->|[->|[->|[->|[->|[->|(H0 & H1 & H2 & H3 & H12 & H13)]]]]]].
  - cbn [c18_step].
    destruct (fld <=? 28) eqn:E1; cbn [andb]; [|apply good_triv]. apply N.leb_le in E1.
    destruct (Nat.eqb_spec (length raw) (struct_len fld)) as [E2|E2]; [|apply good_triv].
    rewrite hdr_get_ok by assumption. apply good_of, N.eqb_refl.
  - cbn [c18_step].
    destruct (fld <=? 28) eqn:E1; cbn [andb]; [|apply good_triv]. apply N.leb_le in E1.
    destruct (Nat.eqb_spec (length raw) (struct_len fld)) as [E2|E2]; [|apply good_triv].
    rewrite hdr_set_ok by assumption. apply good_of, list_eqb_refl.
  - cbn [c18_step hdr_op].
    destruct (Nat.eqb_spec (length raw) 4) as [E2|E2]; [|apply good_triv].
    rewrite transport_from_buf_closed by exact Hraw. apply good_of, N.eqb_refl.
  - cbn [c18_step hdr_op].
    destruct (Nat.eqb_spec (length raw) 1) as [E2|E2]; [|apply good_triv].
    destruct raw as [|x [|y r]]; try discriminate E2.
    inversion Hraw as [|? ? Hx Hr]; subst.
    rewrite body_from_buf_closed by exact Hx. cbn [nth]. apply good_of, N.eqb_refl.
  - cbn [c18_step].
    destruct (fld <=? 28) eqn:E1; cbn [andb]; [|apply good_triv]. apply N.leb_le in E1.
    destruct (Nat.leb_spec (struct_len fld) (length raw)) as [E2|E2]; [|apply good_triv].
    rewrite hdr_get_any_ok by assumption. apply good_of, N.eqb_refl.
  - cbn [c18_step].
    destruct (fld <=? 28) eqn:E1; cbn [andb]; [|apply good_triv]. apply N.leb_le in E1.
    destruct (Nat.leb_spec (struct_len fld) (length raw)) as [E2|E2]; [|apply good_triv].
    rewrite hdr_set_any_ok by assumption. apply good_of, list_eqb_refl.
  - destruct what as [|p]; [exfalso; auto|].
    do 4 (try (destruct p as [p|p|]; try apply good_triv; try (exfalso; auto; fail))).
Qed.

Theorem c18_holds : holds_on_model 18.
Proof. apply holds_from_step. intros ovf g s c o _ _ _ Hw. cbn [oracle_of obs3_of fst]. apply c18_step_ok, Hw. Qed.

(* ================================================================ generic consequences *)
(* ---------- read-after-write ---------- *)
(* written values range over [0, 2^width): the setter only sees v mod 2^width (byte_set_spec_mod) *)
Definition wrange (f : field) : list N := range (N.to_nat (2 ^ f_w f)).
Lemma wrange_sweep f (P : N -> bool) v : forallb P (wrange f) = true -> P (v mod 2 ^ f_w f) = true.
Proof. intros S. apply (sweep _ P S). rewrite N2Nat.id. apply N.mod_lt, N.pow_nonzero. discriminate. Qed.

Lemma rw8_sweep :
  forallb (fun f => forallb (fun b => forallb (fun v =>
     byte_get_spec f (byte_set_spec f b v) =? v) (wrange f)) range256) fields8 = true.
Proof. vm_cast_no_check (eq_refl true). Qed.

Theorem get_set_same8 f buf v : In f fields8 -> bytes_ok buf -> (f_byte f < length buf)%nat ->
  get_field f (set_field f buf v) = v mod 2 ^ f_w f.
Proof. intros Hin Hok Hlen.
  rewrite get_field_closed by (try assumption; apply set_field_ok, Hok).
  rewrite set_field_closed_any by assumption.
  rewrite nth_upd by exact Hlen. rewrite Nat.eqb_refl.
  rewrite byte_set_spec_mod.
  pose proof rw8_sweep as S. rewrite forallb_forall in S. specialize (S f Hin).
  pose proof (sweep1 _ S (nth (f_byte f) buf 0) (nth_ok buf _ Hok)) as S1. cbv beta in S1.
  pose proof (wrange_sweep f _ v S1) as S2. cbv beta in S2.
  apply N.eqb_eq in S2. exact S2. Qed.

Theorem pci_get_set buf v : bytes_ok buf -> length buf = 2%nat ->
  get_field pci_vendor_id (set_field pci_vendor_id buf v) = v mod 2 ^ 16.
Proof. intros Hok Hlen. destruct buf as [|a [|b [|x r]]]; try discriminate Hlen.
  pose proof (set_field_ok pci_vendor_id [a; b] v Hok) as Hok'.
  rewrite pci_set_closed in * by exact Hok. rewrite pci_get_closed by exact Hok'.
  pose proof (be_value_bytes 2 v) as E. cbn [be_bytes app be_value fold_left] in E.
  change (256 ^ N.of_nat 2) with (2 ^ 16) in E. rewrite <- E. lia. Qed.

Theorem iana_get_set buf v : bytes_ok buf -> length buf = 4%nat ->
  get_field iana_vendor_id (set_field iana_vendor_id buf v) = v mod 2 ^ 32.
Proof. intros Hok Hlen. destruct buf as [|a [|b [|c [|d [|x r]]]]]; try discriminate Hlen.
  pose proof (set_field_ok iana_vendor_id [a; b; c; d] v Hok) as Hok'.
  rewrite iana_set_closed in * by exact Hok. rewrite iana_get_closed by exact Hok'.
  pose proof (be_value_bytes 4 v) as E. cbn [be_bytes app be_value fold_left] in E.
  change (256 ^ N.of_nat 4) with (2 ^ 32) in E. rewrite <- E. lia. Qed.

(* all 29 fields, by number *)
Theorem get_set_same fld f buf v : field_of fld = Some f -> length buf = struct_len fld -> bytes_ok buf ->
  get_field f (set_field f buf v) = v mod 2 ^ f_w f.
Proof. intros Hf Hlen Hok.
  assert (Hc : fld <= 26 \/ fld = 27 \/ fld = 28 \/ 28 < fld) by lia.
  destruct Hc as [H|[->|[->|H]]].
  - destruct (field8_table fld H) as (f' & Hf' & Hin & _ & Hb). rewrite Hf in Hf'. injection Hf' as <-.
    apply get_set_same8; [exact Hin|exact Hok|rewrite Hlen; exact Hb].
  - injection Hf as <-. apply pci_get_set; assumption.
  - injection Hf as <-. apply iana_get_set; assumption.
  - rewrite field_of_none in Hf by exact H. discriminate Hf. Qed.

(* ---------- frame: a write does not disturb a field with a disjoint bit range ---------- *)
Definition disjointb (f g : field) : bool :=
  Bool.eqb (f_msb0 f) (f_msb0 g) && ((f_hi f <? f_lo g)%nat || (f_hi g <? f_lo f)%nat).

Lemma frame8_sweep :
  forallb (fun f => forallb (fun g =>
     if disjointb f g && (f_byte f =? f_byte g)%nat
     then forallb (fun b => forallb (fun v =>
            byte_get_spec g (byte_set_spec f b v) =? byte_get_spec g b) (wrange f)) range256
     else true) fields8) fields8 = true.
Proof. vm_cast_no_check (eq_refl true). Qed.

Theorem get_set_other8 f g buf v : In f fields8 -> In g fields8 -> disjointb f g = true -> bytes_ok buf ->
  get_field g (set_field f buf v) = get_field g buf.
Proof. intros Hf Hg Hd Hok.
  rewrite !get_field_closed by (try assumption; apply set_field_ok, Hok).
  rewrite set_field_closed_any by assumption.
  destruct (Nat.eq_dec (f_byte f) (f_byte g)) as [E|NE]; [|rewrite nth_upd_ne by exact NE; reflexivity].
  destruct (Nat.lt_ge_cases (f_byte f) (length buf)) as [Hlt|Hge]; [|rewrite upd_oob by exact Hge; reflexivity].
  rewrite nth_upd by exact Hlt. rewrite <- E, Nat.eqb_refl.
  rewrite byte_set_spec_mod.
  pose proof frame8_sweep as S. rewrite forallb_forall in S. specialize (S f Hf).
  rewrite forallb_forall in S. specialize (S g Hg).
  rewrite Hd, E, Nat.eqb_refl in S. cbn [andb] in S.
  pose proof (sweep1 _ S (nth (f_byte f) buf 0) (nth_ok buf _ Hok)) as S1. cbv beta in S1.
  pose proof (wrange_sweep f _ v S1) as S2. cbv beta in S2.
  apply N.eqb_eq in S2. rewrite E in *. exact S2. Qed.

(* which struct a field number belongs to (declaration order, as in Ops.field_of) *)
Definition struct_id (fld : N) : N :=
  if fld <=? 8 then 0 else if fld <=? 10 then 1 else if fld <=? 15 then 2 else if fld <=? 21 then 3
  else if fld <=? 26 then 4 else if fld =? 27 then 5 else 6.

(* within one struct, two different declared fields never share a bit *)
Lemma same_struct_disjoint_sweep :
  forallb (fun i => forallb (fun j =>
     if negb (i =? j) && (struct_id i =? struct_id j)
     then (i <=? 26) && (j <=? 26) &&
          match field_of i, field_of j with Some f, Some g => disjointb f g | _, _ => false end
     else true) (range 29)) (range 29) = true.
Proof. vm_compute. reflexivity. Qed.

Lemma same_struct_disjoint i j f g : field_of i = Some f -> field_of j = Some g ->
  i <> j -> struct_id i = struct_id j -> i <= 26 /\ j <= 26 /\ disjointb f g = true.
Proof. intros Hf Hg Hne Hs.
  pose proof (field_of_le i f Hf) as Hi. pose proof (field_of_le j g Hg) as Hj.
  pose proof (sweep 29 _ same_struct_disjoint_sweep i ltac:(lia)) as S1. cbv beta in S1.
  pose proof (sweep 29 _ S1 j ltac:(lia)) as S2. cbv beta in S2.
  replace (i =? j) with false in S2 by (symmetry; apply N.eqb_neq; exact Hne).
  rewrite Hs, N.eqb_refl, Hf, Hg in S2. cbn [negb andb] in S2.
  apply andb_true_iff in S2 as [S2 Sd]. apply andb_true_iff in S2 as [Si Sj].
  apply N.leb_le in Si. apply N.leb_le in Sj. auto. Qed.

Theorem get_set_other i j f g buf v : field_of i = Some f -> field_of j = Some g ->
  i <> j -> struct_id i = struct_id j -> bytes_ok buf ->
  get_field g (set_field f buf v) = get_field g buf.
Proof. intros Hf Hg Hne Hs Hok.
  destruct (same_struct_disjoint i j f g Hf Hg Hne Hs) as (Hi & Hj & Hd).
  destruct (field8_table i Hi) as (f' & Hf' & Hinf & _). rewrite Hf in Hf'. injection Hf' as <-.
  destruct (field8_table j Hj) as (g' & Hg' & Hing & _). rewrite Hg in Hg'. injection Hg' as <-.
  apply get_set_other8; assumption. Qed.

(* the struct sizes of Ops.struct_len are constant on a struct *)
Lemma struct_len_id i j : i <= 28 -> j <= 28 -> struct_id i = struct_id j -> struct_len i = struct_len j.
Proof. intros Hi Hj Hs.
  assert (forallb (fun i => forallb (fun j =>
            if struct_id i =? struct_id j then (struct_len i =? struct_len j)%nat else true) (range 29)) (range 29) = true)
    as S by (vm_compute; reflexivity).
  pose proof (sweep 29 _ S i ltac:(lia)) as S1. cbv beta in S1.
  pose proof (sweep 29 _ S1 j ltac:(lia)) as S2. cbv beta in S2.
  rewrite Hs, N.eqb_refl in S2. apply Nat.eqb_eq, S2. Qed.
