(* Extra.v — whole-history and whole-walk consequences of the one-step facts:
   the abstract EID machine (C13), context independence of the pure operations (C09, C17),
   the complete enumeration of the vendor ID sets by following selectors (C14),
   and the PEC of every response process_packet writes (C03). *)
Require Import Base Crc Bitfield Headers Encode Decode Process Ops Spec Judge.
Require Import CrcFacts BitfieldFacts HeaderFacts PecFacts EncodeFacts DecodeFacts Hist StepsSimple StepsEncode
               DecodeChar ProcessChar StepsRecv StepsProcess.
Open Scope N_scope.

(* ================================================================ C13: the abstract EID machine *)
(* what one operation does to the pair (request-half EID, response-half EID) *)
Definition eid_effect (o : op) (e : N * N) : N * N :=
  match o with
  | OSetEid true v => (v, snd e)
  | OSetEid false v => (fst e, v)
  | OProcess p _ => if assigning p then (nth 12 p 0, nth 12 p 0) else e
  | _ => e
  end.
Definition eid_spec (ops : list op) : N * N := fold_left (fun e o => eid_effect o e) ops (0, 0).

Definition eids (c : ctx) : N * N := (c_eid_req c, c_eid_resp c).

Lemma step_eid_effect ovf c o : wf_op o -> eids (fst (step ovf c o)) = eid_effect o (eids c).
Proof.
  intros Hw. destruct o as [p buf|p|p|h e|u|h id a ls buf|what fld raw v|what b]; try reflexivity.
  - (* process_packet *)
    destruct Hw as [Hok _]. pose proof (step_process_eids ovf c p buf Hok) as EE. cbv zeta in EE.
    unfold eids, eid_effect. destruct (assigning p); destruct EE as [E1 E2]; rewrite E1, E2; reflexivity.
  - destruct h; reflexivity.
  - cbn [step]. unfold set_uuid. destruct (length u =? 16)%nat; reflexivity.
Qed.

Lemma run_ctx_eids ovf ops : forall c, Forall wf_op ops ->
  eids (run_ctx ovf c ops) = fold_left (fun e o => eid_effect o e) ops (eids c).
Proof.
  induction ops as [|o ops IH]; intros c Hw; [reflexivity|].
  inversion Hw as [|? ? Hwo Hwr]; subst.
  cbn [run_ctx fold_left]. rewrite (IH _ Hwr), (step_eid_effect ovf c o Hwo). reflexivity.
Qed.

Theorem eid_is_last_assigned ovf g ops : wf_cfg g -> Forall wf_op ops ->
  let c := run_ctx ovf (ctx_of g) ops in (c_eid_req c, c_eid_resp c) = eid_spec ops.
Proof. intros _ Hw. exact (run_ctx_eids ovf ops (ctx_of g) Hw). Qed.

(* the same without the fold: in a history without set_eid, both EIDs are the EID byte of the last assigning
   Set Endpoint ID request processed, and 0 (the initial value) when there has been none *)
Definition no_set_eid (ops : list op) : Prop := forall h v, ~ In (OSetEid h v) ops.
Definition none_assigning (ops : list op) : Prop := forall q b, In (OProcess q b) ops -> assigning q = false.

Lemma fold_inert ops : no_set_eid ops -> none_assigning ops ->
  forall e, fold_left (fun e o => eid_effect o e) ops e = e.
Proof.
  induction ops as [|o ops IH]; intros Hs Hn e; [reflexivity|].
  cbn [fold_left].
  assert (E : eid_effect o e = e).
  { destruct o as [p buf| | |h v| | | |]; try reflexivity.
    - unfold eid_effect. rewrite (Hn p buf (or_introl eq_refl)). reflexivity.
    - exfalso. exact (Hs h v (or_introl eq_refl)). }
  rewrite E. apply IH.
  - intros h v H. exact (Hs h v (or_intror H)).
  - intros q b H. exact (Hn q b (or_intror H)).
Qed.

Theorem eid_is_last_assigning_packet ovf g ops : wf_cfg g -> Forall wf_op ops -> no_set_eid ops ->
  let c := run_ctx ovf (ctx_of g) ops in
  (forall pre p b post, ops = pre ++ OProcess p b :: post -> assigning p = true -> none_assigning post ->
     c_eid_req c = nth 12 p 0 /\ c_eid_resp c = nth 12 p 0) /\
  (none_assigning ops -> c_eid_req c = 0 /\ c_eid_resp c = 0).
Proof.
  intros Hg Hw Hs c. pose proof (eid_is_last_assigned ovf g ops Hg Hw) as E. cbv zeta in E. fold c in E.
  split.
  - intros pre p b post -> Ha Hn. unfold eid_spec in E. rewrite fold_left_app in E. cbn [fold_left] in E.
    unfold eid_effect at 2 in E. rewrite Ha in E.
    rewrite fold_inert in E; [inversion E; split; reflexivity| |exact Hn].
    intros h v H. apply (Hs h v). apply in_or_app. right. right. exact H.
  - intros Hn. unfold eid_spec in E. rewrite (fold_inert ops Hs Hn) in E. inversion E; split; reflexivity.
Qed.

(* ================================================================ C09 / C17: context independence *)
Theorem decode_context_independent ovf c1 c2 p : snd (step ovf c1 (ODecode p)) = snd (step ovf c2 (ODecode p)).
Proof. reflexivity. Qed.
Theorem get_length_context_independent ovf c1 c2 p :
  snd (step ovf c1 (OGetLength p)) = snd (step ovf c2 (OGetLength p)).
Proof. reflexivity. Qed.

(* ================================================================ C14: enumerating the vendor ID sets *)
(* the requester: endpoint r (slave address r, EID r) asks the endpoint at 0x10 for vendor ID set sel *)
Definition vendor_request (r sel : N) : list N := spec_packet r 0x10 0 [128; 6; sel].

Lemma vendor_request_length r sel : length (vendor_request r sel) = 13%nat.
Proof. unfold vendor_request. rewrite spec_packet_length. reflexivity. Qed.
Lemma vendor_request_cmd r sel : ctl_cmd (vendor_request r sel) = 6.
Proof. reflexivity. Qed.
Lemma vendor_request_sel r sel : nth 11 (vendor_request r sel) 0 = sel.
Proof. reflexivity. Qed.
Lemma vendor_request_src r sel : nth 6 (vendor_request r sel) 0 = r.
Proof. reflexivity. Qed.

Lemma vendor_request_bytes_ok r sel : r < 256 -> sel < 256 -> bytes_ok (vendor_request r sel).
Proof.
  intros Hr Hs. unfold vendor_request. rewrite spec_packet_pre.
  assert (Hp : bytes_ok (spec_prefix r 16 0 [128; 6; sel])).
  { unfold spec_prefix. cbn [app length]. unfold bytes_ok.
    assert (H1 : (r mod 128) * 2 + 1 < 256) by (pose proof (N.mod_upper_bound r 128); lia).
    repeat constructor; try assumption. }
  unfold bytes_ok in *. apply Forall_app. split; [exact Hp|].
  constructor; [|constructor]. apply pec_lt. exact Hp.
Qed.

Lemma vendor_request_accepted r sel : accepted_request (vendor_request r sel) = true.
Proof.
  unfold accepted_request, wf_packet.
  assert (Hh : header_ok (vendor_request r sel) = true) by (apply spec_packet_header_ok; reflexivity).
  assert (Hp : pec_good (vendor_request r sel) = true) by apply spec_packet_pec_good.
  assert (E8 : nth 8 (vendor_request r sel) 0 = 0) by reflexivity.
  assert (Hr : is_request (vendor_request r sel) = true) by reflexivity.
  assert (Hl : payload_len (vendor_request r sel) = 1%nat).
  { unfold payload_len, hdr_len. rewrite E8, Hr, vendor_request_length. reflexivity. }
  rewrite Hh, Hp, E8, Hr, Hl, vendor_request_cmd, vendor_request_length. reflexivity.
Qed.

Lemma vendor_request_wellformed r sel : r < 256 -> sel < 256 ->
  bytes_ok (vendor_request r sel) /\ accepted_request (vendor_request r sel) = true /\
  ctl_cmd (vendor_request r sel) = 6 /\ nth 11 (vendor_request r sel) 0 = sel /\ nth 6 (vendor_request r sel) 0 = r.
Proof.
  intros Hr Hs. split; [apply vendor_request_bytes_ok; assumption|]. split; [apply vendor_request_accepted|].
  repeat split; reflexivity.
Qed.

(* the requester's walk on the model: ask for set sel, keep the vendor field of the answer (bytes 13 .. len-2),
   read the next selector out of byte 12 of the answer, stop at 0xFF *)
Fixpoint walk (r : N) (fuel : nat) (ovf : bool) (c : ctx) (sel : N) : list (list N) :=
  match fuel with
  | O => []
  | S f =>
      match process_packet ovf c (vendor_request r sel) (repeat 0 64) with
      | ((c', b), Val (inl (_, Some len))) =>
          sub b 13 (len - 14) :: (if nth 12 b 0 =? 255 then [] else walk r f ovf c' (nth 12 b 0))
      | _ => []
      end
  end.

Lemma skipn_nth_error {A} (l : list A) i v : nth_error l i = Some v -> skipn i l = v :: skipn (S i) l.
Proof.
  revert l. induction i as [|i IH]; intros l H; destruct l as [|x l]; try discriminate.
  - cbn in H. inversion H. reflexivity.
  - cbn [nth_error] in H. cbn [skipn]. rewrite (IH l H). reflexivity.
Qed.

Lemma cinv_set_selector g c s : cinv g c -> cinv g (set_selector c s).
Proof. unfold cinv. cbn [set_selector c_addr c_msg_types c_vendor_ids c_eid_req c_eid_resp c_uuid]. exact (fun H => H). Qed.

(* one request of the walk, read back out of the response bytes *)
Lemma walk_step ovf g c r i v :
  let n := N.of_nat (length (g_vendor_ids g)) in
  let next := if i + 1 =? n then 255 else i + 1 in
  wf_cfg g -> valid_cfg g = true -> cinv g c -> r < 256 -> i < n ->
  nth_error (g_vendor_ids g) (N.to_nat i) = Some v ->
  exists b d,
    process_packet ovf c (vendor_request r i) (repeat 0 64) =
      ((set_selector c next, b), Val (inl (d, Some (14 + length (enc_vendor_set v))%nat))) /\
    nth 12 b 0 = next /\ sub b 13 (length (enc_vendor_set v)) = enc_vendor_set v.
Proof.
  intros n next Hg Hv Hc Hr Hi Hnth.
  destruct (StepsProcess.valid_cfg_facts g Hv) as (_ & _ & H16 & _).
  assert (Hi256 : i < 256) by (unfold n in Hi; lia).
  pose proof (C14_walk ovf g c (vendor_request r i) (repeat 0 64) v Hg Hv Hc
                (vendor_request_bytes_ok r i Hr Hi256)) as W.
  cbv zeta in W. rewrite vendor_request_sel in W.
  specialize (W ltac:(rewrite repeat_length; lia) (vendor_request_accepted r i) (vendor_request_cmd r i) Hi Hnth).
  fold n in W. fold next in W.
  eexists _, _. split; [exact W|]. split; [reflexivity|].
  exact (spec_packet_body (g_addr g) (nth 6 (vendor_request r i) 0) 0 [0; 6; 0; next] (enc_vendor_set v) _).
Qed.

Lemma walk_from ovf g r : wf_cfg g -> valid_cfg g = true -> r < 256 ->
  forall fuel i c, cinv g c -> (i < length (g_vendor_ids g))%nat -> (length (g_vendor_ids g) - i <= fuel)%nat ->
    walk r fuel ovf c (N.of_nat i) = map enc_vendor_set (skipn i (g_vendor_ids g)).
Proof.
  intros Hg Hv Hr. destruct (StepsProcess.valid_cfg_facts g Hv) as (_ & _ & H16 & _).
  induction fuel as [|f IH]; intros i c Hc Hi Hf; [lia|].
  destruct (nth_error (g_vendor_ids g) i) as [v|] eqn:Hnth; [|apply nth_error_None in Hnth; lia].
  rewrite (skipn_nth_error _ _ _ Hnth). cbn [map walk].
  destruct (walk_step ovf g c r (N.of_nat i) v Hg Hv Hc Hr ltac:(lia)
              ltac:(rewrite Nat2N.id; exact Hnth)) as (b & d & W & H12 & Hsub).
  cbv zeta in W, H12. rewrite W.
  replace (14 + length (enc_vendor_set v) - 14)%nat with (length (enc_vendor_set v)) by lia.
  rewrite Hsub, H12. f_equal.
  destruct (N.eqb_spec (N.of_nat i + 1) (N.of_nat (length (g_vendor_ids g)))) as [E|E].
  - (* the last set *)
    cbn [N.eqb Pos.eqb]. rewrite skipn_all2 by lia. reflexivity.
  - replace (N.of_nat i + 1 =? 255) with false by (symmetry; apply N.eqb_neq; lia).
    replace (N.of_nat i + 1) with (N.of_nat (S i)) by lia.
    apply IH; [apply cinv_set_selector; exact Hc|lia|lia].
Qed.

(* the walk from selector 0 visits every configured set exactly once, in configuration order, and stops:
   whatever the context remembers, whatever the overflow mode, and with any fuel >= the number of sets *)
Theorem walk_enumerates ovf g c r fuel : wf_cfg g -> valid_cfg g = true -> cinv g c -> r < 256 ->
  (length (g_vendor_ids g) <= fuel)%nat ->
  walk r fuel ovf c 0 = map enc_vendor_set (g_vendor_ids g).
Proof.
  intros Hg Hv Hc Hr Hf. destruct (StepsProcess.valid_cfg_facts g Hv) as (_ & H1 & _ & _).
  exact (walk_from ovf g r Hg Hv Hr fuel 0%nat c Hc ltac:(lia) ltac:(lia)).
Qed.

Theorem enumerate ovf g c r : wf_cfg g -> valid_cfg g = true -> cinv g c -> r < 256 ->
  walk r (S (length (g_vendor_ids g))) ovf c 0 = map enc_vendor_set (g_vendor_ids g).
Proof. intros Hg Hv Hc Hr. apply (walk_enumerates ovf g c r _ Hg Hv Hc Hr). lia. Qed.

(* ================================================================ C03: the responses process_packet writes *)
(* dispatch_request either panics or runs one response encoder, and every response encoder is a pec_writer *)
Inductive disp_pec (buf : list N) : pstate * res nat -> Prop :=
| dp_panic st k : disp_pec buf (st, Panic k)
| dp_respond c' w : pec_writer w -> disp_pec buf (let '(b, r) := unwrap_len (w buf) in ((c', b), r)).

Lemma pw_resp_set_endpoint_id ovf addr eid cc dest a al : pec_writer (resp_set_endpoint_id ovf addr eid cc dest a al).
Proof. unfold resp_set_endpoint_id, control_packet. pw. Qed.
Lemma pw_resp_get_endpoint_id ovf addr eid cc dest et it f : pec_writer (resp_get_endpoint_id ovf addr eid cc dest et it f).
Proof. unfold resp_get_endpoint_id, control_packet. pw. Qed.
Lemma pw_resp_get_endpoint_uuid ovf addr cc dest u : pec_writer (resp_get_endpoint_uuid ovf addr cc dest u).
Proof. unfold resp_get_endpoint_uuid, control_packet. pw. Qed.
Lemma pw_resp_get_mctp_version_support ovf addr cc dest : pec_writer (resp_get_mctp_version_support ovf addr cc dest).
Proof. unfold resp_get_mctp_version_support, control_packet. pw. Qed.
Lemma pw_resp_get_message_type_suport ovf addr cc dest t : pec_writer (resp_get_message_type_suport ovf addr cc dest t).
Proof. unfold resp_get_message_type_suport, control_packet. pw. Qed.
Lemma pw_resp_get_vendor_defined_message_support ovf addr cc dest sel vid :
  pec_writer (resp_get_vendor_defined_message_support ovf addr cc dest sel vid).
Proof. unfold resp_get_vendor_defined_message_support, control_packet. pw. Qed.

Lemma dispatch_pec_shape ovf c buf cmd src payload : disp_pec buf (dispatch_request ovf c buf cmd src payload).
Proof.
  unfold dispatch_request.
  repeat match goal with
         | |- context [match ?x with _ => _ end] =>
             match x with
             | unwrap_len _ => fail 1
             | _ => destruct x
             end
         | |- context [if ?x then _ else _] => destruct x
         end; try apply dp_panic;
  match goal with
  | |- disp_pec _ (let '(b, r) := unwrap_len (?w _) in ((?c', b), r)) => apply (dp_respond buf c' w)
  end;
  lazymatch goal with
  | |- pec_writer (resp_set_endpoint_id _ _ _ _ _ _ _) => apply pw_resp_set_endpoint_id
  | |- pec_writer (resp_get_endpoint_id _ _ _ _ _ _ _ _) => apply pw_resp_get_endpoint_id
  | |- pec_writer (resp_get_endpoint_uuid _ _ _ _ _) => apply pw_resp_get_endpoint_uuid
  | |- pec_writer (resp_get_mctp_version_support _ _ _ _) => apply pw_resp_get_mctp_version_support
  | |- pec_writer (resp_get_message_type_suport _ _ _ _ _) => apply pw_resp_get_message_type_suport
  | |- pec_writer (resp_get_vendor_defined_message_support _ _ _ _ _ _) =>
      apply pw_resp_get_vendor_defined_message_support
  end.
Qed.

Lemma dispatch_pec ovf c buf cmd src payload c' b n :
  dispatch_request ovf c buf cmd src payload = ((c', b), Val n) -> pec_ok n b = true.
Proof.
  intros E. pose proof (dispatch_pec_shape ovf c buf cmd src payload) as S. rewrite E in S.
  inversion S as [st k E1|c1 w Hw E1].
  destruct (w buf) as [b1 [[m|]|k]] eqn:Ew; cbn [unwrap_len] in E1; try discriminate.
  assert (b1 = b) by congruence. assert (m = n) by congruence. subst b1 m.
  exact (Hw buf b n Ew).
Qed.

(* every response process_packet reports (Ok with Some length) ends with the PEC of what precedes it:
   for every context, every packet, every response buffer, either overflow mode *)
Theorem responses_end_with_pec ovf c p buf c' b d n :
  process_packet ovf c p buf = ((c', b), Val (inl (d, Some n))) -> pec_ok n b = true.
Proof.
  unfold process_packet.
  destruct (decode_packet p) as [[[mt rng]|e]|k]; try discriminate.
  destruct mt; try discriminate.
  destruct (get_smbus_headers p) as [[[[sh th] bh]|e]|k]; try discriminate.
  match goal with |- context [match ?r with _ => _ end] => destruct r as [[cr|e]|k] end; try discriminate.
  destruct (cr_cc cr); try discriminate.
  match goal with |- context [dispatch_request ?o ?c ?b ?cmd ?src ?pl] =>
    pose proof (dispatch_pec o c b cmd src pl) as D; destruct (dispatch_request o c b cmd src pl) as [[c1 b1] r] end.
  destruct r as [len|k]; [|discriminate].
  intros E. assert (b1 = b) by congruence. assert (len = n) by (unfold ok in E; congruence). subst b1 len.
  exact (D c1 b n eq_refl).
Qed.
