(* IanaForm.v — closed form of IANAMessageFormat::new: the 32-bit MSB0 bit loop, chunked into bytes. *)
Require Import Base Bitfield Headers Encode.
Require Import BitfieldFacts HeaderFacts.
Open Scope N_scope.

(* ---------- IANA: 32-bit, by chunking the bit loop ---------- *)
Definition chunk (k : nat) : list nat := rev (seq (8 * k) 8).   (* MSB0 setter order inside byte k *)
Lemma chunk_byte k : (k < 4)%nat -> Forall (fun i => (i / 8)%nat = k) (chunk k).
Proof. intros H. do 4 (destruct k as [|k]; [repeat constructor|]). lia. Qed.
Lemma chunk_set b w : b < 256 -> w < 256 ->
  forall k, (k < 4)%nat -> byte_set pos_msb0 (chunk k) b w = w.
Proof. intros Hb Hw k Hk.
  assert (forallb (fun k => forallb (fun b => forallb (fun w => byte_set pos_msb0 (chunk (N.to_nat k)) b w =? w) range256) range256) (range 4) = true) as S by (vm_compute; reflexivity).
  pose proof (sweep 4 _ S (N.of_nat k) ltac:(lia)) as S1. cbv beta in S1. rewrite Nat2N.id in S1.
  pose proof (sweep1 _ S1 b Hb) as S2. cbv beta in S2. pose proof (sweep1 _ S2 w Hw) as S3. cbv beta in S3.
  apply N.eqb_eq, S3. Qed.
Lemma chunk_set_any b w k : b < 256 -> (k < 4)%nat -> byte_set pos_msb0 (chunk k) b w = w mod 256.
Proof. intros Hb Hk. rewrite byte_set_mod.
  replace (length (chunk k)) with 8%nat by (unfold chunk; rewrite rev_length, seq_length; reflexivity).
  change (2 ^ N.of_nat 8) with 256. apply chunk_set; auto. apply N.mod_lt. discriminate. Qed.

Lemma iana_new_closed v :
  iana_new v = [(v / 16777216) mod 256; (v / 65536) mod 256; (v / 256) mod 256; v mod 256].
Proof.
  unfold iana_new, set_field. cbn [f_msb0 iana_vendor_id mk f_pos].
  change (rev (f_idxs iana_vendor_id)) with (chunk 3 ++ chunk 2 ++ chunk 1 ++ chunk 0).
  rewrite !set_loop_app.
  rewrite !(set_loop_local pos_msb0 3 (chunk 3)) by (apply chunk_byte; lia).
  rewrite !(set_loop_local pos_msb0 2 (chunk 2)) by (apply chunk_byte; lia).
  rewrite !(set_loop_local pos_msb0 1 (chunk 1)) by (apply chunk_byte; lia).
  rewrite !(set_loop_local pos_msb0 0 (chunk 0)) by (apply chunk_byte; lia).
  cbn [zeros repeat upd].
  rewrite !chunk_set_any by (try reflexivity; lia).
  replace (length (chunk 3)) with 8%nat by reflexivity. replace (length (chunk 2)) with 8%nat by reflexivity.
  replace (length (chunk 1)) with 8%nat by reflexivity.
  change (N.of_nat 8) with 8. rewrite !N.shiftr_shiftr. rewrite !N.shiftr_div_pow2.
  change (2 ^ (8 + 8 + 8)) with 16777216. change (2 ^ (8 + 8)) with 65536. change (2 ^ 8) with 256.
  reflexivity. Qed.
