(* HeaderFacts.v — closed forms: every declared field that lives in one byte reads/writes bits
   [shift, shift+width) of that byte; closed forms of the header constructors. *)
Require Import Base Bitfield Headers.
Require Import BitfieldFacts.
Open Scope N_scope.

Definition f_byte (f : field) : nat := (f_lo f / 8)%nat.
Definition set_order (f : field) : list nat := if f_msb0 f then rev (f_idxs f) else f_idxs f.
Definition get_order (f : field) : list nat := if f_msb0 f then f_idxs f else rev (f_idxs f).
Definition single_byte (f : field) : bool := forallb (fun i => (i / 8 =? f_byte f)%nat) (f_idxs f).

(* the documented wire layout, LSB-based within the byte *)
Definition f_shift (f : field) : N := N.of_nat (if f_msb0 f then 7 - f_hi f mod 8 else f_lo f mod 8).
Definition f_w (f : field) : N := N.of_nat (f_width f).
Definition byte_get_spec (f : field) (b : N) : N := (b / 2 ^ f_shift f) mod 2 ^ f_w f.
Definition byte_set_spec (f : field) (b v : N) : N :=
  b - ((b / 2 ^ f_shift f) mod 2 ^ f_w f) * 2 ^ f_shift f + (v mod 2 ^ f_w f) * 2 ^ f_shift f.

(* the u8-valued fields (all but the PCI and IANA vendor IDs) *)
Definition fields8 : list field :=
  [th_rsvd; th_hdr_version; th_dest; th_source; th_som; th_eom; th_pkt_seq; th_to; th_msg_tag;
   bh_ic; bh_msg_type; ch_rq; ch_d; ch_rsvd; ch_instance_id; ch_command_code;
   sh_dest_rw; sh_dest_addr; sh_command_code; sh_byte_count; sh_source_rw; sh_source_addr;
   re_entry_type; re_rsvd; re_range_size; re_first_eid; re_phys_addr].

Definition get_finish (f : field) (v : N) : N :=
  let sh := f_W f - N.of_nat (f_width f) in N.shiftr ((N.shiftl v sh) mod 2 ^ f_W f) sh.

Lemma forallb_Forall {A} (p : A -> bool) l : forallb p l = true -> Forall (fun x => p x = true) l.
Proof. intros H. apply Forall_forall. intros x Hx. rewrite forallb_forall in H. auto. Qed.

Lemma single_byte_set_order f : single_byte f = true -> Forall (fun i => (i / 8)%nat = f_byte f) (set_order f).
Proof. intros H. apply forallb_Forall in H. unfold set_order.
  assert (Forall (fun i => (i / 8)%nat = f_byte f) (f_idxs f)) as H'.
  { eapply Forall_impl; [|exact H]. intros a Ha. apply Nat.eqb_eq. exact Ha. }
  destruct (f_msb0 f); [|exact H']. apply Forall_forall. intros x Hx. apply in_rev in Hx.
  rewrite Forall_forall in H'. auto. Qed.
Lemma single_byte_get_order f : single_byte f = true -> Forall (fun i => (i / 8)%nat = f_byte f) (get_order f).
Proof. intros H. apply forallb_Forall in H. unfold get_order.
  assert (Forall (fun i => (i / 8)%nat = f_byte f) (f_idxs f)) as H'.
  { eapply Forall_impl; [|exact H]. intros a Ha. apply Nat.eqb_eq. exact Ha. }
  destruct (f_msb0 f); [exact H'|]. apply Forall_forall. intros x Hx. apply in_rev in Hx.
  rewrite Forall_forall in H'. auto. Qed.

Lemma set_field_local f : single_byte f = true -> forall buf v,
  set_field f buf v = upd (f_byte f) (fun b => byte_set (f_pos f) (set_order f) b v) buf.
Proof. intros H buf v. unfold set_field. fold (set_order f). apply set_loop_local. apply single_byte_set_order, H. Qed.
Lemma get_field_local f : single_byte f = true -> forall buf,
  get_field f buf = get_finish f (byte_get (f_pos f) (f_W f) (get_order f) (nth (f_byte f) buf 0) 0).
Proof. intros H buf. unfold get_field, get_finish. fold (get_order f).
  rewrite (get_loop_local _ _ (f_byte f)) by (apply single_byte_get_order, H). reflexivity. Qed.

(* the sweep: for each of the 27 fields, all 256 byte values and all 256 written values *)
Lemma fields8_sweep :
  forallb (fun f =>
    single_byte f &&
    forallb (fun b =>
      (get_finish f (byte_get (f_pos f) (f_W f) (get_order f) b 0) =? byte_get_spec f b) &&
      forallb (fun v => byte_set (f_pos f) (set_order f) b v =? byte_set_spec f b v) range256) range256)
    fields8 = true.
Proof. vm_compute. reflexivity. Qed.

Lemma fields8_facts f : In f fields8 ->
  single_byte f = true /\
  (forall b, b < 256 -> get_finish f (byte_get (f_pos f) (f_W f) (get_order f) b 0) = byte_get_spec f b) /\
  (forall b v, b < 256 -> v < 256 -> byte_set (f_pos f) (set_order f) b v = byte_set_spec f b v).
Proof. intros Hin. pose proof fields8_sweep as S. rewrite forallb_forall in S. specialize (S f Hin).
  apply andb_true_iff in S as [S1 S2]. split; [exact S1|]. split.
  - intros b Hb. pose proof (sweep1 _ S2 b Hb) as S3. cbv beta in S3. apply andb_true_iff in S3 as [S3 _].
    apply N.eqb_eq. exact S3.
  - intros b v Hb Hv. pose proof (sweep1 _ S2 b Hb) as S3. cbv beta in S3. apply andb_true_iff in S3 as [_ S3].
    pose proof (sweep1 _ S3 v Hv) as S4. cbv beta in S4. apply N.eqb_eq. exact S4. Qed.

Lemma nth_ok (buf : list N) k : bytes_ok buf -> nth k buf 0 < 256.
Proof. intros H. destruct (Nat.lt_ge_cases k (length buf)) as [Hk|Hk].
  - unfold bytes_ok in H. rewrite Forall_forall in H. apply H, nth_In, Hk.
  - rewrite nth_overflow by exact Hk. reflexivity. Qed.

(* C18 core: getter = documented bit positions; setter = only those bits, value truncated to the width *)
Theorem get_field_closed f buf : In f fields8 -> bytes_ok buf ->
  get_field f buf = byte_get_spec f (nth (f_byte f) buf 0).
Proof. intros Hin Hok. destruct (fields8_facts f Hin) as [Hs [Hg _]].
  rewrite get_field_local by exact Hs. apply Hg. apply nth_ok, Hok. Qed.
Theorem set_field_closed f buf v : In f fields8 -> bytes_ok buf -> v < 256 ->
  set_field f buf v = upd (f_byte f) (fun b => byte_set_spec f b v) buf.
Proof. intros Hin Hok Hv. destruct (fields8_facts f Hin) as [Hs [_ Hset]].
  rewrite set_field_local by exact Hs. apply upd_ext_ok; [exact Hok|]. intros b Hb. apply Hset; assumption. Qed.
