(* BurstBits.v — the burst property of C02 stated on BIT POSITIONS: an error pattern whose set bits all lie
   within eight consecutive bit positions (bits numbered MSB-first across the byte string) is a `burst` in the
   structural sense of StepsRecv.v, hence never maps an accepted packet to an accepted packet. *)
Require Import Base Crc Bitfield Headers Encode Decode Process Ops Spec Judge.
Require Import CrcFacts HeaderFacts DecodeFacts StepsRecv.
Open Scope N_scope.

(* bit i of the byte string e: byte i/8, mask 0x80 >> (i mod 8) *)
Definition ebit (e : list N) (i : nat) : bool := N.testbit (nth (i / 8) e 0) (N.of_nat (7 - i mod 8)).
(* every set bit of e lies in the window of bit positions [k, k+8) *)
Definition confined8 (e : list N) (k : nat) : Prop := forall i, ebit e i = true -> (k <= i < k + 8)%nat.
Definition nonzero (e : list N) : Prop := exists i, ebit e i = true.

(* ---------- a decidable form of confined8 ---------- *)
Definition confined8b (e : list N) (k : nat) : bool :=
  forallb (fun i => negb (ebit e i) || ((k <=? i)%nat && (i <? k + 8)%nat)) (seq 0 (8 * length e)).
Definition nonzerob (e : list N) : bool := existsb (ebit e) (seq 0 (8 * length e)).

Lemma ebit_beyond e i : (8 * length e <= i)%nat -> ebit e i = false.
Proof. intros H. unfold ebit. rewrite nth_overflow; [apply N.bits_0|].
  apply Nat.div_le_lower_bound; [discriminate|exact H]. Qed.

Lemma confined8b_sound e k : confined8b e k = true -> confined8 e k.
Proof. intros H i Hi. unfold confined8b in H. rewrite forallb_forall in H.
  destruct (Nat.lt_ge_cases i (8 * length e)) as [L|L].
  - assert (In i (seq 0 (8 * length e))) as I by (apply in_seq; lia).
    apply H in I. rewrite Hi in I. cbn [negb orb] in I. apply andb_prop in I. destruct I as [I1 I2].
    apply Nat.leb_le in I1. apply Nat.ltb_lt in I2. lia.
  - rewrite (ebit_beyond e i L) in Hi. discriminate. Qed.
Lemma nonzerob_sound e : nonzerob e = true -> nonzero e.
Proof. intros H. unfold nonzerob in H. apply existsb_exists in H. destruct H as (i & _ & H). exists i. exact H. Qed.

(* ---------- bit positions and bytes ---------- *)
Lemma ebit_at e c m : (m < 8)%nat -> ebit e (8 * c + m) = N.testbit (nth c e 0) (N.of_nat (7 - m)).
Proof. intros Hm. unfold ebit.
  rewrite <- (Nat.div_unique (8 * c + m) 8 c m Hm eq_refl).
  rewrite <- (Nat.mod_unique (8 * c + m) 8 c m Hm eq_refl). reflexivity. Qed.

Lemma sweep_nat (n : nat) (P : nat -> bool) : forallb P (seq 0 n) = true -> forall m, (m < n)%nat -> P m = true.
Proof. intros H m Hm. rewrite forallb_forall in H. apply H, in_seq. lia. Qed.

(* no bit set in the first j positions (MSB-first) of a byte: the byte is below 2^(8-j) *)
Lemma byte_top_clear j x : (j <= 8)%nat -> x < 256 ->
  (forall m, (m < j)%nat -> N.testbit x (N.of_nat (7 - m)) = false) -> x < 2 ^ N.of_nat (8 - j).
Proof. intros Hj Hx H.
  assert (forallb (fun j => forallb (fun x =>
            existsb (fun m => (m <? j)%nat && N.testbit x (N.of_nat (7 - m))) (seq 0 8)
            || (x <? 2 ^ N.of_nat (8 - j))) range256) (seq 0 9) = true) as S by (vm_compute; reflexivity).
  pose proof (sweep_nat 9 _ S j) as S0. cbv beta in S0. specialize (S0 ltac:(lia)).
  pose proof (sweep1 _ S0 x Hx) as S1. cbv beta in S1.
  apply orb_prop in S1. destruct S1 as [S1|S1]; [|apply N.ltb_lt, S1].
  exfalso. apply existsb_exists in S1. destruct S1 as (m & _ & S1). apply andb_prop in S1. destruct S1 as [L T].
  apply Nat.ltb_lt in L. rewrite (H m L) in T. discriminate. Qed.

(* no bit set from position j on (MSB-first) in a byte: the byte is a multiple of 2^(8-j) *)
Lemma byte_bottom_clear j y : (j <= 8)%nat -> y < 256 ->
  (forall m, (j <= m < 8)%nat -> N.testbit y (N.of_nat (7 - m)) = false) -> y mod 2 ^ N.of_nat (8 - j) = 0.
Proof. intros Hj Hy H.
  assert (forallb (fun j => forallb (fun y =>
            existsb (fun m => (j <=? m)%nat && N.testbit y (N.of_nat (7 - m))) (seq 0 8)
            || (y mod 2 ^ N.of_nat (8 - j) =? 0)) range256) (seq 0 9) = true) as S by (vm_compute; reflexivity).
  pose proof (sweep_nat 9 _ S j) as S0. cbv beta in S0. specialize (S0 ltac:(lia)).
  pose proof (sweep1 _ S0 y Hy) as S1. cbv beta in S1.
  apply orb_prop in S1. destruct S1 as [S1|S1]; [|apply N.eqb_eq, S1].
  exfalso. apply existsb_exists in S1. destruct S1 as (m & I & S1). apply andb_prop in S1. destruct S1 as [L T].
  apply Nat.leb_le in L. apply in_seq in I. rewrite (H m) in T by lia. discriminate. Qed.

Lemma byte_all_clear x : x < 256 -> (forall m, (m < 8)%nat -> N.testbit x (N.of_nat (7 - m)) = false) -> x = 0.
Proof. intros Hx H. pose proof (byte_top_clear 8 x (le_n 8) Hx H) as L. change (2 ^ N.of_nat (8 - 8)) with 1 in L. lia. Qed.

(* the window: x in the low 8-j bits of one byte, y in the top j bits of the next *)
Definition window (j : nat) (x y : N) : N := x * 2 ^ N.of_nat j + y / 2 ^ N.of_nat (8 - j).

Lemma window_spec j x y : (j < 8)%nat -> x < 256 -> y < 256 ->
  x < 2 ^ N.of_nat (8 - j) -> y mod 2 ^ N.of_nat (8 - j) = 0 ->
  window j x y < 256 /\ hi (window j x y) (N.of_nat j) = x /\ lo (window j x y) (N.of_nat j) = y /\
  (window j x y = 0 -> x = 0 /\ y = 0).
Proof. intros Hj Hx Hy H1 H2.
  assert (forallb (fun j => forallb (fun x => forallb (fun y =>
            let w := window j x y in
            negb (x <? 2 ^ N.of_nat (8 - j)) || negb (y mod 2 ^ N.of_nat (8 - j) =? 0)
            || ((w <? 256) && (hi w (N.of_nat j) =? x) && (lo w (N.of_nat j) =? y)
                && (negb (w =? 0) || ((x =? 0) && (y =? 0))))) range256) range256) (seq 0 8) = true) as S
    by (vm_compute; reflexivity).
  pose proof (sweep_nat 8 _ S j Hj) as S0. cbv beta in S0.
  pose proof (sweep2 _ S0 x y Hx Hy) as S1. cbv beta zeta in S1.
  apply N.ltb_lt in H1. apply N.eqb_eq in H2. rewrite H1, H2 in S1. cbn [negb orb] in S1.
  apply andb_prop in S1. destruct S1 as [S1 S4]. apply andb_prop in S1. destruct S1 as [S1 S3].
  apply andb_prop in S1. destruct S1 as [S1 S2].
  apply N.ltb_lt in S1. apply N.eqb_eq in S2. apply N.eqb_eq in S3.
  repeat split; try assumption.
  - destruct (N.eqb_spec (window j x y) 0) as [E|E]; [|contradiction].
    cbn [negb orb] in S4. apply andb_prop in S4. destruct S4 as [A _]. apply N.eqb_eq, A.
  - destruct (N.eqb_spec (window j x y) 0) as [E|E]; [|contradiction].
    cbn [negb orb] in S4. apply andb_prop in S4. destruct S4 as [_ B]. apply N.eqb_eq, B. Qed.

(* ---------- a list is determined by its bytes ---------- *)
Lemma zeros_of_nth (l : list N) : (forall c, nth c l 0 = 0) -> l = repeat 0 (length l).
Proof. induction l as [|a l IH]; intros H; [reflexivity|].
  cbn [length repeat]. f_equal; [exact (H 0%nat)|]. apply IH. intros c. exact (H (S c)). Qed.

Lemma shape2 b (e : list N) : (S b < length e)%nat -> (forall c, c <> b -> c <> S b -> nth c e 0 = 0) ->
  e = repeat 0 b ++ [nth b e 0; nth (S b) e 0] ++ repeat 0 (length e - b - 2).
Proof. revert e. induction b as [|b IH]; intros e L H.
  - destruct e as [|x [|y t]]; cbn [length] in L; try lia.
    cbn [repeat app nth length]. do 2 f_equal.
    replace (S (S (length t)) - 0 - 2)%nat with (length t) by lia.
    apply zeros_of_nth. intros c. apply (H (S (S c))); discriminate.
  - destruct e as [|x t]; cbn [length] in L; [lia|].
    cbn [repeat app nth length]. f_equal; [apply (H 0%nat); discriminate|].
    replace (S (length t) - S b - 2)%nat with (length t - b - 2)%nat by lia.
    apply IH; [lia|]. intros c C1 C2. apply (H (S c)); congruence. Qed.

Lemma shape1 b (e : list N) : length e = S b -> (forall c, c <> b -> nth c e 0 = 0) ->
  e = repeat 0 b ++ [nth b e 0].
Proof. revert e. induction b as [|b IH]; intros e L H.
  - destruct e as [|x [|y t]]; cbn [length] in L; try lia. reflexivity.
  - destruct e as [|x t]; cbn [length] in L; [lia|].
    cbn [repeat app nth]. f_equal; [apply (H 0%nat); discriminate|].
    apply IH; [lia|]. intros c C. apply (H (S c)); congruence. Qed.

(* ---------- confined to eight consecutive bit positions => burst ---------- *)
Theorem confined8_burst : forall e k, bytes_ok e -> nonzero e -> confined8 e k -> burst e.
Proof.
  intros e k Hok [i0 Hi0] Hc.
  pose proof (Nat.div_mod k 8 ltac:(discriminate)) as Hk.
  pose proof (Nat.mod_upper_bound k 8 ltac:(discriminate)) as Hj.
  set (b := (k / 8)%nat) in *. set (j := (k mod 8)%nat) in *.
  set (x := nth b e 0). set (y := nth (S b) e 0).
  assert (Hx : x < 256) by (apply nth_ok, Hok). assert (Hy : y < 256) by (apply nth_ok, Hok).
  (* a clear bit, from confinement *)
  assert (Hclr : forall c m, (m < 8)%nat -> ~ (k <= 8 * c + m < k + 8)%nat ->
                 N.testbit (nth c e 0) (N.of_nat (7 - m)) = false).
  { intros c m Hm Hout. rewrite <- (ebit_at e c m Hm).
    destruct (ebit e (8 * c + m)) eqn:E; [|reflexivity]. exfalso. exact (Hout (Hc _ E)). }
  assert (F0 : forall c, c <> b -> c <> S b -> nth c e 0 = 0).
  { intros c C1 C2. apply byte_all_clear; [apply nth_ok, Hok|]. intros m Hm. apply Hclr; [exact Hm|]. lia. }
  assert (F1 : x < 2 ^ N.of_nat (8 - j)).
  { apply byte_top_clear; [lia|exact Hx|]. intros m Hm. apply Hclr; lia. }
  assert (F2 : y mod 2 ^ N.of_nat (8 - j) = 0).
  { apply byte_bottom_clear; [lia|exact Hy|]. intros m Hm. apply Hclr; lia. }
  (* the set bit lies in byte b or byte b+1 *)
  assert (NZ : x <> 0 \/ y <> 0).
  { pose proof (Hc i0 Hi0) as R.
    pose proof (Nat.div_mod i0 8 ltac:(discriminate)) as D.
    pose proof (Nat.mod_upper_bound i0 8 ltac:(discriminate)) as M.
    unfold ebit in Hi0.
    assert ((i0 / 8 = b)%nat \/ (i0 / 8 = S b)%nat) as [E|E] by lia; rewrite E in Hi0.
    - left. intro Z. fold x in Hi0. rewrite Z, N.bits_0 in Hi0. discriminate.
    - right. intro Z. fold y in Hi0. rewrite Z, N.bits_0 in Hi0. discriminate. }
  destruct (Nat.lt_ge_cases (S b) (length e)) as [L|L].
  - (* byte b+1 exists *)
    destruct (window_spec j x y Hj Hx Hy F1 F2) as (W1 & W2 & W3 & W4).
    left. exists b, (length e - b - 2)%nat, (window j x y), (N.of_nat j).
    split; [|split; [exact W1|split; [lia|]]].
    + destruct (N.eq_dec (window j x y) 0) as [Z|Z]; [|lia]. destruct (W4 Z) as [Zx Zy]. tauto.
    + rewrite W2, W3. apply shape2; assumption.
  - assert (Zy : y = 0) by (apply nth_overflow; lia).
    destruct NZ as [NZ|NZ]; [|contradiction].
    destruct (Nat.lt_ge_cases b (length e)) as [L'|L'].
    + (* the window starts in the last byte *)
      right. exists b, x. split; [lia|split; [exact Hx|]].
      apply shape1; [lia|]. intros c C. destruct (Nat.eq_dec c (S b)) as [->|C']; [exact Zy|]. apply F0; assumption.
    + exfalso. apply NZ. apply nth_overflow. lia.
Qed.

Theorem C02_confined_burst_never_accepted : forall p d e k, bytes_ok p -> decode_packet p = Val (inl d) ->
  bytes_ok e -> length e = length p -> nonzero e -> confined8 e k ->
  forall d', decode_packet (xorl p e) <> Val (inl d').
Proof. intros p d e k Hp Hd He Hl Hn Hc.
  exact (burst_never_accepted p e d Hp Hd Hl (confined8_burst e k He Hn Hc)). Qed.

Theorem C02_confined_burst_process_inert : forall ovf c p e k buf d, bytes_ok p -> decode_packet p = Val (inl d) ->
  bytes_ok e -> length e = length p -> nonzero e -> confined8 e k ->
  exists r, process_packet ovf c (xorl p e) buf = ((c, buf), r) /\ forall x, r <> Val (inl x).
Proof. intros ovf c p e k buf d Hp Hd He Hl Hn Hc.
  exact (burst_process_never_ok ovf c p e buf d Hp Hd Hl (confined8_burst e k He Hn Hc)). Qed.
