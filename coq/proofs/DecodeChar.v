(* DecodeChar.v — complete characterisation of the model's decoder decode_packet:
   closed forms of get_smbus_headers / get_mctp_control_packet / decode_packet, the panic classes (C10, decoder
   part), the exact non-panicking result (spec_decode), and the C09 oracle on the model. *)
Require Import Base Crc Bitfield Headers Encode Decode Process Ops Spec Judge.
Require Import BitfieldFacts HeaderFacts DecodeFacts Hist StepsSimple.
Open Scope N_scope.

(* ================================================================ slices and indices, by length *)
Lemma slice_val l a b : (a <= b)%nat -> (b <= length l)%nat -> slice l a b = Val (firstn (b - a) (skipn a l)).
Proof. intros H1 H2. unfold slice. apply Nat.leb_le in H1, H2. rewrite H1, H2. reflexivity. Qed.
Lemma slice_panic l a b : (b < a)%nat \/ (length l < b)%nat -> slice l a b = Panic PIndex.
Proof. intros H. unfold slice. destruct H as [H|H]; apply Nat.leb_gt in H; rewrite H;
  [reflexivity | rewrite andb_false_r; reflexivity]. Qed.
Lemma index_val l i : (i < length l)%nat -> index l i = Val (nth i l 0).
Proof. intros H. unfold index. rewrite (nth_error_nth' l 0 H). reflexivity. Qed.
Lemma index_panic l i : (length l <= i)%nat -> index l i = Panic PIndex.
Proof. intros H. unfold index. apply nth_error_None in H. rewrite H. reflexivity. Qed.
Lemma usub_val a b : (b <= a)%nat -> usub a b = Val (a - b)%nat.
Proof. intros H. unfold usub. apply Nat.leb_le in H. rewrite H. reflexivity. Qed.
Lemma slice_from_val l a : (a <= length l)%nat -> slice_from l a = Val (skipn a l).
Proof. intros H. unfold slice_from. apply Nat.leb_le in H. rewrite H. reflexivity. Qed.

Lemma nth_skip (l : list N) a k : nth k (skipn a l) 0 = nth (a + k) l 0.
Proof. revert l. induction a as [|a IH]; intros l; [reflexivity|].
  destruct l as [|x l]; [destruct k; reflexivity|]. cbn [skipn Nat.add nth]. apply IH. Qed.
Lemma nth_first (l : list N) m k : (k < m)%nat -> nth k (firstn m l) 0 = nth k l 0.
Proof. revert l k. induction m as [|m IH]; intros l k H; [lia|].
  destruct l as [|x l]; [reflexivity|]. destruct k as [|k]; [reflexivity|]. cbn [firstn nth]. apply IH. lia. Qed.
Lemma bytes_ok_fs l a m : bytes_ok l -> bytes_ok (firstn m (skipn a l)).
Proof. intros H. apply Forall_forall. intros x Hx. apply In_firstn_skipn in Hx. eapply bytes_ok_In; eauto. Qed.
Lemma bytes_ok_first l m : bytes_ok l -> bytes_ok (firstn m l).
Proof. intros H. apply (bytes_ok_fs l 0 m H). Qed.
Lemma bytes_ok_skip l a : bytes_ok l -> bytes_ok (skipn a l).
Proof. intros H. apply Forall_forall. intros x Hx. apply In_skipn in Hx. eapply bytes_ok_In; eauto. Qed.

(* ================================================================ finite sweeps as equations *)
Lemma sweep_eq (f g : N -> bool) :
  forallb (fun b => Bool.eqb (f b) (g b)) range256 = true -> forall b, b < 256 -> f b = g b.
Proof. intros H b Hb. apply eqb_prop. exact (sweep1 _ H b Hb). Qed.

Definition rn_eqb (a b : res nat) : bool :=
  match a, b with
  | Val x, Val y => Nat.eqb x y
  | Panic PUnimpl, Panic PUnimpl => true
  | _, _ => false
  end.
Lemma rn_eqb_eq a b : rn_eqb a b = true -> a = b.
Proof. destruct a as [x|j], b as [y|k]; cbn; try discriminate.
  - intros H. apply Nat.eqb_eq in H. subst. reflexivity.
  - destruct j; discriminate.
  - destruct j, k; try discriminate. reflexivity. Qed.

(* ================================================================ the header checks, on bytes *)
Lemma th_check_sweep b : b < 256 ->
  (negb (byte_get_spec th_rsvd b =? 0) || negb (byte_get_spec th_hdr_version b =? 1)) = negb (b =? 1).
Proof. revert b. apply sweep_eq. vm_compute. reflexivity. Qed.

Lemma transport_closed th : bytes_ok th ->
  transport_new_from_buf th 1 = if nth 0 th 0 =? 1 then Some th else None.
Proof.
  intros Hok. unfold transport_new_from_buf.
  rewrite (get_field_closed th_rsvd) by (try exact Hok; cbn; tauto).
  rewrite (get_field_closed th_hdr_version) by (try exact Hok; cbn; tauto).
  change (f_byte th_rsvd) with 0%nat. change (f_byte th_hdr_version) with 0%nat.
  pose proof (th_check_sweep (nth 0 th 0) (nth_ok th 0 Hok)) as S.
  destruct (negb (byte_get_spec th_rsvd (nth 0 th 0) =? 0)); cbn [orb] in S.
  - destruct (nth 0 th 0 =? 1); [discriminate|reflexivity].
  - rewrite S. destruct (nth 0 th 0 =? 1); reflexivity.
Qed.

Lemma bh_check_sweep b : b < 256 ->
  (negb (get_field bh_ic [b] =? 0) || msg_type_eqb (msg_type_from_u8 (get_field bh_msg_type [b])) MInvalid)
  = negb (supported_type b).
Proof. revert b. apply sweep_eq. vm_compute. reflexivity. Qed.

Lemma body_closed b : b < 256 ->
  body_header_new_from_buf [b] = if supported_type b then Some [b] else None.
Proof.
  intros Hb. unfold body_header_new_from_buf. pose proof (bh_check_sweep b Hb) as S.
  destruct (negb (get_field bh_ic [b] =? 0)); cbn [orb] in S.
  - destruct (supported_type b); [discriminate|reflexivity].
  - rewrite S. destruct (supported_type b); reflexivity.
Qed.

Lemma supported_cases b : supported_type b = true -> b = 0 \/ b = 5 \/ b = 6 \/ b = 126 \/ b = 127.
Proof. unfold supported_type. intros H. repeat (apply orb_true_iff in H; destruct H as [H|H]);
  apply N.eqb_eq in H; tauto. Qed.

Lemma bh_type_closed b : supported_type b = true ->
  msg_type_from_u8 (get_field bh_msg_type [b]) = msg_type_from_u8 b.
Proof. intros H. apply supported_cases in H. destruct H as [->|[->|[->|[->| ->]]]]; vm_compute; reflexivity. Qed.

Lemma rq_sweep b : b < 256 ->
  (byte_get_spec ch_rq b =? 1) = (128 <=? b).
Proof. revert b. apply sweep_eq. vm_compute. reflexivity. Qed.
Lemma rq0_sweep b : b < 256 ->
  (byte_get_spec ch_rq b =? 0) = negb (128 <=? b).
Proof. revert b. apply sweep_eq. vm_compute. reflexivity. Qed.

Lemma rq1_closed chb : bytes_ok chb -> (get_field ch_rq chb =? 1) = (128 <=? nth 0 chb 0).
Proof. intros Hok. rewrite (get_field_closed ch_rq) by (try exact Hok; cbn; tauto).
  change (f_byte ch_rq) with 0%nat. apply rq_sweep, nth_ok, Hok. Qed.
Lemma rq0_closed chb : bytes_ok chb -> (get_field ch_rq chb =? 0) = negb (128 <=? nth 0 chb 0).
Proof. intros Hok. rewrite (get_field_closed ch_rq) by (try exact Hok; cbn; tauto).
  change (f_byte ch_rq) with 0%nat. apply rq0_sweep, nth_ok, Hok. Qed.
Lemma cmd_closed chb : bytes_ok chb -> get_field ch_command_code chb = nth 1 chb 0.
Proof. intros Hok. rewrite (get_whole_byte ch_command_code) by (try exact Hok; cbn; tauto || reflexivity).
  reflexivity. Qed.

(* ================================================================ the model's length tables, totalised *)
Definition model_req_len (cmd : N) : nat :=
  match cmd with 1 => 2%nat | 4 => 1%nat | 6 => 1%nat | 7 => 1%nat | 8 => 3%nat | _ => 0%nat end.
Definition model_resp_len (cmd : N) : nat :=
  match cmd with 1 => 3%nat | 2 => 4%nat | 3 => 16%nat | 4 => 5%nat | 8 => 4%nat | 9 => 1%nat | _ => 0%nat end.

Lemma req_table cmd : cmd < 256 ->
  get_request_data_len cmd = if 9 <=? cmd then Panic PUnimpl else Val (model_req_len cmd).
Proof. intros H. apply rn_eqb_eq. revert cmd H. apply sweep1. vm_compute. reflexivity. Qed.
Lemma resp_table cmd : cmd < 256 ->
  get_response_data_len cmd = if (cmd =? 7) || (10 <=? cmd) then Panic PUnimpl else Val (model_resp_len cmd).
Proof. intros H. apply rn_eqb_eq. revert cmd H. apply sweep1. vm_compute. reflexivity. Qed.
Lemma model_req_len_spec cmd : model_req_len cmd = req_fixed_len cmd.
Proof. reflexivity. Qed.
Lemma model_resp_len_spec cmd : cmd < 256 -> ((cmd =? 2) || (cmd =? 8) || (cmd =? 9)) = false ->
  model_resp_len cmd = resp_fixed_len cmd.
Proof. intros H E.
  assert (S : ((cmd =? 2) || (cmd =? 8) || (cmd =? 9)) || (model_resp_len cmd =? resp_fixed_len cmd)%nat = true).
  { revert cmd H E. intros cmd H _. revert cmd H. apply sweep1. vm_compute. reflexivity. }
  rewrite E in S. cbn [orb] in S. apply Nat.eqb_eq. exact S. Qed.
(* ================================================================ get_smbus_headers *)
Definition gsh_closed_form (p : list N) : rr headers :=
  if (length p <? 8)%nat then Panic PIndex
  else if negb (nth 4 p 0 =? 1) then err MInvalid DUnknown
  else if (length p <? 9)%nat then Panic PIndex
  else if supported_type (nth 8 p 0) then ok (firstn 4 p, firstn 4 (skipn 4 p), [nth 8 p 0])
  else err MInvalid DUnknown.

Lemma gsh_closed p : bytes_ok p -> get_smbus_headers p = gsh_closed_form p.
Proof.
  intros Hok. unfold get_smbus_headers, gsh_closed_form.
  destruct (Nat.ltb_spec (length p) 8) as [L8|L8].
  - destruct (Nat.le_gt_cases 4 (length p)) as [L4|L4].
    + rewrite (slice_val p 0 4) by lia. cbn [rlift rbind]. rewrite (slice_panic p 4 8) by lia. reflexivity.
    + rewrite (slice_panic p 0 4) by lia. reflexivity.
  - rewrite (slice_val p 0 4) by lia. rewrite (slice_val p 4 8) by lia. cbn [rlift rbind].
    change (8 - 4)%nat with 4%nat. change (4 - 0)%nat with 4%nat. change (skipn 0 p) with p.
    rewrite transport_closed by (apply bytes_ok_fs, Hok).
    rewrite (nth_first _ 4 0) by lia. rewrite nth_skip. change (4 + 0)%nat with 4%nat.
    destruct (nth 4 p 0 =? 1); cbn [negb]; [|reflexivity].
    destruct (Nat.ltb_spec (length p) 9) as [L9|L9].
    + rewrite index_panic by lia. reflexivity.
    + rewrite index_val by lia. cbn [rlift rbind].
      rewrite body_closed by (apply nth_ok, Hok).
      destruct (supported_type (nth 8 p 0)); reflexivity.
Qed.

(* ================================================================ get_mctp_control_packet *)
Definition gm_tail (q : list N) (c : N) (chb : list N) (off : nat) (cc : option N) (addl : nat) : rr control_raw :=
  if (length q - 1 <? off)%nat then Panic PIndex
  else if negb (nth (length q - 1) q 0 =? c) then err MCtpControl (DControlMessage CEInvalidPEC)
  else if (0 <? addl)%nat && negb (length q - 1 - off =? addl)%nat
       then err MCtpControl (DControlMessage CEInvalidRequestDataLength)
  else ok {| cr_header := chb; cr_cc := cc; cr_off := off;
             cr_data := firstn (length q - 1 - off) (skipn off q) |}.

Definition gm_closed_form (q : list N) (c : N) : rr control_raw :=
  if (length q <? 2)%nat then Panic PIndex
  else if 128 <=? nth 0 q 0 then
    match get_request_data_len (nth 1 q 0) with
    | Panic k => Panic k
    | Val n => gm_tail q c (firstn 2 q) 2 None n
    end
  else if (length q <? 3)%nat then Panic PIndex
  else if negb (nth 2 q 0 =? 0) then
    (if nth 2 q 0 <=? 5
     then err MCtpControl (DControlMessage (CEUnsuccessfulCompletionCode (nth 2 q 0)))
     else Panic PUnreach)
  else
    match get_response_data_len (nth 1 q 0) with
    | Panic k => Panic k
    | Val n => gm_tail q c (firstn 2 q) 3 (Some 0) n
    end.

(* the common tail of get_mctp_control_packet *)
Lemma gm_tail_closed q c chb off cc addl : (2 <= length q)%nat -> (off <= 3)%nat ->
  (plen <-- rlift (usub (length q) 1) ;;
   data <-- rlift (slice q off plen) ;;
   pc <-- rlift (index q plen) ;;
   if negb (pc =? c) then err MCtpControl (DControlMessage CEInvalidPEC)
   else if (0 <? addl)%nat && negb (length data =? addl)%nat then
     err MCtpControl (DControlMessage CEInvalidRequestDataLength)
   else
     _ <-- rlift (slice q 0 off) ;;
     ok {| cr_header := chb; cr_cc := cc; cr_off := off; cr_data := data |})
  = gm_tail q c chb off cc addl.
Proof.
  intros L2 Loff. unfold gm_tail. rewrite usub_val by lia. cbn [rlift rbind].
  destruct (Nat.ltb_spec (length q - 1) off) as [Lo|Lo].
  - rewrite slice_panic by lia. reflexivity.
  - rewrite slice_val by lia. cbn [rlift rbind]. rewrite index_val by lia. cbn [rlift rbind].
    destruct (negb (nth (length q - 1) q 0 =? c)); [reflexivity|].
    rewrite firstn_length, skipn_length.
    replace (Init.Nat.min (length q - 1 - off) (length q - off)) with (length q - 1 - off)%nat by lia.
    destruct ((0 <? addl)%nat && negb (length q - 1 - off =? addl)%nat); [reflexivity|].
    rewrite slice_val by lia. reflexivity.
Qed.

Lemma gm_closed q c : bytes_ok q -> get_mctp_control_packet q c = gm_closed_form q c.
Proof.
  intros Hok. unfold get_mctp_control_packet, gm_closed_form.
  destruct (Nat.ltb_spec (length q) 2) as [L2|L2].
  - rewrite slice_panic by lia. reflexivity.
  - rewrite (slice_val q 0 2) by lia. cbn [rlift rbind].
    change (2 - 0)%nat with 2%nat. change (skipn 0 q) with q.
    assert (Hc : bytes_ok (firstn 2 q)) by (apply bytes_ok_first, Hok).
    rewrite (rq1_closed _ Hc), (rq0_closed _ Hc), (cmd_closed _ Hc).
    rewrite (nth_first q 2 0) by lia. rewrite (nth_first q 2 1) by lia.
    destruct (128 <=? nth 0 q 0); cbn [negb].
    + destruct (get_request_data_len (nth 1 q 0)) as [n|k]; cbn [rlift rbind ok]; [|reflexivity].
      apply gm_tail_closed; lia.
    + destruct (Nat.ltb_spec (length q) 3) as [L3|L3].
      * rewrite index_panic by lia. reflexivity.
      * rewrite index_val by lia. cbn [rlift rbind].
        destruct (nth 2 q 0 =? 0) eqn:E0; cbn [negb].
        -- apply N.eqb_eq in E0. rewrite E0. unfold cc_from_u8. cbn [N.leb N.compare rlift rbind].
           destruct (get_response_data_len (nth 1 q 0)) as [n|k]; cbn [rlift rbind ok]; [|reflexivity].
           apply gm_tail_closed; lia.
        -- unfold cc_from_u8. destruct (nth 2 q 0 <=? 5); reflexivity.
Qed.

(* ================================================================ decode_packet, in the vocabulary of Spec.v *)
Lemma slice_abl p : (1 <= length p)%nat -> slice p 0 (length p - 1) = Val (all_but_last p).
Proof. intros H. rewrite slice_val by lia. unfold all_but_last. rewrite Nat.sub_0_r. reflexivity. Qed.
Lemma index_last p : (1 <= length p)%nat -> index p (length p - 1) = Val (last_byte p).
Proof. intros H. rewrite index_val by lia. reflexivity. Qed.

(* the four non-control arms *)
Definition vendor_closed_form (p : list N) (mt : msg_type) : rr decoded :=
  if negb (pec_good p) then err mt (DControlMessage CEInvalidPEC)
  else if (length p <? 10)%nat then Panic PIndex
  else ok (mt, (9%nat, (length p - 10)%nat)).

Lemma vendor_closed p mt : (1 <= length p)%nat ->
  decode_vendor_arm p (pec (all_but_last p)) mt = vendor_closed_form p mt.
Proof.
  intros L. unfold decode_vendor_arm, vendor_closed_form, pec_good.
  rewrite usub_val by lia. cbn [rlift rbind]. rewrite index_last by lia. cbn [rlift rbind].
  destruct (negb (last_byte p =? pec (all_but_last p))); [reflexivity|].
  destruct (Nat.ltb_spec (length p) 10) as [L10|L10].
  - rewrite slice_panic by lia. reflexivity.
  - rewrite slice_val by lia. cbn [rlift rbind]. rewrite firstn_length, skipn_length.
    replace (Init.Nat.min (length p - 1 - 9) (length p - 9)) with (length p - 10)%nat by lia. reflexivity.
Qed.

(* the control arm *)
Definition ctl_tail (p : list N) (off : nat) (addl : nat) : rr decoded :=
  if (length p - 10 <? off)%nat then Panic PIndex
  else if negb (pec_good p) then err MCtpControl (DControlMessage CEInvalidPEC)
  else if (0 <? addl)%nat && negb (length p - 10 - off =? addl)%nat
       then err MCtpControl (DControlMessage CEInvalidRequestDataLength)
  else ok (MCtpControl, ((9 + off)%nat, (length p - 10 - off)%nat)).

Definition ctl_closed_form (p : list N) : rr decoded :=
  if (length p <? 11)%nat then Panic PIndex
  else if is_request p then
    (if 9 <=? ctl_cmd p then Panic PUnimpl else ctl_tail p 2 (model_req_len (ctl_cmd p)))
  else if (length p <? 12)%nat then Panic PIndex
  else if negb (ctl_cc p =? 0) then
    (if ctl_cc p <=? 5
     then err MCtpControl (DControlMessage (CEUnsuccessfulCompletionCode (ctl_cc p)))
     else Panic PUnreach)
  else if (ctl_cmd p =? 7) || (10 <=? ctl_cmd p) then Panic PUnimpl
  else ctl_tail p 3 (model_resp_len (ctl_cmd p)).

Lemma ctl_tail_closed p chb off cc addl : (11 <= length p)%nat ->
  (cr <-- gm_tail (skipn 9 p) (pec (all_but_last p)) chb off cc addl ;;
   ok (MCtpControl, ((9 + cr_off cr)%nat, length (cr_data cr))))
  = ctl_tail p off addl.
Proof.
  intros L. unfold gm_tail, ctl_tail, pec_good, last_byte. rewrite skipn_length, nth_skip.
  replace (length p - 9 - 1)%nat with (length p - 10)%nat by lia.
  replace (9 + (length p - 10))%nat with (length p - 1)%nat by lia.
  destruct (Nat.ltb_spec (length p - 10) off) as [Lo|Lo]; [reflexivity|].
  destruct (negb (nth (length p - 1) p 0 =? pec (all_but_last p))); [reflexivity|].
  destruct ((0 <? addl)%nat && negb (length p - 10 - off =? addl)%nat); [reflexivity|].
  cbn [rbind ok cr_off cr_data]. rewrite firstn_length, skipn_length, skipn_length.
  replace (Init.Nat.min (length p - 10 - off) (length p - 9 - off)) with (length p - 10 - off)%nat by lia.
  reflexivity.
Qed.

Lemma ctl_closed p : bytes_ok p -> (9 <= length p)%nat ->
  decode_mctp_control p (pec (all_but_last p)) = ctl_closed_form p.
Proof.
  intros Hok L. unfold decode_mctp_control, ctl_closed_form.
  rewrite slice_from_val by lia. cbn [rlift rbind].
  rewrite gm_closed by (apply bytes_ok_skip, Hok). unfold gm_closed_form.
  rewrite skipn_length, !nth_skip.
  change (9 + 0)%nat with 9%nat. change (9 + 1)%nat with 10%nat. change (9 + 2)%nat with 11%nat.
  fold (ctl_cmd p). fold (ctl_cc p). fold (is_request p).
  destruct (Nat.ltb_spec (length p) 11) as [L11|L11].
  - replace (length p - 9 <? 2)%nat with true by (symmetry; apply Nat.ltb_lt; lia). reflexivity.
  - replace (length p - 9 <? 2)%nat with false by (symmetry; apply Nat.ltb_ge; lia).
    assert (Hcmd : ctl_cmd p < 256) by (apply nth_ok, Hok).
    destruct (is_request p).
    + rewrite (req_table _ Hcmd). destruct (9 <=? ctl_cmd p); [reflexivity|].
      apply ctl_tail_closed; lia.
    + destruct (Nat.ltb_spec (length p) 12) as [L12|L12].
      * replace (length p - 9 <? 3)%nat with true by (symmetry; apply Nat.ltb_lt; lia). reflexivity.
      * replace (length p - 9 <? 3)%nat with false by (symmetry; apply Nat.ltb_ge; lia).
        destruct (negb (ctl_cc p =? 0)).
        -- destruct (ctl_cc p <=? 5); reflexivity.
        -- rewrite (resp_table _ Hcmd). destruct ((ctl_cmd p =? 7) || (10 <=? ctl_cmd p)); [reflexivity|].
           apply ctl_tail_closed; lia.
Qed.

(* the whole decoder *)
Definition decode_closed_form (p : list N) : rr decoded :=
  if (length p <? 8)%nat then Panic PIndex
  else if negb (nth 4 p 0 =? 1) then err MInvalid DUnknown
  else if (length p <? 9)%nat then Panic PIndex
  else if negb (supported_type (nth 8 p 0)) then err MInvalid DUnknown
  else if nth 8 p 0 =? 0 then ctl_closed_form p
  else vendor_closed_form p (msg_type_from_u8 (nth 8 p 0)).

Theorem decode_closed p : bytes_ok p -> decode_packet p = decode_closed_form p.
Proof.
  intros Hok. unfold decode_packet, decode_closed_form. rewrite (gsh_closed p Hok). unfold gsh_closed_form.
  destruct (length p <? 8)%nat; [reflexivity|].
  destruct (negb (nth 4 p 0 =? 1)); [reflexivity|].
  destruct (Nat.ltb_spec (length p) 9) as [L9|L9]; [reflexivity|].
  destruct (supported_type (nth 8 p 0)) eqn:Es; cbn [negb]; [|reflexivity].
  cbn [ok rbind]. rewrite usub_val by lia. cbn [rlift rbind]. rewrite slice_abl by lia. cbn [rlift rbind].
  rewrite (bh_type_closed _ Es).
  destruct (supported_cases _ Es) as [E|[E|[E|[E|E]]]]; rewrite E; cbn [msg_type_from_u8 N.eqb Pos.eqb].
  - apply ctl_closed; assumption.
  - apply vendor_closed; lia.
  - apply vendor_closed; lia.
  - apply vendor_closed; lia.
  - apply vendor_closed; lia.
Qed.

(* ================================================================ the flat decision procedure *)
Definition e_pec (mt : msg_type) : decoded + derror := inr (mt, DControlMessage CEInvalidPEC).
Definition e_len : decoded + derror := inr (MCtpControl, DControlMessage CEInvalidRequestDataLength).

Definition spec_decode (p : list N) : decoded + derror :=
  if negb (header_ok p) then inr (MInvalid, DUnknown)
  else if negb (nth 8 p 0 =? 0) then
    (* SPDM, secured messages, vendor defined PCI / IANA *)
    let mt := msg_type_from_u8 (nth 8 p 0) in
    if negb (pec_good p) then e_pec mt
    else inl (mt, (9%nat, (length p - 10)%nat))
  else if is_request p then
    if negb (pec_good p) then e_pec MCtpControl
    else if negb (len_ok (model_req_len (ctl_cmd p)) (length p - 12)) then e_len
    else inl (MCtpControl, (11%nat, (length p - 12)%nat))
  else
    if negb (ctl_cc p =? 0)
    then inr (MCtpControl, DControlMessage (CEUnsuccessfulCompletionCode (ctl_cc p)))
    else if negb (pec_good p) then e_pec MCtpControl
    else if negb (len_ok (model_resp_len (ctl_cmd p)) (length p - 13)) then e_len
    else inl (MCtpControl, (12%nat, (length p - 13)%nat)).

Lemma len_test n a : ((0 <? n)%nat && negb (a =? n)%nat) = negb (len_ok n a).
Proof. unfold len_ok. destruct n as [|n]; [reflexivity|]. cbn [Nat.ltb Nat.leb Nat.eqb andb orb]. reflexivity. Qed.

Lemma ctl_tail_short p off n : (length p - 10 < off)%nat -> ctl_tail p off n = Panic PIndex.
Proof. intros H. unfold ctl_tail. apply Nat.ltb_lt in H. rewrite H. reflexivity. Qed.
Lemma ctl_tail_req p n : (12 <= length p)%nat ->
  ctl_tail p 2 n = Val (if negb (pec_good p) then e_pec MCtpControl
                        else if negb (len_ok n (length p - 12)) then e_len
                        else inl (MCtpControl, (11%nat, (length p - 12)%nat))).
Proof. intros H. unfold ctl_tail. replace (length p - 10 <? 2)%nat with false by (symmetry; apply Nat.ltb_ge; lia).
  replace (length p - 10 - 2)%nat with (length p - 12)%nat by lia. rewrite len_test. change (9 + 2)%nat with 11%nat.
  destruct (negb (pec_good p)); [reflexivity|]. destruct (negb (len_ok n (length p - 12))); reflexivity. Qed.
Lemma ctl_tail_resp p n : (13 <= length p)%nat ->
  ctl_tail p 3 n = Val (if negb (pec_good p) then e_pec MCtpControl
                        else if negb (len_ok n (length p - 13)) then e_len
                        else inl (MCtpControl, (12%nat, (length p - 13)%nat))).
Proof. intros H. unfold ctl_tail. replace (length p - 10 <? 3)%nat with false by (symmetry; apply Nat.ltb_ge; lia).
  replace (length p - 10 - 3)%nat with (length p - 13)%nat by lia. rewrite len_test. change (9 + 3)%nat with 12%nat.
  destruct (negb (pec_good p)); [reflexivity|]. destruct (negb (len_ok n (length p - 13))); reflexivity. Qed.

(* decide every length test that the context settles *)
Ltac dn := repeat match goal with
  | |- context [(?a <? ?b)%nat] =>
      first [ replace (a <? b)%nat with true by (symmetry; apply Nat.ltb_lt; lia)
            | replace (a <? b)%nat with false by (symmetry; apply Nat.ltb_ge; lia) ]
  | |- context [(?a =? ?b)%nat] =>
      first [ replace (a =? b)%nat with true by (symmetry; apply Nat.eqb_eq; lia)
            | replace (a =? b)%nat with false by (symmetry; apply Nat.eqb_neq; lia) ]
  end.
Ltac fin := cbn [negb andb orb];
  first [ left; split; reflexivity | right; split; [discriminate | eexists; reflexivity] ].

(* the characterisation: on every input the closed form either is the flat procedure's answer, and the class
   is 0, or is a panic, and the class is not 0 *)
Lemma closed_form_char p :
  (decode_panic_class p = 0 /\ decode_closed_form p = Val (spec_decode p)) \/
  (decode_panic_class p <> 0 /\ exists k, decode_closed_form p = Panic k).
Proof.
  unfold decode_closed_form, decode_panic_class, spec_decode, header_ok.
  assert (Hl : (length p < 8 \/ length p = 8 \/ length p = 9 \/ length p = 10 \/ length p = 11 \/
                length p = 12 \/ 13 <= length p)%nat) by lia.
  destruct (nth 4 p 0 =? 1) eqn:E4; cbn [negb andb orb].
  2:{ destruct (Nat.ltb_spec (length p) 8) as [L|L]; cbn [orb]; [fin|].
      destruct (length p =? 8)%nat; cbn [andb]; fin. }
  destruct (supported_type (nth 8 p 0)) eqn:Es; cbn [negb andb orb].
  2:{ destruct Hl as [L|[L|L]]; dn; fin. }
  destruct (nth 8 p 0 =? 0) eqn:E8; cbn [negb andb orb].
  2:{ unfold vendor_closed_form.
      destruct (pec_good p); cbn [negb andb];
      destruct Hl as [L|[L|[L|L]]]; dn; fin. }
  unfold ctl_closed_form.
  destruct Hl as [L|[L|[L|[L|L]]]]; dn; try fin.
  rewrite N.ltb_antisym.
  destruct (is_request p).
  - destruct (9 <=? ctl_cmd p); [destruct L as [L|[L|L]]; dn; fin|].
    destruct L as [L|L].
    + dn. rewrite ctl_tail_short by lia. fin.
    + assert (L12 : (12 <= length p)%nat) by lia. dn. rewrite ctl_tail_req by lia. fin.
  - destruct L as [L|L]; [dn; fin|].
    assert (L12 : (12 <= length p)%nat) by lia. dn.
    destruct (ctl_cc p =? 0); cbn [negb].
    + destruct ((ctl_cmd p =? 7) || (10 <=? ctl_cmd p)); [fin|].
      destruct L as [L|L].
      * dn. rewrite ctl_tail_short by lia. fin.
      * dn. rewrite ctl_tail_resp by lia. fin.
    + destruct (ctl_cc p <=? 5); fin.
Qed.

Theorem decode_char p : bytes_ok p ->
  (decode_panic_class p = 0 /\ decode_packet p = Val (spec_decode p)) \/
  (decode_panic_class p <> 0 /\ exists k, decode_packet p = Panic k).
Proof. intros Hok. rewrite (decode_closed p Hok). apply closed_form_char. Qed.

Theorem decode_panics_iff : forall p, bytes_ok p ->
  (is_panic (decode_packet p) = true <-> decode_panic_class p <> 0).
Proof.
  intros p Hok. destruct (decode_char p Hok) as [[Hc Hd]|[Hc [k Hd]]]; rewrite Hd; cbn [is_panic]; split.
  - discriminate.
  - intros H. contradiction.
  - intros _. exact Hc.
  - reflexivity.
Qed.

(* no length hypothesis is needed: class 0 already excludes everything shorter than 8 bytes, and covers the
   8-byte inputs whose byte 4 is not 1 (rejected as (Invalid, Unknown)) *)
Theorem decode_exact_all : forall p, bytes_ok p -> decode_panic_class p = 0 ->
  decode_packet p = Val (spec_decode p).
Proof. intros p Hok Hc. destruct (decode_char p Hok) as [[_ Hd]|[Hn _]]; [exact Hd|contradiction]. Qed.

Theorem decode_exact : forall p, bytes_ok p -> decode_panic_class p = 0 -> (9 <= length p)%nat ->
  decode_packet p = Val (spec_decode p).
Proof. intros p Hok Hc _. apply decode_exact_all; assumption. Qed.

Theorem decode_len8 : forall p, bytes_ok p -> length p = 8%nat -> nth 4 p 0 <> 1 ->
  decode_panic_class p = 0 /\ decode_packet p = Val (inr (MInvalid, DUnknown)).
Proof.
  intros p Hok L H4. apply N.eqb_neq in H4.
  assert (Hc : decode_panic_class p = 0).
  { unfold decode_panic_class. rewrite L, H4. reflexivity. }
  split; [exact Hc|]. rewrite (decode_exact_all p Hok Hc). unfold spec_decode, header_ok. rewrite H4. reflexivity.
Qed.

(* ================================================================ C09: the oracle on the model *)
Definition c09_body (p : list N) (r : decoded + derror) : bool :=
  match r with
  | inl (mt, (off, len)) =>
      wf_packet p && (msg_type_to_u8 mt =? nth 8 p 0) && (off =? hdr_len p)%nat && (len =? payload_len p)%nat
  | inr e => negb (wf_packet p) && truthful p e
  end.

Lemma hdr_len_vendor p : (nth 8 p 0 =? 0) = false -> hdr_len p = 9%nat.
Proof. intros E. unfold hdr_len. rewrite E. reflexivity. Qed.
Lemma hdr_len_req p : (nth 8 p 0 =? 0) = true -> is_request p = true -> hdr_len p = 11%nat.
Proof. intros E R. unfold hdr_len. rewrite E, R. reflexivity. Qed.
Lemma hdr_len_resp p : (nth 8 p 0 =? 0) = true -> is_request p = false -> hdr_len p = 12%nat.
Proof. intros E R. unfold hdr_len. rewrite E, R. reflexivity. Qed.
Lemma payload_len_vendor p : (nth 8 p 0 =? 0) = false -> payload_len p = (length p - 10)%nat.
Proof. intros E. unfold payload_len. rewrite (hdr_len_vendor p E). lia. Qed.
Lemma payload_len_req p : (nth 8 p 0 =? 0) = true -> is_request p = true -> payload_len p = (length p - 12)%nat.
Proof. intros E R. unfold payload_len. rewrite (hdr_len_req p E R). lia. Qed.
Lemma payload_len_resp p : (nth 8 p 0 =? 0) = true -> is_request p = false -> payload_len p = (length p - 13)%nat.
Proof. intros E R. unfold payload_len. rewrite (hdr_len_resp p E R). lia. Qed.

Lemma c09_core p : bytes_ok p -> c09_excluded_response p = false -> c09_body p (spec_decode p) = true.
Proof.
  intros Hok Hex. unfold spec_decode.
  destruct (header_ok p) eqn:Hh; cbn [negb].
  2:{ unfold c09_body, wf_packet, truthful. rewrite Hh. reflexivity. }
  assert (Hs : supported_type (nth 8 p 0) = true).
  { unfold header_ok in Hh. apply andb_true_iff in Hh. tauto. }
  destruct (nth 8 p 0 =? 0) eqn:E8; cbn [negb].
  2:{ assert (Hm : (msg_type_to_u8 (msg_type_from_u8 (nth 8 p 0)) =? nth 8 p 0) = true).
      { destruct (supported_cases _ Hs) as [E|[E|[E|[E|E]]]]; rewrite E; reflexivity. }
      cbv zeta.
      destruct (pec_good p) eqn:Hp; cbn [negb]; unfold c09_body, e_pec, wf_packet, truthful.
      - rewrite Hh, Hp, E8, Hm, (hdr_len_vendor p E8), (payload_len_vendor p E8), !Nat.eqb_refl. reflexivity.
      - rewrite Hh, Hp, Hm. reflexivity. }
  assert (E8' : nth 8 p 0 = 0) by (apply N.eqb_eq; exact E8).
  assert (Hcmd : ctl_cmd p < 256) by (apply nth_ok, Hok).
  destruct (is_request p) eqn:Hr.
  - (* request *)
    destruct (pec_good p) eqn:Hp; cbn [negb].
    + rewrite model_req_len_spec.
      destruct (len_ok (req_fixed_len (ctl_cmd p)) (length p - 12)) eqn:Hlen; cbn [negb];
        unfold c09_body, e_len, wf_packet, truthful;
        rewrite Hh, Hp, E8, Hr, ?(hdr_len_req p E8 Hr), (payload_len_req p E8 Hr), Hlen, ?E8', ?Nat.eqb_refl; reflexivity.
    + unfold c09_body, e_pec, wf_packet, truthful. rewrite Hh, Hp, E8'. reflexivity.
  - (* response *)
    unfold c09_excluded_response in Hex. rewrite E8, Hr in Hex. cbn [andb negb] in Hex.
    rewrite (model_resp_len_spec _ Hcmd Hex).
    destruct (ctl_cc p =? 0) eqn:Hcc; cbn [negb].
    + destruct (pec_good p) eqn:Hp; cbn [negb].
      * destruct (len_ok (resp_fixed_len (ctl_cmd p)) (length p - 13)) eqn:Hlen; cbn [negb];
          unfold c09_body, e_len, wf_packet, truthful;
          rewrite Hh, Hp, E8, Hr, Hcc, ?(hdr_len_resp p E8 Hr), (payload_len_resp p E8 Hr), Hlen, ?E8', ?Nat.eqb_refl; reflexivity.
      * unfold c09_body, e_pec, wf_packet, truthful. rewrite Hh, Hp, E8'. reflexivity.
    + unfold c09_body, wf_packet, truthful. rewrite Hh, E8, Hr, Hcc, N.eqb_refl.
      cbn [andb negb msg_type_eqb msg_type_to_u8]. rewrite !andb_false_r. reflexivity.
Qed.

Lemma c09_obs p r :
  match XDecode r with
  | XDecode (inl (mt, (off, len))) =>
      wf_packet p && (msg_type_to_u8 mt =? nth 8 p 0) && (off =? hdr_len p)%nat && (len =? payload_len p)%nat
  | XDecode (inr e) => negb (wf_packet p) && truthful p e
  | _ => false
  end = c09_body p r.
Proof. destruct r as [[mt [off len]]|e]; reflexivity. Qed.

Lemma c09_step_ok ovf c o : wf_op o -> good (c09_step o (snd (step ovf c o))) = true.
Proof.
  intros Hw. destruct o; try apply good_triv. cbn in Hw.
  cbn [step snd c09_step].
  destruct ((length pkt <? 9)%nat || c09_excluded_response pkt) eqn:Ex; [apply good_triv|].
  apply orb_false_iff in Ex as [_ Ex].
  cbv zeta. destruct (decode_panic_class pkt =? 0) eqn:Ek; cbn [negb]; [|apply good_triv].
  apply N.eqb_eq in Ek. rewrite (decode_exact_all pkt Hw Ek).
  apply good_of. rewrite c09_obs. apply c09_core; assumption.
Qed.

Theorem c09_holds : holds_on_model 9.
Proof. apply holds_from_step. intros ovf g s c o _ _ _ Hw. cbn [oracle_of obs3_of fst]. apply c09_step_ok, Hw. Qed.

(* in the claim of C09 the decoder accepts exactly the well-formed packets *)
Definition accepts (r : rr decoded) : bool := match r with Val (inl _) => true | _ => false end.
Theorem decode_accepts_iff_wf : forall p, bytes_ok p -> (9 <= length p)%nat ->
  c09_excluded_response p = false -> decode_panic_class p = 0 ->
  (accepts (decode_packet p) = true <-> wf_packet p = true).
Proof.
  intros p Hok _ Hex Hc. rewrite (decode_exact_all p Hok Hc). pose proof (c09_core p Hok Hex) as B.
  unfold accepts. destruct (spec_decode p) as [[mt [off len]]|e]; cbn [c09_body] in B.
  - split; [intros _|reflexivity]. destruct (wf_packet p); [reflexivity|discriminate].
  - split; [discriminate|]. intros W. rewrite W in B. discriminate.
Qed.

(* ================================================================ C10: decoder and length probe *)
Lemma c10_decode_step ovf g c p : bytes_ok p -> good (c10_step ovf g (ODecode p) (snd (step ovf c (ODecode p)))) = true.
Proof.
  intros Hok. cbn [step snd c10_step]. unfold good, sv_kf; cbn [s_o s_kf].
  destruct (decode_char p Hok) as [[Hc Hd]|[Hc [k Hd]]]; rewrite Hd.
  - reflexivity.
  - apply N.eqb_neq in Hc. rewrite Hc. apply orb_true_r.
Qed.

Lemma get_length_no_panic p : bytes_ok p -> is_panic (get_length p) = false.
Proof. intros Hok. rewrite (get_length_closed p Hok).
  destruct (length p <? 3)%nat; [reflexivity|]. destruct (nth 1 p 0 =? 15); reflexivity. Qed.

Lemma c10_getlen_step ovf g c p : bytes_ok p -> good (c10_step ovf g (OGetLength p) (snd (step ovf c (OGetLength p)))) = true.
Proof.
  intros Hok. cbn [step snd c10_step]. pose proof (get_length_no_panic p Hok) as H.
  destruct (get_length p); [reflexivity|discriminate].
Qed.

Theorem c10_decode_ok : forall ovf g c o, wf_op o ->
  (exists p, o = ODecode p) \/ (exists p, o = OGetLength p) ->
  good (c10_step ovf g o (snd (step ovf c o))) = true.
Proof.
  intros ovf g c o Hw [[p ->]|[p ->]]; cbn in Hw.
  - apply c10_decode_step, Hw.
  - apply c10_getlen_step, Hw.
Qed.
