(* CrcFacts.v — the PEC is the remainder of M(x)*x^8 modulo x^8+x^2+x+1; linearity; burst detection. *)
Require Import Base Crc.
Open Scope N_scope.

Lemma U_lt x : x < 256 -> U x < 256.
Proof. intros H. apply N.ltb_lt. revert x H. apply sweep1. vm_compute. reflexivity. Qed.
Lemma U_lin x y : x < 256 -> y < 256 -> U (N.lxor x y) = N.lxor (U x) (U y).
Proof. intros Hx Hy. apply N.eqb_eq. revert x y Hx Hy. apply sweep2. vm_compute. reflexivity. Qed.
Lemma U_inj0 x : x < 256 -> U x = 0 -> x = 0.
Proof. intros Hx. assert ((negb (N.eqb (U x) 0) || N.eqb x 0) = true) as H.
  { revert x Hx. apply sweep1. vm_compute. reflexivity. }
  intros E. rewrite E in H. simpl in H. apply N.eqb_eq. exact H. Qed.

(* ---------- polynomial specification ---------- *)
(* multiplication by g(x) = x^8 + x^2 + x + 1 in GF(2)[x], polynomials as bit strings *)
Definition mulg (q : N) := N.lxor (N.lxor (N.lxor (N.shiftl q 8) (N.shiftl q 2)) (N.shiftl q 1)) q.

(* long division of d*x^8 by g for one byte d: quotient bits, MSB first *)
Definition qstep (st : N * N) : N * N :=
  let '(c, q) := st in
  (crc_bit c, N.lor (N.shiftl q 1) (if N.testbit c 7 then 1 else 0)).
Definition qbyte (d : N) : N := snd (qstep (qstep (qstep (qstep (qstep (qstep (qstep (qstep (d, 0))))))))).

Lemma byte_div d : d < 256 -> N.shiftl d 8 = N.lxor (mulg (qbyte d)) (U d).
Proof. intros H. apply N.eqb_eq. revert d H. apply sweep1. vm_compute. reflexivity. Qed.

Lemma mulg_lxor a b : mulg (N.lxor a b) = N.lxor (mulg a) (mulg b).
Proof. unfold mulg. rewrite !N.shiftl_lxor. apply N.bits_inj; intro n. rewrite !N.lxor_spec.
  repeat match goal with |- context[N.testbit ?x n] => destruct (N.testbit x n) end; reflexivity. Qed.
Lemma mulg_shiftl a k : mulg (N.shiftl a k) = N.shiftl (mulg a) k.
Proof. unfold mulg. rewrite !N.shiftl_lxor, !N.shiftl_shiftl.
  rewrite (N.add_comm k 8), (N.add_comm k 2), (N.add_comm k 1). reflexivity. Qed.

(* the message as a big-endian number = the polynomial M(x), first byte most significant *)
Definition BE (l : list N) := fold_left (fun a b => a * 256 + b) l 0.

Lemma byte_high b n : b < 256 -> 8 <= n -> N.testbit b n = false.
Proof. intros Hb Hn. rewrite <- (N.mod_small b (2^8)) by exact Hb. apply N.mod_pow2_bits_high. exact Hn. Qed.

Lemma add_as_lxor a b : b < 256 -> a * 256 + b = N.lxor (N.shiftl a 8) b.
Proof. intros H. rewrite N.shiftl_mul_pow2. change (2^8) with 256.
  apply N.add_nocarry_lxor. change 256 with (2^8) at 1. rewrite <- N.shiftl_mul_pow2.
  apply N.bits_inj; intro n. rewrite N.land_spec, N.bits_0.
  destruct (N.ltb_spec n 8) as [Hn|Hn].
  - rewrite N.shiftl_spec_low by exact Hn. reflexivity.
  - rewrite (byte_high b n H Hn). apply andb_false_r. Qed.

Lemma lxor_lt256 a b : a < 256 -> b < 256 -> N.lxor a b < 256.
Proof. intros Ha Hb. apply N.ltb_lt. revert a b Ha Hb. apply sweep2. vm_compute. reflexivity. Qed.

Lemma BE_snoc l b : BE (l ++ [b]) = BE l * 256 + b.
Proof. unfold BE. rewrite fold_left_app. reflexivity. Qed.
Lemma pec_snoc l b : pec (l ++ [b]) = crc_step (pec l) b.
Proof. unfold pec. rewrite fold_left_app. reflexivity. Qed.

Lemma pec_lt l : bytes_ok l -> pec l < 256.
Proof. induction l as [|b l IH] using rev_ind; intros H.
  - reflexivity.
  - rewrite pec_snoc. unfold crc_step. apply Forall_app in H as [Hl Hb]. inversion Hb; subst.
    apply U_lt, lxor_lt256; auto. Qed.

Theorem pec_is_remainder l : bytes_ok l ->
  exists q, N.shiftl (BE l) 8 = N.lxor (mulg q) (pec l) /\ pec l < 256.
Proof. induction l as [|b l IH] using rev_ind; intros H.
  - exists 0. split; reflexivity.
  - apply Forall_app in H as [Hl Hb]. inversion Hb as [|? ? Hb' _]; subst.
    destruct (IH Hl) as [q [Hq Hlt]].
    rewrite BE_snoc, pec_snoc, add_as_lxor by exact Hb'.
    rewrite N.shiftl_lxor, Hq, N.shiftl_lxor, <- mulg_shiftl.
    unfold crc_step. set (d := N.lxor (pec l) b).
    assert (Hd : d < 256) by (apply lxor_lt256; auto).
    exists (N.lxor (N.shiftl q 8) (qbyte d)). split; [|apply U_lt, Hd].
    rewrite mulg_lxor, N.lxor_assoc, <- N.shiftl_lxor. fold d. rewrite (byte_div d Hd).
    symmetry. apply N.lxor_assoc. Qed.

Lemma mulg_ge q : q <> 0 -> 256 <= mulg q.
Proof. intros Hq. unfold mulg.
  assert (N.testbit (N.lxor (N.lxor (N.lxor (N.shiftl q 8) (N.shiftl q 2)) (N.shiftl q 1)) q) (N.log2 q + 8) = true) as Hb.
  { rewrite !N.lxor_spec. rewrite !N.shiftl_spec_high' by lia.
    replace (N.log2 q + 8 - 8) with (N.log2 q) by lia. rewrite N.bit_log2 by exact Hq.
    rewrite !N.bits_above_log2 by lia. reflexivity. }
  destruct (N.lt_ge_cases (N.lxor (N.lxor (N.lxor (N.shiftl q 8) (N.shiftl q 2)) (N.shiftl q 1)) q) 256) as [Hlt|Hge]; [|exact Hge].
  exfalso. rewrite byte_high in Hb; [discriminate|exact Hlt|lia]. Qed.

Theorem remainder_unique M q1 r1 q2 r2 : r1 < 256 -> r2 < 256 ->
  M = N.lxor (mulg q1) r1 -> M = N.lxor (mulg q2) r2 -> r1 = r2.
Proof. intros H1 H2 E1 E2.
  assert (N.lxor (mulg q1) (mulg q2) = N.lxor r1 r2) as E.
  { assert (N.lxor (N.lxor (mulg q1) r1) (N.lxor (mulg q2) r2) = 0) as Z by (rewrite <- E1, <- E2; apply N.lxor_nilpotent).
    apply N.lxor_eq. rewrite <- Z. apply N.bits_inj; intro n. rewrite !N.lxor_spec.
    repeat match goal with |- context[N.testbit ?x n] => destruct (N.testbit x n) end; reflexivity. }
  rewrite <- mulg_lxor in E.
  destruct (N.eq_dec (N.lxor q1 q2) 0) as [Z|NZ].
  - rewrite Z in E. change (mulg 0) with 0 in E. symmetry in E. apply N.lxor_eq in E. exact E.
  - pose proof (mulg_ge _ NZ). pose proof (lxor_lt256 _ _ H1 H2). lia. Qed.

(* appending the PEC makes the CRC of the whole string zero — for any string, no well-formedness needed *)
Lemma pec_self l : pec (l ++ [pec l]) = 0.
Proof. rewrite pec_snoc. unfold crc_step. rewrite N.lxor_nilpotent. reflexivity. Qed.

(* ---------- linearity and burst detection ---------- *)
Fixpoint xorl (a b : list N) : list N :=
  match a, b with x :: a', y :: b' => N.lxor x y :: xorl a' b' | _, _ => [] end.

Lemma crc_from_lt c l : c < 256 -> bytes_ok l -> crc_from c l < 256.
Proof. revert c. induction l as [|b l IH]; intros c Hc H; [exact Hc|].
  inversion H; subst. simpl. apply IH; auto. apply U_lt, lxor_lt256; auto. Qed.

Lemma crc_from_lin c1 c2 a b : c1 < 256 -> c2 < 256 -> bytes_ok a -> bytes_ok b -> length a = length b ->
  crc_from (N.lxor c1 c2) (xorl a b) = N.lxor (crc_from c1 a) (crc_from c2 b).
Proof. revert c1 c2 b. induction a as [|x a IH]; intros c1 c2 [|y b] H1 H2 Ha Hb Hl; try discriminate; [reflexivity|].
  inversion Ha; inversion Hb; subst. simpl. unfold crc_step.
  replace (N.lxor (N.lxor c1 c2) (N.lxor x y)) with (N.lxor (N.lxor c1 x) (N.lxor c2 y)).
  2:{ apply N.bits_inj; intro n. rewrite !N.lxor_spec.
      repeat match goal with |- context[N.testbit ?z n] => destruct (N.testbit z n) end; reflexivity. }
  rewrite U_lin by (apply lxor_lt256; auto).
  apply IH; auto; apply U_lt, lxor_lt256; auto. Qed.

Lemma crc_from_app c l1 l2 : crc_from c (l1 ++ l2) = crc_from (crc_from c l1) l2.
Proof. unfold crc_from. apply fold_left_app. Qed.
Lemma crc_from_cons c b l : crc_from c (b :: l) = crc_from (crc_step c b) l.
Proof. reflexivity. Qed.
Lemma crc_from_nil c : crc_from c [] = c.
Proof. reflexivity. Qed.
Lemma crc_step_0_r c : crc_step c 0 = U c.
Proof. unfold crc_step. rewrite N.lxor_0_r. reflexivity. Qed.
Lemma crc_step_0_l b : crc_step 0 b = U b.
Proof. unfold crc_step. rewrite N.lxor_0_l. reflexivity. Qed.
Lemma U_0 : U 0 = 0.
Proof. reflexivity. Qed.
Lemma crc_step_def c b : crc_step c b = U (N.lxor c b).
Proof. reflexivity. Qed.

Lemma crc_from_zeros c n : c < 256 -> crc_from c (repeat 0 n) = 0 -> c = 0.
Proof. revert c. induction n as [|n IH]; intros c Hc H; [exact H|].
  cbn [repeat] in H. rewrite crc_from_cons, crc_step_0_r in H.
  apply U_inj0; [exact Hc|]. apply IH; [apply U_lt, Hc|exact H]. Qed.
Lemma crc_zeros n : crc_from 0 (repeat 0 n) = 0.
Proof. induction n; [reflexivity|]. cbn [repeat]. rewrite crc_from_cons, crc_step_0_r, U_0. exact IHn. Qed.

Definition hi (w j : N) := N.shiftr w j.
Definition lo (w j : N) := N.land (N.shiftl w (8 - j)) 255.

Lemma window_nonzero w j : 0 < w -> w < 256 -> j < 8 -> N.lxor (U (hi w j)) (lo w j) <> 0.
Proof. intros H0 H1 Hj.
  assert (forallb (fun j => forallb (fun w => (N.eqb w 0) || negb (N.eqb (N.lxor (U (hi w j)) (lo w j)) 0)) range256) (range 8) = true) as S by (vm_compute; reflexivity).
  pose proof (sweep 8 _ S j Hj) as S0. cbv beta in S0.
  pose proof (sweep1 _ S0 w H1) as S1. cbv beta in S1.
  destruct (N.eqb_spec w 0); [lia|]. simpl in S1. intro E. rewrite E in S1. discriminate. Qed.

Lemma hi_lt w j : w < 256 -> hi w j < 256.
Proof. intros H. unfold hi. rewrite N.shiftr_div_pow2. eapply N.le_lt_trans; [|exact H].
  apply N.div_le_upper_bound; [apply N.pow_nonzero; discriminate|].
  pose proof (N.pow_nonzero 2 j). nia. Qed.
Lemma lo_lt w j : lo w j < 256.
Proof. unfold lo. change 255 with (N.ones 8). rewrite N.land_ones. apply N.mod_lt. discriminate. Qed.
Lemma zeros_ok n : bytes_ok (repeat 0 n).
Proof. apply Forall_forall. intros x Hx. apply repeat_spec in Hx. subst. reflexivity. Qed.

Theorem burst_detected i k w j :
  0 < w -> w < 256 -> j < 8 ->
  crc_from 0 (repeat 0 i ++ [hi w j; lo w j] ++ repeat 0 k) <> 0.
Proof. intros H0 H1 Hj. rewrite !crc_from_app, crc_zeros, !crc_from_cons, crc_from_nil, crc_step_0_l.
  assert (Hx : N.lxor (U (hi w j)) (lo w j) < 256).
  { apply lxor_lt256; [apply U_lt, hi_lt, H1|apply lo_lt]. }
  rewrite crc_step_def.
  intro E. apply crc_from_zeros in E; [|apply U_lt, Hx].
  apply U_inj0 in E; [|exact Hx].
  exact (window_nonzero w j H0 H1 Hj E).
Qed.

Lemma pec_append_zero l x : bytes_ok l -> x < 256 -> (pec (l ++ [x]) = 0 <-> x = pec l).
Proof. intros Hl Hx. rewrite pec_snoc, crc_step_def. split.
  - intros E. apply U_inj0 in E; [|apply lxor_lt256; [apply pec_lt, Hl|exact Hx]].
    apply N.lxor_eq in E. symmetry. exact E.
  - intros ->. rewrite N.lxor_nilpotent. reflexivity. Qed.
