(* TwoBit.v — the Hamming-distance fact for the SMBus PEC (CRC-8, x^8+x^2+x+1), stated on the model:
   an accepted packet with exactly two bits flipped is never accepted again, unless the two bit positions are a
   multiple of 127 apart (127 = the multiplicative order of x modulo x^8+x^2+x+1 = (x+1)(x^7+x^6+...+1)), in
   which case the CRC cannot notice.  Bits are numbered MSB-first across the byte string, as `ebit` (BurstBits.v). *)
Require Import Base Crc Bitfield Headers Encode Decode Process Ops Spec Judge.
Require Import CrcFacts BitfieldFacts HeaderFacts HeaderForms PecFacts EncodeFacts DecodeFacts Hist StepsSimple StepsEncode.
Require Import DecodeChar ProcessChar StepsRecv BurstBits.
Open Scope N_scope.

(* ================================================================ 1. any CRC-detected pattern is never accepted *)
Theorem detected_never_accepted p e d : bytes_ok p -> decode_packet p = Val (inl d) ->
  bytes_ok e -> length e = length p -> crc_from 0 e <> 0 ->
  forall d', decode_packet (xorl p e) <> Val (inl d').
Proof.
  intros Hok Hd He Hl Hc d' Hd'.
  destruct d as [mt rng]. destruct (decode_accept_inv p mt rng Hok Hd) as (Hk & Hh & Hp & _).
  pose proof (class0_len9 p Hk Hh) as L9.
  pose proof (xorl_ok p e Hok He) as Hok'. pose proof (xorl_length p e (eq_sym Hl)) as Hl'.
  pose proof (decode_ok_implies_pec _ d' Hok' Hd') as Hp'.
  apply pec_good_whole in Hp; [|exact Hok|lia]. apply pec_good_whole in Hp'; [|exact Hok'|lia].
  change (pec (xorl p e)) with (crc_from (N.lxor 0 0) (xorl p e)) in Hp'.
  rewrite crc_from_lin in Hp' by (first [reflexivity | assumption | symmetry; assumption]).
  change (crc_from 0 p) with (pec p) in Hp'. rewrite Hp, N.lxor_0_l in Hp'. exact (Hc Hp').
Qed.

Theorem detected_process_never_ok ovf c p e buf d : bytes_ok p -> decode_packet p = Val (inl d) ->
  bytes_ok e -> length e = length p -> crc_from 0 e <> 0 ->
  exists r, process_packet ovf c (xorl p e) buf = ((c, buf), r) /\ forall x, r <> Val (inl x).
Proof.
  intros Hok Hd He Hl Hc. pose proof (xorl_ok p e Hok He) as Hok'.
  pose proof (detected_never_accepted p e d Hok Hd He Hl Hc) as N.
  destruct (decode_packet (xorl p e)) as [[x|er]|k] eqn:Hx.
  - exfalso. exact (N x eq_refl).
  - exists (Val (inr er)). split; [apply process_decode_err, Hx|discriminate].
  - exists (Panic k). split; [apply process_decode_panic, Hx|discriminate].
Qed.

(* ================================================================ 2. one-bit and two-bit error patterns *)
(* the n-byte pattern whose only set bit is bit i: byte i/8, mask 0x80 >> (i mod 8) *)
Definition bit_err (n i : nat) : list N :=
  repeat 0 (i / 8) ++ [2 ^ N.of_nat (7 - i mod 8)] ++ repeat 0 (n - 1 - i / 8).
Definition two_bit (n i j : nat) : list N := xorl (bit_err n i) (bit_err n j).

Lemma pow2_byte m : (m < 8)%nat -> 2 ^ N.of_nat m < 256.
Proof. intros H. apply N.ltb_lt.
  exact (sweep_nat 8 (fun m => 2 ^ N.of_nat m <? 256) ltac:(vm_compute; reflexivity) m H). Qed.

Lemma divmod8 i : (i = 8 * (i / 8) + i mod 8 /\ i mod 8 < 8)%nat.
Proof. split; [apply Nat.div_mod; discriminate|apply Nat.mod_upper_bound; discriminate]. Qed.

Lemma bit_err_ok n i : bytes_ok (bit_err n i).
Proof. unfold bit_err. apply bytes_ok_app. split; [apply zeros_ok|]. apply bytes_ok_cons. split; [|apply zeros_ok].
  apply pow2_byte. lia. Qed.
Lemma bit_err_length n i : (i < 8 * n)%nat -> length (bit_err n i) = n.
Proof. intros H. destruct (divmod8 i) as [D M]. unfold bit_err.
  rewrite !app_length, !repeat_length. cbn [length]. lia. Qed.
Lemma two_bit_ok n i j : bytes_ok (two_bit n i j).
Proof. apply xorl_ok; apply bit_err_ok. Qed.
Lemma two_bit_length n i j : (i < 8 * n)%nat -> (j < 8 * n)%nat -> length (two_bit n i j) = n.
Proof. intros Hi Hj. unfold two_bit. rewrite xorl_length; rewrite !bit_err_length; auto. Qed.

(* bit_err n i has exactly bit i set, in the numbering of BurstBits.ebit *)
Lemma nth_zeros k c : nth c (repeat 0 k) 0 = 0.
Proof. revert c. induction k as [|k IH]; intros [|c]; cbn [repeat nth]; auto. Qed.
Lemma pow2_testbit m m' : (m < 8)%nat -> (m' < 8)%nat ->
  N.testbit (2 ^ N.of_nat (7 - m)) (N.of_nat (7 - m')) = (m =? m')%nat.
Proof. intros H H'.
  assert (forallb (fun m => forallb (fun m' =>
            Bool.eqb (N.testbit (2 ^ N.of_nat (7 - m)) (N.of_nat (7 - m'))) (m =? m')%nat) (seq 0 8)) (seq 0 8) = true) as S
    by (vm_compute; reflexivity).
  pose proof (sweep_nat 8 _ S m H) as S0. cbv beta in S0.
  pose proof (sweep_nat 8 _ S0 m' H') as S1. cbv beta in S1. apply Bool.eqb_prop, S1. Qed.
Theorem ebit_bit_err n i k : (i < 8 * n)%nat -> ebit (bit_err n i) k = (i =? k)%nat.
Proof. intros H. destruct (divmod8 i) as [D M]. destruct (divmod8 k) as [D' M'].
  unfold ebit, bit_err.
  destruct (Nat.lt_trichotomy (k / 8) (i / 8)) as [L|[E|L]].
  - rewrite app_nth1 by (rewrite repeat_length; exact L). rewrite nth_zeros, N.bits_0.
    symmetry. apply Nat.eqb_neq. lia.
  - rewrite app_nth2 by (rewrite repeat_length; lia). rewrite repeat_length, E, Nat.sub_diag. cbn [app nth].
    rewrite pow2_testbit by assumption.
    destruct (Nat.eqb_spec (i mod 8) (k mod 8)) as [Q|Q]; symmetry; [apply Nat.eqb_eq|apply Nat.eqb_neq]; lia.
  - rewrite app_nth2 by (rewrite repeat_length; lia). rewrite repeat_length.
    destruct (k / 8 - i / 8)%nat as [|c] eqn:Q; [lia|]. cbn [app nth]. rewrite nth_zeros, N.bits_0.
    symmetry. apply Nat.eqb_neq. lia. Qed.

(* ================================================================ 3. multiplication by x modulo x^8+x^2+x+1 *)
Definition xstep (c : N) : N := if 2 * c <? 256 then 2 * c else N.lxor (2 * c - 256) 7.

Lemma iter_S {A} (f : A -> A) n x : Nat.iter (S n) f x = f (Nat.iter n f x).
Proof. reflexivity. Qed.
Lemma iter_add {A} (f : A -> A) a b x : Nat.iter (a + b) f x = Nat.iter a f (Nat.iter b f x).
Proof. induction a as [|a IH]; [reflexivity|]. rewrite Nat.add_succ_l, !iter_S, IH. reflexivity. Qed.

Lemma xstep_0 : xstep 0 = 0.
Proof. reflexivity. Qed.
Lemma xstep_lt c : c < 256 -> xstep c < 256.
Proof. intros H. apply N.ltb_lt. revert c H. apply sweep1. vm_compute. reflexivity. Qed.
Lemma xstep_lin a b : a < 256 -> b < 256 -> xstep (N.lxor a b) = N.lxor (xstep a) (xstep b).
Proof. intros Ha Hb. apply N.eqb_eq. revert a b Ha Hb. apply sweep2. vm_compute. reflexivity. Qed.
Lemma xstep_inj a b : a < 256 -> b < 256 -> xstep a = xstep b -> a = b.
Proof. intros Ha Hb E.
  assert ((negb (xstep a =? xstep b) || (a =? b)) = true) as S.
  { revert a b Ha Hb E. intros a b Ha Hb _. revert a b Ha Hb. apply sweep2. vm_compute. reflexivity. }
  rewrite E, N.eqb_refl in S. cbn [negb orb] in S. apply N.eqb_eq, S. Qed.
Lemma xstep_inj0 c : c < 256 -> xstep c = 0 -> c = 0.
Proof. intros H E. apply xstep_inj; [exact H|reflexivity|]. rewrite xstep_0. exact E. Qed.

(* one byte step of the CRC = eight multiplications by x *)
Lemma U_xstep c : c < 256 -> U c = Nat.iter 8 xstep c.
Proof. intros H. apply N.eqb_eq. revert c H. apply sweep1. vm_compute. reflexivity. Qed.

Lemma xiter_lt k c : c < 256 -> Nat.iter k xstep c < 256.
Proof. intros H. induction k as [|k IH]; [exact H|]. rewrite iter_S. apply xstep_lt, IH. Qed.
Lemma xiter_0 k : Nat.iter k xstep 0 = 0.
Proof. induction k as [|k IH]; [reflexivity|]. rewrite iter_S, IH. apply xstep_0. Qed.
Lemma xiter_lin k a b : a < 256 -> b < 256 ->
  Nat.iter k xstep (N.lxor a b) = N.lxor (Nat.iter k xstep a) (Nat.iter k xstep b).
Proof. intros Ha Hb. induction k as [|k IH]; [reflexivity|].
  rewrite !iter_S, IH. apply xstep_lin; apply xiter_lt; assumption. Qed.
Lemma xiter_inj0 k c : c < 256 -> Nat.iter k xstep c = 0 -> c = 0.
Proof. intros H. induction k as [|k IH]; intros E; [exact E|].
  rewrite iter_S in E. apply IH. apply xstep_inj0; [apply xiter_lt, H|exact E]. Qed.
Lemma xiter_inj k a b : a < 256 -> b < 256 -> Nat.iter k xstep a = Nat.iter k xstep b -> a = b.
Proof. intros Ha Hb. induction k as [|k IH]; intros E; [exact E|].
  rewrite !iter_S in E. apply IH. apply xstep_inj; [apply xiter_lt, Ha|apply xiter_lt, Hb|exact E]. Qed.

(* the order of x is 127 *)
Lemma x_pow_127 : Nat.iter 127 xstep 1 = 1.
Proof. vm_compute. reflexivity. Qed.
Lemma x_pow_small k : (0 < k < 127)%nat -> Nat.iter k xstep 1 <> 1.
Proof. intros H E.
  assert (forallb (fun k => (k =? 0)%nat || negb (Nat.iter k xstep 1 =? 1)) (seq 0 127) = true) as S
    by (vm_compute; reflexivity).
  pose proof (sweep_nat 127 _ S k ltac:(lia)) as S0. cbv beta in S0.
  rewrite E in S0. destruct (Nat.eqb_spec k 0) as [Z|Z]; [lia|]. discriminate S0. Qed.
Lemma x_pow_127_mul q : Nat.iter (q * 127) xstep 1 = 1.
Proof. induction q as [|q IH]; [reflexivity|].
  replace (S q * 127)%nat with (q * 127 + 127)%nat by lia. rewrite iter_add, x_pow_127. exact IH. Qed.
Lemma x_pow_mod d : Nat.iter d xstep 1 = Nat.iter (d mod 127) xstep 1.
Proof. pose proof (Nat.div_mod d 127 ltac:(discriminate)) as D.
  set (q := (d / 127)%nat) in *. set (r := (d mod 127)%nat) in *.
  replace d with (r + q * 127)%nat by lia. rewrite iter_add, x_pow_127_mul. reflexivity. Qed.
Theorem x_order d : Nat.iter d xstep 1 = 1 <-> (d mod 127 = 0)%nat.
Proof. rewrite x_pow_mod. pose proof (Nat.mod_upper_bound d 127 ltac:(discriminate)) as M. split.
  - intros E. destruct (Nat.eq_dec (d mod 127) 0) as [Z|Z]; [exact Z|].
    exfalso. apply (x_pow_small (d mod 127)); [lia|exact E].
  - intros ->. reflexivity. Qed.

(* ================================================================ 4. the CRC of a one-bit pattern *)
Lemma crc_zeros_from c m : c < 256 -> crc_from c (repeat 0 m) = Nat.iter (8 * m) xstep c.
Proof. revert c. induction m as [|m IH]; intros c H; [reflexivity|].
  cbn [repeat]. rewrite crc_from_cons, crc_step_0_r, (U_xstep c H).
  rewrite IH by (apply xiter_lt, H). rewrite <- iter_add. f_equal. lia. Qed.

Lemma pow2_xiter m : (m < 8)%nat -> 2 ^ N.of_nat m = Nat.iter m xstep 1.
Proof. intros H. apply N.eqb_eq.
  exact (sweep_nat 8 (fun m => 2 ^ N.of_nat m =? Nat.iter m xstep 1) ltac:(vm_compute; reflexivity) m H). Qed.

(* the residue of x^(8n-1-i) * x^8 *)
Theorem crc_bit_err n i : (i < 8 * n)%nat -> crc_from 0 (bit_err n i) = Nat.iter (8 * n - i + 7) xstep 1.
Proof. intros H. destruct (divmod8 i) as [D M]. unfold bit_err.
  rewrite !crc_from_app, crc_zeros, crc_from_cons, crc_from_nil, crc_step_0_l.
  assert (B : 2 ^ N.of_nat (7 - i mod 8) < 256) by (apply pow2_byte; lia).
  rewrite crc_zeros_from by (apply U_lt, B). rewrite (U_xstep _ B).
  rewrite pow2_xiter by lia. rewrite <- !iter_add. f_equal. lia. Qed.

(* ================================================================ 5. the CRC of a two-bit pattern *)
Lemma crc_two_bit n i j : (i < j)%nat -> (j < 8 * n)%nat ->
  crc_from 0 (two_bit n i j) = Nat.iter (8 * n - j + 7) xstep (N.lxor (Nat.iter (j - i) xstep 1) 1).
Proof. intros Hij Hj. assert (Hi : (i < 8 * n)%nat) by lia. unfold two_bit.
  pose proof (crc_from_lin 0 0 (bit_err n i) (bit_err n j) eq_refl eq_refl (bit_err_ok n i) (bit_err_ok n j)) as L.
  rewrite !bit_err_length in L by assumption. specialize (L eq_refl).
  change (N.lxor 0 0) with 0 in L. rewrite L, !crc_bit_err by assumption.
  replace (8 * n - i + 7)%nat with ((8 * n - j + 7) + (j - i))%nat by lia.
  rewrite iter_add. symmetry. apply xiter_lin; [apply xiter_lt|]; reflexivity. Qed.

Theorem two_bit_crc n i j : (i < j)%nat -> (j < 8 * n)%nat ->
  crc_from 0 (two_bit n i j) = 0 <-> ((j - i) mod 127 = 0)%nat.
Proof. intros Hij Hj. rewrite crc_two_bit by assumption. rewrite <- x_order.
  assert (X : Nat.iter (j - i) xstep 1 < 256) by (apply xiter_lt; reflexivity).
  split.
  - intros E. apply xiter_inj0 in E; [|apply lxor_lt256; [exact X|reflexivity]].
    apply N.lxor_eq, E.
  - intros ->. rewrite N.lxor_nilpotent. apply xiter_0. Qed.

(* ================================================================ 6. two flipped bits are never accepted *)
Theorem two_bit_never_accepted p d i j : bytes_ok p -> decode_packet p = Val (inl d) ->
  (i < j)%nat -> (j < 8 * length p)%nat -> ((j - i) mod 127 <> 0)%nat ->
  forall d', decode_packet (xorl p (two_bit (length p) i j)) <> Val (inl d').
Proof. intros Hok Hd Hij Hj Hm.
  apply (detected_never_accepted p _ d Hok Hd (two_bit_ok _ i j)).
  - apply two_bit_length; lia.
  - intros E. apply Hm. apply (two_bit_crc (length p) i j Hij Hj). exact E. Qed.

Theorem two_bit_process_never_ok ovf c p buf d i j : bytes_ok p -> decode_packet p = Val (inl d) ->
  (i < j)%nat -> (j < 8 * length p)%nat -> ((j - i) mod 127 <> 0)%nat ->
  exists r, process_packet ovf c (xorl p (two_bit (length p) i j)) buf = ((c, buf), r) /\ forall x, r <> Val (inl x).
Proof. intros Hok Hd Hij Hj Hm.
  apply (detected_process_never_ok ovf c p _ buf d Hok Hd (two_bit_ok _ i j)).
  - apply two_bit_length; lia.
  - intros E. apply Hm. apply (two_bit_crc (length p) i j Hij Hj). exact E. Qed.

(* a single flipped bit is always detected (the residue of a power of x is never 0) *)
Theorem one_bit_crc n i : (i < 8 * n)%nat -> crc_from 0 (bit_err n i) <> 0.
Proof. intros H. rewrite crc_bit_err by exact H. intros E. apply xiter_inj0 in E; [discriminate E|reflexivity]. Qed.

Theorem one_bit_never_accepted p d i : bytes_ok p -> decode_packet p = Val (inl d) -> (i < 8 * length p)%nat ->
  forall d', decode_packet (xorl p (bit_err (length p) i)) <> Val (inl d').
Proof. intros Hok Hd Hi.
  apply (detected_never_accepted p _ d Hok Hd (bit_err_ok _ i)); [apply bit_err_length, Hi|apply one_bit_crc, Hi]. Qed.

(* ================================================================ 7. the side condition is necessary *)
(* 127 apart: the PEC stays correct, whatever the packet *)
Theorem two_bit_blind p i j : bytes_ok p -> pec p = 0 -> (i < j)%nat -> (j < 8 * length p)%nat ->
  ((j - i) mod 127 = 0)%nat -> pec (xorl p (two_bit (length p) i j)) = 0.
Proof. intros Hok Hp Hij Hj Hm.
  change (pec (xorl p (two_bit (length p) i j))) with (crc_from (N.lxor 0 0) (xorl p (two_bit (length p) i j))).
  rewrite crc_from_lin; [|reflexivity|reflexivity|exact Hok|apply two_bit_ok|symmetry; apply two_bit_length; lia].
  change (crc_from 0 p) with (pec p). rewrite Hp, N.lxor_0_l. apply (two_bit_crc (length p) i j Hij Hj). exact Hm. Qed.

(* a vendor-defined PCI packet (30 bytes, 240 bits) from endpoint 0x23 to endpoint 0x34; bits 90 (byte 11, mask
   0x20) and 217 (byte 27, mask 0x40) of the payload are flipped; the result differs and is accepted *)
Example two_bits_127_apart_undetected :
  exists p i j d d', bytes_ok p /\ (i < j)%nat /\ (j < 8 * length p)%nat /\ (j - i = 127)%nat /\
    decode_packet p = Val (inl d) /\
    decode_packet (xorl p (two_bit (length p) i j)) = Val (inl d') /\
    xorl p (two_bit (length p) i j) <> p.
Proof.
  exists [104; 15; 26; 71; 1; 52; 35; 200; 126; 128; 134; 1; 2; 3; 4; 5; 6; 7; 8; 9; 10; 11; 12; 13; 14; 15; 16; 17; 18; 223].
  exists 90%nat, 217%nat, (VendorDefinedPCI, (9%nat, 20%nat)), (VendorDefinedPCI, (9%nat, 20%nat)).
  split; [|split; [|split; [|split; [|split; [|split]]]]].
  - repeat (constructor; [reflexivity|]). constructor.
  - cbn [length]. lia.
  - cbn [length]. lia.
  - reflexivity.
  - vm_compute. reflexivity.
  - vm_compute. reflexivity.
  - vm_compute. intros H. discriminate H.
Qed.

Example two_bits_127_apart_example :
  let p := [104; 15; 26; 71; 1; 52; 35; 200; 126; 128; 134; 1; 2; 3; 4; 5; 6; 7; 8; 9; 10; 11; 12; 13; 14; 15; 16; 17; 18; 223] in
  p = spec_packet 0x23 0x34 0x7E [0x80; 0x86; 1; 2; 3; 4; 5; 6; 7; 8; 9; 10; 11; 12; 13; 14; 15; 16; 17; 18] /\
  decode_packet p = Val (inl (VendorDefinedPCI, (9%nat, 20%nat))) /\
  xorl p (two_bit 30 90 217) =
    [104; 15; 26; 71; 1; 52; 35; 200; 126; 128; 134; 33; 2; 3; 4; 5; 6; 7; 8; 9; 10; 11; 12; 13; 14; 15; 16; 81; 18; 223] /\
  decode_packet (xorl p (two_bit 30 90 217)) = Val (inl (VendorDefinedPCI, (9%nat, 20%nat))) /\
  crc_from 0 (two_bit 30 90 217) = 0 /\
  (* one position further apart, and the PEC notices *)
  crc_from 0 (two_bit 30 90 218) = 197.
Proof. vm_compute. repeat split; reflexivity. Qed.

Print Assumptions detected_never_accepted.
Print Assumptions detected_process_never_ok.
Print Assumptions ebit_bit_err.
Print Assumptions x_order.
Print Assumptions crc_bit_err.
Print Assumptions two_bit_crc.
Print Assumptions two_bit_never_accepted.
Print Assumptions two_bit_process_never_ok.
Print Assumptions one_bit_never_accepted.
Print Assumptions two_bit_blind.
Print Assumptions two_bits_127_apart_undetected.
Print Assumptions two_bits_127_apart_example.
