(* Conversation.v — a whole request/response conversation between two contexts of the library.
   Requester A (configuration gA, context cA) calls one of its request encoders; the bytes it writes are handed to
   responder B's process_packet (configuration gB, context cB, response buffer of at least 64 bytes); the bytes B
   writes are handed back to A's decode_packet.  Composition of Readable.v (what an encoder call leaves in the
   buffer), Interop.v (what the responder writes is what the decoder accepts) and StepsProcess.v (the bytes of a
   response). *)
Require Import Base Crc Bitfield Headers Encode Decode Process Ops Spec Judge.
Require Import CrcFacts BitfieldFacts HeaderFacts PecFacts EncodeFacts DecodeFacts Hist StepsSimple StepsEncode
               DecodeChar ProcessChar StepsRecv StepsProcess Readable Interop.
Open Scope N_scope.

(* ================================================================ Step 1: the library's own requests are accepted *)
(* the first n bytes a successful call of one of the request encoders 1..8 leaves in the buffer are the specified
   packet from the context's own address to the destination the caller named; they consist of bytes, they are an
   accepted request of the command the encoder is named after, the source-EID byte of the transport header is the
   context's own address, and the parameters sit at offset 11 *)
Lemma own_request_accepted ovf g c id a ls w buf out n :
  wf_cfg g -> cinv g c -> args_okb true id a ls = true ->
  encode_call ovf c true id a ls = Some w -> w buf = (out, Val (Some n)) ->
  (1 <=? id) && (id <=? 8) = true ->
  let p := firstn n out in
  exists params, spec_request id a ls = Some (id, params) /\
    p = spec_packet (g_addr g) (enc_dest true id a) 0 ([128; id] ++ params) /\
    bytes_ok p /\ accepted_request p = true /\ ctl_cmd p = id /\
    nth 6 p 0 = g_addr g /\ sub p 11 (n - 12) = params /\ n = (12 + length params)%nat.
Proof.
  intros Hg Hc Hargs Ew Hw Hid p.
  destruct (own_requests_decode ovf g c id a ls w buf out n Hg Hc Hargs Ew Hw Hid) as (params & Er & Hd & Hs).
  fold p in Hd, Hs.
  assert (Hid' : (1 <=? id) && (id <=? 17) = true).
  { apply andb_true_iff in Hid as [H1 H2]. apply N.leb_le in H1, H2. apply andb_true_iff. split; apply N.leb_le; lia. }
  assert (H15 : (id =? 15) = false).
  { apply andb_true_iff in Hid as [H1 H2]. apply N.leb_le in H2. apply N.eqb_neq. lia. }
  pose proof (model_request id a ls (c_eid_resp c) Hid') as MR. rewrite Er, H15 in MR.
  destruct (encoded_packet ovf g c true id a ls w buf out n 0 _ Hg Hc Hargs Ew Hw MR) as (Ep & En & Hb).
  fold p in Ep.
  exists params. split; [exact Er|]. split; [exact Ep|].
  assert (Hok : bytes_ok p) by (rewrite Ep; exact Hb).
  assert (Hr : is_request p = true) by (rewrite Ep; reflexivity).
  destruct (decoded_request_accepted p _ Hok Hd Hr) as [Ha _].
  split; [exact Hok|]. split; [exact Ha|].
  split; [rewrite Ep; reflexivity|]. split; [rewrite Ep; reflexivity|]. split; [exact Hs|].
  rewrite En. cbn [app length]. lia.
Qed.

(* ================================================================ the header of an answer *)
(* framing, transport header, message type byte and control header of an answer with k data bytes (completion code
   cc) to command cmd, from responder back to requester: destination slave address and destination EID are the
   requester's, source slave address and source EID the responder's *)
Definition answer_head (requester responder cmd cc : N) (k : nat) : list N :=
  [(requester mod 128) * 2; 15; N.of_nat (k + 9); (responder mod 128) * 2 + 1; 1; requester; responder; 200; 0;
   0; cmd; cc].

Lemma response_to_head g p cc fields T :
  firstn 12 (response_to g p cc fields ++ T) = answer_head (nth 6 p 0) (g_addr g) (ctl_cmd p) cc (length fields).
Proof.
  unfold response_to, answer_head.
  replace (length fields + 9)%nat with (length ([0%N; ctl_cmd p; cc] ++ fields) + 6)%nat by (cbn [app length]; lia).
  reflexivity.
Qed.

(* a processing step known to have answered p with (cc, fields): whatever else is known of the same step, the
   buffer it leaves starts with that header *)
Lemma answer_travels_back ovf g c p buf c1 cc fields c2 r out :
  step ovf c (OProcess p buf) = (c1, resp_obs g p cc fields buf) ->
  step ovf c (OProcess p buf) = (c2, XProcess r out) ->
  firstn 12 out = answer_head (nth 6 p 0) (g_addr g) (ctl_cmd p) cc (length fields).
Proof.
  intros St S. rewrite St in S. unfold resp_obs in S.
  assert (Eo : spec_packet (g_addr g) (nth 6 p 0) 0 ([0; ctl_cmd p; cc] ++ fields) ++ skipn (13 + length fields) buf = out)
    by congruence.
  rewrite <- Eo. exact (response_to_head g p cc fields _).
Qed.

Lemma head_bytes out requester responder cmd cc k : firstn 12 out = answer_head requester responder cmd cc k ->
  nth 0 out 0 = (requester mod 128) * 2 /\ nth 5 out 0 = requester.
Proof.
  intros H. rewrite <- (nth_firstn_lt out 12 0), <- (nth_firstn_lt out 12 5) by lia. rewrite H. split; reflexivity.
Qed.

(* ================================================================ Step 2: the conversations, command by command *)
(* In every theorem: A's encoder call succeeded with n bytes; the first n bytes of A's buffer are what B processes;
   outB is B's response buffer afterwards; the first m bytes of it (m = the length B reports) are what A decodes.
   The last three conjuncts say that the answer travels back to A: destination slave address (byte 0) and
   destination EID (byte 5) are A's own address, and the first twelve bytes as a whole are answer_head. *)

(* Set Endpoint ID, operation 0 (set) or 1 (force): B takes the EID in both halves, A reads
   [assignment status 0; the EID; pool size 0] *)
Theorem conversation_set_eid : forall ovf gA cA gB cB a ls wA bufA outA n bufB,
  wf_cfg gA -> cinv gA cA -> wf_cfg gB -> cinv gB cB -> (64 <= length bufB)%nat ->
  args_okb true 1 a ls = true -> (arg a 1 = 0 \/ arg a 1 = 1) ->
  encode_call ovf cA true 1 a ls = Some wA -> wA bufA = (outA, Val (Some n)) ->
  exists outB,
    step ovf cB (OProcess (firstn n outA) bufB) =
      (set_eid_req (set_eid_resp cB (arg a 2)) (arg a 2),
       XProcess (inl ((MCtpControl, (11%nat, 2%nat)), Some 16%nat)) outB) /\
    decode_packet (firstn 16 outB) = ok (MCtpControl, (12%nat, 3%nat)) /\
    sub (firstn 16 outB) 12 3 = [0; arg a 2; 0] /\
    nth 0 outB 0 = (g_addr gA mod 128) * 2 /\ nth 5 outB 0 = g_addr gA /\
    firstn 12 outB = answer_head (g_addr gA) (g_addr gB) 1 0 3.
Proof.
  intros ovf gA cA gB cB a ls wA bufA outA n bufB HgA HcA HgB HcB Hbuf Hargs Hop Ew Hw.
  destruct (own_request_accepted ovf gA cA 1 a ls wA bufA outA n HgA HcA Hargs Ew Hw eq_refl)
    as (params & Er & Ep & Hok & Ha & Hcmd & H6 & _ & _).
  cbn [spec_request] in Er. destruct ((arg a 2 =? 0) || (arg a 2 =? 255)); [discriminate|].
  injection Er as <-. set (p := firstn n outA) in *.
  assert (E11 : nth 11 p 0 = arg a 1) by (rewrite Ep; reflexivity).
  assert (E12 : nth 12 p 0 = arg a 2) by (rewrite Ep; reflexivity).
  assert (Hop' : nth 11 p 0 = 0 \/ nth 11 p 0 = 1) by (rewrite E11; exact Hop).
  assert (As : assigning p = true).
  { unfold assigning. rewrite Ha, Hcmd. destruct Hop' as [-> | ->]; reflexivity. }
  destruct (set_eid_response_decodes ovf gB cB p bufB HgB HcB Hok Hbuf As) as (outB & S & D & B).
  pose proof (step_set_eid_assign ovf gB cB p bufB HgB HcB Hok Ha Hbuf Hcmd Hop') as St.
  pose proof (answer_travels_back _ _ _ _ _ _ _ _ _ _ _ St S) as Hh.
  rewrite H6, Hcmd in Hh. cbn [length] in Hh. rewrite E12 in S, B.
  exists outB. split; [exact S|]. split; [exact D|]. split; [exact B|].
  destruct (head_bytes _ _ _ _ _ _ Hh) as [H0 H5]. split; [exact H0|]. split; [exact H5|exact Hh].
Qed.

(* Set Endpoint ID, operation 3 (set discovered flag): B's state is unchanged, B answers Error Invalid Data, and that
   completion code is what A's decoder reports *)
Theorem conversation_set_discovered_flag : forall ovf gA cA gB cB a ls wA bufA outA n bufB,
  wf_cfg gA -> cinv gA cA -> wf_cfg gB -> cinv gB cB -> (64 <= length bufB)%nat ->
  args_okb true 1 a ls = true -> arg a 1 = 3 ->
  encode_call ovf cA true 1 a ls = Some wA -> wA bufA = (outA, Val (Some n)) ->
  exists outB,
    step ovf cB (OProcess (firstn n outA) bufB) =
      (cB, XProcess (inl ((MCtpControl, (11%nat, 2%nat)), Some 16%nat)) outB) /\
    decode_packet (firstn 16 outB) = err MCtpControl (DControlMessage (CEUnsuccessfulCompletionCode 2)) /\
    nth 0 outB 0 = (g_addr gA mod 128) * 2 /\ nth 5 outB 0 = g_addr gA /\
    firstn 12 outB = answer_head (g_addr gA) (g_addr gB) 1 2 3.
Proof.
  intros ovf gA cA gB cB a ls wA bufA outA n bufB HgA HcA HgB HcB Hbuf Hargs Hop Ew Hw.
  destruct (own_request_accepted ovf gA cA 1 a ls wA bufA outA n HgA HcA Hargs Ew Hw eq_refl)
    as (params & Er & Ep & Hok & Ha & Hcmd & H6 & _ & _).
  cbn [spec_request] in Er. destruct ((arg a 2 =? 0) || (arg a 2 =? 255)); [discriminate|].
  injection Er as <-. set (p := firstn n outA) in *.
  assert (E11 : nth 11 p 0 = 3) by (rewrite Ep, <- Hop; reflexivity).
  destruct (set_discovered_flag_response_decodes ovf gB cB p bufB HgB HcB Hok Hbuf Ha Hcmd E11) as (outB & S & D).
  pose proof (step_set_eid_flag ovf gB cB p bufB HgB HcB Hok Ha Hbuf Hcmd E11) as St.
  pose proof (answer_travels_back _ _ _ _ _ _ _ _ _ _ _ St S) as Hh.
  rewrite H6, Hcmd in Hh. cbn [length] in Hh.
  exists outB. split; [exact S|]. split; [exact D|].
  destruct (head_bytes _ _ _ _ _ _ Hh) as [H0 H5]. split; [exact H0|]. split; [exact H5|exact Hh].
Qed.

(* Get Endpoint ID: B answers [its EID; endpoint type 0; medium-specific 0], three data bytes; the library's
   response-length table says four, and A's decoder REJECTS the library's own answer (recorded known finding 101) *)
Theorem conversation_get_eid : forall ovf gA cA gB cB a ls wA bufA outA n bufB,
  wf_cfg gA -> cinv gA cA -> wf_cfg gB -> cinv gB cB -> (64 <= length bufB)%nat ->
  args_okb true 2 a ls = true ->
  encode_call ovf cA true 2 a ls = Some wA -> wA bufA = (outA, Val (Some n)) ->
  exists outB,
    step ovf cB (OProcess (firstn n outA) bufB) =
      (cB, XProcess (inl ((MCtpControl, (11%nat, 0%nat)), Some 16%nat)) outB) /\
    decode_packet (firstn 16 outB) = err MCtpControl (DControlMessage CEInvalidRequestDataLength) /\
    sub (firstn 16 outB) 12 3 = [c_eid_resp cB; 0; 0] /\
    nth 0 outB 0 = (g_addr gA mod 128) * 2 /\ nth 5 outB 0 = g_addr gA /\
    firstn 12 outB = answer_head (g_addr gA) (g_addr gB) 2 0 3.
Proof.
  intros ovf gA cA gB cB a ls wA bufA outA n bufB HgA HcA HgB HcB Hbuf Hargs Ew Hw.
  destruct (own_request_accepted ovf gA cA 2 a ls wA bufA outA n HgA HcA Hargs Ew Hw eq_refl)
    as (params & Er & Ep & Hok & Ha & Hcmd & H6 & _ & En).
  cbn [spec_request] in Er. injection Er as <-. cbn [length] in En. set (p := firstn n outA) in *.
  assert (L : (length p - 12 = 0)%nat) by (rewrite Ep, spec_packet_length; reflexivity).
  destruct (get_eid_response_rejected ovf gB cB p bufB HgB HcB Hok Hbuf Ha Hcmd) as (outB & S & D & B).
  pose proof (step_get_eid ovf gB cB p bufB HgB HcB Hok Ha Hbuf Hcmd) as St.
  pose proof (answer_travels_back _ _ _ _ _ _ _ _ _ _ _ St S) as Hh.
  rewrite H6, Hcmd in Hh. cbn [length] in Hh. rewrite L in S.
  exists outB. split; [exact S|]. split; [exact D|]. split; [exact B|].
  destruct (head_bytes _ _ _ _ _ _ Hh) as [H0 H5]. split; [exact H0|]. split; [exact H5|exact Hh].
Qed.

(* Get Endpoint UUID: A reads the 16 bytes last installed in B *)
Theorem conversation_get_uuid : forall ovf gA cA gB cB a ls wA bufA outA n bufB,
  wf_cfg gA -> cinv gA cA -> wf_cfg gB -> cinv gB cB -> (64 <= length bufB)%nat ->
  args_okb true 3 a ls = true ->
  encode_call ovf cA true 3 a ls = Some wA -> wA bufA = (outA, Val (Some n)) ->
  exists outB,
    step ovf cB (OProcess (firstn n outA) bufB) =
      (cB, XProcess (inl ((MCtpControl, (11%nat, 0%nat)), Some 29%nat)) outB) /\
    decode_packet (firstn 29 outB) = ok (MCtpControl, (12%nat, 16%nat)) /\
    sub (firstn 29 outB) 12 16 = c_uuid cB /\
    nth 0 outB 0 = (g_addr gA mod 128) * 2 /\ nth 5 outB 0 = g_addr gA /\
    firstn 12 outB = answer_head (g_addr gA) (g_addr gB) 3 0 16.
Proof.
  intros ovf gA cA gB cB a ls wA bufA outA n bufB HgA HcA HgB HcB Hbuf Hargs Ew Hw.
  destruct (own_request_accepted ovf gA cA 3 a ls wA bufA outA n HgA HcA Hargs Ew Hw eq_refl)
    as (params & Er & Ep & Hok & Ha & Hcmd & H6 & _ & En).
  cbn [spec_request] in Er. injection Er as <-. cbn [length] in En. set (p := firstn n outA) in *.
  assert (L : (length p - 12 = 0)%nat) by (rewrite Ep, spec_packet_length; reflexivity).
  assert (Lu : length (c_uuid cB) = 16%nat) by apply HcB.
  destruct (get_uuid_response_decodes ovf gB cB p bufB HgB HcB Hok Hbuf Ha Hcmd) as (outB & S & D & B).
  pose proof (step_get_uuid ovf gB cB p bufB HgB HcB Hok Ha Hbuf Hcmd) as St.
  pose proof (answer_travels_back _ _ _ _ _ _ _ _ _ _ _ St S) as Hh.
  rewrite H6, Hcmd, Lu in Hh. rewrite L in S.
  exists outB. split; [exact S|]. split; [exact D|]. split; [exact B|].
  destruct (head_bytes _ _ _ _ _ _ Hh) as [H0 H5]. split; [exact H0|]. split; [exact H5|exact Hh].
Qed.

(* Get MCTP Version Support (any message type number arg a 1): A reads one entry, version 1.3.1 *)
Theorem conversation_get_version : forall ovf gA cA gB cB a ls wA bufA outA n bufB,
  wf_cfg gA -> cinv gA cA -> wf_cfg gB -> cinv gB cB -> (64 <= length bufB)%nat ->
  args_okb true 4 a ls = true ->
  encode_call ovf cA true 4 a ls = Some wA -> wA bufA = (outA, Val (Some n)) ->
  exists outB,
    step ovf cB (OProcess (firstn n outA) bufB) =
      (cB, XProcess (inl ((MCtpControl, (11%nat, 1%nat)), Some 18%nat)) outB) /\
    decode_packet (firstn 18 outB) = ok (MCtpControl, (12%nat, 5%nat)) /\
    sub (firstn 18 outB) 12 5 = [1; 241; 243; 241; 0] /\
    nth 0 outB 0 = (g_addr gA mod 128) * 2 /\ nth 5 outB 0 = g_addr gA /\
    firstn 12 outB = answer_head (g_addr gA) (g_addr gB) 4 0 5.
Proof.
  intros ovf gA cA gB cB a ls wA bufA outA n bufB HgA HcA HgB HcB Hbuf Hargs Ew Hw.
  destruct (own_request_accepted ovf gA cA 4 a ls wA bufA outA n HgA HcA Hargs Ew Hw eq_refl)
    as (params & Er & Ep & Hok & Ha & Hcmd & H6 & _ & _).
  set (p := firstn n outA) in *.
  destruct (get_version_response_decodes ovf gB cB p bufB HgB HcB Hok Hbuf Ha Hcmd) as (outB & S & D & B).
  pose proof (step_get_version ovf gB cB p bufB HgB HcB Hok Ha Hbuf Hcmd) as St.
  pose proof (answer_travels_back _ _ _ _ _ _ _ _ _ _ _ St S) as Hh.
  rewrite H6, Hcmd in Hh. cbn [length] in Hh.
  exists outB. split; [exact S|]. split; [exact D|]. split; [exact B|].
  destruct (head_bytes _ _ _ _ _ _ Hh) as [H0 H5]. split; [exact H0|]. split; [exact H5|exact Hh].
Qed.

(* Get Message Type Support: A reads the count and the message types B was configured with *)
Theorem conversation_get_msg_types : forall ovf gA cA gB cB a ls wA bufA outA n bufB,
  wf_cfg gA -> cinv gA cA -> wf_cfg gB -> cinv gB cB -> valid_cfg gB = true -> (64 <= length bufB)%nat ->
  args_okb true 5 a ls = true ->
  encode_call ovf cA true 5 a ls = Some wA -> wA bufA = (outA, Val (Some n)) ->
  let k := S (length (g_msg_types gB)) in
  exists outB,
    step ovf cB (OProcess (firstn n outA) bufB) =
      (cB, XProcess (inl ((MCtpControl, (11%nat, 0%nat)), Some (13 + k)%nat)) outB) /\
    decode_packet (firstn (13 + k) outB) = ok (MCtpControl, (12%nat, k)) /\
    sub (firstn (13 + k) outB) 12 k = N.of_nat (length (g_msg_types gB)) :: g_msg_types gB /\
    nth 0 outB 0 = (g_addr gA mod 128) * 2 /\ nth 5 outB 0 = g_addr gA /\
    firstn 12 outB = answer_head (g_addr gA) (g_addr gB) 5 0 k.
Proof.
  intros ovf gA cA gB cB a ls wA bufA outA n bufB HgA HcA HgB HcB Hv Hbuf Hargs Ew Hw k.
  destruct (own_request_accepted ovf gA cA 5 a ls wA bufA outA n HgA HcA Hargs Ew Hw eq_refl)
    as (params & Er & Ep & Hok & Ha & Hcmd & H6 & _ & En).
  cbn [spec_request] in Er. injection Er as <-. cbn [length] in En. set (p := firstn n outA) in *.
  assert (L : (length p - 12 = 0)%nat) by (rewrite Ep, spec_packet_length; reflexivity).
  destruct (StepsProcess.valid_cfg_facts gB Hv) as (H30 & _).
  destruct (get_msg_types_response_decodes ovf gB cB p bufB HgB HcB Hok Hbuf Ha Hcmd H30) as (outB & S & D & B).
  pose proof (step_get_msg_types ovf gB cB p bufB HgB HcB Hok Ha Hbuf Hcmd H30) as St.
  pose proof (answer_travels_back _ _ _ _ _ _ _ _ _ _ _ St S) as Hh.
  rewrite H6, Hcmd in Hh. cbn [length] in Hh. rewrite L in S.
  exists outB. split; [exact S|]. split; [exact D|]. split; [exact B|].
  destruct (head_bytes _ _ _ _ _ _ Hh) as [H0 H5]. split; [exact H0|]. split; [exact H5|exact Hh].
Qed.

(* Get Vendor Defined Message Support, selector i = arg a 1 below the number of vendor ID sets of B: B remembers the
   next selector, A reads the next selector (0xFF after the last set) and vendor ID set i of B *)
Theorem conversation_get_vendor : forall ovf gA cA gB cB a ls wA bufA outA n bufB v,
  let nB := N.of_nat (length (g_vendor_ids gB)) in
  let i := arg a 1 in
  let next := if i + 1 =? nB then 255 else i + 1 in
  let k := S (length (enc_vendor_set v)) in
  wf_cfg gA -> cinv gA cA -> wf_cfg gB -> cinv gB cB -> valid_cfg gB = true -> (64 <= length bufB)%nat ->
  args_okb true 6 a ls = true -> i < nB -> nth_error (g_vendor_ids gB) (N.to_nat i) = Some v ->
  encode_call ovf cA true 6 a ls = Some wA -> wA bufA = (outA, Val (Some n)) ->
  exists outB,
    step ovf cB (OProcess (firstn n outA) bufB) =
      (set_selector cB next, XProcess (inl ((MCtpControl, (11%nat, 1%nat)), Some (13 + k)%nat)) outB) /\
    decode_packet (firstn (13 + k) outB) = ok (MCtpControl, (12%nat, k)) /\
    sub (firstn (13 + k) outB) 12 k = next :: enc_vendor_set v /\
    nth 0 outB 0 = (g_addr gA mod 128) * 2 /\ nth 5 outB 0 = g_addr gA /\
    firstn 12 outB = answer_head (g_addr gA) (g_addr gB) 6 0 k.
Proof.
  intros ovf gA cA gB cB a ls wA bufA outA n bufB v nB i next k HgA HcA HgB HcB Hv Hbuf Hargs Hi Hnth Ew Hw.
  destruct (own_request_accepted ovf gA cA 6 a ls wA bufA outA n HgA HcA Hargs Ew Hw eq_refl)
    as (params & Er & Ep & Hok & Ha & Hcmd & H6 & _ & _).
  cbn [spec_request] in Er. injection Er as <-. set (p := firstn n outA) in *.
  assert (E11 : nth 11 p 0 = i) by (rewrite Ep; reflexivity).
  destruct (StepsProcess.valid_cfg_facts gB Hv) as (_ & _ & H255 & Hfmt).
  pose proof (get_vendor_response_decodes ovf gB cB p bufB HgB HcB Hok Hbuf v) as T. cbv zeta in T.
  rewrite E11 in T. destruct (T Hv Ha Hcmd Hi Hnth) as (outB & S & D & B). clear T.
  assert (St : step ovf cB (OProcess p bufB) = (set_selector cB next, resp_obs gB p 0 (next :: enc_vendor_set v) bufB)).
  { pose proof (step_get_vendor ovf gB cB p bufB HgB HcB Hok Ha Hbuf v) as T. cbv zeta in T. rewrite E11 in T.
    apply T; try assumption; [fold nB; lia|eapply Hfmt, Hnth]. }
  pose proof (answer_travels_back _ _ _ _ _ _ _ _ _ _ _ St S) as Hh.
  rewrite H6, Hcmd in Hh. cbn [length] in Hh.
  exists outB. split; [exact S|]. split; [exact D|]. split; [exact B|].
  destruct (head_bytes _ _ _ _ _ _ Hh) as [H0 H5]. split; [exact H0|]. split; [exact H5|exact Hh].
Qed.

(* ================================================================ Step 3: the requests the responder cannot take *)
(* Resolve Endpoint ID (7) and Allocate Endpoint IDs (8): what A's encoder writes is an accepted request, it lies in
   class P5 of the processor (process_panic_class = 1015, and that is its class on the whole receive path), and B's
   process_packet panics on it with context and response buffer as they were (whatever the configuration of B and
   the size of the buffer) *)
Theorem conversation_unanswerable_panics : forall ovf gA cA gB cB id a ls wA bufA outA n bufB,
  wf_cfg gA -> cinv gA cA -> id = 7 \/ id = 8 -> args_okb true id a ls = true ->
  encode_call ovf cA true id a ls = Some wA -> wA bufA = (outA, Val (Some n)) ->
  let p := firstn n outA in
  accepted_request p = true /\ ctl_cmd p = id /\
  process_panic_class ovf gB p = 1015 /\ recv_panic_class ovf gB p = 1015 /\
  step ovf cB (OProcess p bufB) = (cB, XPanic bufB).
Proof.
  intros ovf gA cA gB cB id a ls wA bufA outA n bufB HgA HcA Hid Hargs Ew Hw p.
  assert (Hid' : (1 <=? id) && (id <=? 8) = true) by (destruct Hid as [-> | ->]; reflexivity).
  destruct (own_request_accepted ovf gA cA id a ls wA bufA outA n HgA HcA Hargs Ew Hw Hid')
    as (params & _ & _ & Hok & Ha & Hcmd & _).
  fold p in Hok, Ha, Hcmd.
  assert (H9 : ctl_cmd p < 9) by (rewrite Hcmd; destruct Hid as [-> | ->]; reflexivity).
  assert (Hpp : process_panic_class ovf gB p = 1015).
  { unfold process_panic_class. rewrite (accepted_wf p Ha). cbv zeta. rewrite Hcmd.
    destruct Hid as [-> | ->]; reflexivity. }
  split; [exact Ha|]. split; [exact Hcmd|]. split; [exact Hpp|]. split.
  - unfold recv_panic_class. rewrite (accepted_class0 p Ha H9). exact Hpp.
  - cbn [step]. rewrite (process_accepted ovf cB p bufB Hok Ha H9), Hcmd.
    destruct Hid as [-> | ->]; reflexivity.
Qed.

(* ================================================================ on concrete bytes *)
(* requester 0x23 (context of gA, a 64-byte buffer of zeros) asks responder 0x10 (context cB of gB, a 64-byte buffer
   of zeros): the request bytes A wrote, and what A's decoder makes of the first m bytes B wrote:
   (m, what the decoder says, the m-13 bytes at offset 12) *)
Definition converse (ovf : bool) (cA cB : ctx) (id : N) (a : list N) (ls : list (list N))
  : option (list N * option (nat * rr decoded * list N)) :=
  match encode_call ovf cA true id a ls with
  | Some w =>
      match w (repeat 0 64) with
      | (outA, Val (Some n)) =>
          let p := firstn n outA in
          let '(cB', x) := step ovf cB (OProcess p (repeat 0 64)) in
          Some (p, decode_answer (x, (c_eid_req cB', c_eid_resp cB')))
      | _ => None
      end
  | None => None
  end.

Example conversation_nonvacuous :
  let gA := {| g_addr := 0x23; g_msg_types := [0]; g_vendor_ids := [{| v_format := 0; v_data := 1; v_numeric := 1 |}] |} in
  let gB := {| g_addr := 0x10; g_msg_types := [0; 5; 0x7E];
               g_vendor_ids := [{| v_format := 0; v_data := 0x8086; v_numeric := 0x1234 |};
                                {| v_format := 1; v_data := 0xA2B3; v_numeric := 7 |}] |} in
  let cA := ctx_of gA in let cB := ctx_of gB in
  valid_cfg gB = true /\
  (* Set Endpoint ID 0x56: accepted *)
  converse true cA cB 1 [0x10; 0; 0x56] [] =
    Some ([32; 15; 10; 71; 1; 16; 35; 200; 0; 128; 1; 0; 86; 176],
          Some (16%nat, ok (MCtpControl, (12%nat, 3%nat)), [0; 86; 0])) /\
  (* Set Discovered Flag: Error Invalid Data comes back *)
  snd (match converse true cA cB 1 [0x10; 3; 0x56] [] with Some r => r | None => ([], None) end) =
    Some (16%nat, err MCtpControl (DControlMessage (CEUnsuccessfulCompletionCode 2)), [0; 0; 0]) /\
  (* Get Endpoint ID: the answer is rejected for its length (known finding 101) *)
  converse true cA cB 2 [0x10] [] =
    Some ([32; 15; 8; 71; 1; 16; 35; 200; 0; 128; 2; 250],
          Some (16%nat, err MCtpControl (DControlMessage CEInvalidRequestDataLength), [0; 0; 0])) /\
  (* Get Endpoint UUID, Get MCTP Version Support, Get Message Type Support, Get Vendor Defined Message Support 1 *)
  converse true cA cB 3 [0x10] [] =
    Some ([32; 15; 8; 71; 1; 16; 35; 200; 0; 128; 3; 253],
          Some (29%nat, ok (MCtpControl, (12%nat, 16%nat)), repeat 0 16)) /\
  snd (match converse true cA cB 4 [0x10; 0xFF] [] with Some r => r | None => ([], None) end) =
    Some (18%nat, ok (MCtpControl, (12%nat, 5%nat)), [1; 241; 243; 241; 0]) /\
  converse true cA cB 5 [0x10] [] =
    Some ([32; 15; 8; 71; 1; 16; 35; 200; 0; 128; 5; 239],
          Some (17%nat, ok (MCtpControl, (12%nat, 4%nat)), [3; 0; 5; 0x7E])) /\
  converse true cA cB 6 [0x10; 1] [] =
    Some ([32; 15; 9; 71; 1; 16; 35; 200; 0; 128; 6; 1; 211],
          Some (21%nat, ok (MCtpControl, (12%nat, 8%nat)), [255; 1; 0; 0; 0xA2; 0xB3; 0; 7])) /\
  (* Resolve Endpoint ID: encoded, accepted, and the responder panics: nothing to decode *)
  snd (match converse true cA cB 7 [0x10; 0x30] [] with Some r => r | None => ([1], Some (0%nat, bad_length, [])) end) = None /\
  (* the same in the wrapping-arithmetic mode *)
  map (fun q => converse false cA cB (fst q) (snd q) [])
      [(1, [0x10; 0; 0x56]); (2, [0x10]); (3, [0x10]); (5, [0x10]); (6, [0x10; 1])] =
  map (fun q => converse true cA cB (fst q) (snd q) [])
      [(1, [0x10; 0; 0x56]); (2, [0x10]); (3, [0x10]); (5, [0x10]); (6, [0x10; 1])].
Proof. vm_compute. repeat split; reflexivity. Qed.

Print Assumptions own_request_accepted.
Print Assumptions conversation_set_eid.
Print Assumptions conversation_set_discovered_flag.
Print Assumptions conversation_get_eid.
Print Assumptions conversation_get_uuid.
Print Assumptions conversation_get_version.
Print Assumptions conversation_get_msg_types.
Print Assumptions conversation_get_vendor.
Print Assumptions conversation_unanswerable_panics.
Print Assumptions conversation_nonvacuous.
