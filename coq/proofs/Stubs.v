(* Stubs.v — the three request encoders that end in unimplemented!() (request_tx_rate_limit, update_rate_limmit,
   query_supported_interfaces; smbus_request.rs:439-487).  They are part of the public API, so they are part of the
   model (Encode.req_stub, Ops.hdr_op 14) and of the correspondence; no property speaks about them (they encode
   nothing they report), so no oracle judges them.  What the model says: every call panics; given room for twelve bytes
   the buffer then starts with a complete Request TX Rate Limit request (command code 0x12, whichever of the three
   was called) followed by its own bytes from index 12 on; with less room the packet writer itself panics. *)
Require Import Base Crc Bitfield Headers Encode Decode Process Ops Spec Judge.
Require Import EncodeFacts.
Open Scope N_scope.

Theorem req_stub_always_panics ovf addr dest buf : exists k, snd (req_stub ovf addr dest buf) = Panic k.
Proof. unfold req_stub. destruct (control_packet ovf addr dest (req_hdr 18) [] buf) as [b r]. exists PUnimpl. reflexivity. Qed.

Theorem req_stub_buffer ovf addr dest buf : addr < 256 -> dest < 256 -> (12 <= length buf)%nat ->
  req_stub ovf addr dest buf = (spec_packet addr dest 0 [128; 18] ++ skipn 12 buf, Panic PUnimpl).
Proof.
  intros Ha Hd Hl. unfold req_stub.
  assert (Hc : 18 < 256) by lia.
  pose proof (enc_spec_ctl ovf addr dest true 18 [] buf Ha Hd Hc) as H.
  unfold enc_spec in H. cbn [app length N.b2n] in H.
  change (259 <? 10 + 2)%nat with false in H. cbv iota in H.
  destruct (Nat.leb_spec (10 + 2) (length buf)) as [_|Hn]; [|lia].
  change (1 * 128) with 128 in H.
  change (req_hdr 18) with (control_header_new true false 0 18).
  rewrite H. reflexivity.
Qed.

Example stub_on_bytes :
  hdr_op 14 0x34 (repeat 0xAA 14) (0x23 * 256 + 19) =
  XPanic [0x68; 0x0F; 0x08; 0x47; 0x01; 0x34; 0x23; 0xC8; 0x00; 0x80; 0x12; pec [0x68; 0x0F; 0x08; 0x47; 0x01; 0x34; 0x23; 0xC8; 0x00; 0x80; 0x12]; 0xAA; 0xAA]
  /\ hdr_op 14 0x34 (repeat 0xAA 5) (0x23 * 256 + 18) = XPanic [0x68; 0x0F; 0x08; 0x47; 0xAA].
Proof. split; vm_compute; reflexivity. Qed.

Print Assumptions req_stub_always_panics.
Print Assumptions req_stub_buffer.
