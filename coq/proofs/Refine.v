(* Refine.v — the responder refines a short abstract endpoint (IronFleet-style layering).
   The abstract endpoint is two EID cells and a UUID; `answer` says what it replies to an accepted request.
   Every history of the concrete model (Ops.run / Ops.run_ctx) is a history of the abstract endpoint:
   step_refines (one step), run_refines (all histories), answers_refine (every answered request, in context). *)
Require Import Base Crc Bitfield Headers Encode Decode Process Ops Spec Judge.
Require Import CrcFacts BitfieldFacts HeaderFacts PecFacts EncodeFacts DecodeFacts Hist StepsSimple StepsEncode
               DecodeChar ProcessChar StepsRecv StepsProcess.
Open Scope N_scope.

(* ================================================================ the abstract endpoint *)
Record astate := { a_req : N; a_resp : N; a_uuid : list N }.     (* the two EID cells and the UUID; NOTHING else *)
Definition a0 : astate := {| a_req := 0; a_resp := 0; a_uuid := repeat 0 16 |}.
Definition abs (c : ctx) : astate := {| a_req := c_eid_req c; a_resp := c_eid_resp c; a_uuid := c_uuid c |}.

(* what the endpoint answers to an accepted request: new state, completion code, data fields *)
Definition answer (g : config) (s : astate) (cmd : N) (d : list N) : astate * (N * list N) :=
  match cmd with
  | 1 => if (nth 0 d 0 =? 0) || (nth 0 d 0 =? 1)
         then ({| a_req := nth 1 d 0; a_resp := nth 1 d 0; a_uuid := a_uuid s |}, (0, [0; nth 1 d 0; 0]))
         else (s, (2, [0; a_resp s; 0]))                          (* operation 3: set discovered flag *)
  | 2 => (s, (0, [a_resp s; 0; 0]))
  | 3 => (s, (0, a_uuid s))
  | 4 => (s, (0, [1; 241; 243; 241; 0]))
  | 5 => (s, (0, N.of_nat (length (g_msg_types g)) :: g_msg_types g))
  | _ (* 6 *) =>
      let i := nth 0 d 0 in
      let next := if i + 1 =? N.of_nat (length (g_vendor_ids g)) then 255 else i + 1 in
      (s, (0, next :: match nth_error (g_vendor_ids g) (N.to_nat i) with Some v => enc_vendor_set v | None => [] end))
  end.

(* the requests the endpoint services: accepted, command 1..6, outside the recorded panic classes P2-P5
   (process_panic_class ignores its first argument; `true` as in StepsProcess.answer_exists / Interop.v) *)
Definition serviced (g : config) (p : list N) : bool :=
  accepted_request p && answerable (ctl_cmd p) && (process_panic_class true g p =? 0).
(* ... and the ones it answers: serviced, with room for the answer *)
Definition answered (g : config) (p buf : list N) : bool := serviced g p && (64 <=? length buf)%nat.

Lemma answered_unfold g p buf :
  answered g p buf =
  accepted_request p && answerable (ctl_cmd p) && (process_panic_class true g p =? 0) && (64 <=? length buf)%nat.
Proof. reflexivity. Qed.

(* the data bytes of a request: what follows the control header, up to the PEC *)
Definition req_data (p : list N) : list N := sub p 11 (length p - 12).

(* The abstract step over ALL operations of the interface.
   ADAPTED TO THE MODEL in two places (both are the truth of the Rust code):
   - OProcess changes the state whenever the request is `serviced`, whether or not the response buffer has room:
     a Set Endpoint ID request (operation 0/1) into a buffer that is too short assigns both EIDs and THEN fails
     in the encoder (see dispatch_assign_ctx in StepsProcess.v and the 10-byte buffer in C13_nonvacuous);
   - OSetUuid with a slice whose length is not 16 panics (copy_from_slice) and leaves the context unchanged. *)
Definition astep (g : config) (s : astate) (o : op) : astate :=
  match o with
  | OProcess p buf => if serviced g p then fst (answer g s (ctl_cmd p) (req_data p)) else s
  | OSetEid true e => {| a_req := e; a_resp := a_resp s; a_uuid := a_uuid s |}
  | OSetEid false e => {| a_req := a_req s; a_resp := e; a_uuid := a_uuid s |}
  | OSetUuid u => if (length u =? 16)%nat then {| a_req := a_req s; a_resp := a_resp s; a_uuid := u |} else s
  | _ => s                                  (* decode, probe, every encoder call, header views, conversions *)
  end.

(* the observation of an answered request: the response (cc, fields) of `answer`, written to the front of buf *)
Definition aobs (g : config) (s : astate) (p buf : list N) : obs :=
  let '(cc, fields) := snd (answer g s (ctl_cmd p) (req_data p)) in resp_obs g p cc fields buf.

(* an observation that carries no response: a panic, a rejection, or an acceptance without response length;
   in each case the buffer is as it was *)
Definition silent (buf : list N) (x : obs) : Prop :=
  match x with
  | XPanic b => b = buf
  | XProcess (inr _) b => b = buf
  | XProcess (inl (_, None)) b => b = buf
  | _ => False
  end.

(* ================================================================ serviced requests, case by case *)
Lemma serviced_cases g p : serviced g p = true ->
  accepted_request p = true /\
  ((ctl_cmd p = 1 /\ (nth 11 p 0 = 0 \/ nth 11 p 0 = 1)) \/
   (ctl_cmd p = 1 /\ nth 11 p 0 = 3) \/
   ctl_cmd p = 2 \/ ctl_cmd p = 3 \/ ctl_cmd p = 4 \/ ctl_cmd p = 5 \/
   (ctl_cmd p = 6 /\ nth 11 p 0 < N.of_nat (length (g_vendor_ids g)))).
Proof.
  unfold serviced. intros H. apply andb_true_iff in H as [H Hpp]. apply andb_true_iff in H as [Ha Hans].
  apply N.eqb_eq in Hpp. split; [exact Ha|].
  unfold process_panic_class in Hpp. rewrite (accepted_wf p Ha) in Hpp. cbv zeta in Hpp.
  unfold answerable in Hans. apply andb_true_iff in Hans as [Hlo Hhi]. apply N.leb_le in Hlo, Hhi.
  assert (Hcases : ctl_cmd p = 1 \/ ctl_cmd p = 2 \/ ctl_cmd p = 3 \/ ctl_cmd p = 4 \/ ctl_cmd p = 5 \/ ctl_cmd p = 6)
    by lia.
  destruct Hcases as [E|[E|[E|[E|[E|E]]]]]; rewrite E in Hpp; cbn [N.eqb Pos.eqb orb] in Hpp.
  - destruct ((nth 11 p 0 =? 2) || (4 <=? nth 11 p 0)) eqn:Eop; [discriminate|].
    apply orb_false_iff in Eop as [E2 E4]. apply N.eqb_neq in E2. apply N.leb_gt in E4.
    assert (Hop : (nth 11 p 0 = 0 \/ nth 11 p 0 = 1) \/ nth 11 p 0 = 3) by lia.
    destruct Hop as [Hop|Hop]; [left|right; left]; split; assumption.
  - right; right; left; exact E.
  - right; right; right; left; exact E.
  - right; right; right; right; left; exact E.
  - right; right; right; right; right; left; exact E.
  - destruct (N.of_nat (length (g_vendor_ids g)) <=? nth 11 p 0) eqn:Esel; [discriminate|].
    apply N.leb_gt in Esel. right; right; right; right; right; right. split; assumption.
Qed.

Lemma assigning_serviced g p : assigning p = true -> serviced g p = true.
Proof.
  intros A. destruct (assigning_facts p A) as (Ha & Hcmd & Hop & L).
  unfold serviced. rewrite Ha, Hcmd. change (answerable 1) with true. cbn [andb].
  unfold process_panic_class. rewrite (accepted_wf p Ha). cbv zeta. rewrite Hcmd. cbn [N.eqb Pos.eqb].
  destruct Hop as [-> | ->]; reflexivity.
Qed.

Lemma req_data_2 p : length p = 14%nat -> req_data p = [nth 11 p 0; nth 12 p 0].
Proof. apply sub_11_2. Qed.
Lemma req_data_1 p : length p = 13%nat -> req_data p = [nth 11 p 0].
Proof. apply sub_11_1. Qed.

Lemma len14 p : accepted_request p = true -> ctl_cmd p = 1 -> length p = 14%nat.
Proof. intros Ha E. apply (accepted_fixed_len p 1 Ha). rewrite E. reflexivity. Qed.
Lemma len13 p : accepted_request p = true -> ctl_cmd p = 6 -> length p = 13%nat.
Proof. intros Ha E. apply (accepted_fixed_len p 0 Ha). rewrite E. reflexivity. Qed.

(* ================================================================ the state after a processing step *)
(* the model: both EIDs := byte 12 of an assigning Set Endpoint ID request; nothing else changes what abs sees *)
Lemma process_abs ovf c p buf : bytes_ok p ->
  abs (fst (step ovf c (OProcess p buf))) =
  if assigning p then {| a_req := nth 12 p 0; a_resp := nth 12 p 0; a_uuid := c_uuid c |} else abs c.
Proof.
  intros Hok. unfold abs. rewrite (ctx_step_uuid _ _ _ (step_process_ctx ovf c p buf)).
  pose proof (step_process_eids ovf c p buf Hok) as EE. cbv zeta in EE.
  destruct (assigning p); destruct EE as [E1 E2]; rewrite E1, E2; reflexivity.
Qed.

(* the abstract endpoint: the same *)
Lemma astep_process g s p buf :
  astep g s (OProcess p buf) =
  if assigning p then {| a_req := nth 12 p 0; a_resp := nth 12 p 0; a_uuid := a_uuid s |} else s.
Proof.
  cbn [astep]. destruct (serviced g p) eqn:Hs.
  - destruct (serviced_cases g p Hs) as (Ha & [(E & Hop)|[(E & Hop)|[E|[E|[E|[E|(E & Hsel)]]]]]]).
    + assert (A : assigning p = true).
      { unfold assigning. rewrite Ha, E. destruct Hop as [-> | ->]; reflexivity. }
      rewrite A, E, (req_data_2 p (len14 p Ha E)). cbn [answer nth].
      replace ((nth 11 p 0 =? 0) || (nth 11 p 0 =? 1)) with true by (destruct Hop as [-> | ->]; reflexivity).
      reflexivity.
    + assert (A : assigning p = false).
      { unfold assigning. rewrite Ha, E, Hop. reflexivity. }
      rewrite A, E, (req_data_2 p (len14 p Ha E)). cbn [answer nth]. rewrite Hop. reflexivity.
    + assert (A : assigning p = false) by (unfold assigning; rewrite Ha, E; reflexivity).
      rewrite A, E. reflexivity.
    + assert (A : assigning p = false) by (unfold assigning; rewrite Ha, E; reflexivity).
      rewrite A, E. reflexivity.
    + assert (A : assigning p = false) by (unfold assigning; rewrite Ha, E; reflexivity).
      rewrite A, E. reflexivity.
    + assert (A : assigning p = false) by (unfold assigning; rewrite Ha, E; reflexivity).
      rewrite A, E. reflexivity.
    + assert (A : assigning p = false) by (unfold assigning; rewrite Ha, E; reflexivity).
      rewrite A, E. reflexivity.
  - destruct (assigning p) eqn:A; [|reflexivity].
    rewrite (assigning_serviced g p A) in Hs. discriminate.
Qed.

(* ================================================================ the observation of an answered request *)
Lemma answered_obs ovf g c p buf :
  wf_cfg g -> cinv g c -> valid_cfg g = true -> bytes_ok p -> answered g p buf = true ->
  snd (step ovf c (OProcess p buf)) = aobs g (abs c) p buf.
Proof.
  intros Hg Hc Hv Hok Hans. unfold answered in Hans. apply andb_true_iff in Hans as [Hs Hbuf].
  apply Nat.leb_le in Hbuf.
  destruct (StepsProcess.valid_cfg_facts g Hv) as (H30 & H1 & H255 & Hfmt).
  unfold aobs.
  destruct (serviced_cases g p Hs) as (Ha & [(E & Hop)|[(E & Hop)|[E|[E|[E|[E|(E & Hsel)]]]]]]).
  - rewrite (step_set_eid_assign ovf g c p buf Hg Hc Hok Ha Hbuf E Hop).
    rewrite E, (req_data_2 p (len14 p Ha E)). cbn [answer nth snd].
    replace ((nth 11 p 0 =? 0) || (nth 11 p 0 =? 1)) with true by (destruct Hop as [-> | ->]; reflexivity).
    reflexivity.
  - rewrite (step_set_eid_flag ovf g c p buf Hg Hc Hok Ha Hbuf E Hop).
    rewrite E, (req_data_2 p (len14 p Ha E)). cbn [answer nth snd]. rewrite Hop. reflexivity.
  - rewrite (step_get_eid ovf g c p buf Hg Hc Hok Ha Hbuf E). rewrite E. reflexivity.
  - rewrite (step_get_uuid ovf g c p buf Hg Hc Hok Ha Hbuf E). rewrite E. reflexivity.
  - rewrite (step_get_version ovf g c p buf Hg Hc Hok Ha Hbuf E). rewrite E. reflexivity.
  - rewrite (step_get_msg_types ovf g c p buf Hg Hc Hok Ha Hbuf E H30). rewrite E. reflexivity.
  - destruct (nth_error (g_vendor_ids g) (N.to_nat (nth 11 p 0))) as [v|] eqn:Ev;
      [|apply nth_error_None in Ev; lia].
    rewrite (step_get_vendor ovf g c p buf Hg Hc Hok Ha Hbuf v E) by (try assumption; try lia; eapply Hfmt, Ev).
    rewrite E, (req_data_1 p (len13 p Ha E)). cbn [answer nth snd]. rewrite Ev. reflexivity.
Qed.

(* ================================================================ requests that are not serviced *)
(* an accepted request with a tabulated command (< 9) that is not serviced — command 0, 7, 8, Set Endpoint ID
   operation 2 or >= 4, vendor set selector out of range — makes the dispatcher panic, whatever the buffer,
   and the buffer is left as it was (the context too, up to the selector, which abs does not see) *)
Lemma dispatch_unserviced ovf g c buf p src :
  cinv g c -> accepted_request p = true -> ctl_cmd p < 9 -> serviced g p = false ->
  exists c' k, dispatch_request ovf c buf (ctl_cmd p) src (req_data p) = ((c', buf), Panic k).
Proof.
  intros Hc Ha H9 Hs. unfold serviced in Hs. rewrite Ha in Hs. cbn [andb] in Hs.
  unfold process_panic_class in Hs. rewrite (accepted_wf p Ha) in Hs. cbv zeta in Hs.
  assert (Hcases : ctl_cmd p = 0 \/ ctl_cmd p = 1 \/ ctl_cmd p = 2 \/ ctl_cmd p = 3 \/ ctl_cmd p = 4 \/
                   ctl_cmd p = 5 \/ ctl_cmd p = 6 \/ ctl_cmd p = 7 \/ ctl_cmd p = 8) by lia.
  destruct Hcases as [E|[E|[E|[E|[E|[E|[E|[E|E]]]]]]]].
  - rewrite E. unfold dispatch_request. change (cmd_from_u8 0) with 0. cbv beta iota zeta.
    eexists; eexists; reflexivity.
  - rewrite (req_data_2 p (len14 p Ha E)). rewrite E in Hs |- *.
    change (answerable 1) with true in Hs. cbn [N.eqb Pos.eqb andb] in Hs.
    destruct ((nth 11 p 0 =? 2) || (4 <=? nth 11 p 0)) eqn:Eop; [|discriminate].
    unfold dispatch_request. change (cmd_from_u8 1) with 1. cbv beta iota zeta.
    change (index [nth 11 p 0; nth 12 p 0] 0) with (Val (nth 11 p 0)). cbv beta iota.
    destruct (N.eqb_spec (nth 11 p 0) 2) as [E2|E2].
    + rewrite E2. cbn [N.eqb Pos.eqb orb]. eexists; eexists; reflexivity.
    + cbn [orb] in Eop. apply N.leb_le in Eop.
      replace (nth 11 p 0 =? 0) with false by (symmetry; apply N.eqb_neq; lia).
      replace (nth 11 p 0 =? 1) with false by (symmetry; apply N.eqb_neq; lia).
      replace (nth 11 p 0 =? 3) with false by (symmetry; apply N.eqb_neq; lia).
      cbn [orb]. eexists; eexists; reflexivity.
  - rewrite E in Hs. vm_compute in Hs. discriminate.
  - rewrite E in Hs. vm_compute in Hs. discriminate.
  - rewrite E in Hs. vm_compute in Hs. discriminate.
  - rewrite E in Hs. vm_compute in Hs. discriminate.
  - rewrite (req_data_1 p (len13 p Ha E)). rewrite E in Hs |- *.
    change (answerable 6) with true in Hs. cbn [N.eqb Pos.eqb andb] in Hs.
    destruct (N.of_nat (length (g_vendor_ids g)) <=? nth 11 p 0) eqn:Esel; [|discriminate].
    apply N.leb_le in Esel.
    unfold dispatch_request. change (cmd_from_u8 6) with 6. cbv beta iota zeta.
    change (index [nth 11 p 0] 0) with (Val (nth 11 p 0)). cbv beta iota.
    destruct (u8_add ovf (nth 11 p 0) 1) as [s1|k]; [|eexists; eexists; reflexivity].
    cbn [set_selector c_vendor_ids].
    assert (Ev : c_vendor_ids c = g_vendor_ids g) by (apply Hc). rewrite Ev.
    assert (En : nth_error (g_vendor_ids g) (N.to_nat (nth 11 p 0)) = None) by (apply nth_error_None; lia).
    rewrite En. eexists; eexists; reflexivity.
  - rewrite E. unfold dispatch_request. change (cmd_from_u8 7) with 7. cbv beta iota zeta.
    eexists; eexists; reflexivity.
  - rewrite E. unfold dispatch_request. change (cmd_from_u8 8) with 8. cbv beta iota zeta.
    eexists; eexists; reflexivity.
Qed.

(* a request that is not serviced produces no response and leaves the buffer as it was: the step panics
   (decoder classes, command >= 9, processor classes P2-P5), or reports a rejection, or reports a message that
   is not a control request *)
Lemma unserviced_silent ovf g c p buf :
  wf_cfg g -> cinv g c -> bytes_ok p -> serviced g p = false ->
  silent buf (snd (step ovf c (OProcess p buf))).
Proof.
  intros Hg Hc Hok Hs.
  pose proof (process_step_obs ovf c p buf Hok (StepsRecv.cinv_addr g c Hg Hc)) as P. cbv zeta in P.
  destruct (decode_packet p) as [[[mt rng]|e]|k] eqn:Hd.
  - destruct (is_ctl_request p mt) eqn:Hq.
    + assert (Hq' := Hq). unfold is_ctl_request in Hq'. apply andb_true_iff in Hq' as [Hm Hr].
      assert (mt = MCtpControl) by (destruct mt; try discriminate; reflexivity). subst mt.
      destruct (decoded_request_accepted p rng Hok Hd Hr) as (Ha & H9).
      destruct (dispatch_unserviced ovf g c buf p (nth 6 p 0) Hc Ha H9 Hs) as (c' & k & D).
      unfold req_data in D.
      destruct P as [(c1 & b1 & k1 & D1 & St)|(c1 & b1 & n & D1 & St & _)].
      * rewrite D in D1. injection D1 as _ Eb _. rewrite St. cbn [snd silent]. symmetry. exact Eb.
      * rewrite D in D1. discriminate.
    + rewrite P. cbn [snd silent]. reflexivity.
  - rewrite P. cbn [snd silent]. reflexivity.
  - rewrite P. cbn [snd silent]. reflexivity.
Qed.

(* ================================================================ 1. one step *)
Theorem step_refines ovf g c o :
  wf_cfg g -> cinv g c -> valid_cfg g = true -> wf_op o ->
  (* the state *)
  abs (fst (step ovf c o)) = astep g (abs c) o /\
  (* an answered request is answered as the abstract endpoint says *)
  (forall p buf, o = OProcess p buf -> answered g p buf = true ->
     snd (step ovf c o) = aobs g (abs c) p buf) /\
  (* a request that is not serviced gets no response and the buffer stays as it was *)
  (forall p buf, o = OProcess p buf -> serviced g p = false ->
     silent buf (snd (step ovf c o))).
Proof.
  intros Hg Hc Hv Hw. split; [|split].
  - destruct o as [p buf|p|p|h e|u|h id a ls buf|what fld raw v|what b]; try reflexivity.
    + destruct Hw as [Hok _]. rewrite (process_abs ovf c p buf Hok), astep_process. reflexivity.
    + destruct h; reflexivity.
    + cbn [step astep]. unfold set_uuid. destruct (length u =? 16)%nat; reflexivity.
  - intros p buf -> Hans. destruct Hw as [Hok _]. apply answered_obs; assumption.
  - intros p buf -> Hs. destruct Hw as [Hok _]. apply (unserviced_silent ovf g c p buf); assumption.
Qed.

(* the third part in the terms of the brief: a packet that is not an accepted request *)
Corollary step_unanswered ovf g c p buf r b :
  wf_cfg g -> cinv g c -> bytes_ok p -> accepted_request p = false ->
  snd (step ovf c (OProcess p buf)) = XProcess r b ->
  b = buf /\ match r with inl (_, Some _) => False | _ => True end.
Proof.
  intros Hg Hc Hok Ha Hx.
  assert (Hs : serviced g p = false) by (unfold serviced; rewrite Ha; reflexivity).
  pose proof (unserviced_silent ovf g c p buf Hg Hc Hok Hs) as S. rewrite Hx in S. cbn [silent] in S.
  destruct r as [[d [n|]]|e]; [contradiction|split; [exact S|exact I]|split; [exact S|exact I]].
Qed.

(* ================================================================ 2. all histories *)
Lemma abs_init g : abs (ctx_of g) = a0.
Proof. reflexivity. Qed.

Lemma cinv_run ovf g c ops : cinv g c -> Forall wf_op ops -> cinv g (run_ctx ovf c ops).
Proof.
  revert c. induction ops as [|o ops IH]; intros c Hc Hw; [exact Hc|].
  inversion Hw as [|? ? Hwo Hwr]; subst. cbn [run_ctx]. apply IH; [apply cinv_step; assumption|exact Hwr].
Qed.

Lemma run_refines_from ovf g c ops :
  wf_cfg g -> valid_cfg g = true -> cinv g c -> Forall wf_op ops ->
  abs (run_ctx ovf c ops) = fold_left (astep g) ops (abs c).
Proof.
  intros Hg Hv. revert c. induction ops as [|o ops IH]; intros c Hc Hw; [reflexivity|].
  inversion Hw as [|? ? Hwo Hwr]; subst. cbn [run_ctx fold_left].
  rewrite <- (proj1 (step_refines ovf g c o Hg Hc Hv Hwo)).
  apply IH; [apply cinv_step; assumption|exact Hwr].
Qed.

Theorem run_refines ovf g ops :
  wf_cfg g -> valid_cfg g = true -> Forall wf_op ops ->
  abs (run_ctx ovf (ctx_of g) ops) = fold_left (astep g) ops a0.
Proof.
  intros Hg Hv Hw. rewrite <- (abs_init g). apply run_refines_from; try assumption. apply cinv_init, Hg.
Qed.

(* ================================================================ 3. every answered request, in its history *)
Lemma run_length ovf c ops : length (run ovf c ops) = length ops.
Proof.
  revert c. induction ops as [|o ops IH]; intros c; [reflexivity|].
  rewrite run_cons. cbn [length]. rewrite IH. reflexivity.
Qed.

Lemma run_app ovf c ops1 ops2 :
  run ovf c (ops1 ++ ops2) = run ovf c ops1 ++ run ovf (run_ctx ovf c ops1) ops2.
Proof.
  revert c. induction ops1 as [|o ops1 IH]; intros c; [reflexivity|].
  rewrite <- app_comm_cons, !run_cons, IH. reflexivity.
Qed.

Lemma nth_error_app_exact {A} (l1 l2 : list A) x : nth_error (l1 ++ x :: l2) (length l1) = Some x.
Proof. induction l1 as [|y l1 IH]; [reflexivity|exact IH]. Qed.

(* the harness record (observation, both get_eid() values) of step number (length pre) *)
Theorem answers_refine ovf g pre p buf post :
  wf_cfg g -> valid_cfg g = true -> Forall wf_op (pre ++ OProcess p buf :: post) ->
  answered g p buf = true ->
  let s := fold_left (astep g) pre a0 in
  let s' := astep g s (OProcess p buf) in
  nth_error (run ovf (ctx_of g) (pre ++ OProcess p buf :: post)) (length pre) =
  Some (aobs g s p buf, (a_req s', a_resp s')).
Proof.
  intros Hg Hv Hw Hans s s'.
  apply Forall_app in Hw as [Hwpre Hw]. inversion Hw as [|? ? Hwo Hwpost]; subst.
  set (c := run_ctx ovf (ctx_of g) pre).
  assert (Hc : cinv g c) by (apply cinv_run; [apply cinv_init, Hg|exact Hwpre]).
  assert (Es : abs c = s) by (apply run_refines; assumption).
  destruct (step_refines ovf g c (OProcess p buf) Hg Hc Hv Hwo) as (R1 & R2 & _).
  rewrite run_app. fold c. rewrite run_cons.
  rewrite <- (run_length ovf (ctx_of g) pre). rewrite nth_error_app_exact.
  unfold obs3_of. rewrite (R2 p buf eq_refl Hans).
  change (c_eid_req (fst (step ovf c (OProcess p buf)))) with (a_req (abs (fst (step ovf c (OProcess p buf))))).
  change (c_eid_resp (fst (step ovf c (OProcess p buf)))) with (a_resp (abs (fst (step ovf c (OProcess p buf))))).
  rewrite R1, Es. reflexivity.
Qed.

(* the same as a function: what the abstract endpoint predicts for every position of a history —
   Some (completion code, fields) where it answers, None elsewhere *)
Fixpoint arun (g : config) (s : astate) (ops : list op) : list (option (N * list N)) :=
  match ops with
  | [] => []
  | o :: r =>
      match o with
      | OProcess p buf => if answered g p buf then Some (snd (answer g s (ctl_cmd p) (req_data p))) else None
      | _ => None
      end :: arun g (astep g s o) r
  end.

(* an observation agrees with a prediction *)
Definition agrees (g : config) (o : op) (x : obs) (a : option (N * list N)) : Prop :=
  match a, o with
  | Some (cc, fields), OProcess p buf => x = resp_obs g p cc fields buf
  | Some _, _ => False
  | None, _ => True
  end.

Fixpoint all_agree (g : config) (ops : list op) (xs : list obs3) (ans : list (option (N * list N))) : Prop :=
  match ops, xs, ans with
  | [], [], [] => True
  | o :: ops', x :: xs', a :: ans' => agrees g o (fst x) a /\ all_agree g ops' xs' ans'
  | _, _, _ => False
  end.

Lemma arun_refines_from ovf g c ops :
  wf_cfg g -> valid_cfg g = true -> cinv g c -> Forall wf_op ops ->
  all_agree g ops (run ovf c ops) (arun g (abs c) ops).
Proof.
  intros Hg Hv. revert c. induction ops as [|o ops IH]; intros c Hc Hw; [exact I|].
  inversion Hw as [|? ? Hwo Hwr]; subst.
  destruct (step_refines ovf g c o Hg Hc Hv Hwo) as (R1 & R2 & _).
  rewrite run_cons. cbn [arun all_agree]. split.
  - unfold obs3_of. cbn [fst].
    destruct o as [p buf|p|p|h e|u|h id a ls buf|what fld raw v|what b]; try exact I.
    destruct (answered g p buf) eqn:Hans; [|exact I].
    rewrite (R2 p buf eq_refl Hans). unfold aobs, agrees.
    destruct (snd (answer g (abs c) (ctl_cmd p) (req_data p))) as [cc fields]. reflexivity.
  - rewrite <- R1. apply IH; [apply cinv_step; assumption|exact Hwr].
Qed.

Theorem arun_refines ovf g ops :
  wf_cfg g -> valid_cfg g = true -> Forall wf_op ops ->
  all_agree g ops (run ovf (ctx_of g) ops) (arun g a0 ops).
Proof.
  intros Hg Hv Hw. rewrite <- (abs_init g). apply arun_refines_from; try assumption. apply cinv_init, Hg.
Qed.

(* ================================================================ 4. a concrete history *)
(* the hypotheses, decidably *)
Definition wf_opb (o : op) : bool :=
  match o with
  | OProcess p b => bytes_okb p && bytes_okb b
  | ODecode p => bytes_okb p
  | OGetLength p => bytes_okb p
  | OSetEid _ e => e <? 256
  | OSetUuid u => bytes_okb u
  | OEncode h id a ls buf => args_okb h id a ls && bytes_okb buf
  | OHdr what fld raw v => bytes_okb raw && (v <? 4294967296) && (fld <? 256)
  | OConv _ b => b <? 256
  end.

Lemma bytes_okb_ok l : bytes_okb l = true -> bytes_ok l.
Proof.
  unfold bytes_okb, bytes_ok. intros H. rewrite forallb_forall in H. apply Forall_forall.
  intros x Hx. apply N.ltb_lt. exact (H x Hx).
Qed.

Lemma wf_opb_ok o : wf_opb o = true -> wf_op o.
Proof.
  destruct o as [p buf|p|p|h e|u|h id a ls buf|what fld raw v|what b]; cbn [wf_opb wf_op]; intros H.
  - apply andb_true_iff in H as [H1 H2]. split; apply bytes_okb_ok; assumption.
  - apply bytes_okb_ok, H.
  - apply bytes_okb_ok, H.
  - apply N.ltb_lt, H.
  - apply bytes_okb_ok, H.
  - apply andb_true_iff in H as [H1 H2]. split; [exact H1|apply bytes_okb_ok, H2].
  - apply andb_true_iff in H as [H H3]. apply andb_true_iff in H as [H1 H2].
    split; [apply bytes_okb_ok, H1|]. split; apply N.ltb_lt; assumption.
  - apply N.ltb_lt, H.
Qed.

Lemma wf_ops_ok ops : forallb wf_opb ops = true -> Forall wf_op ops.
Proof. intros H. rewrite forallb_forall in H. apply Forall_forall. intros o Ho. apply wf_opb_ok, H, Ho. Qed.

(* a context at address 0x10 with three message types and two vendor sets (PCI 0x8086, IANA 0xA2B3) *)
Definition gx : config :=
  {| g_addr := 0x10; g_msg_types := [0; 5; 0x7E];
     g_vendor_ids := [{| v_format := 0; v_data := 0x8086; v_numeric := 0x1234 |};
                      {| v_format := 1; v_data := 0xA2B3; v_numeric := 7 |}] |}.
Definition with_pec (l : list N) : list N := l ++ [pec l].
(* requester 0x23: Set EID 0x56, Get EID, a decode, set_uuid, Get UUID, an encoder call, Get Vendor Support 0 and 1,
   set_eid 9 on the request half, a set_uuid of the wrong length (panics, nothing changes),
   Set EID 0x57 into a 10-byte buffer (serviced, not answered: the EIDs are assigned, the encoder panics),
   Set EID operation 2 (class P3) and vendor selector 2 (class P4) (not serviced: panics, nothing changes),
   Get EID again *)
Definition opsx : list op :=
  let b64 := repeat 0 64 in
  let seid := [32; 15; 10; 71; 1; 16; 35; 200; 0; 128; 1; 0; 86; 176] in
  let geid := [32; 15; 8; 71; 1; 16; 35; 200; 0; 128; 2; 250] in
  let guuid := [32; 15; 8; 71; 1; 16; 35; 200; 0; 128; 3; 253] in
  let gv0 := [32; 15; 9; 71; 1; 16; 35; 200; 0; 128; 6; 0; 212] in
  let gv1 := [32; 15; 9; 71; 1; 16; 35; 200; 0; 128; 6; 1; 211] in
  [OProcess seid b64; OProcess geid b64; ODecode geid; OSetUuid [1;2;3;4;5;6;7;8;9;10;11;12;13;14;15;16];
   OProcess guuid b64; OEncode true 2 [0x23] [] (repeat 0 16); OProcess gv0 b64; OProcess gv1 b64;
   OSetEid true 9; OSetUuid [1;2;3];
   OProcess (with_pec [32; 15; 10; 71; 1; 16; 35; 200; 0; 128; 1; 0; 87]) (repeat 0 10);
   OProcess (with_pec [32; 15; 10; 71; 1; 16; 35; 200; 0; 128; 1; 2; 88]) b64;
   OProcess (with_pec [32; 15; 9; 71; 1; 16; 35; 200; 0; 128; 6; 2]) b64;
   OProcess geid b64].

Example refine_nonvacuous :
  (* the hypotheses of the theorems hold *)
  wf_cfg gx /\ valid_cfg gx = true /\ Forall wf_op opsx /\
  (* which requests are serviced / answered *)
  map (fun o => match o with OProcess p b => (serviced gx p, answered gx p b) | _ => (false, false) end) opsx =
    [(true, true); (true, true); (false, false); (false, false); (true, true); (false, false); (true, true);
     (true, true); (false, false); (false, false); (true, false); (false, false); (false, false); (true, true)] /\
  (* run_refines: the final states agree, in both overflow modes, and what they are *)
  abs (run_ctx true (ctx_of gx) opsx) = fold_left (astep gx) opsx a0 /\
  abs (run_ctx false (ctx_of gx) opsx) = fold_left (astep gx) opsx a0 /\
  fold_left (astep gx) opsx a0 =
    {| a_req := 87; a_resp := 87; a_uuid := [1;2;3;4;5;6;7;8;9;10;11;12;13;14;15;16] |} /\
  (* the EIDs the harness reads after each step *)
  map snd (run true (ctx_of gx) opsx) =
    [(86, 86); (86, 86); (86, 86); (86, 86); (86, 86); (86, 86); (86, 86); (86, 86); (9, 86); (9, 86);
     (87, 87); (87, 87); (87, 87); (87, 87)] /\
  (* what the abstract endpoint answers *)
  arun gx a0 opsx =
    [Some (0, [0; 86; 0]); Some (0, [86; 0; 0]); None; None;
     Some (0, [1; 2; 3; 4; 5; 6; 7; 8; 9; 10; 11; 12; 13; 14; 15; 16]); None;
     Some (0, [1; 0; 0x80; 0x86; 0x12; 0x34]); Some (0, [255; 1; 0; 0; 0xA2; 0xB3; 0; 7]);
     None; None; None; None; None; Some (0, [87; 0; 0])] /\
  (* arun_refines: the model's observations are those answers, in both overflow modes *)
  all_agree gx opsx (run true (ctx_of gx) opsx) (arun gx a0 opsx) /\
  all_agree gx opsx (run false (ctx_of gx) opsx) (arun gx a0 opsx) /\
  (* answers_refine at position 7 (Get Vendor Support 1) *)
  nth_error (run true (ctx_of gx) opsx) 7 =
    Some (resp_obs gx [32; 15; 9; 71; 1; 16; 35; 200; 0; 128; 6; 1; 211] 0 [255; 1; 0; 0; 0xA2; 0xB3; 0; 7]
                   (repeat 0 64), (86, 86)) /\
  (* the three requests that are not answered: the observations (the short buffer was partly written) *)
  map fst (firstn 3 (skipn 10 (run true (ctx_of gx) opsx))) =
    [XPanic [70; 15; 12; 33; 1; 35; 16; 200; 0; 0]; XPanic (repeat 0 64); XPanic (repeat 0 64)].
Proof.
  (* no vm_compute on wf_cfg: normalising `fun b => b < 256` under the binder unrolls the comparison *)
  split; [unfold wf_cfg, gx, bytes_ok; cbn [g_addr g_msg_types g_vendor_ids]; repeat constructor|].
  split; [vm_compute; reflexivity|].
  split; [apply wf_ops_ok; vm_compute; reflexivity|].
  vm_compute. repeat split; reflexivity.
Qed.

Print Assumptions step_refines.
Print Assumptions step_unanswered.
Print Assumptions run_refines.
Print Assumptions answers_refine.
Print Assumptions arun_refines.
Print Assumptions refine_nonvacuous.
