(* Session.v — a whole session between a bus owner A and an endpoint B, both sides through the library's own API.
   A (configuration gA, context cA) calls its request encoders 1..6; the bytes each call writes are handed to B's
   process_packet (configuration gB, context cB); B's context is threaded through the calls.
   Composition of Conversation.v (what A's encoders write is an accepted request) and Refine.v (B refines the
   abstract endpoint astate / answer):
     deliver_refines         one call: B's state moves by `effect`, B answers as the abstract endpoint says
     session_refines         any number of calls
     session_eid_is_last_set after a session both EIDs of B are the EID of the last Set Endpoint ID (set / force) *)
Require Import Base Crc Bitfield Headers Encode Decode Process Ops Spec Judge.
Require Import CrcFacts BitfieldFacts HeaderFacts PecFacts EncodeFacts DecodeFacts Hist StepsSimple StepsEncode
               DecodeChar ProcessChar StepsRecv StepsProcess Readable Interop Conversation Refine.
Open Scope N_scope.

(* ================================================================ a call of the bus owner and its delivery *)
Record call := { k_id : N; k_args : list N; k_lists : list (list N) }.   (* request encoder id 1..6 and its arguments *)

(* A encodes into a scratch buffer (64 zero bytes are enough for requests 1..6), B processes the bytes into bufB *)
Definition deliver (ovf : bool) (cA cB : ctx) (k : call) (bufB : list N) : option (ctx * obs) :=
  match encode_call ovf cA true (k_id k) (k_args k) (k_lists k) with
  | Some w => match w (repeat 0 64) with
              | (out, Val (Some n)) => Some (step ovf cB (OProcess (firstn n out) bufB))
              | _ => None                    (* the encoder refused (e.g. Set Endpoint ID with EID 0 / 0xFF) *)
              end
  | None => None
  end.

(* the meaning of a call for the endpoint's abstract state: only Set Endpoint ID with operation 0 (set) / 1 (force)
   moves it; args of encoder 1 are [dest; operation; eid] *)
Definition effect (s : astate) (k : call) : astate :=
  if (k_id k =? 1) && ((arg (k_args k) 1 =? 0) || (arg (k_args k) 1 =? 1))
  then {| a_req := arg (k_args k) 2; a_resp := arg (k_args k) 2; a_uuid := a_uuid s |} else s.

(* a call that can be delivered to B: encoder 1..6, arguments of the documented shapes, the encoder does not refuse
   (spec_request is Some: for Set Endpoint ID the EID is neither 0 nor 0xFF), and the request is outside B's recorded
   panic classes: Set Endpoint ID operation 0 / 1 / 3 (P3), vendor set selector below B's number of sets (P4) *)
Definition deliverable (gB : config) (k : call) : bool :=
  (1 <=? k_id k) && (k_id k <=? 6) &&
  args_okb true (k_id k) (k_args k) (k_lists k) &&
  (match spec_request (k_id k) (k_args k) (k_lists k) with Some _ => true | None => false end) &&
  (if k_id k =? 1 then (arg (k_args k) 1 =? 0) || (arg (k_args k) 1 =? 1) || (arg (k_args k) 1 =? 3)
   else if k_id k =? 6 then arg (k_args k) 1 <? N.of_nat (length (g_vendor_ids gB))
   else true).

(* the bytes of the request a call stands for, from A (address g_addr gA) to the destination the caller names *)
Definition request_of (gA : config) (k : call) : list N :=
  match spec_request (k_id k) (k_args k) (k_lists k) with
  | Some (code, params) => spec_packet (g_addr gA) (arg (k_args k) 0) 0 ([128; code] ++ params)
  | None => []
  end.

(* ================================================================ helpers *)
Lemma id_1_6 id : (1 <=? id) && (id <=? 6) = true ->
  id = 1 \/ id = 2 \/ id = 3 \/ id = 4 \/ id = 5 \/ id = 6.
Proof. intros H. apply andb_true_iff in H as [H1 H2]. apply N.leb_le in H1, H2. lia. Qed.

Lemma enc_dest_request id a : enc_dest true id a = arg a 0.
Proof. unfold enc_dest. rewrite orb_true_r. reflexivity. Qed.

Lemma bytes_ok_zeros n : bytes_ok (repeat 0 n).
Proof. unfold bytes_ok. induction n as [|n IH]; cbn [repeat]; constructor; [lia|exact IH]. Qed.

Lemma deliverable_parts gB k : deliverable gB k = true ->
  (1 <=? k_id k) && (k_id k <=? 6) = true /\
  args_okb true (k_id k) (k_args k) (k_lists k) = true /\
  (exists cp, spec_request (k_id k) (k_args k) (k_lists k) = Some cp) /\
  (k_id k = 1 -> arg (k_args k) 1 = 0 \/ arg (k_args k) 1 = 1 \/ arg (k_args k) 1 = 3) /\
  (k_id k = 6 -> arg (k_args k) 1 < N.of_nat (length (g_vendor_ids gB))).
Proof.
  unfold deliverable. intros H.
  apply andb_true_iff in H as [H H4]. apply andb_true_iff in H as [H H3]. apply andb_true_iff in H as [H1 H2].
  split; [exact H1|]. split; [exact H2|]. split; [|split].
  - destruct (spec_request (k_id k) (k_args k) (k_lists k)) as [cp|]; [exists cp; reflexivity|discriminate].
  - intros E. rewrite E in H4. cbn [N.eqb Pos.eqb] in H4.
    apply orb_true_iff in H4 as [H4|H4]; [apply orb_true_iff in H4 as [H4|H4]|]; apply N.eqb_eq in H4; tauto.
  - intros E. rewrite E in H4. cbn [N.eqb Pos.eqb] in H4. apply N.ltb_lt in H4. exact H4.
Qed.

(* the parameters of the requests 1..6: the command code is the encoder's number, at most two parameters *)
Lemma spec_request_1_6 id a ls cp : (1 <=? id) && (id <=? 6) = true -> spec_request id a ls = Some cp ->
  exists params, cp = (id, params) /\ (length params <= 2)%nat.
Proof.
  intros Hid E. destruct (id_1_6 id Hid) as [-> | [-> | [-> | [-> | [-> | ->]]]]]; cbn [spec_request] in E.
  - destruct ((arg a 2 =? 0) || (arg a 2 =? 255)); [discriminate|]. injection E as <-. eexists; split; [reflexivity|cbn [length]; lia].
  - injection E as <-. eexists; split; [reflexivity|cbn [length]; lia].
  - injection E as <-. eexists; split; [reflexivity|cbn [length]; lia].
  - injection E as <-. eexists; split; [reflexivity|cbn [length]; lia].
  - injection E as <-. eexists; split; [reflexivity|cbn [length]; lia].
  - injection E as <-. eexists; split; [reflexivity|cbn [length]; lia].
Qed.

(* the request encoders 1..6 exist on the request half *)
Lemma encoder_exists ovf c id a ls : (1 <=? id) && (id <=? 6) = true ->
  exists w, encode_call ovf c true id a ls = Some w.
Proof.
  intros Hid. destruct (id_1_6 id Hid) as [-> | [-> | [-> | [-> | [-> | ->]]]]]; eexists; reflexivity.
Qed.

(* a request encoder 1..6 whose arguments the API accepts succeeds on the 64-byte scratch buffer *)
Lemma request_encodes ovf g c id a ls params :
  wf_cfg g -> cinv g c -> (1 <=? id) && (id <=? 6) = true -> args_okb true id a ls = true ->
  spec_request id a ls = Some (id, params) -> (length params <= 2)%nat ->
  exists w out, encode_call ovf c true id a ls = Some w /\
    w (repeat 0 64) = (out, Val (Some (12 + length params)%nat)).
Proof.
  intros Hg Hc Hid Hargs Er Hlen.
  destruct (encoder_exists ovf c id a ls Hid) as (w & Ew).
  destruct Hc as (Ha & _ & _ & _ & Hs & _).
  pose proof (encode_call_model ovf c true id a ls w (repeat 0 64)) as M.
  rewrite Ha in M. specialize (M (proj1 Hg) Hs Hargs Ew).
  assert (Hid' : (1 <=? id) && (id <=? 17) = true).
  { apply andb_true_iff in Hid as [H1 H2]. apply N.leb_le in H1, H2. apply andb_true_iff. split; apply N.leb_le; lia. }
  assert (H15 : (id =? 15) = false).
  { apply andb_true_iff in Hid as [H1 H2]. apply N.leb_le in H2. apply N.eqb_neq. lia. }
  pose proof (model_request id a ls (c_eid_resp c) Hid') as MR. rewrite Er, H15 in MR.
  rewrite MR in M. unfold enc_spec in M.
  assert (Lb : length ([128; id] ++ params) = (2 + length params)%nat) by reflexivity.
  rewrite Lb, repeat_length in M.
  destruct (Nat.ltb_spec 259 (10 + (2 + length params))) as [Hov|_]; [lia|].
  destruct (Nat.leb_spec (10 + (2 + length params)) 64) as [_|Hl]; [|lia].
  exists w. eexists. split; [exact Ew|]. rewrite M. reflexivity.
Qed.

(* ================================================================ the packet a deliverable call puts on the bus *)
Lemma deliverable_request ovf gA cA gB k :
  wf_cfg gA -> cinv gA cA -> deliverable gB k = true ->
  let p := request_of gA k in
  exists params w out,
    spec_request (k_id k) (k_args k) (k_lists k) = Some (k_id k, params) /\
    encode_call ovf cA true (k_id k) (k_args k) (k_lists k) = Some w /\
    w (repeat 0 64) = (out, Val (Some (length p))) /\ firstn (length p) out = p /\
    p = spec_packet (g_addr gA) (arg (k_args k) 0) 0 ([128; k_id k] ++ params) /\
    bytes_ok p /\ accepted_request p = true /\ ctl_cmd p = k_id k /\ nth 6 p 0 = g_addr gA /\ req_data p = params.
Proof.
  intros Hg Hc Hd p.
  destruct (deliverable_parts gB k Hd) as (Hid & Hargs & (cp & Er) & _ & _).
  destruct (spec_request_1_6 _ _ _ cp Hid Er) as (params & -> & Hlen).
  destruct (request_encodes ovf gA cA _ _ _ params Hg Hc Hid Hargs Er Hlen) as (w & out & Ew & Hw).
  assert (Hid8 : (1 <=? k_id k) && (k_id k <=? 8) = true).
  { apply andb_true_iff in Hid as [H1 H2]. apply N.leb_le in H1, H2. apply andb_true_iff. split; apply N.leb_le; lia. }
  destruct (own_request_accepted ovf gA cA _ _ _ w _ out _ Hg Hc Hargs Ew Hw Hid8)
    as (params' & Er' & Ep & Hok & Ha & Hcmd & H6 & Hs & _).
  rewrite Er in Er'. assert (E : params' = params) by congruence. rewrite E in Ep, Hs. clear E Er'.
  rewrite enc_dest_request in Ep.
  assert (Epp : p = spec_packet (g_addr gA) (arg (k_args k) 0) 0 ([128; k_id k] ++ params)).
  { unfold p, request_of. rewrite Er. reflexivity. }
  assert (Lp : length p = (12 + length params)%nat).
  { rewrite Epp, spec_packet_length. reflexivity. }
  rewrite <- Epp in Ep. rewrite <- Lp in Hw, Ep, Hs, Hok, Ha, Hcmd, H6. rewrite Ep in Hok, Ha, Hcmd, H6, Hs.
  exists params, w, out. repeat split; assumption.
Qed.

(* delivering a deliverable call is one processing step of B on the request the call stands for *)
Lemma deliver_step ovf gA cA gB cB k bufB :
  wf_cfg gA -> cinv gA cA -> deliverable gB k = true ->
  deliver ovf cA cB k bufB = Some (step ovf cB (OProcess (request_of gA k) bufB)).
Proof.
  intros Hg Hc Hd.
  destruct (deliverable_request ovf gA cA gB k Hg Hc Hd) as (params & w & out & _ & Ew & Hw & Ef & _).
  unfold deliver. rewrite Ew, Hw, Ef. reflexivity.
Qed.

(* the request of a deliverable call is one B services (accepted, command 1..6, outside the panic classes) *)
Lemma deliverable_serviced gA gB k :
  wf_cfg gA -> deliverable gB k = true -> serviced gB (request_of gA k) = true.
Proof.
  intros Hg Hd.
  destruct (deliverable_request true gA (ctx_of gA) gB k Hg (cinv_init gA Hg) Hd)
    as (params & w & out & Er & _ & _ & _ & Ep & _ & Ha & Hcmd & _ & _).
  destruct (deliverable_parts gB k Hd) as (Hid & _ & _ & Hop & Hsel).
  set (p := request_of gA k) in *.
  unfold serviced. rewrite Ha, Hcmd. unfold answerable. rewrite Hid. cbn [andb].
  apply N.eqb_eq. unfold process_panic_class. rewrite (accepted_wf p Ha). cbv zeta. rewrite Hcmd.
  destruct (id_1_6 _ Hid) as [E|[E|[E|[E|[E|E]]]]]; rewrite E in Er, Ep |- *; cbn [N.eqb Pos.eqb orb];
    try reflexivity.
  - cbn [spec_request] in Er. destruct ((arg (k_args k) 2 =? 0) || (arg (k_args k) 2 =? 255)); [discriminate|].
    injection Er as <-.
    assert (E11 : nth 11 p 0 = arg (k_args k) 1) by (rewrite Ep; reflexivity).
    rewrite E11. destruct (Hop E) as [-> | [-> | ->]]; reflexivity.
  - cbn [spec_request] in Er. injection Er as <-.
    assert (E11 : nth 11 p 0 = arg (k_args k) 1) by (rewrite Ep; reflexivity).
    rewrite E11. specialize (Hsel E).
    replace (N.of_nat (length (g_vendor_ids gB)) <=? arg (k_args k) 1) with false
      by (symmetry; apply N.leb_gt; exact Hsel).
    reflexivity.
Qed.

(* what the abstract endpoint makes of the request of a deliverable call is `effect` *)
Lemma answer_effect gB s k params :
  (1 <=? k_id k) && (k_id k <=? 6) = true ->
  spec_request (k_id k) (k_args k) (k_lists k) = Some (k_id k, params) ->
  fst (answer gB s (k_id k) params) = effect s k.
Proof.
  intros Hid Er. unfold effect.
  destruct (id_1_6 _ Hid) as [E|[E|[E|[E|[E|E]]]]]; rewrite E in Er |- *; cbn [N.eqb Pos.eqb andb];
    try reflexivity.
  cbn [spec_request] in Er. destruct ((arg (k_args k) 2 =? 0) || (arg (k_args k) 2 =? 255)); [discriminate|].
  injection Er as <-. cbn [answer nth].
  destruct ((arg (k_args k) 1 =? 0) || (arg (k_args k) 1 =? 1)); reflexivity.
Qed.

(* ================================================================ 1. one call *)
Theorem deliver_refines ovf gA cA gB cB k bufB :
  wf_cfg gA -> cinv gA cA -> wf_cfg gB -> cinv gB cB -> valid_cfg gB = true ->
  deliverable gB k = true -> (64 <= length bufB)%nat -> bytes_ok bufB ->
  let p := request_of gA k in
  exists cB' x,
    deliver ovf cA cB k bufB = Some (cB', x) /\
    (* B's state moves as the call means *)
    abs cB' = effect (abs cB) k /\ cinv gB cB' /\
    (* B services the request, and answers it as the abstract endpoint says *)
    serviced gB p = true /\ req_data p = match spec_request (k_id k) (k_args k) (k_lists k) with
                                         | Some (_, params) => params | None => [] end /\
    x = aobs gB (abs cB) p bufB /\
    (* in particular B reports a response and its length *)
    (exists cc fields, snd (answer gB (abs cB) (k_id k) (req_data p)) = (cc, fields) /\
                       x = resp_obs gB p cc fields bufB) /\
    (exists d m out, x = XProcess (inl (d, Some m)) out).
Proof.
  intros HgA HcA HgB HcB Hv Hd Hbuf Hokb p.
  destruct (deliverable_request ovf gA cA gB k HgA HcA Hd)
    as (params & w & out & Er & _ & _ & _ & _ & Hok & Ha & Hcmd & _ & Hrd).
  destruct (deliverable_parts gB k Hd) as (Hid & _ & _ & _ & _).
  pose proof (deliverable_serviced gA gB k HgA Hd) as Hs.
  fold p in Hok, Ha, Hcmd, Hrd, Hs.
  assert (Hw : wf_op (OProcess p bufB)) by (split; assumption).
  destruct (step_refines ovf gB cB (OProcess p bufB) HgB HcB Hv Hw) as (R1 & R2 & _).
  assert (Hans : answered gB p bufB = true).
  { unfold answered. rewrite Hs. cbn [andb]. apply Nat.leb_le. exact Hbuf. }
  specialize (R2 p bufB eq_refl Hans).
  assert (Eo : snd (step ovf cB (OProcess p bufB)) =
               let '(cc, fields) := snd (answer gB (abs cB) (k_id k) (req_data p)) in resp_obs gB p cc fields bufB).
  { rewrite R2. unfold aobs. rewrite Hcmd. reflexivity. }
  exists (fst (step ovf cB (OProcess p bufB))), (snd (step ovf cB (OProcess p bufB))).
  split; [rewrite (deliver_step ovf gA cA gB cB k bufB HgA HcA Hd); fold p; apply f_equal, surjective_pairing|].
  split.
  { rewrite R1. cbn [astep]. rewrite Hs, Hcmd, Hrd. apply answer_effect; assumption. }
  split; [apply cinv_step; assumption|].
  split; [exact Hs|].
  split; [rewrite Hrd, Er; reflexivity|].
  split; [exact R2|].
  destruct (snd (answer gB (abs cB) (k_id k) (req_data p))) as [cc fields].
  split.
  - exists cc, fields. split; [reflexivity|exact Eo].
  - rewrite Eo. unfold resp_obs. eexists; eexists; eexists; reflexivity.
Qed.

(* ================================================================ 2. any number of calls *)
(* the calls delivered in order to B, each with the buffer B answers into; B's context is threaded through,
   A's context is the same throughout (encoding does not change it) *)
Fixpoint session (ovf : bool) (cA cB : ctx) (ks : list (call * list N)) : option ctx :=
  match ks with
  | [] => Some cB
  | (k, bufB) :: r =>
      match deliver ovf cA cB k bufB with
      | Some (cB', _) => session ovf cA cB' r
      | None => None
      end
  end.

(* the same with what B reports after each call *)
Fixpoint session_log (ovf : bool) (cA cB : ctx) (ks : list (call * list N)) : option (ctx * list obs) :=
  match ks with
  | [] => Some (cB, [])
  | (k, bufB) :: r =>
      match deliver ovf cA cB k bufB with
      | Some (cB', x) => match session_log ovf cA cB' r with
                         | Some (cB'', xs) => Some (cB'', x :: xs)
                         | None => None
                         end
      | None => None
      end
  end.

(* what the abstract endpoint reports along a session *)
Fixpoint asession (gA gB : config) (s : astate) (ks : list (call * list N)) : list obs :=
  match ks with
  | [] => []
  | (k, bufB) :: r => aobs gB s (request_of gA k) bufB :: asession gA gB (effect s k) r
  end.

Definition session_ok (gB : config) (ks : list (call * list N)) : Prop :=
  Forall (fun kb => deliverable gB (fst kb) = true /\ (64 <= length (snd kb))%nat /\ bytes_ok (snd kb)) ks.

Theorem session_refines ovf gA cA gB cB ks :
  wf_cfg gA -> cinv gA cA -> wf_cfg gB -> cinv gB cB -> valid_cfg gB = true -> session_ok gB ks ->
  exists cB', session ovf cA cB ks = Some cB' /\
              abs cB' = fold_left effect (map fst ks) (abs cB) /\ cinv gB cB'.
Proof.
  intros HgA HcA HgB HcB Hv Hks. revert cB HcB.
  induction ks as [|[k bufB] r IH]; intros cB HcB.
  - exists cB. split; [reflexivity|]. split; [reflexivity|exact HcB].
  - inversion Hks as [|? ? Hk Hr]; subst. cbn [fst snd] in Hk. destruct Hk as (Hd & Hbuf & Hokb).
    destruct (deliver_refines ovf gA cA gB cB k bufB HgA HcA HgB HcB Hv Hd Hbuf Hokb)
      as (cB1 & x & Ed & Eabs & Hc1 & _).
    destruct (IH Hr cB1 Hc1) as (cB' & Es & Ea & Hc').
    exists cB'. cbn [session map fst fold_left]. rewrite Ed, Es, <- Eabs.
    split; [reflexivity|]. split; [exact Ea|exact Hc'].
Qed.

(* ... and B reports, call by call, what the abstract endpoint reports *)
Theorem session_log_refines ovf gA cA gB cB ks :
  wf_cfg gA -> cinv gA cA -> wf_cfg gB -> cinv gB cB -> valid_cfg gB = true -> session_ok gB ks ->
  exists cB', session_log ovf cA cB ks = Some (cB', asession gA gB (abs cB) ks) /\
              session ovf cA cB ks = Some cB'.
Proof.
  intros HgA HcA HgB HcB Hv Hks. revert cB HcB.
  induction ks as [|[k bufB] r IH]; intros cB HcB.
  - exists cB. split; reflexivity.
  - inversion Hks as [|? ? Hk Hr]; subst. cbn [fst snd] in Hk. destruct Hk as (Hd & Hbuf & Hokb).
    destruct (deliver_refines ovf gA cA gB cB k bufB HgA HcA HgB HcB Hv Hd Hbuf Hokb)
      as (cB1 & x & Ed & Eabs & Hc1 & _ & _ & Ex & _).
    destruct (IH Hr cB1 Hc1) as (cB' & El & Es).
    exists cB'. cbn [session session_log asession]. rewrite Ed, El, Es, Eabs, Ex.
    split; reflexivity.
Qed.

(* ================================================================ 3. the EIDs after a session *)
(* a Set Endpoint ID call with operation 0 (set) or 1 (force) *)
Definition is_set (k : call) : bool :=
  (k_id k =? 1) && ((arg (k_args k) 1 =? 0) || (arg (k_args k) 1 =? 1)).

(* the EID argument of the LAST call of the list that is one *)
Fixpoint last_set (ks : list call) : option N :=
  match ks with
  | [] => None
  | k :: r => match last_set r with
              | Some e => Some e
              | None => if is_set k then Some (arg (k_args k) 2) else None
              end
  end.

Lemma fold_effect ks : forall s,
  a_req (fold_left effect ks s) = match last_set ks with Some e => e | None => a_req s end /\
  a_resp (fold_left effect ks s) = match last_set ks with Some e => e | None => a_resp s end /\
  a_uuid (fold_left effect ks s) = a_uuid s.
Proof.
  induction ks as [|k r IH]; intros s; [repeat split; reflexivity|].
  cbn [fold_left last_set]. destruct (IH (effect s k)) as (I1 & I2 & I3). rewrite I1, I2, I3.
  assert (Eu : a_uuid (effect s k) = a_uuid s).
  { unfold effect. destruct ((k_id k =? 1) && ((arg (k_args k) 1 =? 0) || (arg (k_args k) 1 =? 1))); reflexivity. }
  destruct (last_set r) as [e|]; [split; [reflexivity|split; [reflexivity|exact Eu]]|].
  unfold effect, is_set.
  destruct ((k_id k =? 1) && ((arg (k_args k) 1 =? 0) || (arg (k_args k) 1 =? 1))); repeat split; reflexivity.
Qed.

Corollary last_set_eids ks :
  a_req (fold_left effect ks a0) = match last_set ks with Some e => e | None => 0 end /\
  a_resp (fold_left effect ks a0) = match last_set ks with Some e => e | None => 0 end /\
  a_uuid (fold_left effect ks a0) = repeat 0 16.
Proof. exact (fold_effect ks a0). Qed.

(* after a session of deliverable calls with a freshly created endpoint B: both EIDs of B are the EID argument of
   the last Set Endpoint ID (set / force) call, 0 if there was none; the UUID is still the 16 zero bytes *)
Theorem session_eid_is_last_set ovf gA cA gB ks :
  wf_cfg gA -> cinv gA cA -> wf_cfg gB -> valid_cfg gB = true -> session_ok gB ks ->
  exists cB', session ovf cA (ctx_of gB) ks = Some cB' /\
    c_eid_req cB' = match last_set (map fst ks) with Some e => e | None => 0 end /\
    c_eid_resp cB' = match last_set (map fst ks) with Some e => e | None => 0 end /\
    c_uuid cB' = repeat 0 16.
Proof.
  intros HgA HcA HgB Hv Hks.
  destruct (session_refines ovf gA cA gB (ctx_of gB) ks HgA HcA HgB (cinv_init gB HgB) Hv Hks)
    as (cB' & Es & Ea & _).
  rewrite abs_init in Ea. destruct (last_set_eids (map fst ks)) as (L1 & L2 & L3).
  exists cB'. split; [exact Es|].
  change (c_eid_req cB') with (a_req (abs cB')). change (c_eid_resp cB') with (a_resp (abs cB')).
  change (c_uuid cB') with (a_uuid (abs cB')). rewrite Ea. split; [exact L1|]. split; [exact L2|exact L3].
Qed.

(* the same from any state of B: if the session contains no such call the EIDs are the ones B had *)
Theorem session_eid_is_last_set_from ovf gA cA gB cB ks :
  wf_cfg gA -> cinv gA cA -> wf_cfg gB -> cinv gB cB -> valid_cfg gB = true -> session_ok gB ks ->
  exists cB', session ovf cA cB ks = Some cB' /\
    c_eid_req cB' = match last_set (map fst ks) with Some e => e | None => c_eid_req cB end /\
    c_eid_resp cB' = match last_set (map fst ks) with Some e => e | None => c_eid_resp cB end /\
    c_uuid cB' = c_uuid cB.
Proof.
  intros HgA HcA HgB HcB Hv Hks.
  destruct (session_refines ovf gA cA gB cB ks HgA HcA HgB HcB Hv Hks) as (cB' & Es & Ea & _).
  destruct (fold_effect (map fst ks) (abs cB)) as (L1 & L2 & L3).
  exists cB'. split; [exact Es|].
  change (c_eid_req cB') with (a_req (abs cB')). change (c_eid_resp cB') with (a_resp (abs cB')).
  change (c_uuid cB') with (a_uuid (abs cB')). rewrite Ea. split; [exact L1|]. split; [exact L2|exact L3].
Qed.

(* ================================================================ 4. a concrete session *)
Definition gA_x : config :=
  {| g_addr := 0x23; g_msg_types := [0]; g_vendor_ids := [{| v_format := 0; v_data := 1; v_numeric := 1 |}] |}.
(* address 0x10, three message types, two vendor sets (PCI 0x8086, IANA 0xA2B3) *)
Definition gB_x : config :=
  {| g_addr := 0x10; g_msg_types := [0; 5; 0x7E];
     g_vendor_ids := [{| v_format := 0; v_data := 0x8086; v_numeric := 0x1234 |};
                      {| v_format := 1; v_data := 0xA2B3; v_numeric := 7 |}] |}.
Definition mk (id : N) (a : list N) : call := {| k_id := id; k_args := a; k_lists := [] |}.
(* Get EID; Set EID 0x56; Get UUID; Get Vendor 1; Force EID 0x57; Set discovered flag (op 3, eid 0x01); Get Version *)
Definition calls_x : list call :=
  [mk 2 [0x10]; mk 1 [0x10; 0; 0x56]; mk 3 [0x10]; mk 6 [0x10; 1]; mk 1 [0x10; 1; 0x57]; mk 1 [0x10; 3; 0x01];
   mk 4 [0x10; 0xFF]].
Definition session_x : list (call * list N) := map (fun k => (k, repeat 0 64)) calls_x.

Lemma session_x_ok : session_ok gB_x session_x.
Proof.
  unfold session_ok, session_x, calls_x. cbn [map].
  repeat (constructor; [cbn [fst snd]; split; [vm_compute; reflexivity|];
                        split; [rewrite repeat_length; apply Nat.le_refl|apply bytes_ok_zeros]|]).
  constructor.
Qed.

Example session_nonvacuous :
  (* the hypotheses of the theorems hold *)
  wf_cfg gA_x /\ wf_cfg gB_x /\ valid_cfg gB_x = true /\ session_ok gB_x session_x /\
  map (deliverable gB_x) calls_x = [true; true; true; true; true; true; true] /\
  (* calls that are not deliverable: Set EID 0 (the encoder refuses), operation 2, vendor selector 2, encoder 7 *)
  map (deliverable gB_x) [mk 1 [0x10; 0; 0]; mk 1 [0x10; 2; 0x56]; mk 6 [0x10; 2]; mk 7 [0x10; 0x30]] =
    [false; false; false; false] /\
  (* the requests on the bus *)
  map (request_of gA_x) calls_x =
    [[32; 15; 8; 71; 1; 16; 35; 200; 0; 128; 2; 250]; [32; 15; 10; 71; 1; 16; 35; 200; 0; 128; 1; 0; 86; 176];
     [32; 15; 8; 71; 1; 16; 35; 200; 0; 128; 3; 253]; [32; 15; 9; 71; 1; 16; 35; 200; 0; 128; 6; 1; 211];
     [32; 15; 10; 71; 1; 16; 35; 200; 0; 128; 1; 1; 87; 162]; [32; 15; 10; 71; 1; 16; 35; 200; 0; 128; 1; 3; 1; 45];
     [32; 15; 9; 71; 1; 16; 35; 200; 0; 128; 4; 255; 13]] /\
  (* ... are what A's encoders write into the scratch buffer *)
  map (fun k => match encode_call true (ctx_of gA_x) true (k_id k) (k_args k) (k_lists k) with
                | Some w => match w (repeat 0 64) with (out, Val (Some n)) => firstn n out | _ => [] end
                | None => [] end) calls_x = map (request_of gA_x) calls_x /\
  (* the session ends with both EIDs 0x57, in both overflow modes, and the UUID untouched *)
  option_map abs (session true (ctx_of gA_x) (ctx_of gB_x) session_x) =
    Some {| a_req := 0x57; a_resp := 0x57; a_uuid := repeat 0 16 |} /\
  option_map abs (session false (ctx_of gA_x) (ctx_of gB_x) session_x) =
    Some {| a_req := 0x57; a_resp := 0x57; a_uuid := repeat 0 16 |} /\
  (* the abstract side: the fold and last_set *)
  fold_left effect calls_x a0 = {| a_req := 0x57; a_resp := 0x57; a_uuid := repeat 0 16 |} /\
  last_set calls_x = Some 0x57 /\
  (* what B reports is what the abstract endpoint reports *)
  option_map snd (session_log true (ctx_of gA_x) (ctx_of gB_x) session_x) =
    Some (asession gA_x gB_x a0 session_x) /\
  (* the lengths and completion codes B reports, call by call; the Get EID after nothing reads 0,
     the discovered-flag call is answered Error Invalid Data (2) *)
  map (fun x => match x with XProcess (inl (_, Some m)) b => Some (m, nth 11 b 0, firstn (m - 13) (skipn 12 b))
                           | _ => None end)
      (asession gA_x gB_x a0 session_x) =
    [Some (16%nat, 0, [0; 0; 0]); Some (16%nat, 0, [0; 0x56; 0]); Some (29%nat, 0, repeat 0 16);
     Some (21%nat, 0, [255; 1; 0; 0; 0xA2; 0xB3; 0; 7]); Some (16%nat, 0, [0; 0x57; 0]);
     Some (16%nat, 2, [0; 0x57; 0]); Some (18%nat, 0, [1; 241; 243; 241; 0])].
Proof.
  split; [unfold wf_cfg, gA_x, bytes_ok; cbn [g_addr g_msg_types g_vendor_ids]; repeat constructor|].
  split; [unfold wf_cfg, gB_x, bytes_ok; cbn [g_addr g_msg_types g_vendor_ids]; repeat constructor|].
  split; [vm_compute; reflexivity|].
  split; [exact session_x_ok|].
  vm_compute. repeat split; reflexivity.
Qed.

Print Assumptions deliverable_serviced.
Print Assumptions deliver_refines.
Print Assumptions session_refines.
Print Assumptions session_log_refines.
Print Assumptions session_eid_is_last_set.
Print Assumptions session_eid_is_last_set_from.
Print Assumptions session_nonvacuous.
