(* StepsEncode.v — what the model's encode step observes, and the one-step facts for C04 (encode part),
   C05, C06, C07, C08, C16. *)
Require Import Base Crc Bitfield Headers Encode Decode Process Ops Spec Judge.
Require Import BitfieldFacts HeaderFacts PecFacts EncodeFacts DecodeFacts Hist StepsSimple.
Open Scope N_scope.

(* the observation of an encode step, by cases on the message the call stands for *)
Lemma step_encode_obs ovf g c h id a ls buf :
  wf_cfg g -> cinv g c -> args_okb h id a ls = true ->
  let x := snd (step ovf c (OEncode h id a ls buf)) in
  match encode_call ovf c h id a ls with
  | None => x = XBad
  | Some _ =>
      match model_message h id a ls (c_eid_resp c) with
      | None => x = XEnc None buf
      | Some (mt, body) =>
          if (259 <? 10 + length body)%nat then x = XEnc None buf
          else if (10 + length body <=? length buf)%nat
               then x = XEnc (Some (10 + length body)%nat)
                             (spec_packet (g_addr g) (enc_dest h id a) mt body ++ skipn (10 + length body) buf)
               else forall m out, x <> XEnc (Some m) out
      end
  end.
Proof.
  intros Hg (Ha & _ & _ & _ & Hs & _) Hok. cbn [step snd].
  destruct (encode_call ovf c h id a ls) as [w|] eqn:Ew; [|reflexivity].
  pose proof (encode_call_model ovf c h id a ls w buf) as M.
  rewrite Ha in M. specialize (M (proj1 Hg) Hs Hok Ew). unfold enc_spec in M.
  destruct (model_message h id a ls (c_eid_resp c)) as [[mt body]|].
  - destruct (259 <? 10 + length body)%nat.
    + rewrite M. reflexivity.
    + destruct (10 + length body <=? length buf)%nat.
      * rewrite M. reflexivity.
      * intros m out. destruct (w buf) as [b [[n|]|k]] eqn:Eb; try discriminate.
        intros E. injection E as -> ->. exact (M m out eq_refl).
  - rewrite M. reflexivity.
Qed.
