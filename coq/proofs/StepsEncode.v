(* StepsEncode.v — what the model's encode step observes, and the one-step facts for C04 (encode part),
   C05, C06, C07, C08, C16. *)
Require Import Base Crc Bitfield Headers Encode Decode Process Ops Spec Judge.
Require Import BitfieldFacts HeaderFacts HeaderForms PecFacts EncodeFacts DecodeFacts Hist StepsSimple.
Open Scope N_scope.

(* the observation of an encode step, by cases on the message the call stands for *)
Lemma step_encode_obs ovf g c h id a ls buf :
  wf_cfg g -> cinv g c -> args_okb h id a ls = true ->
  let x := snd (step ovf c (OEncode h id a ls buf)) in
  match encode_call ovf c h id a ls with
  | None => x = XBad
  | Some _ =>
      match model_message h id a ls (c_eid_resp c) with
      | None => x = XEnc None buf
      | Some (mt, body) =>
          if (259 <? 10 + length body)%nat then x = XEnc None buf
          else if (10 + length body <=? length buf)%nat
               then x = XEnc (Some (10 + length body)%nat)
                             (spec_packet (g_addr g) (enc_dest h id a) mt body ++ skipn (10 + length body) buf)
               else forall m out, x <> XEnc (Some m) out
      end
  end.
Proof.
  intros Hg (Ha & _ & _ & _ & Hs & _) Hok. cbn [step snd].
  destruct (encode_call ovf c h id a ls) as [w|] eqn:Ew; [|reflexivity].
  pose proof (encode_call_model ovf c h id a ls w buf) as M.
  rewrite Ha in M. specialize (M (proj1 Hg) Hs Hok Ew). unfold enc_spec in M.
  destruct (model_message h id a ls (c_eid_resp c)) as [[mt body]|].
  - destruct (259 <? 10 + length body)%nat.
    + rewrite M. reflexivity.
    + destruct (10 + length body <=? length buf)%nat.
      * rewrite M. reflexivity.
      * intros m out. destruct (w buf) as [b [[n|]|k]] eqn:Eb; try discriminate.
        intros E. injection E as -> ->. exact (M m out eq_refl).
  - rewrite M. reflexivity.
Qed.

(* ---------- facts about the message an encoder call stands for ---------- *)
Lemma model_spec_same h id a ls eid : (id =? 15) && h = false ->
  model_message h id a ls eid = spec_message h id a ls eid.
Proof. intros E. unfold model_message. rewrite E. reflexivity. Qed.
Lemma model_spec_15 a ls eid :
  model_message true 15 a ls eid = Some (0, [128; 14; arg a 1; arg a 2]) /\
  spec_message true 15 a ls eid = Some (0, [128; 15; arg a 1; arg a 2]).
Proof. split; reflexivity. Qed.

Lemma spec_mt_lt h id a ls eid mt body : spec_message h id a ls eid = Some (mt, body) -> mt < 128.
Proof.
  unfold spec_message, spec_request, spec_response. intros E.
  repeat match type of E with
         | (match ?x with _ => _ end) = _ => destruct x; try discriminate
         | (if ?x then _ else _) = _ => destruct x; try discriminate
         | (let '(_, _) := ?x in _) = _ => destruct x
         end;
  injection E as <- _; try reflexivity; apply N.mod_lt; discriminate.
Qed.

Lemma model_mt_lt h id a ls eid mt body : model_message h id a ls eid = Some (mt, body) -> mt < 128.
Proof. unfold model_message. destruct ((id =? 15) && h).
  - intros E. injection E as <- _. reflexivity.
  - apply spec_mt_lt. Qed.

(* both stand for a message of the same type; they differ only in query_hop's command code *)
Lemma model_spec_mt h id a ls eid mt body : model_message h id a ls eid = Some (mt, body) ->
  exists body', spec_message h id a ls eid = Some (mt, body') /\ length body' = length body.
Proof. destruct ((id =? 15) && h) eqn:E.
  - apply andb_true_iff in E as [E1 ->]. apply N.eqb_eq in E1. subst id.
    destruct (model_spec_15 a ls eid) as [M S]. rewrite M, S. intros H. injection H as <- <-.
    eexists. split; reflexivity.
  - rewrite (model_spec_same _ _ _ _ _ E). intros H. exists body. split; [exact H|reflexivity]. Qed.
Lemma model_none_spec h id a ls eid : model_message h id a ls eid = None -> spec_message h id a ls eid = None.
Proof. destruct ((id =? 15) && h) eqn:E.
  - unfold model_message. rewrite E. discriminate.
  - rewrite (model_spec_same _ _ _ _ _ E). auto. Qed.

Lemma list_eqb_refl l : list_eqb l l = true.
Proof. induction l as [|x l IH]; [reflexivity|]. cbn [list_eqb]. rewrite N.eqb_refl, IH. reflexivity. Qed.
Lemma list_eqb_eq a b : list_eqb a b = true -> a = b.
Proof. revert b; induction a as [|x a IH]; intros [|y b] H; try discriminate; [reflexivity|].
  cbn [list_eqb] in H. apply andb_true_iff in H as [H1 H2]. apply N.eqb_eq in H1. f_equal; auto. Qed.

Lemma oinv_eid ovf s c : oinv ovf s c -> snd (os_eids s) = c_eid_resp c.
Proof. intros (E & _). rewrite E. reflexivity. Qed.

(* bytes 4..8 of a specified packet *)
Lemma spec_packet_4_8 A D M B R : sub (spec_packet A D M B ++ R) 4 5 = [1; D; A; 200; M].
Proof. reflexivity. Qed.
Lemma spec_packet_0_3 A D M B R :
  firstn 4 (spec_packet A D M B ++ R) = [(D mod 128) * 2; 15; N.of_nat (length B + 6); (A mod 128) * 2 + 1].
Proof. reflexivity. Qed.
Lemma spec_packet_length A D M B : length (spec_packet A D M B) = (10 + length B)%nat.
Proof. unfold spec_packet, spec_prefix. rewrite !app_length. cbn [length]. lia. Qed.

(* a non-success observation gives the per-encode oracles nothing to decide *)
Ltac not_success x Hx :=
  destruct x as [?| | | |[?|] ?| | | |]; try apply good_triv; exfalso; eapply Hx; reflexivity.

(* ---------- C05 ---------- *)
Ltac not_what_10_11 what :=
  destruct what as [|p]; [apply good_triv|];
  do 4 (destruct p as [p|p|]; try apply good_triv).

Lemma c05_hdr_ok ovf g s c what fld raw v :
  good (c05_step g s (OHdr what fld raw v) (snd (step ovf c (OHdr what fld raw v)))) = true.
Proof.
  destruct (N.eq_dec what 10) as [->|Hn].
  - cbn [step snd hdr_op c05_step].
    destruct (fld <? 256) eqn:Ef; [|apply good_triv]. destruct (v <? 256) eqn:Ev; [|apply good_triv].
    cbn [andb]. apply good_of. apply N.ltb_lt in Ef, Ev.
    rewrite HeaderForms.transport_header_closed by assumption. apply list_eqb_refl.
  - cbn [step snd]. unfold c05_step.
    destruct what as [|p]; [apply good_triv|].
    destruct p as [p|p|]; try apply good_triv.
    destruct p as [p|p|]; try apply good_triv.
    destruct p as [p|p|]; try apply good_triv.
    destruct p as [p|p|]; try apply good_triv.
    exfalso. apply Hn. reflexivity.
Qed.

Lemma c05_step_ok ovf g s c o : wf_cfg g -> cinv g c -> oinv ovf s c -> wf_op o ->
  good (c05_step g s o (snd (step ovf c o))) = true.
Proof.
  intros Hg Hc Ho Hw. destruct o as [| | | | |h id a ls buf|what fld raw v|]; try apply good_triv.
  2: apply c05_hdr_ok.
  destruct Hw as [Hok Hb].
  pose proof (step_encode_obs ovf g c h id a ls buf Hg Hc Hok) as S. cbv zeta in S.
  unfold c05_step. rewrite (oinv_eid _ _ _ Ho).
  destruct (encode_call ovf c h id a ls) as [w|]; [|rewrite S; apply good_triv].
  destruct (model_message h id a ls (c_eid_resp c)) as [[mt body]|] eqn:M; [|rewrite S; apply good_triv].
  destruct (259 <? 10 + length body)%nat; [rewrite S; apply good_triv|].
  destruct (10 + length body <=? length buf)%nat.
  - rewrite S. destruct (model_spec_mt _ _ _ _ _ _ _ M) as [body' [Sp _]]. rewrite Sp.
    apply good_of.
    set (out := spec_packet (g_addr g) (enc_dest h id a) mt body ++ skipn (10 + length body) buf).
    assert (H43 : sub out 4 3 = [1; enc_dest h id a; g_addr g]) by reflexivity.
    assert (H7 : nth 7 out 0 = 200) by reflexivity.
    assert (H8 : nth 8 out 0 = mt) by reflexivity.
    rewrite H43, H7, H8, list_eqb_refl.
    assert (Hmt : (mt <? 128) = true) by (apply N.ltb_lt; eapply model_mt_lt; exact M).
    rewrite Hmt, (N.eqb_refl mt). destruct (negb h && (id <=? 6)); reflexivity.
  - not_success (snd (step ovf c (OEncode h id a ls buf))) S.
Qed.

Theorem c05_holds : holds_on_model 5.
Proof. apply holds_from_step. intros ovf g s c o Hg Hc Ho Hw. cbn [oracle_of obs3_of fst]. apply c05_step_ok; assumption. Qed.

(* ---------- the body of a specified packet ---------- *)
Lemma skipn_app_exact {A} (l r : list A) n : length l = n -> skipn n (l ++ r) = r.
Proof. intros <-. rewrite skipn_app, Nat.sub_diag, skipn_all. reflexivity. Qed.

Lemma spec_packet_split A D M B :
  spec_packet A D M B =
  [(D mod 128) * 2; 15; N.of_nat (length B + 6); (A mod 128) * 2 + 1; 1; D; A; 200; M] ++ B ++ [pec (spec_prefix A D M B)].
Proof. unfold spec_packet. unfold spec_prefix at 1. rewrite <- app_assoc. reflexivity. Qed.

Lemma spec_packet_body A D M B1 B2 R :
  sub (spec_packet A D M (B1 ++ B2) ++ R) (9 + length B1) (length B2) = B2.
Proof.
  rewrite spec_packet_split. unfold sub.
  set (P9 := [(D mod 128) * 2; 15; N.of_nat (length (B1 ++ B2) + 6); (A mod 128) * 2 + 1; 1; D; A; 200; M]).
  replace ((P9 ++ (B1 ++ B2) ++ [pec (spec_prefix A D M (B1 ++ B2))]) ++ R)
    with ((P9 ++ B1) ++ B2 ++ ([pec (spec_prefix A D M (B1 ++ B2))] ++ R)) by (rewrite <- !app_assoc; reflexivity).
  rewrite skipn_app_exact by (rewrite app_length; reflexivity).
  apply firstn_app_exact. reflexivity.
Qed.

Lemma spec_packet_out_length A D M B buf :
  (10 + length B <= length buf)%nat ->
  length (spec_packet A D M B ++ skipn (10 + length B) buf) = length buf.
Proof. intros H. rewrite app_length, spec_packet_length, skipn_length. lia. Qed.

Lemma spec_packet_tail A D M B buf :
  skipn (10 + length B) (spec_packet A D M B ++ skipn (10 + length B) buf) = skipn (10 + length B) buf.
Proof. apply skipn_app_exact. apply spec_packet_length. Qed.

(* ---------- C06 ---------- *)
Lemma id_1_17 id : (1 <=? id) && (id <=? 17) = true ->
  id = 1 \/ id = 2 \/ id = 3 \/ id = 4 \/ id = 5 \/ id = 6 \/ id = 7 \/ id = 8 \/ id = 9 \/ id = 10 \/
  id = 11 \/ id = 12 \/ id = 13 \/ id = 14 \/ id = 15 \/ id = 16 \/ id = 17.
Proof. intros H. apply andb_true_iff in H as [H1 H2]. apply N.leb_le in H1, H2. lia. Qed.

Lemma model_request id a ls eid : (1 <=? id) && (id <=? 17) = true ->
  match spec_request id a ls with
  | Some (code, params) => model_message true id a ls eid = Some (0, [128; (if id =? 15 then 14 else code)] ++ params)
  | None => model_message true id a ls eid = None
  end.
Proof.
  intros H. apply id_1_17 in H.
  repeat (destruct H as [->|H]); try subst id;
  first [ reflexivity
        | change (model_message true 1 a ls eid) with
            (match spec_request 1 a ls with Some (code, params) => Some (0, [128; code] ++ params) | None => None end);
          destruct (spec_request 1 a ls) as [[code params]|]; reflexivity
        | change (model_message true 9 a ls eid) with
            (match spec_request 9 a ls with Some (code, params) => Some (0, [128; code] ++ params) | None => None end);
          destruct (spec_request 9 a ls) as [[code params]|]; reflexivity ].
Qed.

Lemma c06_step_ok ovf g s c o : wf_cfg g -> cinv g c -> oinv ovf s c -> wf_op o ->
  good (c06_step s o (snd (step ovf c o))) = true.
Proof.
  intros Hg Hc Ho Hw. destruct o as [| | | | |h id a ls buf| |]; try apply good_triv.
  destruct Hw as [Hok Hb].
  pose proof (step_encode_obs ovf g c h id a ls buf Hg Hc Hok) as S. cbv zeta in S.
  unfold c06_step. destruct h; [|destruct (snd (step ovf c (OEncode false id a ls buf))) as [?| | | |[?|] ?| | | |]; apply good_triv].
  destruct ((1 <=? id) && (id <=? 17)) eqn:Hid.
  2:{ destruct (snd (step ovf c (OEncode true id a ls buf))) as [?| | | |[?|] ?| | | |]; apply good_triv. }
  pose proof (model_request id a ls (c_eid_resp c) Hid) as MR.
  destruct (encode_call ovf c true id a ls) as [w|]; [|rewrite S; apply good_triv].
  destruct (spec_request id a ls) as [[code params]|].
  - rewrite MR in S. set (code' := if id =? 15 then 14 else code) in *.
    set (body := [128; code'] ++ params) in *.
    assert (Hn : (10 + length body = 12 + length params)%nat) by (unfold body; cbn [app length]; lia).
    destruct (259 <? 10 + length body)%nat; [rewrite S; apply good_triv|].
    destruct (10 + length body <=? length buf)%nat eqn:Hl.
    + rewrite S. apply Nat.leb_le in Hl.
      set (out := spec_packet (g_addr g) (enc_dest true id a) 0 body ++ skipn (10 + length body) buf).
      assert (Hlen : length out = length buf) by (apply spec_packet_out_length; exact Hl).
      assert (H9 : nth 9 out 0 = 128) by reflexivity.
      assert (H10 : nth 10 out 0 = code') by reflexivity.
      assert (Hp : sub out 11 (10 + length body - 12) = params).
      { rewrite Hn. replace (12 + length params - 12)%nat with (length params) by lia.
        exact (spec_packet_body (g_addr g) (enc_dest true id a) 0 [128; code'] params _). }
      rewrite H9, H10, Hp, Hlen, list_eqb_refl, N.eqb_refl.
      replace (10 <=? 10 + length body)%nat with true by (symmetry; apply Nat.leb_le; lia).
      replace (10 + length body <=? length buf)%nat with true by (symmetry; apply Nat.leb_le; lia).
      replace (12 <=? 10 + length body)%nat with true by (symmetry; apply Nat.leb_le; lia).
      cbn [andb]. unfold code'. unfold good, sv_kf; cbn [s_o s_kf]. destruct (id =? 15); [apply orb_true_r|]. rewrite N.eqb_refl. reflexivity.
    + not_success (snd (step ovf c (OEncode true id a ls buf))) S.
  - rewrite MR in S. rewrite S. apply good_triv.
Qed.

Theorem c06_holds : holds_on_model 6.
Proof. apply holds_from_step. intros ovf g s c o Hg Hc Ho Hw. cbn [oracle_of obs3_of fst]. eapply c06_step_ok; eassumption. Qed.

(* ---------- C07 ---------- *)
Lemma id_1_6 id : (1 <=? id) && (id <=? 6) = true -> id = 1 \/ id = 2 \/ id = 3 \/ id = 4 \/ id = 5 \/ id = 6.
Proof. intros H. apply andb_true_iff in H as [H1 H2]. apply N.leb_le in H1, H2. lia. Qed.

Lemma model_response id a ls eid : (1 <=? id) && (id <=? 6) = true ->
  match spec_response id a ls eid with
  | Some (code, cc, fields) => model_message false id a ls eid = Some (0, [0; code; cc] ++ fields)
  | None => model_message false id a ls eid = None
  end.
Proof.
  intros H. apply id_1_6 in H.
  repeat (destruct H as [->|H]); try subst id;
  first [ reflexivity
        | change (model_message false 5 a ls eid) with
            (match spec_response 5 a ls eid with Some (code, cc, fields) => Some (0, [0; code; cc] ++ fields) | None => None end);
          destruct (spec_response 5 a ls eid) as [[[code cc] fields]|]; reflexivity ].
Qed.

Lemma c07_step_ok ovf g s c o : wf_cfg g -> cinv g c -> oinv ovf s c -> wf_op o ->
  good (c07_step s o (snd (step ovf c o))) = true.
Proof.
  intros Hg Hc Ho Hw. destruct o as [| | | | |h id a ls buf| |]; try apply good_triv.
  destruct Hw as [Hok Hb].
  pose proof (step_encode_obs ovf g c h id a ls buf Hg Hc Hok) as S. cbv zeta in S.
  unfold c07_step. destruct h; [destruct (snd (step ovf c (OEncode true id a ls buf))) as [?| | | |[?|] ?| | | |]; apply good_triv|].
  destruct ((1 <=? id) && (id <=? 6)) eqn:Hid.
  2:{ destruct (snd (step ovf c (OEncode false id a ls buf))) as [?| | | |[?|] ?| | | |]; apply good_triv. }
  rewrite (oinv_eid _ _ _ Ho).
  pose proof (model_response id a ls (c_eid_resp c) Hid) as MR.
  destruct (encode_call ovf c false id a ls) as [w|]; [|rewrite S; apply good_triv].
  destruct (spec_response id a ls (c_eid_resp c)) as [[[code cc] fields]|].
  - rewrite MR in S. set (body := [0; code; cc] ++ fields) in *.
    assert (Hn : (10 + length body = 13 + length fields)%nat) by (unfold body; cbn [app length]; lia).
    destruct (259 <? 10 + length body)%nat; [rewrite S; apply good_triv|].
    destruct (10 + length body <=? length buf)%nat eqn:Hl.
    + rewrite S. apply Nat.leb_le in Hl.
      set (out := spec_packet (g_addr g) (enc_dest false id a) 0 body ++ skipn (10 + length body) buf).
      assert (Hlen : length out = length buf) by (apply spec_packet_out_length; exact Hl).
      assert (H9 : nth 9 out 0 = 0) by reflexivity.
      assert (H10 : sub out 10 2 = [code; cc]) by reflexivity.
      assert (Hp : sub out 12 (10 + length body - 13) = fields).
      { rewrite Hn. replace (13 + length fields - 13)%nat with (length fields) by lia.
        exact (spec_packet_body (g_addr g) (enc_dest false id a) 0 [0; code; cc] fields _). }
      rewrite H9, H10, Hp, Hlen, !list_eqb_refl.
      replace (10 <=? 10 + length body)%nat with true by (symmetry; apply Nat.leb_le; lia).
      replace (10 + length body <=? length buf)%nat with true by (symmetry; apply Nat.leb_le; lia).
      cbn [andb]. apply good_of. apply orb_true_r.
    + not_success (snd (step ovf c (OEncode false id a ls buf))) S.
  - rewrite MR in S. rewrite S. apply good_triv.
Qed.

Theorem c07_holds : holds_on_model 7.
Proof. apply holds_from_step. intros ovf g s c o Hg Hc Ho Hw. cbn [oracle_of obs3_of fst]. eapply c07_step_ok; eassumption. Qed.

(* ---------- C08 ---------- *)
Lemma spec_packet_from_type A D M B R : sub (spec_packet A D M B ++ R) 8 (1 + length B) = M :: B.
Proof.
  rewrite spec_packet_split. unfold sub.
  set (P8 := [(D mod 128) * 2; 15; N.of_nat (length B + 6); (A mod 128) * 2 + 1; 1; D; A; 200]).
  change ([(D mod 128) * 2; 15; N.of_nat (length B + 6); (A mod 128) * 2 + 1; 1; D; A; 200; M]) with (P8 ++ [M]).
  replace (((P8 ++ [M]) ++ B ++ [pec (spec_prefix A D M B)]) ++ R)
    with (P8 ++ (M :: B) ++ ([pec (spec_prefix A D M B)] ++ R)) by (rewrite <- !app_assoc; reflexivity).
  rewrite skipn_app_exact by reflexivity.
  apply firstn_app_exact. reflexivity.
Qed.

Lemma c08_core ovf g c h id a ls buf :
  wf_cfg g -> cinv g c -> args_okb h id a ls = true ->
  (exists w, encode_call ovf c h id a ls = Some w) ->
  model_message h id a ls (c_eid_resp c) = spec_message h id a ls 0 ->
  good (match spec_message h id a ls 0, snd (step ovf c (OEncode h id a ls buf)) with
        | Some (mt, body), XEnc (Some n) out =>
            sv_of ((10 <=? n)%nat && (n <=? length out)%nat && list_eqb (sub out 8 (n - 9)) (mt :: body)) id
        | Some (mt, body), XEnc None out =>
            if fits_frame body && (10 + length body <=? length buf)%nat then sv_of false id else sv_triv
        | Some (mt, body), _ => sv_triv
        | None, XEnc None out => sv_of (list_eqb out buf) id
        | None, _ => sv_of false id
        end) = true.
Proof.
  intros Hg Hc Hok [w Ew] HM.
  pose proof (step_encode_obs ovf g c h id a ls buf Hg Hc Hok) as S. cbv zeta in S.
  rewrite Ew, HM in S.
  destruct (spec_message h id a ls 0) as [[mt body]|].
  - destruct (Nat.ltb_spec 259 (10 + length body)) as [Hov|Hov].
    { rewrite S. unfold fits_frame.
      replace (length body + 10 <=? 259)%nat with false by (symmetry; apply Nat.leb_gt; lia). apply good_triv. }
    destruct (10 + length body <=? length buf)%nat eqn:Hl.
    + rewrite S. apply Nat.leb_le in Hl. apply good_of.
      rewrite spec_packet_out_length by exact Hl.
      replace (10 + length body - 9)%nat with (1 + length body)%nat by lia.
      rewrite spec_packet_from_type, list_eqb_refl.
      replace (10 <=? 10 + length body)%nat with true by (symmetry; apply Nat.leb_le; lia).
      replace (10 + length body <=? length buf)%nat with true by (symmetry; apply Nat.leb_le; lia).
      reflexivity.
    + destruct (snd (step ovf c (OEncode h id a ls buf))) as [?| | | |[?|] ?| | | |]; try apply good_triv.
      * exfalso. eapply S. reflexivity.
      * rewrite andb_false_r. apply good_triv.
  - rewrite S. apply good_of, list_eqb_refl.
Qed.

Lemma c08_step_ok ovf g s c o : wf_cfg g -> cinv g c -> oinv ovf s c -> wf_op o ->
  good (c08_step s o (snd (step ovf c o))) = true.
Proof.
  intros Hg Hc Ho Hw. destruct o as [| | | | |h id a ls buf| |]; try apply good_triv.
  destruct Hw as [Hok Hb]. unfold c08_step.
  destruct (N.eqb_spec id 31) as [->|N31].
  { rewrite orb_true_r. cbn [orb]. apply (c08_core ovf g c h 31 a ls buf Hg Hc Hok); [eexists; reflexivity|reflexivity]. }
  destruct (N.eqb_spec id 32) as [->|N32].
  { rewrite orb_true_r. cbn [orb]. apply (c08_core ovf g c h 32 a ls buf Hg Hc Hok); [eexists; reflexivity|reflexivity]. }
  destruct (N.eqb_spec id 33) as [->|N33].
  { rewrite orb_true_r. apply (c08_core ovf g c h 33 a ls buf Hg Hc Hok); [eexists; reflexivity|reflexivity]. }
  rewrite !orb_false_r.
  destruct h; [|apply good_triv]. cbn [andb].
  destruct (N.eqb_spec id 20) as [->|N20]; [|apply good_triv].
  apply (c08_core ovf g c true 20 a ls buf Hg Hc Hok); [eexists; reflexivity|reflexivity].
Qed.

Theorem c08_holds : holds_on_model 8.
Proof. apply holds_from_step. intros ovf g s c o Hg Hc Ho Hw. cbn [oracle_of obs3_of fst]. eapply c08_step_ok; eassumption. Qed.

(* ---------- C16 ---------- *)
Lemma known_encoder_call ovf c h id a ls : known_encoder h id = true -> exists w, encode_call ovf c h id a ls = Some w.
Proof.
  unfold known_encoder. intros H.
  assert (Hc : id = 30 \/ id = 31 \/ id = 32 \/ id = 33 \/
               (h = true /\ (id = 1 \/ id = 2 \/ id = 3 \/ id = 4 \/ id = 5 \/ id = 6 \/ id = 7 \/ id = 8 \/ id = 9 \/ id = 10 \/
                            id = 11 \/ id = 12 \/ id = 13 \/ id = 14 \/ id = 15 \/ id = 16 \/ id = 17 \/ id = 20)) \/
               (h = false /\ (id = 1 \/ id = 2 \/ id = 3 \/ id = 4 \/ id = 5 \/ id = 6))).
  { apply orb_true_iff in H as [H|H].
    - apply andb_true_iff in H as [H1 H2]. apply N.leb_le in H1, H2. lia.
    - destruct h.
      + right; right; right; right; left. split; [reflexivity|].
        apply orb_true_iff in H as [H|H]; [apply andb_true_iff in H as [H1 H2]; apply N.leb_le in H1, H2; lia|apply N.eqb_eq in H; lia].
      + right; right; right; right; right. split; [reflexivity|].
        apply andb_true_iff in H as [H1 H2]. apply N.leb_le in H1, H2. lia. }
  destruct Hc as [->|[->|[->|[->|[[-> Hc]|[-> Hc]]]]]]; try (eexists; reflexivity);
    repeat (destruct Hc as [->|Hc]); try subst id; eexists; reflexivity.
Qed.

Lemma concat_lens_inj (l1 l2 : list (list N)) :
  concat l1 = concat l2 -> map (fun l => N.of_nat (length l)) l1 = map (fun l => N.of_nat (length l)) l2 -> l1 = l2.
Proof.
  revert l2. induction l1 as [|x l1 IH]; intros [|y l2] Hc Hm; try discriminate; [reflexivity|].
  cbn [map concat] in *. injection Hm as Hl Hm. apply Nat2N.inj in Hl.
  assert (x = y /\ concat l1 = concat l2) as [-> Hc'].
  { revert y Hl Hc. induction x as [|e x IHx]; intros [|f y] Hl Hc; try discriminate; cbn [app] in *.
    - split; [reflexivity|exact Hc].
    - injection Hc as -> Hc. injection Hl as Hl. destruct (IHx y Hl Hc) as [-> E]. split; [reflexivity|exact E]. }
  f_equal. apply IH; assumption.
Qed.

Lemma same_call_eq o1 o2 : same_call o1 o2 = true ->
  exists h id a ls b1 b2, o1 = OEncode h id a ls b1 /\ o2 = OEncode h id a ls b2.
Proof.
  destruct o1 as [| | | | |h1 i1 a1 l1 b1| |]; try discriminate.
  destruct o2 as [| | | | |h2 i2 a2 l2 b2| |]; try discriminate.
  cbn [same_call]. intros H.
  repeat match type of H with (_ && _) = true => let H2 := fresh "Hs" in apply andb_true_iff in H as [H H2] end.
  apply eqb_prop in H. apply N.eqb_eq in Hs2. apply list_eqb_eq in Hs1, Hs0, Hs. subst.
  assert (l1 = l2) by (apply concat_lens_inj; assumption). subst.
  repeat eexists.
Qed.

Lemma firstn_spec_packet A D M B R : firstn (10 + length B) (spec_packet A D M B ++ R) = spec_packet A D M B.
Proof. apply firstn_app_exact. apply spec_packet_length. Qed.

Lemma c16_step_ok ovf g s c o : wf_cfg g -> cinv g c -> oinv ovf s c -> wf_op o ->
  good (c16_step s o (snd (step ovf c o))) = true.
Proof.
  intros Hg Hc Ho Hw. destruct o as [| | | | |h id a ls buf| |]; try apply good_triv.
  destruct Hw as [Hok Hb]. unfold c16_step.
  destruct (known_encoder h id) eqn:Hk; [|apply good_triv].
  destruct (known_encoder_call ovf c h id a ls Hk) as [w Ew].
  pose proof (step_encode_obs ovf g c h id a ls buf Hg Hc Hok) as S. cbv zeta in S. rewrite Ew in S.
  rewrite (oinv_eid _ _ _ Ho).
  destruct (model_message h id a ls (c_eid_resp c)) as [[mt mbody]|] eqn:M.
  - destruct (model_spec_mt _ _ _ _ _ _ _ M) as [body [Sp Hlen]]. rewrite Sp.
    unfold fits_frame. rewrite Hlen.
    destruct (Nat.leb_spec (length mbody + 10) 259) as [Hf|Hf].
    + replace (259 <? 10 + length mbody)%nat with false in S by (symmetry; apply Nat.ltb_ge; lia).
      destruct (Nat.leb_spec (length mbody + 10) (length buf)) as [Hl|Hl]; [|apply good_triv].
      replace (10 + length mbody <=? length buf)%nat with true in S by (symmetry; apply Nat.leb_le; lia).
      rewrite S. apply good_of.
      rewrite spec_packet_out_length by lia. rewrite spec_packet_tail, list_eqb_refl, Nat.eqb_refl.
      replace (10 + length mbody <=? length buf)%nat with true by (symmetry; apply Nat.leb_le; lia).
      cbn [andb].
      destruct Ho as (_ & _ & Henc & _).
      destruct (os_last_enc s) as [[[o' m] out']|] eqn:El; [|reflexivity].
      destruct (same_call (OEncode h id a ls buf) o') eqn:Hsame; [|reflexivity].
      destruct (Henc o' m out' eq_refl) as (Hx' & Hw' & _).
      apply same_call_eq in Hsame as (h' & id' & a' & ls' & b1 & b2 & E1 & E2).
      injection E1 as <- <- <- <- <-. subst o'.
      destruct Hw' as [Hok' Hb2].
      pose proof (step_encode_obs ovf g c h id a ls b2 Hg Hc Hok') as S'. cbv zeta in S'. rewrite Ew, M in S'.
      replace (259 <? 10 + length mbody)%nat with false in S' by (symmetry; apply Nat.ltb_ge; lia).
      destruct (10 + length mbody <=? length b2)%nat.
      * rewrite S' in Hx'.
        assert (Em : m = (10 + length mbody)%nat) by congruence.
        assert (Eo : out' = spec_packet (g_addr g) (enc_dest h id a) mt mbody ++ skipn (10 + length mbody) b2) by congruence.
        rewrite Em, Eo.
        rewrite Nat.eqb_refl, !firstn_spec_packet, list_eqb_refl. reflexivity.
      * exfalso. eapply S'. exact Hx'.
    + replace (259 <? 10 + length mbody)%nat with true in S by (symmetry; apply Nat.ltb_lt; lia).
      rewrite S. apply good_of, list_eqb_refl.
  - rewrite (model_none_spec _ _ _ _ _ M). rewrite S. apply good_of, list_eqb_refl.
Qed.

Theorem c16_holds : holds_on_model 16.
Proof. apply holds_from_step. intros ovf g s c o Hg Hc Ho Hw. cbn [oracle_of obs3_of fst]. eapply c16_step_ok; eassumption. Qed.

(* ---------- C04 ---------- *)
Lemma encode_call_known ovf c h id a ls w : encode_call ovf c h id a ls = Some w -> known_encoder h id = true.
Proof.
  unfold encode_call. intros E.
  repeat match type of E with
         | (match ?x with _ => _ end) = _ => destruct x; try discriminate
         | (if ?x then _ else _) = _ => destruct x; try discriminate
         end; reflexivity.
Qed.

Lemma good_and a b : s_o a = true -> s_o b = true -> good (sv_and a b) = true.
Proof. intros Ha Hb. unfold good, sv_and. cbn [s_o]. rewrite Ha, Hb. reflexivity. Qed.
Lemma s_o_triv : s_o sv_triv = true. Proof. reflexivity. Qed.

(* the successful encode the oracle remembers is a specified packet *)
Lemma last_enc_spec ovf g s c o n out : wf_cfg g -> cinv g c -> oinv ovf s c ->
  os_last_enc s = Some (o, n, out) ->
  exists D M B R, out = spec_packet (g_addr g) D M B ++ R /\ n = (10 + length B)%nat /\ (n <= 259)%nat.
Proof.
  intros Hg Hc (_ & _ & Henc & _) El. destruct (Henc o n out El) as (Hx & Hw & (h & id & a & ls & b & ->)).
  destruct Hw as [Hok Hb].
  pose proof (step_encode_obs ovf g c h id a ls b Hg Hc Hok) as S. cbv zeta in S.
  destruct (encode_call ovf c h id a ls); [|rewrite S in Hx; discriminate].
  destruct (model_message h id a ls (c_eid_resp c)) as [[mt body]|]; [|rewrite S in Hx; discriminate].
  destruct (Nat.ltb_spec 259 (10 + length body)) as [Hf|Hf]; [rewrite S in Hx; discriminate|].
  destruct (10 + length body <=? length b)%nat.
  - rewrite S in Hx.
    assert (En : n = (10 + length body)%nat) by congruence.
    assert (Eo : out = spec_packet (g_addr g) (enc_dest h id a) mt body ++ skipn (10 + length body) b) by congruence.
    exists (enc_dest h id a), mt, body, (skipn (10 + length body) b). repeat split; assumption || lia.
  - exfalso. eapply S. exact Hx.
Qed.

Lemma nth_firstn_lt (l : list N) k i : (i < k)%nat -> nth i (firstn k l) 0 = nth i l 0.
Proof. revert l i. induction k as [|k IH]; intros l i H; [lia|]. destruct l as [|x l]; [destruct i; reflexivity|].
  destruct i; [reflexivity|]. cbn [firstn nth]. apply IH. lia. Qed.

Lemma c04_hdr_ok ovf g s c what fld raw v :
  s_o (c04_step g s (OHdr what fld raw v) (snd (step ovf c (OHdr what fld raw v)))) = true.
Proof.
  destruct (N.eq_dec what 11) as [->|Hn].
  - cbn [step snd hdr_op c04_step].
    destruct (fld <? 256) eqn:Ef; [|reflexivity]. destruct (v <? 256) eqn:Ev; [|reflexivity].
    cbn [andb sv_of s_o]. apply N.ltb_lt in Ef, Ev.
    rewrite HeaderForms.smbus_header_closed by assumption. apply list_eqb_refl.
  - cbn [step snd]. unfold c04_step.
    destruct what as [|p]; [reflexivity|].
    destruct p as [p|p|]; try reflexivity.
    destruct p as [p|p|]; try reflexivity.
    destruct p as [p|p|]; try reflexivity.
    destruct p as [p|p|]; try reflexivity.
    exfalso. apply Hn. reflexivity.
Qed.

Lemma c04_step_ok ovf g s c o : wf_cfg g -> cinv g c -> oinv ovf s c -> wf_op o ->
  good (sv_and (c04_step g s o (snd (step ovf c o))) (c04_oversize s o (snd (step ovf c o)))) = true.
Proof.
  intros Hg Hc Ho Hw. destruct o as [| |p| | |h id a ls buf|what fld raw v|]; try (apply good_and; reflexivity).
  3: { apply good_and; [|reflexivity]. apply c04_hdr_ok. }
  - (* the length probe on a prefix of the last encoded packet *)
    apply good_and; [|reflexivity]. cbn [step snd c04_step]. cbn in Hw. rewrite (get_length_closed p Hw).
    destruct (os_last_enc s) as [[[o' n] out]|] eqn:El.
    2:{ destruct (length p <? 3)%nat; [reflexivity|]. destruct (nth 1 p 0 =? 15); reflexivity. }
    destruct (last_enc_spec ovf g s c o' n out Hg Hc Ho El) as (D & M & B & R & -> & -> & Hn).
    destruct ((3 <=? length p)%nat && (length p <=? 10 + length B)%nat &&
              list_eqb p (firstn (length p) (spec_packet (g_addr g) D M B ++ R))) eqn:Hpre.
    2:{ destruct (length p <? 3)%nat; [reflexivity|]. destruct (nth 1 p 0 =? 15); reflexivity. }
    apply andb_true_iff in Hpre as [Hpre Hp]. apply andb_true_iff in Hpre as [H3 Hle].
    apply Nat.leb_le in H3, Hle. apply list_eqb_eq in Hp.
    replace (length p <? 3)%nat with false by (symmetry; apply Nat.ltb_ge; lia).
    assert (E1 : nth 1 p 0 = 15).
    { rewrite Hp. rewrite nth_firstn_lt by lia. reflexivity. }
    assert (E2 : nth 2 p 0 = N.of_nat (length B + 6)).
    { rewrite Hp. rewrite nth_firstn_lt by lia. reflexivity. }
    rewrite E1, E2. cbn [N.eqb Pos.eqb ok sv_of s_o]. rewrite Nat2N.id.
    apply Nat.eqb_eq. lia.
  - (* encode *)
    destruct Hw as [Hok Hb].
    pose proof (step_encode_obs ovf g c h id a ls buf Hg Hc Hok) as S. cbv zeta in S.
    unfold c04_step, c04_oversize. rewrite (oinv_eid _ _ _ Ho).
    destruct (encode_call ovf c h id a ls) as [w|] eqn:Ew.
    2:{ rewrite S. apply good_and; [reflexivity|].
        destruct (known_encoder h id) eqn:Hk; [|reflexivity].
        destruct (known_encoder_call ovf c h id a ls Hk) as [w' Ew']. congruence. }
    rewrite (encode_call_known _ _ _ _ _ _ _ Ew).
    destruct (model_message h id a ls (c_eid_resp c)) as [[mt mbody]|] eqn:M.
    + destruct (model_spec_mt _ _ _ _ _ _ _ M) as [body [Sp Hlen]]. rewrite Sp. unfold fits_frame. rewrite Hlen.
      destruct (Nat.leb_spec (length mbody + 10) 259) as [Hf|Hf].
      * replace (259 <? 10 + length mbody)%nat with false in S by (symmetry; apply Nat.ltb_ge; lia).
        destruct (Nat.leb_spec (10 + length mbody) (length buf)) as [Hl|Hl].
        -- replace (10 + length mbody <=? length buf)%nat with true in S by (symmetry; apply Nat.leb_le; lia).
           rewrite S. apply good_and; [|reflexivity]. cbn [sv_of s_o].
           rewrite spec_packet_0_3, spec_packet_out_length by lia.
           replace (10 + length mbody - 4)%nat with (length mbody + 6)%nat by lia.
           destruct Hc as (Ha & _). rewrite list_eqb_refl.
           replace (4 <=? 10 + length mbody)%nat with true by (symmetry; apply Nat.leb_le; lia).
           replace (10 + length mbody <=? 259)%nat with true by (symmetry; apply Nat.leb_le; lia).
           replace (10 + length mbody <=? length buf)%nat with true by (symmetry; apply Nat.leb_le; lia).
           reflexivity.
        -- replace (10 + length mbody <=? length buf)%nat with false in S by (symmetry; apply Nat.leb_gt; lia).
           destruct (snd (step ovf c (OEncode h id a ls buf))) as [?| | | |[?|] ?| | | |]; try (apply good_and; reflexivity).
           exfalso. eapply S. reflexivity.
      * replace (259 <? 10 + length mbody)%nat with true in S by (symmetry; apply Nat.ltb_lt; lia).
        rewrite S. apply good_and; [reflexivity|]. cbn [sv_of s_o]. apply list_eqb_refl.
    + rewrite (model_none_spec _ _ _ _ _ M). rewrite S. apply good_and; reflexivity.
Qed.

Theorem c04_holds : holds_on_model 4.
Proof. apply holds_from_step. intros ovf g s c o Hg Hc Ho Hw. cbn [oracle_of obs3_of fst]. eapply c04_step_ok; eassumption. Qed.

