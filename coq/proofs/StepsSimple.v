(* StepsSimple.v — one-step facts for C17 (length probe) and C19 (code points). *)
Require Import Base Crc Bitfield Headers Encode Decode Process Ops Spec Judge.
Require Import BitfieldFacts HeaderFacts DecodeFacts Hist.
Open Scope N_scope.

Lemma good_of o t : o = true -> good (sv_of o t) = true.
Proof. intros ->. reflexivity. Qed.
Lemma good_triv : good sv_triv = true.
Proof. reflexivity. Qed.

(* ---------- C17 ---------- *)
Lemma c17_step_ok ovf c o : wf_op o -> good (c17_step o (snd (step ovf c o))) = true.
Proof.
  intros Hw. destruct o; try apply good_triv.
  cbn [step snd c17_step]. cbn in Hw. rewrite (get_length_closed pkt Hw).
  destruct (Nat.leb_spec 3 (length pkt)) as [H3|H3].
  - replace (length pkt <? 3)%nat with false by (symmetry; apply Nat.ltb_ge; exact H3).
    destruct (nth 1 pkt 0 =? 15) eqn:E; cbn [ok err].
    + apply good_of. rewrite Nat.eqb_refl. reflexivity.
    + apply good_of. reflexivity.
  - replace (length pkt <? 3)%nat with true by (symmetry; apply Nat.ltb_lt; exact H3).
    apply good_of. reflexivity.
Qed.

Theorem c17_holds : holds_on_model 17.
Proof. apply holds_from_step. intros ovf g s c o _ _ _ Hw. cbn [oracle_of obs3_of fst]. apply c17_step_ok, Hw. Qed.

(* ---------- C19 ---------- *)
Lemma mt_roundtrip b : b < 256 -> msg_type_to_u8 (msg_type_from_u8 b) = (if defined_mt b then b else 255).
Proof. intros H. apply N.eqb_eq. revert b H. apply sweep1. vm_compute. reflexivity. Qed.

Lemma c19_step_ok ovf c o : wf_op o -> good (c19_step o (snd (step ovf c o))) = true.
Proof.
  intros Hw. destruct o; try apply good_triv. cbn in Hw.
  cbn [step snd]. unfold conv_op, c19_step.
  assert (Hcases : what = 0 \/ what = 1 \/ what = 2 \/ (what <> 0 /\ what <> 1 /\ what <> 2)) by lia.
  destruct Hcases as [->|[->|[->|(H0 & H1 & H2)]]].
  - apply good_of. rewrite mt_roundtrip by exact Hw. apply N.eqb_refl.
  - apply good_of. unfold cmd_from_u8, defined_cmd. apply N.eqb_refl.
  - unfold cc_from_u8. destruct (b <=? 5); [apply good_of, N.eqb_refl|apply good_triv].
  - destruct what as [|[[p|p|]|[p|p|]|]]; try apply good_triv; exfalso; auto.
Qed.

Theorem c19_holds : holds_on_model 19.
Proof. apply holds_from_step. intros ovf g s c o _ _ _ Hw. cbn [oracle_of obs3_of fst]. apply c19_step_ok, Hw. Qed.
