(* BitfieldFacts.v — generic facts about the bitfield crate's bit loops (any field, any buffer),
   and the reduction of a field that lives in one byte to a function on that byte. *)
Require Import Base Bitfield.
Open Scope N_scope.

(* ---------- upd ---------- *)
Lemma upd_length i f l : length (upd i f l) = length l.
Proof. revert i; induction l; destruct i; simpl; auto. Qed.
Lemma nth_upd i j f l : (i < length l)%nat -> nth j (upd i f l) 0 = if Nat.eqb i j then f (nth j l 0) else nth j l 0.
Proof. revert i j; induction l as [|b r IH]; intros i j H; simpl in H; [lia|].
  destruct i, j; simpl; auto. apply IH. lia. Qed.
Lemma upd_ok i f l : bytes_ok l -> (forall b, b < 256 -> f b < 256) -> bytes_ok (upd i f l).
Proof. intros H Hf. revert i. induction H; intros i; destruct i; simpl; constructor; auto. apply IHForall. Qed.
Lemma upd_upd i f g l : upd i f (upd i g l) = upd i (fun b => f (g b)) l.
Proof. revert i; induction l as [|b r IH]; intros [|i]; simpl; auto. rewrite IH. reflexivity. Qed.
Lemma upd_id i l : upd i (fun b => b) l = l.
Proof. revert i; induction l as [|b r IH]; intros [|i]; simpl; auto. rewrite IH. reflexivity. Qed.
Lemma upd_ext_ok i f g l : bytes_ok l -> (forall b, b < 256 -> f b = g b) -> upd i f l = upd i g l.
Proof. intros H E. revert i. induction H as [|b r Hb Hr IH]; intros [|i]; simpl; auto.
  - rewrite E by exact Hb. reflexivity.
  - rewrite IH. reflexivity. Qed.
Lemma upd_ext i f g l : (forall b, f b = g b) -> upd i f l = upd i g l.
Proof. intros E. revert i. induction l as [|b r IH]; intros [|i]; simpl; auto; congruence. Qed.

(* ---------- one bit ---------- *)
Lemma put_bit_spec b k x k' : b < 256 -> k < 8 -> k' < 8 ->
  N.testbit (put_bit b k x) k' = if N.eqb k k' then x else N.testbit b k'.
Proof. intros Hb Hk Hk'.
  assert (forallb (fun b => forallb (fun k => forallb (fun k' =>
     Bool.eqb (N.testbit (put_bit b k true) k') (if N.eqb k k' then true else N.testbit b k') &&
     Bool.eqb (N.testbit (put_bit b k false) k') (if N.eqb k k' then false else N.testbit b k'))
     (range 8)) (range 8)) (range 256) = true) as S by (vm_compute; reflexivity).
  pose proof (sweep 256 _ S b Hb) as S1. cbv beta in S1.
  pose proof (sweep 8 _ S1 k Hk) as S2. cbv beta in S2.
  pose proof (sweep 8 _ S2 k' Hk') as S3. cbv beta in S3.
  apply andb_true_iff in S3 as [T F]. destruct x; [apply eqb_prop, T|apply eqb_prop, F]. Qed.
Lemma put_bit_lt b k x : b < 256 -> k < 8 -> put_bit b k x < 256.
Proof. intros Hb Hk.
  assert (forallb (fun b => forallb (fun k => N.ltb (put_bit b k true) 256 && N.ltb (put_bit b k false) 256) (range 8)) (range 256) = true) as S by (vm_compute; reflexivity).
  pose proof (sweep 256 _ S b Hb) as S1. cbv beta in S1. pose proof (sweep 8 _ S1 k Hk) as S2. cbv beta in S2.
  apply andb_true_iff in S2 as [T F]. destruct x; apply N.ltb_lt; assumption. Qed.

Lemma pos_msb0_lt i : pos_msb0 i < 8.
Proof. unfold pos_msb0. pose proof (Nat.mod_upper_bound i 8). lia. Qed.
Lemma pos_lsb0_lt i : pos_lsb0 i < 8.
Proof. unfold pos_lsb0. pose proof (Nat.mod_upper_bound i 8). lia. Qed.
Lemma pos_msb0_inj i j : (i / 8 = j / 8)%nat -> pos_msb0 i = pos_msb0 j -> i = j.
Proof. unfold pos_msb0. intros Hd Hp.
  pose proof (Nat.mod_upper_bound i 8). pose proof (Nat.mod_upper_bound j 8).
  rewrite (Nat.div_mod i 8), (Nat.div_mod j 8) by lia. rewrite Hd. lia. Qed.
Lemma pos_lsb0_inj i j : (i / 8 = j / 8)%nat -> pos_lsb0 i = pos_lsb0 j -> i = j.
Proof. unfold pos_lsb0. intros Hd Hp.
  rewrite (Nat.div_mod i 8), (Nat.div_mod j 8) by lia. rewrite Hd. lia. Qed.

(* ---------- the loops, for either bit numbering ---------- *)
Section Order.
Variable pos : nat -> N.
Hypothesis pos_lt : forall i, pos i < 8.
Hypothesis pos_inj : forall i j, (i / 8 = j / 8)%nat -> pos i = pos j -> i = j.

Lemma get_set1 buf i x j : bytes_ok buf -> (i < 8 * length buf)%nat ->
  get_bit pos (set1 pos buf i x) j = if Nat.eqb i j then x else get_bit pos buf j.
Proof. intros Hok Hi. unfold get_bit, set1.
  assert (i / 8 < length buf)%nat as Hi8 by (apply Nat.div_lt_upper_bound; lia).
  rewrite nth_upd by exact Hi8.
  destruct (Nat.eqb_spec (i/8) (j/8)) as [E|NE].
  - rewrite put_bit_spec; auto.
    + destruct (N.eqb_spec (pos i) (pos j)) as [Ep|NEp].
      * rewrite (pos_inj i j E Ep), Nat.eqb_refl. reflexivity.
      * destruct (Nat.eqb_spec i j) as [Eij|]; [subst; congruence|reflexivity].
    + rewrite <- E. unfold bytes_ok in Hok. rewrite Forall_forall in Hok. apply Hok, nth_In. exact Hi8.
  - destruct (Nat.eqb_spec i j) as [Eij|]; [subst; congruence|reflexivity]. Qed.

Lemma set1_ok buf i x : bytes_ok buf -> bytes_ok (set1 pos buf i x).
Proof. intros H. apply upd_ok; auto. intros b Hb. apply put_bit_lt; auto. Qed.
Lemma set1_length buf i x : length (set1 pos buf i x) = length buf.
Proof. apply upd_length. Qed.

Fixpoint index_of (j : nat) (l : list nat) : option nat :=
  match l with [] => None | i :: r => if Nat.eqb i j then Some O else option_map S (index_of j r) end.

Lemma set_loop_length idxs : forall buf v, length (set_loop pos idxs buf v) = length buf.
Proof. induction idxs; intros; simpl; [reflexivity|]. rewrite IHidxs. apply set1_length. Qed.
Lemma set_loop_ok idxs : forall buf v, bytes_ok buf -> bytes_ok (set_loop pos idxs buf v).
Proof. induction idxs; intros; simpl; auto. apply IHidxs, set1_ok; auto. Qed.

(* after the setter loop, buffer bit j holds value bit (position of j in the loop order) if j belongs to the
   field and is unchanged otherwise *)
Lemma set_loop_spec idxs : forall buf v j, bytes_ok buf -> NoDup idxs ->
  (forall i, In i idxs -> (i < 8 * length buf)%nat) ->
  get_bit pos (set_loop pos idxs buf v) j =
    match index_of j idxs with Some m => N.testbit v (N.of_nat m) | None => get_bit pos buf j end.
Proof. induction idxs as [|i r IH]; intros buf v j Hok Hnd Hin; simpl; [reflexivity|].
  inversion Hnd as [|? ? Hni Hnd']; subst.
  rewrite IH; auto.
  2:{ apply set1_ok; auto. } 2:{ intros k Hk. rewrite set1_length. apply Hin. right; exact Hk. }
  destruct (Nat.eqb_spec i j) as [E|NE].
  - subst j. assert (index_of i r = None) as Hn.
    { clear -Hni. induction r as [|a r IH]; simpl; [reflexivity|].
      destruct (Nat.eqb_spec a i); [subst; exfalso; apply Hni; left; reflexivity|].
      rewrite IH; [reflexivity|]. intro; apply Hni; right; assumption. }
    rewrite Hn. rewrite get_set1, Nat.eqb_refl; auto; [|apply Hin; left; reflexivity].
    symmetry. apply N.bit0_odd.
  - destruct (index_of j r) as [m|]; simpl.
    + rewrite N.div2_spec. rewrite N.shiftr_spec by lia. f_equal. lia.
    + rewrite get_set1; auto; [|apply Hin; left; reflexivity].
      destruct (Nat.eqb_spec i j); [congruence|reflexivity]. Qed.

Variable W : N.

(* after the getter loop, value bit k is the buffer bit at the k-th index from the end of the loop order *)
Lemma get_loop_spec idxs : forall buf acc k,
  acc < 2 ^ (W - N.of_nat (length idxs)) -> N.of_nat (length idxs) <= W ->
  N.testbit (get_loop pos W idxs buf acc) k =
    if k <? N.of_nat (length idxs)
    then get_bit pos buf (nth (length idxs - 1 - N.to_nat k) idxs O)
    else N.testbit acc (k - N.of_nat (length idxs)).
Proof. induction idxs as [|i r IH]; intros buf acc k Hacc HW.
  - simpl. rewrite N.sub_0_r. destruct k; reflexivity.
  - cbn [get_loop length].
    assert (Hsmall : acc * 2 < 2 ^ W).
    { cbn [length] in Hacc, HW.
      assert (E : W = N.succ (W - N.of_nat (S (length r))) + N.of_nat (length r)) by lia.
      rewrite E at 1. rewrite N.pow_add_r, N.pow_succ_r'.
      pose proof (N.pow_nonzero 2 (N.of_nat (length r))) as Hnz.
      set (p := 2 ^ N.of_nat (length r)) in *. set (q := 2 ^ (W - N.of_nat (S (length r)))) in *. nia. }
    rewrite N.mod_small by exact Hsmall.
    set (bit := get_bit pos buf i).
    assert (Hlor : N.lor (acc * 2) (N.b2n bit) = 2 * acc + N.b2n bit).
    { rewrite (N.mul_comm acc 2). destruct bit; cbn [N.b2n]; destruct acc; reflexivity. }
    rewrite Hlor. rewrite IH.
    + cbn [length]. destruct (N.ltb_spec k (N.of_nat (length r))) as [Hk|Hk].
      * replace (k <? N.of_nat (S (length r))) with true by (symmetry; apply N.ltb_lt; lia).
        replace (S (length r) - 1 - N.to_nat k)%nat with (S (length r - 1 - N.to_nat k)) by lia. reflexivity.
      * destruct (N.ltb_spec k (N.of_nat (S (length r)))) as [Hk'|Hk'].
        -- replace (k - N.of_nat (length r)) with 0 by lia. rewrite N.testbit_0_r.
           replace (S (length r) - 1 - N.to_nat k)%nat with O by lia. reflexivity.
        -- replace (k - N.of_nat (length r)) with (N.succ (k - N.of_nat (S (length r)))) by lia.
           apply N.testbit_succ_r.
    + cbn [length] in Hacc. replace (W - N.of_nat (length r)) with (N.succ (W - N.of_nat (S (length r)))) by (cbn [length] in HW; lia).
      rewrite N.pow_succ_r'. destruct bit; cbn [N.b2n]; lia.
    + cbn [length] in HW. lia. Qed.

(* ---------- a loop whose indices all lie in byte k is a function of that byte ---------- *)
Fixpoint byte_set (idxs : list nat) (b v : N) : N :=
  match idxs with [] => b | i :: r => byte_set r (put_bit b (pos i) (N.odd v)) (N.div2 v) end.
Fixpoint byte_get (idxs : list nat) (b acc : N) : N :=
  match idxs with
  | [] => acc
  | i :: r => byte_get r b (N.lor ((acc * 2) mod 2 ^ W) (N.b2n (N.testbit b (pos i))))
  end.

Lemma set_loop_local k idxs : Forall (fun i => (i / 8)%nat = k) idxs ->
  forall buf v, set_loop pos idxs buf v = upd k (fun b => byte_set idxs b v) buf.
Proof. induction 1 as [|i r Hi Hr IH]; intros buf v; cbn [set_loop byte_set].
  - symmetry. apply upd_id.
  - rewrite IH. unfold set1. rewrite Hi, upd_upd. reflexivity. Qed.

Lemma get_loop_local k idxs : Forall (fun i => (i / 8)%nat = k) idxs ->
  forall buf acc, get_loop pos W idxs buf acc = byte_get idxs (nth k buf 0) acc.
Proof. induction 1 as [|i r Hi Hr IH]; intros buf acc; cbn [get_loop byte_get]; [reflexivity|].
  rewrite IH. unfold get_bit. rewrite Hi. reflexivity. Qed.

Lemma set_loop_app l1 : forall l2 buf v,
  set_loop pos (l1 ++ l2) buf v = set_loop pos l2 (set_loop pos l1 buf v) (N.shiftr v (N.of_nat (length l1))).
Proof. induction l1 as [|i r IH]; intros l2 buf v.
  - cbn [app set_loop length N.of_nat]. rewrite N.shiftr_0_r. reflexivity.
  - cbn [app set_loop length]. rewrite IH. f_equal.
    rewrite N.div2_spec, N.shiftr_shiftr. f_equal. lia. Qed.

Lemma byte_set_mod idxs : forall b v, byte_set idxs b v = byte_set idxs b (v mod 2 ^ N.of_nat (length idxs)).
Proof. induction idxs as [|i r IH]; intros b v; [reflexivity|].
  cbn [byte_set length]. rewrite (IH _ (N.div2 v)), (IH _ (N.div2 (v mod _))).
  replace (N.of_nat (S (length r))) with (N.succ (N.of_nat (length r))) by lia.
  assert (Hodd : N.odd (v mod 2 ^ N.succ (N.of_nat (length r))) = N.odd v).
  { rewrite <- !N.bit0_odd. apply N.mod_pow2_bits_low. lia. }
  assert (Hdiv : N.div2 (v mod 2 ^ N.succ (N.of_nat (length r))) mod 2 ^ N.of_nat (length r)
                 = N.div2 v mod 2 ^ N.of_nat (length r)).
  { apply N.bits_inj; intro n.
    destruct (N.ltb_spec n (N.of_nat (length r))) as [Hn|Hn].
    - rewrite !N.mod_pow2_bits_low by exact Hn. rewrite !N.div2_spec, !N.shiftr_spec by lia.
      apply N.mod_pow2_bits_low. lia.
    - rewrite !N.mod_pow2_bits_high by exact Hn. reflexivity. }
  rewrite Hodd, Hdiv. reflexivity. Qed.
End Order.
