(* Stream.v — framing at stream level: the receive loop a user writes around get_length.
   A receiver that gets a byte stream (several packets back to back) asks get_length for the length of the packet
   at the front, cuts that many bytes off, hands them to decode_packet and goes on with the rest.  For every stream
   that is a concatenation of packets as the encoders write them (spec_packet), whatever their number:
     - the loop returns exactly those packets, in order (split_concat), and no other cutting is possible, whatever
       the fuel (split_concat_unique_cut);
     - every piece carries a good PEC, i.e. its CRC-8 is zero (stream_every_piece_has_good_pec);
     - every piece of a non-control message decodes to its type and its body (stream_decodes);
     - a stream whose front is not a packet (command code <> 15), or that stops in the middle of a packet, is
       refused as a whole (split_garbage_stops, split_truncated_stops, split_concat_truncated_stops). *)
Require Import Base Crc Bitfield Headers Encode Decode Process Ops Spec Judge.
Require Import CrcFacts BitfieldFacts HeaderFacts HeaderForms PecFacts EncodeFacts DecodeFacts Hist StepsSimple StepsEncode.
Require Import DecodeChar ProcessChar StepsRecv Readable.
Open Scope N_scope.

(* ================================================================ the receive loop *)
(* fuel = an upper bound on the number of packets *)
Fixpoint split_stream (fuel : nat) (s : list N) : option (list (list N)) :=
  match s with
  | [] => Some []
  | _ => match fuel with
         | O => None
         | S f => match get_length s with
                  | Val (inl n) => if (n <=? length s)%nat
                                   then option_map (cons (firstn n s)) (split_stream f (skipn n s)) else None
                  | _ => None
                  end
         end
  end.

(* ================================================================ messages *)
(* (source, destination, message type, body after the type byte) *)
Definition msg : Type := (N * N * N * list N)%type.
Definition m_body (m : msg) : list N := snd m.
Definition m_type (m : msg) : N := snd (fst m).
Definition pkt (m : msg) : list N := match m with (s, d, t, b) => spec_packet s d t b end.

(* what fits an SMBus frame: total 10 + |body| <= 259, byte count |body| + 6 <= 255 *)
Definition sendable (m : msg) : Prop :=
  match m with (s, d, t, b) => s < 256 /\ d < 256 /\ t < 128 /\ bytes_ok b /\ (length b <= 249)%nat end.
(* SPDM, secured and vendor defined messages *)
Definition non_control (m : msg) : Prop := m_type m <> 0 /\ supported_type (m_type m) = true.

Definition stream (msgs : list msg) : list N := concat (map pkt msgs).

(* ================================================================ helpers *)
Lemma pkt_length m : length (pkt m) = (10 + length (m_body m))%nat.
Proof. destruct m as [[[s d] t] b]. unfold pkt, m_body. cbn [snd]. apply spec_packet_length. Qed.

Lemma pkt_bytes_ok m : sendable m -> bytes_ok (pkt m).
Proof.
  destruct m as [[[s d] t] b]. intros (Hs & Hd & Ht & Hb & Hl). unfold pkt.
  apply spec_packet_bytes_ok; [exact Hs|exact Hd|lia|exact Hb|lia].
Qed.

Lemma pkt_nonempty m : pkt m <> [].
Proof. intros E. pose proof (pkt_length m) as L. rewrite E in L. cbn [length] in L. lia. Qed.

Lemma stream_bytes_ok msgs : Forall sendable msgs -> bytes_ok (stream msgs).
Proof.
  intros H. induction H as [|m msgs Hm _ IH]; [constructor|].
  unfold stream. cbn [map concat]. apply bytes_ok_app. split; [apply pkt_bytes_ok, Hm|exact IH].
Qed.

Lemma stream_cons m msgs : stream (m :: msgs) = pkt m ++ stream msgs.
Proof. reflexivity. Qed.

(* bytes 1 and 2 of a packet, whatever follows it: the command code and the byte count *)
Lemma spec_packet_app_nth1 A D M B rest : nth 1 (spec_packet A D M B ++ rest) 0 = 15.
Proof. rewrite spec_packet_pre. unfold spec_prefix. reflexivity. Qed.
Lemma spec_packet_app_nth2 A D M B rest : nth 2 (spec_packet A D M B ++ rest) 0 = N.of_nat (length B + 6).
Proof. rewrite spec_packet_pre. unfold spec_prefix. reflexivity. Qed.

Lemma spec_packet_nth1 A D M B : nth 1 (spec_packet A D M B) 0 = 15.
Proof. rewrite spec_packet_pre. unfold spec_prefix. reflexivity. Qed.
Lemma spec_packet_nth2 A D M B : nth 2 (spec_packet A D M B) 0 = N.of_nat (length B + 6).
Proof. rewrite spec_packet_pre. unfold spec_prefix. reflexivity. Qed.

Lemma nth_firstn_lt {A} (l : list A) i k d : (i < k)%nat -> nth i (firstn k l) d = nth i l d.
Proof.
  revert i k. induction l as [|x l IH]; intros i k H.
  - rewrite firstn_nil. reflexivity.
  - destruct k as [|k]; [lia|]. destruct i as [|i]; [reflexivity|]. cbn [firstn nth]. apply IH. lia.
Qed.

(* one turn of the loop on a non-empty stream *)
Lemma split_stream_S f s : s <> [] ->
  split_stream (S f) s =
  match get_length s with
  | Val (inl n) => if (n <=? length s)%nat
                   then option_map (cons (firstn n s)) (split_stream f (skipn n s)) else None
  | _ => None
  end.
Proof. intros H. destruct s as [|x s]; [congruence|reflexivity]. Qed.

Lemma split_stream_0 s : s <> [] -> split_stream 0 s = None.
Proof. intros H. destruct s as [|x s]; [congruence|reflexivity]. Qed.

Lemma split_stream_nil f : split_stream f [] = Some [].
Proof. destruct f; reflexivity. Qed.

(* the length probe on a packet followed by anything: the length of the packet *)
Lemma get_length_pkt_app m rest : sendable m -> bytes_ok rest ->
  get_length (pkt m ++ rest) = ok (length (pkt m)).
Proof.
  intros Hm Hr. pose proof (pkt_bytes_ok m Hm) as Hok. pose proof (pkt_length m) as L.
  destruct m as [[[s d] t] b]. destruct Hm as (_ & _ & _ & _ & Hl). unfold pkt, m_body in *. cbn [snd] in L.
  rewrite get_length_closed by (apply bytes_ok_app; split; assumption).
  replace (length (spec_packet s d t b ++ rest) <? 3)%nat with false
    by (symmetry; apply Nat.ltb_ge; rewrite app_length, L; lia).
  rewrite spec_packet_app_nth1, spec_packet_app_nth2. rewrite N.eqb_refl.
  rewrite Nat2N.id, L. unfold ok. do 2 f_equal. lia.
Qed.

(* the loop takes a whole packet off the front *)
Lemma split_step f m rest : sendable m -> bytes_ok rest ->
  split_stream (S f) (pkt m ++ rest) = option_map (cons (pkt m)) (split_stream f rest).
Proof.
  intros Hm Hr.
  rewrite split_stream_S.
  2:{ intros E. apply app_eq_nil in E as [E _]. exact (pkt_nonempty m E). }
  rewrite (get_length_pkt_app m rest Hm Hr). unfold ok.
  replace (length (pkt m) <=? length (pkt m ++ rest))%nat with true
    by (symmetry; apply Nat.leb_le; rewrite app_length; lia).
  rewrite firstn_app_exact by reflexivity. rewrite skipn_app_exact by reflexivity. reflexivity.
Qed.

(* more fuel never changes an answer *)
Lemma split_stream_fuel_mono f f' s l : split_stream f s = Some l -> (f <= f')%nat -> split_stream f' s = Some l.
Proof.
  revert f' s l. induction f as [|f IH]; intros f' s l H Hf.
  - destruct s as [|x s]; [|discriminate]. rewrite split_stream_nil. exact H.
  - destruct s as [|x s]; [rewrite split_stream_nil; exact H|].
    destruct f' as [|f']; [lia|].
    rewrite split_stream_S in H |- * by discriminate.
    destruct (get_length (x :: s)) as [[n|e]|k]; try discriminate.
    destruct (n <=? length (x :: s))%nat; [|discriminate].
    destruct (split_stream f (skipn n (x :: s))) as [l0|] eqn:E; [|discriminate].
    rewrite (IH f' _ l0 E) by lia. exact H.
Qed.

(* the loop never returns more pieces than it has fuel *)
Lemma split_stream_pieces f s l : split_stream f s = Some l -> (length l <= f)%nat.
Proof.
  revert s l. induction f as [|f IH]; intros s l H.
  - destruct s as [|x s]; [|discriminate]. injection H as <-. cbn [length]. lia.
  - destruct s as [|x s]; [injection H as <-; cbn [length]; lia|].
    rewrite split_stream_S in H by discriminate.
    destruct (get_length (x :: s)) as [[n|e]|k]; try discriminate.
    destruct (n <=? length (x :: s))%nat; [|discriminate].
    destruct (split_stream f (skipn n (x :: s))) as [l0|] eqn:E; [|discriminate].
    cbn [option_map] in H. injection H as <-. cbn [length]. apply IH in E. lia.
Qed.

(* the pieces, put together again, are the stream *)
Lemma split_stream_concat f s l : split_stream f s = Some l -> concat l = s.
Proof.
  revert s l. induction f as [|f IH]; intros s l H.
  - destruct s as [|x s]; [|discriminate]. injection H as <-. reflexivity.
  - destruct s as [|x s]; [injection H as <-; reflexivity|].
    rewrite split_stream_S in H by discriminate.
    destruct (get_length (x :: s)) as [[n|e]|k]; try discriminate.
    destruct (n <=? length (x :: s))%nat; [|discriminate].
    destruct (split_stream f (skipn n (x :: s))) as [l0|] eqn:E; [|discriminate].
    cbn [option_map] in H. injection H as <-. cbn [concat]. rewrite (IH _ _ E). apply firstn_skipn.
Qed.

(* ================================================================ 1. the loop returns the packets *)
Theorem split_concat_fuel msgs k : Forall sendable msgs -> (length msgs <= k)%nat ->
  split_stream k (concat (map pkt msgs)) = Some (map pkt msgs).
Proof.
  intros H. revert k. induction H as [|m msgs Hm Hms IH]; intros k Hk.
  - cbn [map concat]. apply split_stream_nil.
  - cbn [length] in Hk. destruct k as [|k]; [lia|].
    cbn [map concat]. rewrite split_step by (first [exact Hm | apply (stream_bytes_ok msgs Hms)]).
    rewrite IH by lia. reflexivity.
Qed.

Theorem split_concat msgs : Forall sendable msgs ->
  split_stream (length msgs) (concat (map pkt msgs)) = Some (map pkt msgs).
Proof. intros H. apply split_concat_fuel; [exact H|lia]. Qed.

(* ================================================================ 2. the cut points are forced *)
(* whatever the fuel: an answer is the list of packets *)
Theorem split_concat_unique_cut_any msgs k l : Forall sendable msgs ->
  split_stream k (concat (map pkt msgs)) = Some l -> l = map pkt msgs.
Proof.
  intros H E.
  pose proof (split_stream_fuel_mono k (Nat.max k (length msgs)) _ l E (Nat.le_max_l _ _)) as E1.
  rewrite (split_concat_fuel msgs (Nat.max k (length msgs)) H (Nat.le_max_r _ _)) in E1.
  injection E1 as E1. symmetry. exact E1.
Qed.

Theorem split_concat_unique_cut msgs k l : Forall sendable msgs -> (length msgs <= k)%nat ->
  split_stream k (concat (map pkt msgs)) = Some l -> l = map pkt msgs.
Proof. intros H _ E. exact (split_concat_unique_cut_any msgs k l H E). Qed.

(* and there is an answer exactly when the fuel covers the number of packets *)
Theorem split_concat_fuel_iff msgs k : Forall sendable msgs ->
  (split_stream k (concat (map pkt msgs)) <> None <-> (length msgs <= k)%nat).
Proof.
  intros H. split.
  - intros E. destruct (split_stream k (concat (map pkt msgs))) as [l|] eqn:El; [|congruence].
    pose proof (split_concat_unique_cut_any msgs k l H El) as ->.
    apply split_stream_pieces in El. rewrite map_length in El. exact El.
  - intros Hk. rewrite (split_concat_fuel msgs k H Hk). discriminate.
Qed.

(* ================================================================ 3. every piece has a good PEC *)
Lemma pkt_pec_good m : pec_good (pkt m) = true.
Proof. destruct m as [[[s d] t] b]. unfold pkt. apply spec_packet_pec_good. Qed.

Lemma pkt_pec_zero m : sendable m -> pec (pkt m) = 0.
Proof.
  intros Hm. apply pec_good_whole.
  - apply pkt_bytes_ok, Hm.
  - rewrite pkt_length. lia.
  - apply pkt_pec_good.
Qed.

Theorem stream_every_piece_has_good_pec msgs k l : Forall sendable msgs ->
  split_stream k (concat (map pkt msgs)) = Some l ->
  Forall (fun piece => pec_good piece = true /\ pec piece = 0) l.
Proof.
  intros H E. rewrite (split_concat_unique_cut_any msgs k l H E).
  apply Forall_map. apply Forall_impl with (2 := H).
  intros m Hm. split; [apply pkt_pec_good|apply pkt_pec_zero, Hm].
Qed.

(* ================================================================ 4. every piece decodes *)
Lemma pkt_decodes m : sendable m -> non_control m ->
  decode_packet (pkt m) = ok (msg_type_from_u8 (m_type m), (9%nat, length (m_body m))) /\
  sub (pkt m) 9 (length (m_body m)) = m_body m.
Proof.
  intros Hm [Ht Hs]. pose proof (pkt_bytes_ok m Hm) as Hok.
  destruct m as [[[s d] t] b]. unfold pkt, m_type, m_body in *. cbn [fst snd] in *.
  apply roundtrip_vendor; assumption.
Qed.

Theorem stream_decodes msgs k l : Forall sendable msgs -> Forall non_control msgs ->
  split_stream k (concat (map pkt msgs)) = Some l ->
  Forall2 (fun m piece =>
             decode_packet piece = ok (msg_type_from_u8 (m_type m), (9%nat, length (m_body m))) /\
             sub piece 9 (length (m_body m)) = m_body m) msgs l.
Proof.
  intros H Hn E. rewrite (split_concat_unique_cut_any msgs k l H E). clear E.
  induction H as [|m msgs Hm _ IH]; [constructor|].
  inversion Hn as [|m' msgs' Hnm Hnms]; subst. cbn [map]. constructor; [apply pkt_decodes; assumption|apply IH, Hnms].
Qed.

(* the same with map: the answers of the decoder, and the payloads it points at *)
Theorem stream_decodes_map msgs k l : Forall sendable msgs -> Forall non_control msgs ->
  split_stream k (concat (map pkt msgs)) = Some l ->
  map decode_packet l = map (fun m => ok (msg_type_from_u8 (m_type m), (9%nat, length (m_body m)))) msgs /\
  map (fun piece => sub piece 9 (length piece - 10)) l = map m_body msgs.
Proof.
  intros H Hn E. rewrite (split_concat_unique_cut_any msgs k l H E). clear E.
  induction H as [|m msgs Hm _ IH]; [split; reflexivity|].
  inversion Hn as [|m' msgs' Hnm Hnms]; subst. destruct (IH Hnms) as [IH1 IH2].
  destruct (pkt_decodes m Hm Hnm) as [D1 D2]. cbn [map]. rewrite IH1, IH2, D1. split; [reflexivity|].
  f_equal. rewrite pkt_length. replace (10 + length (m_body m) - 10)%nat with (length (m_body m)) by lia. exact D2.
Qed.

(* ================================================================ 5. what is not a sequence of packets is refused *)
(* the front of the stream does not carry the MCTP command code *)
Theorem split_garbage_stops f s : bytes_ok s -> (3 <= length s)%nat -> nth 1 s 0 <> 15 ->
  split_stream (S f) s = None.
Proof.
  intros Hok L H1. rewrite split_stream_S by (intros ->; cbn [length] in L; lia).
  rewrite get_length_closed by exact Hok.
  replace (length s <? 3)%nat with false by (symmetry; apply Nat.ltb_ge; exact L).
  apply N.eqb_neq in H1. rewrite H1. reflexivity.
Qed.
(* with no fuel left there is no answer either *)
Corollary split_garbage_stops_any f s : bytes_ok s -> (3 <= length s)%nat -> nth 1 s 0 <> 15 ->
  split_stream f s = None.
Proof.
  intros Hok L H1. destruct f as [|f]; [|apply split_garbage_stops; assumption].
  apply split_stream_0. intros ->. cbn [length] in L. lia.
Qed.

(* fewer than three bytes: the length probe gives nothing *)
Theorem split_short_stops f s : bytes_ok s -> (1 <= length s < 3)%nat -> split_stream f s = None.
Proof.
  intros Hok L. assert (Hne : s <> []) by (intros ->; cbn [length] in L; lia).
  destruct f as [|f]; [apply split_stream_0, Hne|].
  rewrite split_stream_S by exact Hne. rewrite get_length_closed by exact Hok.
  replace (length s <? 3)%nat with true by (symmetry; apply Nat.ltb_lt; lia). reflexivity.
Qed.

(* the stream stops in the middle of a packet *)
Theorem split_truncated_stops fuel m k : sendable m -> (1 <= k < length (pkt m))%nat ->
  split_stream fuel (firstn k (pkt m)) = None.
Proof.
  intros Hm Hk. pose proof (pkt_bytes_ok m Hm) as Hok.
  assert (Lk : length (firstn k (pkt m)) = k) by (rewrite firstn_length; lia).
  assert (Hokk : bytes_ok (firstn k (pkt m))) by (apply bytes_ok_first, Hok).
  destruct (Nat.lt_ge_cases k 3) as [K3|K3]; [apply split_short_stops; [exact Hokk|lia]|].
  assert (Hne : firstn k (pkt m) <> []) by (intros E; rewrite E in Lk; cbn [length] in Lk; lia).
  destruct fuel as [|f]; [apply split_stream_0, Hne|].
  rewrite split_stream_S by exact Hne. rewrite get_length_closed by exact Hokk. rewrite Lk.
  replace (k <? 3)%nat with false by (symmetry; apply Nat.ltb_ge; exact K3).
  rewrite !nth_firstn_lt by lia.
  pose proof (pkt_length m) as L. destruct m as [[[s d] t] b]. unfold pkt, m_body in *. cbn [snd] in L.
  rewrite spec_packet_nth1, spec_packet_nth2, N.eqb_refl. unfold ok. rewrite Nat2N.id.
  replace (length b + 6 + 4 <=? k)%nat with false by (symmetry; apply Nat.leb_gt; lia). reflexivity.
Qed.

(* whole packets, then a piece of one: refused as a whole *)
Theorem split_concat_truncated_stops fuel msgs m k : Forall sendable msgs -> sendable m ->
  (1 <= k < length (pkt m))%nat ->
  split_stream fuel (concat (map pkt msgs) ++ firstn k (pkt m)) = None.
Proof.
  intros H Hm Hk. revert fuel. induction H as [|m0 msgs Hm0 Hms IH]; intros fuel.
  - cbn [map concat app]. apply split_truncated_stops; assumption.
  - cbn [map concat]. rewrite <- app_assoc. destruct fuel as [|f].
    + apply split_stream_0. intros E. apply app_eq_nil in E as [E _]. exact (pkt_nonempty m0 E).
    + rewrite split_step.
      * rewrite IH. reflexivity.
      * exact Hm0.
      * apply bytes_ok_app. split; [apply (stream_bytes_ok msgs Hms)|apply bytes_ok_first, pkt_bytes_ok, Hm].
Qed.

(* ================================================================ 6. three messages of different types, on the wire *)
(* a PCI vendor defined message (vendor ID 0x1234), an SPDM message, and the control request Get Endpoint ID *)
Definition ex_msgs : list msg :=
  [ (16, 32, 126, [18; 52; 1; 2; 3]);
    (16, 32, 5, [16; 132; 0; 0]);
    (32, 16, 0, [128; 2]) ].
Definition ex_stream : list N :=
  [64; 15; 11; 33; 1; 32; 16; 200; 126; 18; 52; 1; 2; 3; 19;
   64; 15; 10; 33; 1; 32; 16; 200; 5; 16; 132; 0; 0; 63;
   32; 15; 8; 65; 1; 16; 32; 200; 0; 128; 2; 54].

Example ex_stream_is : stream ex_msgs = ex_stream.
Proof. vm_compute. reflexivity. Qed.

Example ex_split :
  split_stream 3 ex_stream =
  Some [[64; 15; 11; 33; 1; 32; 16; 200; 126; 18; 52; 1; 2; 3; 19];
        [64; 15; 10; 33; 1; 32; 16; 200; 5; 16; 132; 0; 0; 63];
        [32; 15; 8; 65; 1; 16; 32; 200; 0; 128; 2; 54]].
Proof. vm_compute. reflexivity. Qed.

Example ex_split_decode :
  split_stream 3 (stream ex_msgs) = Some (map pkt ex_msgs) /\
  option_map (map decode_packet) (split_stream 3 ex_stream) =
    Some [ok (VendorDefinedPCI, (9%nat, 5%nat)); ok (SpdmOverMctp, (9%nat, 4%nat)); ok (MCtpControl, (11%nat, 0%nat))] /\
  option_map (map (fun p => sub p 9 (length p - 10))) (split_stream 3 ex_stream) = Some (map m_body ex_msgs) /\
  option_map (map pec) (split_stream 3 ex_stream) = Some [0; 0; 0] /\
  split_stream 2 ex_stream = None /\                       (* fuel for two packets only *)
  split_stream 3 (firstn 40 ex_stream) = None /\           (* the last PEC byte has not arrived *)
  split_stream 3 (14 :: tl ex_stream) <> None /\           (* byte 0 is not looked at *)
  split_stream 3 (64 :: 14 :: skipn 2 ex_stream) = None.   (* the command code is *)
Proof. vm_compute. repeat split; try reflexivity. discriminate. Qed.

Print Assumptions split_concat.
Print Assumptions split_concat_fuel.
Print Assumptions split_concat_unique_cut.
Print Assumptions split_concat_unique_cut_any.
Print Assumptions split_concat_fuel_iff.
Print Assumptions stream_every_piece_has_good_pec.
Print Assumptions stream_decodes.
Print Assumptions stream_decodes_map.
Print Assumptions split_garbage_stops.
Print Assumptions split_short_stops.
Print Assumptions split_truncated_stops.
Print Assumptions split_concat_truncated_stops.
Print Assumptions ex_split_decode.
