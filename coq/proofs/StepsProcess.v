(* StepsProcess.v — the request processor on accepted control requests: what dispatch_request does for each
   answerable command (state and response bytes in closed form), what process_packet can do to the two EIDs,
   and the one-step facts for C12, C13, C14, C15. *)
Require Import Base Crc Bitfield Headers Encode Decode Process Ops Spec Judge.
Require Import CrcFacts BitfieldFacts HeaderFacts PecFacts EncodeFacts DecodeFacts Hist StepsSimple StepsEncode
               DecodeChar ProcessChar.
Open Scope N_scope.

(* ================================================================ a control response that fits *)
Lemma resp_body_len (x y cc : N) (fields : list N) :
  (10 + length ([x; y] ++ cc :: fields) = 13 + length fields)%nat.
Proof. cbn [app length]. lia. Qed.

(* every response encoder ends in control_packet .. (resp_hdr k) (cc :: fields) *)
Lemma ctl_resp_fits ovf addr dest k cc fields buf :
  addr < 256 -> dest < 256 -> k < 256 -> (13 + length fields <= 64)%nat -> (64 <= length buf)%nat ->
  control_packet ovf addr dest (resp_hdr k) (cc :: fields) buf =
    (spec_packet addr dest 0 ([0; k; cc] ++ fields) ++ skipn (13 + length fields) buf,
     Val (Some (13 + length fields)%nat)).
Proof.
  intros Ha Hd Hk Hf Hb.
  pose proof (enc_spec_ctl ovf addr dest false k (cc :: fields) buf Ha Hd Hk) as M.
  unfold enc_spec in M. rewrite resp_body_len in M.
  replace (259 <? 13 + length fields)%nat with false in M by (symmetry; apply Nat.ltb_ge; lia).
  replace (13 + length fields <=? length buf)%nat with true in M by (symmetry; apply Nat.leb_le; lia).
  exact M.
Qed.

(* the result of answering: new context, the response in front of the untouched rest of the buffer, its length *)
Definition respond_spec (g : config) (src : N) (c' : ctx) (cmd cc : N) (fields : list N) (buf : list N)
  : pstate * res nat :=
  ((c', spec_packet (g_addr g) src 0 ([0; cmd; cc] ++ fields) ++ skipn (13 + length fields) buf),
   Val (13 + length fields)%nat).

Lemma respond_fits ovf g src c' k cc fields buf :
  g_addr g < 256 -> src < 256 -> k < 256 -> (13 + length fields <= 64)%nat -> (64 <= length buf)%nat ->
  (let '(b, r) := unwrap_len (control_packet ovf (g_addr g) src (resp_hdr k) (cc :: fields) buf) in ((c', b), r)) =
  respond_spec g src c' k cc fields buf.
Proof. intros Ha Hs Hk Hf Hb. rewrite ctl_resp_fits by assumption. reflexivity. Qed.

(* ================================================================ dispatch_request, command by command *)
Section Dispatch.
Variables (ovf : bool) (g : config) (c : ctx) (buf : list N) (src : N).
Hypothesis Hc : cinv g c.
Hypothesis Hg : g_addr g < 256.
Hypothesis Hsrc : src < 256.
Hypothesis Hbuf : (64 <= length buf)%nat.

Lemma cinv_addr : c_addr c = g_addr g. Proof. exact (proj1 Hc). Qed.

(* Set Endpoint ID, operation 0 (set) or 1 (force): both EIDs := e, Success, accepted / no pool, the new EID *)
Lemma dispatch_set_eid_assign op e rest : op = 0 \/ op = 1 ->
  dispatch_request ovf c buf 1 src (op :: e :: rest) =
  respond_spec g src (set_eid_req (set_eid_resp c e) e) 1 0 [0; e; 0] buf.
Proof.
  intros Hop. unfold dispatch_request. change (cmd_from_u8 1) with 1. cbv beta iota zeta.
  change (index (op :: e :: rest) 0) with (Val op). change (index (op :: e :: rest) 1) with (Val e). cbv beta iota.
  replace ((op =? 0) || (op =? 1)) with true by (destruct Hop as [-> | ->]; reflexivity).
  unfold resp_set_endpoint_id. cbn [set_eid_req set_eid_resp c_addr c_eid_resp N.eqb].
  rewrite cinv_addr. apply respond_fits; first [assumption | reflexivity | cbn [length]; lia].
Qed.

(* operation 3 (set discovered flag): Error Invalid Data, nothing changes, the EID as it was *)
Lemma dispatch_set_eid_flag rest :
  dispatch_request ovf c buf 1 src (3 :: rest) = respond_spec g src c 1 2 [0; c_eid_resp c; 0] buf.
Proof.
  unfold dispatch_request. change (cmd_from_u8 1) with 1. cbv beta iota zeta.
  change (index (3 :: rest) 0) with (Val 3). cbv beta iota.
  change ((3 =? 0) || (3 =? 1)) with false. change (3 =? 2) with false. change (3 =? 3) with true. cbv beta iota.
  unfold resp_set_endpoint_id. cbn [N.eqb].
  rewrite cinv_addr. apply respond_fits; first [assumption | reflexivity | cbn [length]; lia].
Qed.

(* Get Endpoint ID: the current EID, simple endpoint / dynamic EID, no medium-specific byte *)
Lemma dispatch_get_eid payload :
  dispatch_request ovf c buf 2 src payload = respond_spec g src c 2 0 [c_eid_resp c; 0; 0] buf.
Proof.
  unfold dispatch_request. change (cmd_from_u8 2) with 2. cbv beta iota zeta.
  unfold resp_get_endpoint_id. change (N.lor ((0 * 16) mod 256) 0) with 0. change (N.b2n false) with 0.
  rewrite cinv_addr. apply respond_fits; first [assumption | reflexivity | cbn [length]; lia].
Qed.

Lemma dispatch_get_uuid payload :
  dispatch_request ovf c buf 3 src payload = respond_spec g src c 3 0 (c_uuid c) buf.
Proof.
  unfold dispatch_request. change (cmd_from_u8 3) with 3. cbv beta iota zeta.
  unfold resp_get_endpoint_uuid.
  assert (L : length (c_uuid c) = 16%nat) by (apply Hc).
  rewrite cinv_addr. apply respond_fits; first [assumption | reflexivity | lia].
Qed.

Lemma dispatch_get_version payload :
  dispatch_request ovf c buf 4 src payload = respond_spec g src c 4 0 [1; 241; 243; 241; 0] buf.
Proof.
  unfold dispatch_request. change (cmd_from_u8 4) with 4. cbv beta iota zeta.
  unfold resp_get_mctp_version_support.
  rewrite cinv_addr. apply respond_fits; first [assumption | reflexivity | cbn [length]; lia].
Qed.

Lemma dispatch_get_msg_types payload : (length (g_msg_types g) <= 30)%nat ->
  dispatch_request ovf c buf 5 src payload =
  respond_spec g src c 5 0 (N.of_nat (length (g_msg_types g)) :: g_msg_types g) buf.
Proof.
  intros Hn. unfold dispatch_request. change (cmd_from_u8 5) with 5. cbv beta iota zeta.
  unfold resp_get_message_type_suport.
  assert (Em : c_msg_types c = g_msg_types g) by (apply Hc). rewrite Em.
  replace (30 <? length (g_msg_types g))%nat with false by (symmetry; apply Nat.ltb_ge; exact Hn).
  rewrite N.mod_small by lia.
  rewrite cinv_addr. apply respond_fits; first [assumption | reflexivity | cbn [length]; lia].
Qed.

(* Get Vendor Defined Message Support: set number sel, followed by the selector of the next set or 0xFF *)
Lemma dispatch_get_vendor sel rest v :
  let n := N.of_nat (length (g_vendor_ids g)) in
  let next := if sel + 1 =? n then 255 else sel + 1 in
  n < 256 -> sel < n -> nth_error (g_vendor_ids g) (N.to_nat sel) = Some v -> v_format v <= 1 ->
  dispatch_request ovf c buf 6 src (sel :: rest) =
  respond_spec g src (set_selector c next) 6 0 (next :: enc_vendor_set v) buf.
Proof.
  intros n next Hn Hsel Hv Hf. unfold dispatch_request. change (cmd_from_u8 6) with 6. cbv beta iota zeta.
  change (index (sel :: rest) 0) with (Val sel). cbv beta iota.
  assert (Ev : c_vendor_ids c = g_vendor_ids g) by (apply Hc).
  assert (Eadd : u8_add ovf sel 1 = Val (sel + 1)).
  { unfold u8_add. replace (sel + 1 <? 256) with true by (symmetry; apply N.ltb_lt; lia). reflexivity. }
  rewrite Eadd. cbv beta iota.
  cbn [set_selector c_vendor_ids c_addr c_selector]. rewrite Ev. fold n.
  rewrite (N.mod_small n 256) by exact Hn. fold next. rewrite Hv.
  assert (Hnext : next < 256) by (unfold next; destruct (sel + 1 =? n); lia).
  assert (Hfmt : v_format v = 0 \/ v_format v = 1) by lia.
  unfold resp_get_vendor_defined_message_support, enc_vendor_set.
  destruct Hfmt as [E|E]; rewrite E; cbn [N.eqb Pos.eqb length Nat.ltb Nat.leb]; cbv beta iota;
    rewrite cinv_addr; apply respond_fits; first [assumption | reflexivity | cbn [length]; lia].
Qed.

End Dispatch.

(* ================================================================ what dispatch_request can do to the EIDs *)
(* whatever the buffer (the response may not fit, the encoder may panic): operations 0 and 1 have assigned both
   EIDs when dispatch_request returns or unwinds *)
Lemma dispatch_assign_ctx ovf c buf src op e rest : op = 0 \/ op = 1 ->
  fst (fst (dispatch_request ovf c buf 1 src (op :: e :: rest))) = set_eid_req (set_eid_resp c e) e.
Proof.
  intros Hop. unfold dispatch_request. change (cmd_from_u8 1) with 1. cbv beta iota zeta.
  change (index (op :: e :: rest) 0) with (Val op). change (index (op :: e :: rest) 1) with (Val e). cbv beta iota.
  replace ((op =? 0) || (op =? 1)) with true by (destruct Hop as [-> | ->]; reflexivity).
  match goal with |- context [unwrap_len ?x] => destruct (unwrap_len x) as [b r] end. reflexivity.
Qed.

(* and nothing else touches them *)
Lemma dispatch_eids ovf c buf cmd src payload :
  let c' := fst (fst (dispatch_request ovf c buf cmd src payload)) in
  (c_eid_req c' = c_eid_req c /\ c_eid_resp c' = c_eid_resp c) \/
  (cmd_from_u8 cmd = 1 /\ exists op e, index payload 0 = Val op /\ (op = 0 \/ op = 1) /\ index payload 1 = Val e /\
     c_eid_req c' = e /\ c_eid_resp c' = e).
Proof.
  unfold dispatch_request.
  destruct (cmd_from_u8 cmd) as [|[[[q|q|]|[q|q|]|]|[[q|q|]|[q|q|]|]|]] eqn:Ecmd; cbv beta iota zeta;
    try (left; split; reflexivity);
    try (match goal with |- context [unwrap_len ?x] => destruct (unwrap_len x) as [b r] end; left; split; reflexivity).
  - (* 6: only the selector *)
    destruct (index payload 0) as [sel|k]; [|left; split; reflexivity].
    destruct (u8_add ovf sel 1) as [s1|k]; [|left; split; reflexivity].
    match goal with |- context [nth_error ?l ?i] => destruct (nth_error l i) as [v|] end; [|left; split; reflexivity].
    destruct (v_format v =? 0);
      [match goal with |- context [unwrap_len ?x] => destruct (unwrap_len x) as [b r] end; left; split; reflexivity|].
    destruct (v_format v =? 1);
      [match goal with |- context [unwrap_len ?x] => destruct (unwrap_len x) as [b r] end; left; split; reflexivity|].
    left; split; reflexivity.
  - (* 1 *)
    destruct (index payload 0) as [op|k] eqn:E0; [|left; split; reflexivity].
    destruct ((op =? 0) || (op =? 1)) eqn:Eop.
    + destruct (index payload 1) as [e|k] eqn:E1; [|left; split; reflexivity].
      right. split; [reflexivity|]. exists op, e.
      assert (Hop : op = 0 \/ op = 1).
      { apply orb_true_iff in Eop as [H|H]; apply N.eqb_eq in H; auto. }
      match goal with |- context [unwrap_len ?x] => destruct (unwrap_len x) as [b r] end.
      repeat split; try reflexivity; exact Hop.
    + destruct (op =? 2); [left; split; reflexivity|].
      destruct (op =? 3); [|left; split; reflexivity].
      match goal with |- context [unwrap_len ?x] => destruct (unwrap_len x) as [b r] end. left; split; reflexivity.
Qed.

(* ================================================================ accepted requests and the decoder *)
Lemma accepted_facts p : accepted_request p = true ->
  header_ok p = true /\ pec_good p = true /\ (nth 8 p 0 =? 0) = true /\ is_request p = true /\
  len_ok (req_fixed_len (ctl_cmd p)) (length p - 12) = true /\ (12 <= length p)%nat.
Proof.
  unfold accepted_request, wf_packet. intros H.
  apply andb_true_iff in H as [H L]. apply Nat.leb_le in L.
  apply andb_true_iff in H as [H Hr]. apply andb_true_iff in H as [H E8].
  apply andb_true_iff in H as [H Hl]. apply andb_true_iff in H as [Hh Hp].
  rewrite E8, Hr in Hl. rewrite (payload_len_req p E8 Hr) in Hl. repeat split; assumption.
Qed.

(* an accepted request with one of the nine tabulated commands is in no panic class *)
Lemma accepted_class0 p : accepted_request p = true -> ctl_cmd p < 9 -> decode_panic_class p = 0.
Proof.
  intros Ha Hcmd. destruct (accepted_facts p Ha) as (Hh & Hp & E8 & Hr & Hl & L).
  unfold decode_panic_class. rewrite Hh, E8, Hr. cbn [negb].
  replace (length p <? 8)%nat with false by (symmetry; apply Nat.ltb_ge; lia).
  replace (length p =? 8)%nat with false by (symmetry; apply Nat.eqb_neq; lia).
  replace (length p <? 11)%nat with false by (symmetry; apply Nat.ltb_ge; lia).
  replace (length p =? 11)%nat with false by (symmetry; apply Nat.eqb_neq; lia).
  replace (9 <=? ctl_cmd p) with false by (symmetry; apply N.leb_gt; exact Hcmd).
  reflexivity.
Qed.

Lemma accepted_decode p : bytes_ok p -> accepted_request p = true -> ctl_cmd p < 9 ->
  decode_packet p = Val (inl (MCtpControl, (11%nat, (length p - 12)%nat))).
Proof.
  intros Hok Ha Hcmd. rewrite (decode_exact_all p Hok (accepted_class0 p Ha Hcmd)).
  destruct (accepted_facts p Ha) as (Hh & Hp & E8 & Hr & Hl & L).
  unfold spec_decode. rewrite Hh, E8, Hr, Hp. rewrite model_req_len_spec, Hl. reflexivity.
Qed.

(* with a command code >= 9 the decoder panics (class D4), and so does process_packet, touching nothing *)
Lemma accepted_cmd9_panics ovf c p buf : bytes_ok p -> accepted_request p = true -> 9 <= ctl_cmd p ->
  exists k, process_packet ovf c p buf = ((c, buf), Panic k).
Proof.
  intros Hok Ha Hcmd. destruct (accepted_facts p Ha) as (Hh & Hp & E8 & Hr & Hl & L).
  destruct (decode_char p Hok) as [[Hc Hd]|[Hc [k Hd]]].
  - exfalso. destruct (class0_req p Hc Hh E8 Hr) as [_ H9]. apply N.leb_gt in H9. lia.
  - exists k. apply process_decode_panic. exact Hd.
Qed.

(* conversely: what the decoder accepts as a control request is an accepted request with a command < 9 *)
Lemma decoded_request_accepted p rng : bytes_ok p -> decode_packet p = Val (inl (MCtpControl, rng)) ->
  is_request p = true -> accepted_request p = true /\ ctl_cmd p < 9.
Proof.
  intros Hok Hd Hr. destruct (decode_accept_inv p _ rng Hok Hd) as (Hc & Hh & Hp & S).
  destruct S as [(E8 & Hm & _)|[(E8 & _ & _ & -> & Hlen)|(_ & _ & Hr' & _)]].
  - exfalso. unfold header_ok in Hh. apply andb_true_iff in Hh as [_ Hs].
    destruct (supported_cases _ Hs) as [E|[E|[E|[E|E]]]]; rewrite E in *; discriminate.
  - destruct (class0_req p Hc Hh E8 Hr) as [L H9]. apply N.leb_gt in H9.
    split; [|assumption].
    unfold accepted_request, wf_packet. rewrite Hh, Hp, E8, Hr. rewrite (payload_len_req p E8 Hr).
    rewrite model_req_len_spec in Hlen. rewrite Hlen. apply Nat.leb_le in L. rewrite L. reflexivity.
  - rewrite Hr in Hr'. discriminate.
Qed.

(* process_packet on an accepted request is dispatch_request on command byte, source EID and payload *)
Theorem process_accepted ovf c p buf : bytes_ok p -> accepted_request p = true -> ctl_cmd p < 9 ->
  process_packet ovf c p buf =
    (let '(st, r) := dispatch_request ovf c buf (ctl_cmd p) (nth 6 p 0) (sub p 11 (length p - 12)) in
     (st, match r with
          | Panic k => Panic k
          | Val len => ok ((MCtpControl, (11%nat, (length p - 12)%nat)), Some len)
          end)).
Proof.
  intros Hok Ha Hcmd. pose proof (accepted_decode p Hok Ha Hcmd) as Hd.
  destruct (accepted_facts p Ha) as (_ & _ & _ & Hr & _).
  exact (proj2 (process_control_request ovf c p buf _ Hok Hd Hr)).
Qed.

(* the payload of the fixed-length requests *)
Lemma sub_11_1 p : length p = 13%nat -> sub p 11 (length p - 12) = [nth 11 p 0].
Proof. intros L. rewrite L. do 13 (destruct p as [|? p]; [discriminate|]). reflexivity. Qed.
Lemma sub_11_2 p : length p = 14%nat -> sub p 11 (length p - 12) = [nth 11 p 0; nth 12 p 0].
Proof. intros L. rewrite L. do 14 (destruct p as [|? p]; [discriminate|]). reflexivity. Qed.

Lemma accepted_fixed_len p k : accepted_request p = true -> req_fixed_len (ctl_cmd p) = S k ->
  length p = (13 + k)%nat.
Proof. intros Ha E. destruct (accepted_facts p Ha) as (_ & _ & _ & _ & Hl & _). rewrite E in Hl.
  unfold len_ok in Hl. cbn [Nat.eqb orb] in Hl.
  destruct (Nat.eqb_spec (length p - 12) (S k)) as [H|H]; [|discriminate]. lia. Qed.

(* ================================================================ one processing step that answers *)
(* the observation of a step that wrote the response (cc, fields) to the request p *)
Definition resp_obs (g : config) (p : list N) (cc : N) (fields : list N) (buf : list N) : obs :=
  XProcess (inl ((MCtpControl, (11%nat, (length p - 12)%nat)), Some (13 + length fields)%nat))
           (spec_packet (g_addr g) (nth 6 p 0) 0 ([0; ctl_cmd p; cc] ++ fields) ++ skipn (13 + length fields) buf).

Lemma step_answer ovf g c p buf c' cc fields :
  bytes_ok p -> accepted_request p = true -> ctl_cmd p < 9 ->
  dispatch_request ovf c buf (ctl_cmd p) (nth 6 p 0) (sub p 11 (length p - 12)) =
    respond_spec g (nth 6 p 0) c' (ctl_cmd p) cc fields buf ->
  step ovf c (OProcess p buf) = (c', resp_obs g p cc fields buf).
Proof.
  intros Hok Ha Hcmd D. cbn [step]. rewrite (process_accepted ovf c p buf Hok Ha Hcmd), D.
  reflexivity.
Qed.

Lemma nth_byte p i : bytes_ok p -> nth i p 0 < 256.
Proof. intros Hok. destruct (Nat.ltb_spec i (length p)) as [H|H].
  - eapply bytes_ok_In; [exact Hok|]. apply nth_In. exact H.
  - rewrite nth_overflow by exact H. reflexivity. Qed.

Section Answers.
Variables (ovf : bool) (g : config) (c : ctx) (p buf : list N).
Hypothesis Hg : wf_cfg g.
Hypothesis Hc : cinv g c.
Hypothesis Hok : bytes_ok p.
Hypothesis Ha : accepted_request p = true.
Hypothesis Hbuf : (64 <= length buf)%nat.

Let Hsrc : nth 6 p 0 < 256 := nth_byte p 6 Hok.
Let Haddr : g_addr g < 256 := proj1 Hg.

Lemma step_set_eid_assign : ctl_cmd p = 1 -> nth 11 p 0 = 0 \/ nth 11 p 0 = 1 ->
  step ovf c (OProcess p buf) =
  (set_eid_req (set_eid_resp c (nth 12 p 0)) (nth 12 p 0), resp_obs g p 0 [0; nth 12 p 0; 0] buf).
Proof.
  intros E Hop. assert (L : length p = 14%nat) by (apply (accepted_fixed_len p 1 Ha); rewrite E; reflexivity).
  apply step_answer; try assumption; try lia. rewrite sub_11_2 by exact L. rewrite E.
  apply dispatch_set_eid_assign; assumption.
Qed.

Lemma step_set_eid_flag : ctl_cmd p = 1 -> nth 11 p 0 = 3 ->
  step ovf c (OProcess p buf) = (c, resp_obs g p 2 [0; c_eid_resp c; 0] buf).
Proof.
  intros E Hop. assert (L : length p = 14%nat) by (apply (accepted_fixed_len p 1 Ha); rewrite E; reflexivity).
  apply step_answer; try assumption; try lia. rewrite sub_11_2 by exact L. rewrite E, Hop.
  apply dispatch_set_eid_flag; assumption.
Qed.

Lemma step_get_eid : ctl_cmd p = 2 ->
  step ovf c (OProcess p buf) = (c, resp_obs g p 0 [c_eid_resp c; 0; 0] buf).
Proof.
  intros E. apply step_answer; try assumption; try lia. rewrite E. apply dispatch_get_eid; assumption.
Qed.

Lemma step_get_uuid : ctl_cmd p = 3 ->
  step ovf c (OProcess p buf) = (c, resp_obs g p 0 (c_uuid c) buf).
Proof.
  intros E. apply step_answer; try assumption; try lia. rewrite E. apply dispatch_get_uuid; assumption.
Qed.

Lemma step_get_version : ctl_cmd p = 4 ->
  step ovf c (OProcess p buf) = (c, resp_obs g p 0 [1; 241; 243; 241; 0] buf).
Proof.
  intros E. assert (L : length p = 13%nat) by (apply (accepted_fixed_len p 0 Ha); rewrite E; reflexivity).
  apply step_answer; try assumption; try lia. rewrite E. apply dispatch_get_version; assumption.
Qed.

Lemma step_get_msg_types : ctl_cmd p = 5 -> (length (g_msg_types g) <= 30)%nat ->
  step ovf c (OProcess p buf) =
  (c, resp_obs g p 0 (N.of_nat (length (g_msg_types g)) :: g_msg_types g) buf).
Proof.
  intros E Hn. apply step_answer; try assumption; try lia. rewrite E. apply dispatch_get_msg_types; assumption.
Qed.

Lemma step_get_vendor v :
  let n := N.of_nat (length (g_vendor_ids g)) in
  let next := if nth 11 p 0 + 1 =? n then 255 else nth 11 p 0 + 1 in
  ctl_cmd p = 6 -> n < 256 -> nth 11 p 0 < n ->
  nth_error (g_vendor_ids g) (N.to_nat (nth 11 p 0)) = Some v -> v_format v <= 1 ->
  step ovf c (OProcess p buf) = (set_selector c next, resp_obs g p 0 (next :: enc_vendor_set v) buf).
Proof.
  intros n next E Hn Hsel Hv Hf.
  assert (L : length p = 13%nat) by (apply (accepted_fixed_len p 0 Ha); rewrite E; reflexivity).
  apply step_answer; try assumption; try lia. rewrite sub_11_1 by exact L. rewrite E.
  apply dispatch_get_vendor; assumption.
Qed.
End Answers.

(* ================================================================ the bytes of a response *)
Lemma pec_ok_spec_packet A D M B T : pec_ok (10 + length B) (spec_packet A D M B ++ T) = true.
Proof.
  unfold spec_packet. set (pre := spec_prefix A D M B).
  assert (Lp : length pre = (9 + length B)%nat) by (unfold pre, spec_prefix; rewrite app_length; reflexivity).
  unfold pec_ok. replace (10 + length B - 1)%nat with (length pre) by lia.
  replace (10 + length B)%nat with (length (pre ++ [pec pre])) by (rewrite app_length, Lp; cbn [length]; lia).
  rewrite (firstn_app_exact (pre ++ [pec pre]) T _ eq_refl).
  rewrite <- app_assoc. rewrite (firstn_app_exact pre _ _ eq_refl).
  cbn [app]. rewrite (nth_app_exact pre T (pec pre) _ eq_refl).
  rewrite pec_self, !N.eqb_refl. rewrite !app_length. cbn [length].
  replace (1 <=? length pre + 1)%nat with true by (symmetry; apply Nat.leb_le; lia).
  replace (length pre + 1 <=? length pre + S (length T))%nat with true by (symmetry; apply Nat.leb_le; lia).
  reflexivity.
Qed.

(* command code, completion code and fields sit at offset 10 *)
Lemma resp_sub A D cmd cc fields T :
  sub (spec_packet A D 0 ([0; cmd; cc] ++ fields) ++ T) 10 (2 + length fields) = cmd :: cc :: fields.
Proof. exact (spec_packet_body A D 0 [0] (cmd :: cc :: fields) T). Qed.

Lemma firstn_firstn_le (l : list N) i j : (i <= j)%nat -> firstn i (firstn j l) = firstn i l.
Proof. intros H. rewrite firstn_firstn. f_equal. lia. Qed.

Lemma resp_head A D cmd cc fields T n : (9 <= n)%nat ->
  firstn 9 (firstn n (spec_packet A D 0 ([0; cmd; cc] ++ fields) ++ T)) =
  [(D mod 128) * 2; 15; N.of_nat (length fields + 9); (A mod 128) * 2 + 1; 1; D; A; 200; 0].
Proof.
  intros H. rewrite firstn_firstn_le by exact H.
  replace (length fields + 9)%nat with (length ([0%N; cmd; cc] ++ fields) + 6)%nat by (cbn [app length]; lia).
  reflexivity.
Qed.

Lemma resp_9_11 A D cmd cc fields T n : (12 <= n)%nat ->
  let r := firstn n (spec_packet A D 0 ([0; cmd; cc] ++ fields) ++ T) in
  nth 9 r 0 = 0 /\ nth 10 r 0 = cmd /\ nth 11 r 0 = cc.
Proof. intros H r. unfold r. rewrite !nth_firstn_lt by lia. repeat split; reflexivity. Qed.

Lemma resp_length A D cmd cc fields buf : (13 + length fields <= length buf)%nat ->
  length (spec_packet A D 0 ([0; cmd; cc] ++ fields) ++ skipn (13 + length fields) buf) = length buf.
Proof.
  intros H. rewrite <- (resp_body_len 0 cmd cc fields). apply spec_packet_out_length.
  rewrite (resp_body_len 0 cmd cc fields). exact H.
Qed.

(* ================================================================ what process_packet can do to the EIDs *)
Lemma assigning_facts p : assigning p = true ->
  accepted_request p = true /\ ctl_cmd p = 1 /\ (nth 11 p 0 = 0 \/ nth 11 p 0 = 1) /\ length p = 14%nat.
Proof.
  unfold assigning. intros H. apply andb_true_iff in H as [H Hop]. apply andb_true_iff in H as [Ha Hcmd].
  apply N.eqb_eq in Hcmd.
  assert (Hop' : nth 11 p 0 = 0 \/ nth 11 p 0 = 1)
    by (apply orb_true_iff in Hop as [E|E]; apply N.eqb_eq in E; auto).
  repeat split; try assumption. apply (accepted_fixed_len p 1 Ha). rewrite Hcmd. reflexivity.
Qed.

(* both EIDs become byte 12 of an assigning Set Endpoint ID request (whatever the response buffer);
   every other packet leaves both as they were *)
Theorem process_eids ovf c p buf : bytes_ok p ->
  let c' := fst (fst (process_packet ovf c p buf)) in
  if assigning p then c_eid_req c' = nth 12 p 0 /\ c_eid_resp c' = nth 12 p 0
  else c_eid_req c' = c_eid_req c /\ c_eid_resp c' = c_eid_resp c.
Proof.
  intros Hok c'. destruct (assigning p) eqn:A.
  - destruct (assigning_facts p A) as (Ha & Hcmd & Hop & L).
    unfold c'. rewrite (process_accepted ovf c p buf Hok Ha) by (rewrite Hcmd; reflexivity).
    rewrite (sub_11_2 p L), Hcmd.
    pose proof (dispatch_assign_ctx ovf c buf (nth 6 p 0) (nth 11 p 0) (nth 12 p 0) [] Hop) as D.
    destruct (dispatch_request ovf c buf 1 (nth 6 p 0) [nth 11 p 0; nth 12 p 0]) as [[c1 b1] r1].
    cbn [fst] in D |- *. rewrite D. split; reflexivity.
  - pose proof (process_char ovf c p buf Hok) as PC. unfold c'.
    destruct (decode_packet p) as [[[mt rng]|e]|k] eqn:Hd; try (rewrite PC; split; reflexivity).
    destruct (msg_type_eqb mt MCtpControl && is_request p) eqn:Hreq; [|rewrite PC; split; reflexivity].
    apply andb_true_iff in Hreq as [Hmt Hr].
    assert (mt = MCtpControl) by (destruct mt; try discriminate; reflexivity). subst mt.
    destruct PC as [-> PC]. rewrite PC.
    destruct (decoded_request_accepted p _ Hok Hd Hr) as (Ha & Hcmd).
    pose proof (dispatch_eids ovf c buf (ctl_cmd p) (nth 6 p 0) (sub p 11 (length p - 12))) as D. cbv zeta in D.
    destruct (dispatch_request ovf c buf (ctl_cmd p) (nth 6 p 0) (sub p 11 (length p - 12))) as [[c1 b1] r1].
    cbn [fst] in D |- *. destruct D as [D|(Ecmd & op & e & E0 & Hop & E1 & _)]; [exact D|].
    exfalso.
    assert (Hc1 : ctl_cmd p = 1).
    { unfold cmd_from_u8 in Ecmd. destruct (ctl_cmd p <=? 20); [exact Ecmd|discriminate]. }
    assert (L14 : length p = 14%nat) by (apply (accepted_fixed_len p 1 Ha); rewrite Hc1; reflexivity).
    rewrite (sub_11_2 p L14) in E0. change (Val (nth 11 p 0) = Val op) in E0.
    assert (Eop : nth 11 p 0 = op) by congruence.
    unfold assigning in A. rewrite Ha, Hc1, Eop in A.
    destruct Hop as [-> | ->]; discriminate.
Qed.

Corollary C13_only_assignment_changes_eid ovf c p buf : bytes_ok p ->
  let c' := fst (fst (process_packet ovf c p buf)) in
  c_eid_req c' <> c_eid_req c \/ c_eid_resp c' <> c_eid_resp c ->
  assigning p = true /\ c_eid_req c' = nth 12 p 0 /\ c_eid_resp c' = nth 12 p 0.
Proof.
  intros Hok c' Hch. pose proof (process_eids ovf c p buf Hok) as E. cbv zeta in E. fold c' in E.
  destruct (assigning p).
  - split; [reflexivity|exact E].
  - exfalso. destruct E as [E1 E2]. destruct Hch as [H|H]; apply H; assumption.
Qed.

(* ================================================================ C12 *)
Lemma resp_pec_ok A D cmd cc fields T :
  pec_ok (13 + length fields) (spec_packet A D 0 ([0; cmd; cc] ++ fields) ++ T) = true.
Proof. exact (pec_ok_spec_packet A D 0 ([0; cmd; cc] ++ fields) T). Qed.

Lemma accepted_wf p : accepted_request p = true -> wf_packet p && (nth 8 p 0 =? 0) && is_request p = true.
Proof. unfold accepted_request. intros H. apply andb_true_iff in H as [H _]. exact H. Qed.

Lemma valid_cfg_facts g : valid_cfg g = true ->
  (length (g_msg_types g) <= 30)%nat /\ (1 <= length (g_vendor_ids g))%nat /\ (length (g_vendor_ids g) <= 255)%nat /\
  (forall i v, nth_error (g_vendor_ids g) i = Some v -> v_format v <= 1).
Proof.
  unfold valid_cfg. intros H. apply andb_true_iff in H as [H Hf]. apply andb_true_iff in H as [H H16].
  apply andb_true_iff in H as [H30 H1]. apply Nat.leb_le in H30, H1, H16.
  repeat split; try assumption. intros i v Hv. rewrite forallb_forall in Hf.
  apply N.leb_le. apply Hf. eapply nth_error_In. exact Hv.
Qed.

(* every answerable accepted request outside the processor's panic classes is answered *)
Lemma answer_exists ovf g c p buf :
  wf_cfg g -> cinv g c -> bytes_ok p -> accepted_request p = true -> answerable (ctl_cmd p) = true ->
  (64 <= length buf)%nat -> process_panic_class true g p = 0 -> valid_cfg g = true ->
  exists c' cc fields, cc <= 5 /\ (length fields <= 31)%nat /\
    step ovf c (OProcess p buf) = (c', resp_obs g p cc fields buf).
Proof.
  intros Hg Hc Hok Ha Hans Hbuf Hpp Hv.
  destruct (valid_cfg_facts g Hv) as (H30 & H1 & H16 & Hfmt).
  unfold process_panic_class in Hpp. rewrite (accepted_wf p Ha) in Hpp.
  unfold answerable in Hans. apply andb_true_iff in Hans as [Hlo Hhi]. apply N.leb_le in Hlo, Hhi.
  assert (Hcases : ctl_cmd p = 1 \/ ctl_cmd p = 2 \/ ctl_cmd p = 3 \/ ctl_cmd p = 4 \/ ctl_cmd p = 5 \/ ctl_cmd p = 6)
    by lia.
  destruct Hcases as [E|[E|[E|[E|[E|E]]]]]; rewrite E in Hpp; cbn [N.eqb Pos.eqb orb] in Hpp.
  - (* Set Endpoint ID *)
    destruct ((nth 11 p 0 =? 2) || (4 <=? nth 11 p 0)) eqn:Eop; [discriminate|].
    apply orb_false_iff in Eop as [E2 E4]. apply N.eqb_neq in E2. apply N.leb_gt in E4.
    assert (Hop : (nth 11 p 0 = 0 \/ nth 11 p 0 = 1) \/ nth 11 p 0 = 3) by lia.
    destruct Hop as [Hop|Hop].
    + eexists _, 0, [0; nth 12 p 0; 0]. split; [lia|]. split; [cbn [length]; lia|].
      apply step_set_eid_assign; assumption.
    + eexists _, 2, [0; c_eid_resp c; 0]. split; [lia|]. split; [cbn [length]; lia|].
      apply step_set_eid_flag; assumption.
  - eexists _, 0, _. split; [lia|]. split; [|apply step_get_eid; assumption]. cbn [length]; lia.
  - eexists _, 0, _. split; [lia|]. split; [|apply step_get_uuid; assumption].
    replace (length (c_uuid c)) with 16%nat by (symmetry; apply Hc). lia.
  - eexists _, 0, _. split; [lia|]. split; [|apply step_get_version; assumption]. cbn [length]; lia.
  - eexists _, 0, _. split; [lia|]. split; [|apply step_get_msg_types; assumption]. cbn [length]; lia.
  - (* vendor support *)
    destruct (N.of_nat (length (g_vendor_ids g)) <=? nth 11 p 0) eqn:Esel; [discriminate|].
    apply N.leb_gt in Esel.
    destruct (nth_error (g_vendor_ids g) (N.to_nat (nth 11 p 0))) as [v|] eqn:Ev.
    2:{ apply nth_error_None in Ev. lia. }
    eexists _, 0, _. split; [lia|]. split.
    2:{ apply (step_get_vendor ovf g c p buf Hg Hc Hok Ha Hbuf v); try assumption; try lia. eapply Hfmt, Ev. }
    unfold enc_vendor_set. destruct (v_format v =? 0); cbn [length]; lia.
Qed.

(* what C12 asks of an observation *)
Definition c12_judge (g : config) (p : list N) (x : obs) : sv :=
  match x with
  | XProcess (inl (_, Some n)) b =>
      let r := firstn n b in
      let requester := nth 6 p 0 in
      let others :=
          (13 <=? n)%nat && (n <=? length b)%nat &&
          resp_head_ok r requester (g_addr g) n
          && pec_ok n b
          && (nth 9 r 0 <? 32)
          && (nth 10 r 0 =? ctl_cmd p)
          && (nth 11 r 0 <=? 5) in
      if others then sv_kf (nth 9 r 0 =? instance_of p) (if instance_of p =? 0 then 0 else 1201) (ctl_cmd p)
      else sv_of false (ctl_cmd p)
  | _ => sv_of false (ctl_cmd p)
  end.

Lemma resp_head_ok_of_eq (r : list N) requester addr n :
  firstn 9 r = [(requester mod 128) * 2; 15; N.of_nat (n - 4); (addr mod 128) * 2 + 1; 1; requester; addr; 200; 0] ->
  resp_head_ok r requester addr n = true.
Proof.
  intros H. unfold resp_head_ok.
  assert (H7 : firstn 7 r = firstn 7 (firstn 9 r)) by (rewrite firstn_firstn; reflexivity).
  assert (N7 : nth 7 r 0 = nth 7 (firstn 9 r) 0) by (symmetry; apply nth_firstn_lt; lia).
  assert (N8 : nth 8 r 0 = nth 8 (firstn 9 r) 0) by (symmetry; apply nth_firstn_lt; lia).
  rewrite H7, N7, N8, H. cbn [firstn nth]. rewrite list_eqb_refl. reflexivity.
Qed.

Lemma c12_resp_good g p cc fields buf : cc <= 5 -> (length fields <= 31)%nat -> (64 <= length buf)%nat ->
  good (c12_judge g p (resp_obs g p cc fields buf)) = true.
Proof.
  intros Hcc Hf Hbuf. unfold c12_judge, resp_obs. cbv beta iota zeta.
  set (n := (13 + length fields)%nat).
  set (b := spec_packet (g_addr g) (nth 6 p 0) 0 ([0; ctl_cmd p; cc] ++ fields) ++ skipn n buf).
  assert (Hlen : length b = length buf) by (apply resp_length; unfold n; lia).
  assert (Hhead : firstn 9 (firstn n b) =
                  [(nth 6 p 0 mod 128) * 2; 15; N.of_nat (n - 4); (g_addr g mod 128) * 2 + 1; 1; nth 6 p 0; g_addr g; 200; 0]).
  { replace (n - 4)%nat with (length fields + 9)%nat by (unfold n; lia). apply resp_head. unfold n; lia. }
  assert (Hpec : pec_ok n b = true) by apply resp_pec_ok.
  destruct (resp_9_11 (g_addr g) (nth 6 p 0) (ctl_cmd p) cc fields (skipn n buf) n) as (H9 & H10 & H11);
    [unfold n; lia|]. fold b in H9, H10, H11.
  rewrite (resp_head_ok_of_eq _ _ _ _ Hhead), Hpec, Hlen, H9, H10, H11, N.eqb_refl.
  replace (13 <=? n)%nat with true by (symmetry; apply Nat.leb_le; unfold n; lia).
  replace (n <=? length buf)%nat with true by (symmetry; apply Nat.leb_le; unfold n; lia).
  replace (cc <=? 5) with true by (symmetry; apply N.leb_le; exact Hcc).
  change (0 <? 32) with true. cbn [andb].
  unfold good, sv_kf; cbn [s_o s_kf].
  rewrite (N.eqb_sym 0 (instance_of p)). destruct (instance_of p =? 0); reflexivity.
Qed.

Lemma c12_step_ok ovf g s c o : wf_cfg g -> cinv g c -> oinv ovf s c -> wf_op o ->
  good (c12_step g o (snd (step ovf c o))) = true.
Proof.
  intros Hg Hc _ Hw. destruct o as [p buf| | | | | | |]; try apply good_triv.
  destruct Hw as [Hok Hb].
  change (c12_step g (OProcess p buf) (snd (step ovf c (OProcess p buf)))) with
    (if accepted_request p && answerable (ctl_cmd p) && (nth 6 p 0 =? nth 3 p 0 / 2)
        && (64 <=? length buf)%nat && (process_panic_class true g p =? 0) && valid_cfg g
        && (if ctl_cmd p =? 1 then (1 <=? nth 12 p 0) && (nth 12 p 0 <=? 254) else true)
     then c12_judge g p (snd (step ovf c (OProcess p buf))) else sv_triv).
  match goal with |- context [if ?G then _ else _] => destruct G eqn:Guard end; [|apply good_triv].
  apply andb_true_iff in Guard as [Guard _]. apply andb_true_iff in Guard as [Guard Hvalid].
  apply andb_true_iff in Guard as [Guard Hpp]. apply andb_true_iff in Guard as [Guard H64].
  apply andb_true_iff in Guard as [Guard _]. apply andb_true_iff in Guard as [Ha Hans].
  apply Nat.leb_le in H64. apply N.eqb_eq in Hpp.
  destruct (answer_exists ovf g c p buf Hg Hc Hok Ha Hans H64 Hpp Hvalid) as (c' & cc & fields & Hcc & Hf & St).
  rewrite St. cbn [snd]. apply c12_resp_good; assumption.
Qed.

Theorem c12_holds : holds_on_model 12.
Proof. apply holds_from_step. intros ovf g s c o Hg Hc Ho Hw. cbn [oracle_of obs3_of fst]. eapply c12_step_ok; eassumption. Qed.

(* ================================================================ C13 *)
Lemma step_process_fst ovf c p buf :
  fst (step ovf c (OProcess p buf)) = fst (fst (process_packet ovf c p buf)).
Proof. cbn [step]. destruct (process_packet ovf c p buf) as [[c1 b1] [r1|k1]]; reflexivity. Qed.

Lemma step_process_eids ovf c p buf : bytes_ok p ->
  let c' := fst (step ovf c (OProcess p buf)) in
  if assigning p then c_eid_req c' = nth 12 p 0 /\ c_eid_resp c' = nth 12 p 0
  else c_eid_req c' = c_eid_req c /\ c_eid_resp c' = c_eid_resp c.
Proof. intros Hok. rewrite step_process_fst. apply process_eids. exact Hok. Qed.

Lemma good_eqs (a b a' b' : N) t : a = a' -> b = b' -> good (sv_of ((a =? a') && (b =? b')) t) = true.
Proof. intros -> ->. rewrite !N.eqb_refl. reflexivity. Qed.

Lemma c13_step_ok ovf g s c o : wf_cfg g -> cinv g c -> oinv ovf s c -> wf_op o ->
  good (c13_step g s o (obs3_of (step ovf c o))) = true.
Proof.
  intros Hg Hc Ho Hw. destruct Ho as (He & _).
  unfold c13_step, obs3_of. cbn [fst snd]. rewrite He. cbv beta iota zeta.
  destruct o as [p buf|p|p|h e|u|h id a ls buf|what fld raw v|what b].
  - (* process_packet *)
    destruct Hw as [Hok Hb].
    pose proof (step_process_eids ovf c p buf Hok) as EE. cbv zeta in EE.
    destruct (assigning p) eqn:A.
    + destruct (assigning_facts p A) as (Ha & Hcmd & Hop & L).
      destruct EE as [E1 E2].
      destruct (Nat.leb_spec 64 (length buf)) as [Hbuf|Hbuf]; cbn [andb].
      * rewrite (step_set_eid_assign ovf g c p buf Hg Hc Hok Ha Hbuf Hcmd Hop). cbn [fst snd].
        unfold resp_obs. cbn [set_eid_req set_eid_resp c_eid_req c_eid_resp].
        rewrite !N.eqb_refl. cbn [andb].
        match goal with |- context [sub ?b 10 4] =>
          assert (Hs : sub b 10 4 = [ctl_cmd p; 0; 0; nth 12 p 0]) by reflexivity; rewrite Hs end.
        rewrite Hcmd, list_eqb_refl. reflexivity.
      * rewrite andb_false_r. apply good_eqs; assumption.
    + cbn [andb]. destruct EE as [E1 E2].
      destruct (accepted_request p) eqn:Ha; cbn [andb]; [|apply good_eqs; assumption].
      destruct (Nat.leb_spec 64 (length buf)) as [Hbuf|Hbuf]; [|apply good_eqs; assumption].
      destruct (N.eqb_spec (ctl_cmd p) 1) as [Hcmd|Hcmd]; cbn [andb].
      * destruct (N.eqb_spec (nth 11 p 0) 3) as [Hop|Hop]; [|rewrite Hcmd; apply good_eqs; assumption].
        rewrite (step_set_eid_flag ovf g c p buf Hg Hc Hok Ha Hbuf Hcmd Hop). cbn [fst snd].
        unfold resp_obs.
        match goal with |- context [sub ?b 10 2] =>
          assert (Hs : sub b 10 2 = [ctl_cmd p; 2]) by reflexivity; rewrite Hs;
          assert (H13 : nth 13 b 0 = c_eid_resp c) by reflexivity; rewrite H13 end.
        rewrite !N.eqb_refl. cbn [andb].
        rewrite Hcmd, list_eqb_refl. reflexivity.
      * destruct (N.eqb_spec (ctl_cmd p) 2) as [Hcmd2|Hcmd2]; [|apply good_eqs; assumption].
        rewrite (step_get_eid ovf g c p buf Hg Hc Hok Ha Hbuf Hcmd2). cbn [fst snd].
        unfold resp_obs. rewrite !N.eqb_refl. cbn [andb].
        match goal with |- context [sub ?b 10 3] =>
          assert (Hs : sub b 10 3 = [ctl_cmd p; 0; c_eid_resp c]) by reflexivity; rewrite Hs end.
        rewrite Hcmd2, list_eqb_refl. reflexivity.
  - apply good_eqs; reflexivity.
  - apply good_eqs; reflexivity.
  - destruct h; cbn [step fst set_eid_req set_eid_resp c_eid_req c_eid_resp]; apply good_eqs; reflexivity.
  - cbn [step]. unfold set_uuid. destruct (length u =? 16)%nat; cbn [fst c_eid_req c_eid_resp];
      apply good_eqs; reflexivity.
  - apply good_eqs; reflexivity.
  - apply good_eqs; reflexivity.
  - apply good_eqs; reflexivity.
Qed.

Theorem c13_holds : holds_on_model 13.
Proof. apply holds_from_step. intros ovf g s c o Hg Hc Ho Hw. cbn [oracle_of]. eapply c13_step_ok; eassumption. Qed.

(* ================================================================ C14 *)
Lemma c14_step_ok ovf g s c o : wf_cfg g -> cinv g c -> oinv ovf s c -> wf_op o ->
  good (c14_step g o (snd (step ovf c o))) = true.
Proof.
  intros Hg Hc _ Hw. destruct o as [p buf| | | | | | |]; try apply good_triv.
  destruct Hw as [Hok Hb]. unfold c14_step.
  destruct (accepted_request p) eqn:Ha; cbn [andb]; [|apply good_triv].
  destruct (N.eqb_spec (ctl_cmd p) 6) as [Hcmd|Hcmd]; cbn [andb]; [|apply good_triv].
  destruct (valid_cfg g) eqn:Hv; cbn [andb]; [|apply good_triv].
  destruct (Nat.leb_spec 64 (length buf)) as [Hbuf|Hbuf]; [|apply good_triv].
  destruct (N.ltb_spec (nth 11 p 0) (N.of_nat (length (g_vendor_ids g)))) as [Hsel|Hsel]; [|apply good_triv].
  destruct (nth_error (g_vendor_ids g) (N.to_nat (nth 11 p 0))) as [v|] eqn:Ev; [|apply good_triv].
  destruct (valid_cfg_facts g Hv) as (_ & _ & H16 & Hfmt).
  rewrite (step_get_vendor ovf g c p buf Hg Hc Hok Ha Hbuf v Hcmd) by (try assumption; try lia; eapply Hfmt, Ev).
  cbn [snd]. unfold resp_obs. apply good_of.
  set (next := if nth 11 p 0 + 1 =? N.of_nat (length (g_vendor_ids g)) then 255 else nth 11 p 0 + 1).
  change (13 + length (next :: enc_vendor_set v))%nat with (14 + length (enc_vendor_set v))%nat.
  rewrite Nat.eqb_refl. cbn [andb].
  change (3 + length (enc_vendor_set v))%nat with (2 + length (next :: enc_vendor_set v))%nat.
  rewrite resp_sub, Hcmd. apply list_eqb_refl.
Qed.

Theorem c14_holds : holds_on_model 14.
Proof. apply holds_from_step. intros ovf g s c o Hg Hc Ho Hw. cbn [oracle_of obs3_of fst]. eapply c14_step_ok; eassumption. Qed.

(* walking the vendor ID sets: the answer to selector i carries set i and the selector of the next set (0xFF after
   the last), whatever selector the context remembered from earlier requests *)
Corollary C14_walk ovf g c p buf v :
  let n := N.of_nat (length (g_vendor_ids g)) in
  let i := nth 11 p 0 in
  let next := if i + 1 =? n then 255 else i + 1 in
  wf_cfg g -> valid_cfg g = true -> cinv g c -> bytes_ok p -> (64 <= length buf)%nat ->
  accepted_request p = true -> ctl_cmd p = 6 -> i < n -> nth_error (g_vendor_ids g) (N.to_nat i) = Some v ->
  process_packet ovf c p buf =
    ((set_selector c next,
      spec_packet (g_addr g) (nth 6 p 0) 0 ([0; 6; 0] ++ next :: enc_vendor_set v) ++
      skipn (14 + length (enc_vendor_set v)) buf),
     ok ((MCtpControl, (11%nat, 1%nat)), Some (14 + length (enc_vendor_set v))%nat)).
Proof.
  intros n i next Hg Hv Hc Hok Hbuf Ha Hcmd Hi Hnth.
  destruct (valid_cfg_facts g Hv) as (_ & _ & H16 & Hfmt).
  assert (L : length p = 13%nat) by (apply (accepted_fixed_len p 0 Ha); rewrite Hcmd; reflexivity).
  rewrite (process_accepted ovf c p buf Hok Ha) by (rewrite Hcmd; reflexivity).
  rewrite (sub_11_1 p L), Hcmd. fold i.
  rewrite (dispatch_get_vendor ovf g c buf (nth 6 p 0) Hc (proj1 Hg) (nth_byte p 6 Hok) Hbuf i [] v)
    by (try assumption; try (fold n; lia); eapply Hfmt, Hnth).
  fold n. fold next. unfold respond_spec. rewrite L. reflexivity.
Qed.

(* ================================================================ C15 *)
Lemma c15_step_ok ovf g s c o : wf_cfg g -> cinv g c -> oinv ovf s c -> wf_op o ->
  good (c15_step g s o (snd (step ovf c o))) = true.
Proof.
  intros Hg Hc Ho Hw. destruct o as [p buf| | | | | | |]; try apply good_triv.
  destruct Hw as [Hok Hb]. destruct Ho as (_ & Hu & _). unfold c15_step.
  destruct (accepted_request p) eqn:Ha; cbn [andb]; [|apply good_triv].
  destruct (valid_cfg g) eqn:Hv; cbn [andb]; [|apply good_triv].
  destruct (Nat.leb_spec 64 (length buf)) as [Hbuf|Hbuf]; [|apply good_triv].
  destruct (valid_cfg_facts g Hv) as (H30 & _).
  destruct (N.eqb_spec (ctl_cmd p) 5) as [Hcmd|Hcmd5].
  { rewrite (step_get_msg_types ovf g c p buf Hg Hc Hok Ha Hbuf Hcmd H30). cbn [snd]. unfold resp_obs.
    apply good_of.
    set (cnt := N.of_nat (length (g_msg_types g))).
    change (length ([5; 0; cnt] ++ g_msg_types g)) with (2 + length (cnt :: g_msg_types g))%nat.
    rewrite resp_sub, Hcmd.
    change (13 + length (cnt :: g_msg_types g))%nat with (11 + (2 + length (cnt :: g_msg_types g)))%nat.
    rewrite Nat.eqb_refl. apply list_eqb_refl. }
  destruct (N.eqb_spec (ctl_cmd p) 3) as [Hcmd|Hcmd3].
  { rewrite (step_get_uuid ovf g c p buf Hg Hc Hok Ha Hbuf Hcmd). cbn [snd]. unfold resp_obs.
    apply good_of. rewrite Hu.
    change (length ([3; 0] ++ c_uuid c)) with (2 + length (c_uuid c))%nat.
    rewrite resp_sub, Hcmd.
    change (13 + length (c_uuid c))%nat with (11 + (2 + length (c_uuid c)))%nat.
    rewrite Nat.eqb_refl. apply list_eqb_refl. }
  destruct (N.eqb_spec (ctl_cmd p) 4) as [Hcmd|Hcmd4]; [|apply good_triv].
  rewrite (step_get_version ovf g c p buf Hg Hc Hok Ha Hbuf Hcmd). cbn [snd]. unfold resp_obs.
  apply good_of.
  change (length [4; 0; 1; 241; 243; 241; 0]) with (2 + length [1; 241; 243; 241; 0])%nat.
  rewrite resp_sub, Hcmd. reflexivity.
Qed.

Theorem c15_holds : holds_on_model 15.
Proof. apply holds_from_step. intros ovf g s c o Hg Hc Ho Hw. cbn [oracle_of obs3_of fst]. eapply c15_step_ok; eassumption. Qed.
