(* Crc.v — model of smbus_pec::pec (smbus-pec 1.0.1 = embedded-crc-macros crc8!(7, 0)):
     let mut crc = 0; for byte in data { crc ^= byte; for _ in 0..8 { crc = if crc & 0x80 != 0 {(crc<<1)^7} else {crc<<1} } } crc
   MODEL FILE. *)
Require Import Base.
Open Scope N_scope.

Definition crc_bit (c : N) : N :=
  let s := N.land (N.shiftl c 1) 255 in
  if N.testbit c 7 then N.lxor s 7 else s.
Definition U (c : N) : N :=
  crc_bit (crc_bit (crc_bit (crc_bit (crc_bit (crc_bit (crc_bit (crc_bit c))))))).
Definition crc_step (c b : N) : N := U (N.lxor c b).
Definition crc_from (c : N) (l : list N) : N := fold_left crc_step l c.
Definition pec (l : list N) : N := fold_left crc_step l 0.
