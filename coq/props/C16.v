(* C16 — encoders write exactly the reported bytes and refuse documented-invalid input.  Property theorems only. *)
Require Import Base Crc Bitfield Headers Encode Decode Process Ops Spec Judge.
Require Import HeaderForms IanaForm PecFacts EncodeFacts DecodeFacts Hist StepsSimple StepsEncode.
Open Scope N_scope.

(* (1) in every well-formed history, for every encoder call with arguments of the documented shapes: given a
   buffer at least as long as the packet the call succeeds without panicking, bytes beyond the reported length
   are untouched, a repeat of the same call into another buffer (other contents, other capacity) yields the same
   length and the same bytes; documented-invalid arguments and messages beyond the SMBus frame yield an error
   and leave the buffer untouched *)
Theorem C16_oracle_holds_on_model : holds_on_model 16.
Proof. exact c16_holds. Qed.

(* (2) the central refinement: every encoder call does to the buffer exactly what enc_spec says for the message
   it stands for (model_message = the specification's message, query_hop's command code aside) *)
Theorem C16_encoders_refine_spec : forall ovf c h id a ls w buf,
  c_addr c < 256 -> c_eid_resp c < 256 -> args_okb h id a ls = true ->
  encode_call ovf c h id a ls = Some w ->
  enc_spec (c_addr c) (enc_dest h id a) (model_message h id a ls (c_eid_resp c)) buf (w buf).
Proof. exact encode_call_model. Qed.

Example C16_nonvacuous :
  let g := {| g_addr := 0x23; g_msg_types := []; g_vendor_ids := [] |} in
  let ops := [OEncode true 1 [0x34; 0; 0x56] [] (repeat 0 14); OEncode true 1 [0x34; 0; 0x56] [] (repeat 255 20);
              OEncode true 1 [0x34; 0; 0] [] (repeat 9 14)] in
  map (fun s => (s_o s, s_nontrivial s)) (steps 16 true g ost0 ops (run true (ctx_of g) ops)) = [(true, true); (true, true); (true, true)].
Proof. vm_compute. reflexivity. Qed.

Print Assumptions C16_oracle_holds_on_model.
Print Assumptions C16_encoders_refine_spec.
