(* C16 — encoders write exactly the reported bytes and refuse documented-invalid input.  Property theorems only. *)
Require Import Base Crc Bitfield Headers Encode Decode Process Ops Spec Judge.
Require Import HeaderForms IanaForm PecFacts EncodeFacts DecodeFacts Hist StepsSimple StepsEncode.
Require Import Readable.
Open Scope N_scope.

(* (1) in every well-formed history, for every encoder call with arguments of the documented shapes: given a
   buffer at least as long as the packet the call succeeds without panicking, bytes beyond the reported length
   are untouched, a repeat of the same call into another buffer (other contents, other capacity) yields the same
   length and the same bytes; documented-invalid arguments and messages beyond the SMBus frame yield an error
   and leave the buffer untouched *)
Theorem C16_oracle_holds_on_model : holds_on_model 16.
Proof. exact c16_holds. Qed.

(* (2) the central refinement: every encoder call does to the buffer exactly what enc_spec says for the message
   it stands for (model_message = the specification's message, query_hop's command code aside) *)
Theorem C16_encoders_refine_spec : forall ovf c h id a ls w buf,
  c_addr c < 256 -> c_eid_resp c < 256 -> args_okb h id a ls = true ->
  encode_call ovf c h id a ls = Some w ->
  enc_spec (c_addr c) (enc_dest h id a) (model_message h id a ls (c_eid_resp c)) buf (w buf).
Proof. exact encode_call_model. Qed.

Example C16_nonvacuous :
  let g := {| g_addr := 0x23; g_msg_types := []; g_vendor_ids := [] |} in
  let ops := [OEncode true 1 [0x34; 0; 0x56] [] (repeat 0 14); OEncode true 1 [0x34; 0; 0x56] [] (repeat 255 20);
              OEncode true 1 [0x34; 0; 0] [] (repeat 9 14)] in
  map (fun s => (s_o s, s_nontrivial s)) (steps 16 true g ost0 ops (run true (ctx_of g) ops)) = [(true, true); (true, true); (true, true)].
Proof. vm_compute. reflexivity. Qed.

Print Assumptions C16_oracle_holds_on_model.
Print Assumptions C16_encoders_refine_spec.

(* ---------- stated directly about an encoder call (no oracle to read) ----------
   c is a context of configuration g at any point of a history; h / id / a / ls name the encoder and its arguments
   (of the documented shapes); w is what that call does to a buffer. *)

(* (3) a successful encode into buf reports n = 10 + |body| and leaves exactly the specified packet in the first n
   bytes — which therefore do not depend on buf — followed by buf's own bytes from n on *)
Theorem C16_exact_bytes_and_untouched_tail : forall ovf g c h id a ls w buf out n,
  wf_cfg g -> cinv g c -> args_okb h id a ls = true ->
  encode_call ovf c h id a ls = Some w -> w buf = (out, Val (Some n)) ->
  exists mt body, model_message h id a ls (c_eid_resp c) = Some (mt, body) /\
    n = (10 + length body)%nat /\
    out = spec_packet (g_addr g) (enc_dest h id a) mt body ++ skipn n buf.
Proof. exact exact_bytes_and_untouched_tail. Qed.

(* (4) a buffer shorter than the packet never yields a success *)
Theorem C16_short_buffer_never_succeeds : forall ovf g c h id a ls w buf mt body,
  wf_cfg g -> cinv g c -> args_okb h id a ls = true ->
  encode_call ovf c h id a ls = Some w ->
  model_message h id a ls (c_eid_resp c) = Some (mt, body) -> (length buf < 10 + length body)%nat ->
  forall m out, w buf <> (out, Val (Some m)).
Proof. exact short_buffer_never_succeeds. Qed.

(* (5) a refusal (Err(())) leaves the buffer exactly as it was — whatever the arguments and the buffer's length *)
Theorem C16_refusal_leaves_buffer : forall ovf c h id a ls w buf out,
  encode_call ovf c h id a ls = Some w -> w buf = (out, Val None) -> out = buf.
Proof. exact refusal_leaves_buffer. Qed.

Print Assumptions C16_exact_bytes_and_untouched_tail.
Print Assumptions C16_short_buffer_never_succeeds.
Print Assumptions C16_refusal_leaves_buffer.
