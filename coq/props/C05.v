(* C05 — MCTP transport header and message-type byte of encoded packets.  Property theorems only. *)
Require Import Base Crc Bitfield Headers Encode Decode Process Ops Spec Judge.
Require Import HeaderForms IanaForm PecFacts EncodeFacts DecodeFacts Hist StepsSimple StepsEncode.
Open Scope N_scope.

(* (1) in every well-formed history, bytes 4..8 of every successfully encoded packet are
   [0x01 (reserved 0, version 1); destination EID = the destination named; source EID = own address;
    0xC8 (SOM 1, EOM 1, seq 0, TO 1, tag 0); IC 0 + message type of the API used], the type < 128 *)
Theorem C05_oracle_holds_on_model : holds_on_model 5.
Proof. exact c05_holds. Qed.

(* (2) the transport-header helper in closed form, for every (own address, destination) *)
Theorem C05_transport_header : forall addr dest, addr < 256 -> dest < 256 ->
  generate_transport_header addr dest = [1; dest; addr; 200].
Proof. exact transport_header_closed. Qed.

(* (3) the message body header: IC clear, 7-bit type *)
Theorem C05_body_header : forall mt, mt < 256 -> body_header_new false mt = Val [mt mod 128].
Proof. exact body_header_closed. Qed.

Example C05_nonvacuous :
  let g := {| g_addr := 0x23; g_msg_types := []; g_vendor_ids := [] |} in
  let ops := [OEncode true 20 [0x34; 1; 0x12345678] [[1; 2; 3]] (repeat 0 17)] in
  map (fun s => (s_o s, s_nontrivial s)) (steps 5 true g ost0 ops (run true (ctx_of g) ops)) = [(true, true)].
Proof. vm_compute. reflexivity. Qed.

Print Assumptions C05_oracle_holds_on_model.
Print Assumptions C05_transport_header.
Print Assumptions C05_body_header.
