(* C05 — MCTP transport header and message-type byte of encoded packets.  Property theorems only. *)
Require Import Base Crc Bitfield Headers Encode Decode Process Ops Spec Judge.
Require Import HeaderForms IanaForm PecFacts EncodeFacts DecodeFacts Hist StepsSimple StepsEncode.
Require Import Readable.
Open Scope N_scope.

(* (1) in every well-formed history, bytes 4..8 of every successfully encoded packet are
   [0x01 (reserved 0, version 1); destination EID = the destination named; source EID = own address;
    0xC8 (SOM 1, EOM 1, seq 0, TO 1, tag 0); IC 0 + message type of the API used], the type < 128 *)
Theorem C05_oracle_holds_on_model : holds_on_model 5.
Proof. exact c05_holds. Qed.

(* (2) the transport-header helper in closed form, for every (own address, destination) *)
Theorem C05_transport_header : forall addr dest, addr < 256 -> dest < 256 ->
  generate_transport_header addr dest = [1; dest; addr; 200].
Proof. exact transport_header_closed. Qed.

(* (3) the message body header: IC clear, 7-bit type *)
Theorem C05_body_header : forall mt, mt < 256 -> body_header_new false mt = Val [mt mod 128].
Proof. exact body_header_closed. Qed.

Example C05_nonvacuous :
  let g := {| g_addr := 0x23; g_msg_types := []; g_vendor_ids := [] |} in
  let ops := [OEncode true 20 [0x34; 1; 0x12345678] [[1; 2; 3]] (repeat 0 17)] in
  map (fun s => (s_o s, s_nontrivial s)) (steps 5 true g ost0 ops (run true (ctx_of g) ops)) = [(true, true)].
Proof. vm_compute. reflexivity. Qed.

Print Assumptions C05_oracle_holds_on_model.
Print Assumptions C05_transport_header.
Print Assumptions C05_body_header.

(* ---------- stated directly about an encoder call (no oracle to read) ---------- *)
(* (4) after any successful encode, bytes 4..8 are: version 1; the destination EID named; own address as source
   EID; 0xC8; the 7-bit message type of the message the call stands for *)
Theorem C05_bytes_4_to_8_of_every_encoded_packet : forall ovf g c h id a ls w buf out n,
  wf_cfg g -> cinv g c -> args_okb h id a ls = true ->
  encode_call ovf c h id a ls = Some w -> w buf = (out, Val (Some n)) ->
  exists mt, sub out 4 5 = [1; enc_dest h id a; g_addr g; 200; mt] /\ mt < 128 /\
    (exists body, model_message h id a ls (c_eid_resp c) = Some (mt, body)).
Proof. exact bytes_4_to_8. Qed.

Print Assumptions C05_bytes_4_to_8_of_every_encoded_packet.
