(* C10 — the receive path panics exactly on the recorded input classes: D1-D9 (decode_panic_class) for
   decode_packet, and for process_packet on a validly configured context with a 64-byte buffer additionally
   P2-P5 (process_panic_class); get_length never panics.  Property theorems only. *)
Require Import Base Crc Bitfield Headers Encode Decode Process Ops Spec Judge.
Require Import Hist DecodeFacts StepsSimple DecodeChar ProcessChar StepsRecv.
Open Scope N_scope.

(* (1) as the correspondence oracle states it: a step either does not panic or lies in a recorded class *)
Theorem C10_oracle_holds_on_model : holds_on_model 10.
Proof. exact c10_holds. Qed.

(* (2) the decoder panics on an input iff the input lies in one of D1..D9 *)
Theorem C10_decode_panics_iff : forall p, bytes_ok p ->
  (is_panic (decode_packet p) = true <-> decode_panic_class p <> 0).
Proof. exact decode_panics_iff. Qed.

(* (3) the length probe never panics *)
Theorem C10_get_length_no_panic : forall p, bytes_ok p -> is_panic (get_length p) = false.
Proof. exact get_length_no_panic. Qed.

(* (4) on a validly configured context (cinv: the context of a history over g) and a response buffer of at
   least 64 bytes, process_packet panics iff the packet lies in D1..D9 or, being an accepted request, in
   P2..P5 *)
Theorem C10_process_panics_iff : forall ovf g c p buf,
  wf_cfg g -> cinv g c -> valid_cfg g = true -> (64 <= length buf)%nat -> bytes_ok p ->
  (is_panic (snd (process_packet ovf c p buf)) = true <-> recv_panic_class ovf g p <> 0).
Proof. exact process_panics_iff. Qed.

(* non-vacuity: a Get Endpoint ID request is processed without panic (class 0); the same request with the
   Reserved command 0 panics and is class P2; a truncated packet is class D1 *)
Example C10_nonvacuous :
  let g := {| g_addr := 0x23; g_msg_types := [0]; g_vendor_ids := [{| v_format := 0; v_data := 0x1234; v_numeric := 1 |}] |} in
  let mk := fun cmd => let rq := [0x46;0x0F;0x08;0x69;0x01;0x23;0x34;0xC8;0x00;0x80;cmd] in rq ++ [pec rq] in
  let ops := [OProcess (mk 2) (repeat 0 64); OProcess (mk 0) (repeat 0 64); ODecode [1;2;3]; OGetLength [1]] in
  valid_cfg g = true /\
  map (fun s => (s_o s, s_kf s, s_nontrivial s)) (steps 10 true g ost0 ops (run true (ctx_of g) ops))
    = [(true, 0, true); (false, 1012, true); (false, 1001, true); (true, 0, true)].
Proof. vm_compute. split; reflexivity. Qed.

Print Assumptions C10_oracle_holds_on_model.
Print Assumptions C10_decode_panics_iff.
Print Assumptions C10_get_length_no_panic.
Print Assumptions C10_process_panics_iff.
