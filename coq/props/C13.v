(* C13 — the endpoint ID is the one last assigned: Set Endpoint ID (set / force) assigns both halves, nothing else
   processed changes them, Get Endpoint ID reports the current one.  Property theorems only. *)
Require Import Base Crc Bitfield Headers Encode Decode Process Ops Spec Judge.
Require Import Hist StepsSimple StepsEncode DecodeChar ProcessChar StepsProcess Extra.
Open Scope N_scope.

(* (1) as the correspondence oracle states it: in every well-formed history, after every operation both get_eid()
   values are what the abstract machine predicts from the values after the previous operation: set_eid changes
   the one half; an assigning Set Endpoint ID request (accepted, operation 0 or 1) sets both to byte 12 of the
   request (even when the response then fails for lack of buffer) and, given 64 bytes, is answered
   [1; Success; accepted/no pool; new EID]; Set Discovered Flag is answered Error Invalid Data with the EID as it
   was; Get Endpoint ID is answered [2; Success; current EID]; every other operation leaves both unchanged *)
Theorem C13_oracle_holds_on_model : holds_on_model 13.
Proof. exact c13_holds. Qed.

(* (2) the EIDs after process_packet, for every input and every response buffer *)
Theorem C13_eids_after_process : forall ovf c p buf, bytes_ok p ->
  let c' := fst (fst (process_packet ovf c p buf)) in
  if assigning p then c_eid_req c' = nth 12 p 0 /\ c_eid_resp c' = nth 12 p 0
  else c_eid_req c' = c_eid_req c /\ c_eid_resp c' = c_eid_resp c.
Proof. exact process_eids. Qed.

(* (3) if process_packet changes either EID, the packet was an assigning Set Endpoint ID request and both EIDs are
   now the EID it carries *)
Theorem C13_only_assignment_changes_eid : forall ovf c p buf, bytes_ok p ->
  let c' := fst (fst (process_packet ovf c p buf)) in
  c_eid_req c' <> c_eid_req c \/ c_eid_resp c' <> c_eid_resp c ->
  assigning p = true /\ c_eid_req c' = nth 12 p 0 /\ c_eid_resp c' = nth 12 p 0.
Proof. exact StepsProcess.C13_only_assignment_changes_eid. Qed.

(* (4) the abstract EID machine over whole histories.  Extra.eid_effect is what one operation does to the pair
   (request-half EID, response-half EID): set_eid on a half replaces that half, processing an assigning Set
   Endpoint ID request replaces both by byte 12 of the request, everything else leaves the pair alone;
   Extra.eid_spec folds it over a history from (0, 0).  After ANY well-formed history, in either overflow mode,
   whatever panicked or failed on the way, the two EIDs of the context are what this machine says. *)
Theorem C13_eid_is_last_assigned : forall ovf g ops, wf_cfg g -> Forall wf_op ops ->
  let c := run_ctx ovf (ctx_of g) ops in (c_eid_req c, c_eid_resp c) = eid_spec ops.
Proof. exact eid_is_last_assigned. Qed.

(* (5) the same without the fold: in a history that never calls set_eid, both EIDs are the EID byte of the LAST
   assigning request processed (nothing assigning after it), and 0, the initial value, if there was none *)
Theorem C13_eid_is_last_assigning_packet : forall ovf g ops, wf_cfg g -> Forall wf_op ops ->
  (forall h v, ~ In (OSetEid h v) ops) ->
  let c := run_ctx ovf (ctx_of g) ops in
  (forall pre p b post, ops = pre ++ OProcess p b :: post -> assigning p = true ->
     (forall q b', In (OProcess q b') post -> assigning q = false) ->
     c_eid_req c = nth 12 p 0 /\ c_eid_resp c = nth 12 p 0) /\
  ((forall q b', In (OProcess q b') ops -> assigning q = false) -> c_eid_req c = 0 /\ c_eid_resp c = 0).
Proof. exact eid_is_last_assigning_packet. Qed.

(* non-vacuity: Get EID (tag 5), Set EID 0x56 (tag 3), Get EID again, Set Discovered Flag (tag 4), set_eid on the
   request half, a Set EID into a 10-byte buffer (the encoder panics, the EIDs are assigned all the same: tag 9),
   a vendor support request (tag 6) and a pure decode (tag 8) *)
Example C13_nonvacuous :
  let g := {| g_addr := 0x10; g_msg_types := [0; 5; 0x7E];
              g_vendor_ids := [{| v_format := 0; v_data := 0x8086; v_numeric := 0x1234 |}] |} in
  let geid := [32; 15; 8; 71; 1; 16; 35; 200; 0; 128; 2; 250] in
  let seid := [32; 15; 10; 71; 1; 16; 35; 200; 0; 128; 1; 0; 86; 176] in
  let ops := [OProcess geid (repeat 0 64); OProcess seid (repeat 0 64); OProcess geid (repeat 0 64);
              OProcess [32; 15; 10; 71; 1; 16; 35; 200; 0; 128; 1; 3; 87; 136] (repeat 0 64);
              OSetEid true 9; OProcess seid (repeat 0 10);
              OProcess [32; 15; 9; 71; 1; 16; 35; 200; 0; 128; 6; 0; 212] (repeat 0 64); ODecode geid] in
  map (fun s => (s_o s, s_nontrivial s, s_tag s)) (steps 13 true g ost0 ops (run true (ctx_of g) ops))
    = [(true, true, 5); (true, true, 3); (true, true, 5); (true, true, 4); (true, true, 1); (true, true, 9);
       (true, true, 6); (true, true, 8)] /\
  map snd (run true (ctx_of g) ops) = [(0, 0); (86, 86); (86, 86); (86, 86); (9, 86); (86, 86); (86, 86); (86, 86)].
Proof. vm_compute. split; reflexivity. Qed.

(* non-vacuity of (4): the abstract machine on the history above, prefix by prefix *)
Example C13_eid_spec_nonvacuous :
  let geid := [32; 15; 8; 71; 1; 16; 35; 200; 0; 128; 2; 250] in
  let seid := [32; 15; 10; 71; 1; 16; 35; 200; 0; 128; 1; 0; 86; 176] in
  let ops := [OProcess geid (repeat 0 64); OProcess seid (repeat 0 64); OProcess geid (repeat 0 64);
              OProcess [32; 15; 10; 71; 1; 16; 35; 200; 0; 128; 1; 3; 87; 136] (repeat 0 64);
              OSetEid true 9; OProcess seid (repeat 0 10);
              OProcess [32; 15; 9; 71; 1; 16; 35; 200; 0; 128; 6; 0; 212] (repeat 0 64); ODecode geid] in
  map (fun k => eid_spec (firstn k ops)) (seq 1 8)
    = [(0, 0); (86, 86); (86, 86); (86, 86); (9, 86); (86, 86); (86, 86); (86, 86)].
Proof. vm_compute. reflexivity. Qed.

Print Assumptions C13_oracle_holds_on_model.
Print Assumptions C13_eids_after_process.
Print Assumptions C13_only_assignment_changes_eid.
Print Assumptions C13_eid_is_last_assigned.
Print Assumptions C13_eid_is_last_assigning_packet.

(* ---------- the responder refines an abstract endpoint (proofs/Refine.v) ----------
   The abstract endpoint is three fields — the two EID cells and the UUID — and `answer` (twelve lines) says what it
   replies to a request; `astep` is its transition over EVERY operation of the interface: only a serviced request
   (accepted, command 1..6, outside the recorded panic classes) with Set Endpoint ID operation set / force, an
   accessor call, or a 16-byte set_uuid changes it.  Every history of the model is a history of that endpoint:
   the state (both EIDs, the UUID) after any well-formed history is the fold of astep, and every answered request
   is answered with the bytes `answer` gives in the state the history has reached (aobs = that answer framed as
   resp_obs: spec_packet from the responder to the request's source, then the untouched tail of the buffer).
   C13 (the EID is the last assigned), C15 (identity answers unaffected by other traffic), C11 (nothing else writes a
   response) and C02 (a packet with a wrong PEC is not serviced) are instances. *)
Require Import Refine.
Theorem C13_responder_state_is_the_abstract_endpoint : forall ovf g ops,
  wf_cfg g -> valid_cfg g = true -> Forall wf_op ops ->
  abs (run_ctx ovf (ctx_of g) ops) = fold_left (astep g) ops a0.
Proof. exact run_refines. Qed.
Theorem C13_responder_answers_as_the_abstract_endpoint : forall ovf g pre p buf post,
  wf_cfg g -> valid_cfg g = true -> Forall wf_op (pre ++ OProcess p buf :: post) ->
  answered g p buf = true ->
  let s := fold_left (astep g) pre a0 in
  let s' := astep g s (OProcess p buf) in
  nth_error (run ovf (ctx_of g) (pre ++ OProcess p buf :: post)) (length pre) =
  Some (aobs g s p buf, (a_req s', a_resp s')).
Proof. exact answers_refine. Qed.
Theorem C13_one_step_refinement : forall ovf g c o,
  wf_cfg g -> cinv g c -> valid_cfg g = true -> wf_op o ->
  abs (fst (step ovf c o)) = astep g (abs c) o /\
  (forall p buf, o = OProcess p buf -> answered g p buf = true -> snd (step ovf c o) = aobs g (abs c) p buf) /\
  (forall p buf, o = OProcess p buf -> serviced g p = false -> silent buf (snd (step ovf c o))).
Proof. exact step_refines. Qed.
(* a packet whose PEC is wrong is never serviced: the abstract endpoint does not move (C02 at this level) *)
Theorem C13_bad_pec_is_not_serviced : forall g s p buf,
  pec_good p = false -> serviced g p = false /\ astep g s (OProcess p buf) = s.
Proof.
  intros g s p buf H.
  assert (E : serviced g p = false).
  { unfold serviced, accepted_request, wf_packet. rewrite H. rewrite andb_false_r. reflexivity. }
  split; [exact E|]. cbn [astep]. rewrite E. reflexivity.
Qed.

Print Assumptions C13_responder_state_is_the_abstract_endpoint.
Print Assumptions C13_responder_answers_as_the_abstract_endpoint.
Print Assumptions C13_one_step_refinement.
Print Assumptions C13_bad_pec_is_not_serviced.

(* ---------- whole sessions through the library's own API on both sides (proofs/Session.v) ----------
   A bus owner A makes a list of calls to its request encoders (call = encoder id 1..6 and its arguments); each is
   encoded by A (deliver: encode_call into a scratch buffer) and the bytes are processed by endpoint B.  `effect` is
   what a call means for B's abstract state: only set_endpoint_id with operation set / force moves it.  For every
   session of deliverable calls (arguments of the documented shapes, not refused by the encoder, outside B's recorded
   panic classes), however long: B's state is the fold of `effect`, so B's EID — both halves — is the EID argument
   of the LAST set_endpoint_id(set | force) call of the session, 0 if there was none, and the UUID is untouched. *)
Require Import Session.
Theorem C13_session_state_is_the_meaning_of_the_calls : forall ovf gA cA gB cB ks,
  wf_cfg gA -> cinv gA cA -> wf_cfg gB -> cinv gB cB -> valid_cfg gB = true -> session_ok gB ks ->
  exists cB', session ovf cA cB ks = Some cB' /\
              abs cB' = fold_left effect (map fst ks) (abs cB) /\ cinv gB cB'.
Proof. exact session_refines. Qed.
Theorem C13_session_eid_is_last_set : forall ovf gA cA gB ks,
  wf_cfg gA -> cinv gA cA -> wf_cfg gB -> valid_cfg gB = true -> session_ok gB ks ->
  exists cB', session ovf cA (ctx_of gB) ks = Some cB' /\
    c_eid_req cB' = match last_set (map fst ks) with Some e => e | None => 0 end /\
    c_eid_resp cB' = match last_set (map fst ks) with Some e => e | None => 0 end /\
    c_uuid cB' = repeat 0 16.
Proof. exact session_eid_is_last_set. Qed.

Print Assumptions C13_session_state_is_the_meaning_of_the_calls.
Print Assumptions C13_session_eid_is_last_set.
