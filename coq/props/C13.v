(* C13 — the endpoint ID is the one last assigned: Set Endpoint ID (set / force) assigns both halves, nothing else
   processed changes them, Get Endpoint ID reports the current one.  Property theorems only. *)
Require Import Base Crc Bitfield Headers Encode Decode Process Ops Spec Judge.
Require Import Hist StepsSimple StepsEncode DecodeChar ProcessChar StepsProcess Extra.
Open Scope N_scope.

(* (1) as the correspondence oracle states it: in every well-formed history, after every operation both get_eid()
   values are what the abstract machine predicts from the values after the previous operation: set_eid changes
   the one half; an assigning Set Endpoint ID request (accepted, operation 0 or 1) sets both to byte 12 of the
   request (even when the response then fails for lack of buffer) and, given 64 bytes, is answered
   [1; Success; accepted/no pool; new EID]; Set Discovered Flag is answered Error Invalid Data with the EID as it
   was; Get Endpoint ID is answered [2; Success; current EID]; every other operation leaves both unchanged *)
Theorem C13_oracle_holds_on_model : holds_on_model 13.
Proof. exact c13_holds. Qed.

(* (2) the EIDs after process_packet, for every input and every response buffer *)
Theorem C13_eids_after_process : forall ovf c p buf, bytes_ok p ->
  let c' := fst (fst (process_packet ovf c p buf)) in
  if assigning p then c_eid_req c' = nth 12 p 0 /\ c_eid_resp c' = nth 12 p 0
  else c_eid_req c' = c_eid_req c /\ c_eid_resp c' = c_eid_resp c.
Proof. exact process_eids. Qed.

(* (3) if process_packet changes either EID, the packet was an assigning Set Endpoint ID request and both EIDs are
   now the EID it carries *)
Theorem C13_only_assignment_changes_eid : forall ovf c p buf, bytes_ok p ->
  let c' := fst (fst (process_packet ovf c p buf)) in
  c_eid_req c' <> c_eid_req c \/ c_eid_resp c' <> c_eid_resp c ->
  assigning p = true /\ c_eid_req c' = nth 12 p 0 /\ c_eid_resp c' = nth 12 p 0.
Proof. exact StepsProcess.C13_only_assignment_changes_eid. Qed.

(* (4) the abstract EID machine over whole histories.  Extra.eid_effect is what one operation does to the pair
   (request-half EID, response-half EID): set_eid on a half replaces that half, processing an assigning Set
   Endpoint ID request replaces both by byte 12 of the request, everything else leaves the pair alone;
   Extra.eid_spec folds it over a history from (0, 0).  After ANY well-formed history, in either overflow mode,
   whatever panicked or failed on the way, the two EIDs of the context are what this machine says. *)
Theorem C13_eid_is_last_assigned : forall ovf g ops, wf_cfg g -> Forall wf_op ops ->
  let c := run_ctx ovf (ctx_of g) ops in (c_eid_req c, c_eid_resp c) = eid_spec ops.
Proof. exact eid_is_last_assigned. Qed.

(* (5) the same without the fold: in a history that never calls set_eid, both EIDs are the EID byte of the LAST
   assigning request processed (nothing assigning after it), and 0, the initial value, if there was none *)
Theorem C13_eid_is_last_assigning_packet : forall ovf g ops, wf_cfg g -> Forall wf_op ops ->
  (forall h v, ~ In (OSetEid h v) ops) ->
  let c := run_ctx ovf (ctx_of g) ops in
  (forall pre p b post, ops = pre ++ OProcess p b :: post -> assigning p = true ->
     (forall q b', In (OProcess q b') post -> assigning q = false) ->
     c_eid_req c = nth 12 p 0 /\ c_eid_resp c = nth 12 p 0) /\
  ((forall q b', In (OProcess q b') ops -> assigning q = false) -> c_eid_req c = 0 /\ c_eid_resp c = 0).
Proof. exact eid_is_last_assigning_packet. Qed.

(* non-vacuity: Get EID (tag 5), Set EID 0x56 (tag 3), Get EID again, Set Discovered Flag (tag 4), set_eid on the
   request half, a Set EID into a 10-byte buffer (the encoder panics, the EIDs are assigned all the same: tag 9),
   a vendor support request (tag 6) and a pure decode (tag 8) *)
Example C13_nonvacuous :
  let g := {| g_addr := 0x10; g_msg_types := [0; 5; 0x7E];
              g_vendor_ids := [{| v_format := 0; v_data := 0x8086; v_numeric := 0x1234 |}] |} in
  let geid := [32; 15; 8; 71; 1; 16; 35; 200; 0; 128; 2; 250] in
  let seid := [32; 15; 10; 71; 1; 16; 35; 200; 0; 128; 1; 0; 86; 176] in
  let ops := [OProcess geid (repeat 0 64); OProcess seid (repeat 0 64); OProcess geid (repeat 0 64);
              OProcess [32; 15; 10; 71; 1; 16; 35; 200; 0; 128; 1; 3; 87; 136] (repeat 0 64);
              OSetEid true 9; OProcess seid (repeat 0 10);
              OProcess [32; 15; 9; 71; 1; 16; 35; 200; 0; 128; 6; 0; 212] (repeat 0 64); ODecode geid] in
  map (fun s => (s_o s, s_nontrivial s, s_tag s)) (steps 13 true g ost0 ops (run true (ctx_of g) ops))
    = [(true, true, 5); (true, true, 3); (true, true, 5); (true, true, 4); (true, true, 1); (true, true, 9);
       (true, true, 6); (true, true, 8)] /\
  map snd (run true (ctx_of g) ops) = [(0, 0); (86, 86); (86, 86); (86, 86); (9, 86); (86, 86); (86, 86); (86, 86)].
Proof. vm_compute. split; reflexivity. Qed.

(* non-vacuity of (4): the abstract machine on the history above, prefix by prefix *)
Example C13_eid_spec_nonvacuous :
  let geid := [32; 15; 8; 71; 1; 16; 35; 200; 0; 128; 2; 250] in
  let seid := [32; 15; 10; 71; 1; 16; 35; 200; 0; 128; 1; 0; 86; 176] in
  let ops := [OProcess geid (repeat 0 64); OProcess seid (repeat 0 64); OProcess geid (repeat 0 64);
              OProcess [32; 15; 10; 71; 1; 16; 35; 200; 0; 128; 1; 3; 87; 136] (repeat 0 64);
              OSetEid true 9; OProcess seid (repeat 0 10);
              OProcess [32; 15; 9; 71; 1; 16; 35; 200; 0; 128; 6; 0; 212] (repeat 0 64); ODecode geid] in
  map (fun k => eid_spec (firstn k ops)) (seq 1 8)
    = [(0, 0); (86, 86); (86, 86); (86, 86); (9, 86); (86, 86); (86, 86); (86, 86)].
Proof. vm_compute. reflexivity. Qed.

Print Assumptions C13_oracle_holds_on_model.
Print Assumptions C13_eids_after_process.
Print Assumptions C13_only_assignment_changes_eid.
Print Assumptions C13_eid_is_last_assigned.
Print Assumptions C13_eid_is_last_assigning_packet.
