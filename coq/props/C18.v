(* C18 — header views read and write exactly their documented bit positions.  Property theorems only.
   Vocabulary: Ops.field_of numbers the 29 declared fields (0..26 are the u8-valued ones, 27 the PCI and 28 the
   IANA vendor ID), Ops.struct_len is the byte size of the struct a field belongs to, Spec.field_layout is the
   documented wire layout (byte, shift, width), Spec.spec_get / spec_set the reference reader and writer.
   From proofs/StepsHdr.v: struct_id (which of the seven structs a field number belongs to) and
   disjointb f g (same bit numbering, and the declared bit ranges [lo,hi] do not overlap). *)
Require Import Base Crc Bitfield Headers Encode Decode Process Ops Spec Judge.
Require Import HeaderFacts Hist StepsHdr.
Open Scope N_scope.

(* (1) every getter returns exactly the documented bits: (byte >> shift) mod 2^width for the 27 one-byte
   fields, the big-endian value of the whole buffer for the two vendor IDs *)
Theorem C18_getter_layout : forall fld f raw,
  field_of fld = Some f -> length raw = struct_len fld -> bytes_ok raw ->
  get_field f raw = spec_get fld raw.
Proof. exact get_field_spec. Qed.

(* (2) every setter rewrites exactly the documented bits with the value truncated to the field width and
   leaves every other bit of the buffer as it was; there is no bound on the written value *)
Theorem C18_setter_layout : forall fld f raw v,
  field_of fld = Some f -> length raw = struct_len fld -> bytes_ok raw ->
  set_field f raw v = spec_set fld raw v.
Proof. exact set_field_spec. Qed.

(* the documented table of Spec.field_layout is the layout computed from the declarations in Headers.v
   (f_byte / f_shift / f_w of HeaderFacts.v), and the byte it names lies inside the struct *)
Theorem C18_layout_table : forall fld, fld <= 26 ->
  exists f, field_of fld = Some f /\ In f fields8 /\
            field_layout fld = Some (f_byte f, f_shift f, f_w f) /\ (f_byte f < struct_len fld)%nat.
Proof. exact field8_table. Qed.

(* (3) the validating constructors: a transport header is accepted exactly when the reserved nibble is zero
   and the version nibble equals the expected version; a body header exactly when the integrity bit is clear
   and the type is a supported one *)
Theorem C18_transport_validator : forall raw w, bytes_ok raw ->
  (match transport_new_from_buf raw w with Some _ => 1 | None => 0 end) =
  N.b2n ((nth 0 raw 0 / 16 =? 0) && (nth 0 raw 0 mod 16 =? w)).
Proof. exact transport_from_buf_closed. Qed.
Theorem C18_body_validator : forall b, b < 256 ->
  (match body_header_new_from_buf [b] with Some _ => 1 | None => 0 end) =
  N.b2n ((b <? 128) && supported_type b).
Proof. exact body_from_buf_closed. Qed.

(* (4) read-after-write: the getter returns what the setter wrote, truncated to the field width.
   First for any of the 27 one-byte fields on any buffer that contains the field's byte, then for all 29
   fields by number on a buffer of the struct's length. *)
Theorem C18_read_after_write8 : forall f buf v,
  In f fields8 -> bytes_ok buf -> (f_byte f < length buf)%nat ->
  get_field f (set_field f buf v) = v mod 2 ^ f_w f.
Proof. exact get_set_same8. Qed.
Theorem C18_read_after_write : forall fld f buf v,
  field_of fld = Some f -> length buf = struct_len fld -> bytes_ok buf ->
  get_field f (set_field f buf v) = v mod 2 ^ f_w f.
Proof. exact get_set_same. Qed.
Theorem C18_read_after_write_pci : forall buf v, bytes_ok buf -> length buf = 2%nat ->
  get_field pci_vendor_id (set_field pci_vendor_id buf v) = v mod 2 ^ 16.
Proof. exact pci_get_set. Qed.
Theorem C18_read_after_write_iana : forall buf v, bytes_ok buf -> length buf = 4%nat ->
  get_field iana_vendor_id (set_field iana_vendor_id buf v) = v mod 2 ^ 32.
Proof. exact iana_get_set. Qed.

(* (4') the views are generic in their storage: over ANY buffer at least as long as the struct (a Vec, a slice of a
   whole packet) a getter returns the documented bits of the struct-sized prefix and never looks further, and a
   setter rewrites that prefix exactly as on a struct-sized buffer and leaves every later byte as it was *)
Theorem C18_getter_any_buffer : forall fld f raw,
  field_of fld = Some f -> (struct_len fld <= length raw)%nat -> bytes_ok raw ->
  get_field f raw = spec_get fld (firstn (struct_len fld) raw).
Proof. exact get_field_any. Qed.
Theorem C18_setter_any_buffer : forall fld f raw v,
  field_of fld = Some f -> (struct_len fld <= length raw)%nat -> bytes_ok raw ->
  set_field f raw v = spec_set fld (firstn (struct_len fld) raw) v ++ skipn (struct_len fld) raw.
Proof. exact set_field_any. Qed.
(* ... and the last byte a field touches lies inside its struct, so a view over a shorter buffer fails (index out of
   range, modelled as XPanic in Ops.hdr_op 12 / 13) exactly for the fields whose byte is missing *)
Theorem C18_field_inside_struct : forall fld f, field_of fld = Some f -> (f_hi f / 8 < struct_len fld)%nat.
Proof. exact hi_inside. Qed.

(* (5) frame: writing one field leaves every field with a disjoint bit range unchanged; two different fields
   of one struct always have disjoint ranges, so writing a field leaves every OTHER field of its struct
   unchanged (the PCI and IANA structs have a single field each) *)
Theorem C18_write_keeps_disjoint_fields : forall f g buf v,
  In f fields8 -> In g fields8 -> disjointb f g = true -> bytes_ok buf ->
  get_field g (set_field f buf v) = get_field g buf.
Proof. exact get_set_other8. Qed.
Theorem C18_struct_fields_disjoint : forall i j f g,
  field_of i = Some f -> field_of j = Some g -> i <> j -> struct_id i = struct_id j ->
  i <= 26 /\ j <= 26 /\ disjointb f g = true.
Proof. exact same_struct_disjoint. Qed.
Theorem C18_write_keeps_other_fields : forall i j f g buf v,
  field_of i = Some f -> field_of j = Some g -> i <> j -> struct_id i = struct_id j -> bytes_ok buf ->
  get_field g (set_field f buf v) = get_field g buf.
Proof. exact get_set_other. Qed.

(* (6) any setter keeps the length of the buffer and keeps every byte a byte *)
Theorem C18_set_length : forall f buf v, length (set_field f buf v) = length buf.
Proof. exact set_field_length. Qed.
Theorem C18_set_bytes_ok : forall f buf v, bytes_ok buf -> bytes_ok (set_field f buf v).
Proof. exact set_field_ok. Qed.

(* (7) as the correspondence oracle states it: in every history, every header-view observation of the model
   satisfies c18_step *)
Theorem C18_oracle_holds_on_model : holds_on_model 18.
Proof. exact c18_holds. Qed.

Example C18_nonvacuous :
  get_field th_pkt_seq [0x01; 0x0A; 0x0B; 0xE8] = 2 /\
  set_field th_msg_tag [0x01; 0x0A; 0x0B; 0xE8] 0xFD = [0x01; 0x0A; 0x0B; 0xED] /\
  set_field sh_dest_addr [0xFF; 0x0F; 0x09; 0x21] 0x10 = [0x21; 0x0F; 0x09; 0x21] /\
  get_field pci_vendor_id [0x80; 0x86] = 0x8086 /\
  set_field iana_vendor_id [0xFF; 0xFF; 0xFF; 0xFF] 0x12345678 = [0x12; 0x34; 0x56; 0x78] /\
  hdr_op 2 0 [0x01; 0; 0; 0] 1 = XVal 1 /\ hdr_op 2 0 [0x11; 0; 0; 0] 1 = XVal 0 /\
  hdr_op 3 0 [0x7E] 0 = XVal 1 /\ hdr_op 3 0 [0x80] 0 = XVal 0 /\
  c18_step (OHdr 1 6 [0x01; 0x0A; 0x0B; 0xC8] 3) (hdr_op 1 6 [0x01; 0x0A; 0x0B; 0xC8] 3) = sv_of true 106 /\
  c18_step (OHdr 0 28 [1; 2; 3; 4] 0) (XVal 0) = sv_of false 28 /\
  hdr_op 12 8 [0x01; 0x0A; 0x0B; 0xED; 0x55; 0xAA] 0 = XVal 5 /\
  hdr_op 13 27 [0x80; 0x86; 0x55; 0xAA] 0x1234 = XBytes [0x12; 0x34; 0x55; 0xAA] /\
  hdr_op 12 2 [0x01] 0 = XPanic [] /\ hdr_op 12 1 [0x01] 0 = XVal 1 /\
  c18_step (OHdr 13 27 [0x80; 0x86; 0x55; 0xAA] 0x1234) (XBytes [0x12; 0x34; 0x55; 0xAB]) = sv_of false 427.
Proof. repeat split; vm_compute; reflexivity. Qed.

Print Assumptions C18_getter_layout.
Print Assumptions C18_getter_any_buffer.
Print Assumptions C18_setter_any_buffer.
Print Assumptions C18_field_inside_struct.
Print Assumptions C18_setter_layout.
Print Assumptions C18_layout_table.
Print Assumptions C18_transport_validator.
Print Assumptions C18_body_validator.
Print Assumptions C18_read_after_write8.
Print Assumptions C18_read_after_write.
Print Assumptions C18_read_after_write_pci.
Print Assumptions C18_read_after_write_iana.
Print Assumptions C18_write_keeps_disjoint_fields.
Print Assumptions C18_struct_fields_disjoint.
Print Assumptions C18_write_keeps_other_fields.
Print Assumptions C18_set_length.
Print Assumptions C18_set_bytes_ok.
Print Assumptions C18_oracle_holds_on_model.
