(* C04 — SMBus framing, byte count, reported length and the length probe agree; oversize refused.
   Property theorems only. *)
Require Import Base Crc Bitfield Headers Encode Decode Process Ops Spec Judge.
Require Import HeaderForms IanaForm PecFacts EncodeFacts DecodeFacts Hist StepsSimple StepsEncode.
Open Scope N_scope.

(* (1) in every well-formed history, every successful encode of the model starts with
   [dest<<1, 0x0F, n-4, (src<<1)|1] with 4 <= n <= 259, the probe on any prefix (>= 3 bytes) of that packet
   answers n, and a message that does not fit the frame is refused with the buffer untouched *)
Theorem C04_oracle_holds_on_model : holds_on_model 4.
Proof. exact c04_holds. Qed.

(* (2) the packet generators in closed form: a message that fits is written as spec_packet (framing bytes and
   byte count as DSP0237 lays them out) and the returned length is 10 + |body| = byte count + 4 *)
Theorem C04_generate_fits : forall ovf addr dest mt hdr data buf,
  addr < 256 -> dest < 256 -> mt < 256 ->
  (packet_total hdr data <= 259)%nat -> (packet_total hdr data <= length buf)%nat ->
  generate_packet_bytes ovf addr dest mt hdr data buf =
    (spec_packet addr dest (mt mod 128) (opt_list hdr ++ data) ++ skipn (packet_total hdr data) buf,
     Val (Some (packet_total hdr data))).
Proof. exact generate_packet_bytes_fits. Qed.

(* (3) ... and one that does not fit is refused, leaving the buffer as it was *)
Theorem C04_generate_oversize_refused : forall ovf addr dest mt hdr data buf,
  mt < 256 -> (259 < packet_total hdr data)%nat ->
  generate_packet_bytes ovf addr dest mt hdr data buf = (buf, Val None).
Proof. exact generate_packet_bytes_oversize. Qed.

Example C04_nonvacuous :
  let g := {| g_addr := 0x23; g_msg_types := []; g_vendor_ids := [] |} in
  let ops := [OEncode true 2 [0x34] [] (repeat 0 14); OGetLength [104; 15; 8]] in
  map (fun s => (s_o s, s_nontrivial s)) (steps 4 true g ost0 ops (run true (ctx_of g) ops)) = [(true, true); (true, true)].
Proof. vm_compute. reflexivity. Qed.

Print Assumptions C04_oracle_holds_on_model.
Print Assumptions C04_generate_fits.
Print Assumptions C04_generate_oversize_refused.
