(* C04 — SMBus framing, byte count, reported length and the length probe agree; oversize refused.
   Property theorems only. *)
Require Import Base Crc Bitfield Headers Encode Decode Process Ops Spec Judge.
Require Import HeaderForms IanaForm PecFacts EncodeFacts DecodeFacts Hist StepsSimple StepsEncode.
Require Import Readable.
Open Scope N_scope.

(* (1) in every well-formed history, every successful encode of the model starts with
   [dest<<1, 0x0F, n-4, (src<<1)|1] with 4 <= n <= 259, the probe on any prefix (>= 3 bytes) of that packet
   answers n, and a message that does not fit the frame is refused with the buffer untouched *)
Theorem C04_oracle_holds_on_model : holds_on_model 4.
Proof. exact c04_holds. Qed.

(* (2) the packet generators in closed form: a message that fits is written as spec_packet (framing bytes and
   byte count as DSP0237 lays them out) and the returned length is 10 + |body| = byte count + 4 *)
Theorem C04_generate_fits : forall ovf addr dest mt hdr data buf,
  addr < 256 -> dest < 256 -> mt < 256 ->
  (packet_total hdr data <= 259)%nat -> (packet_total hdr data <= length buf)%nat ->
  generate_packet_bytes ovf addr dest mt hdr data buf =
    (spec_packet addr dest (mt mod 128) (opt_list hdr ++ data) ++ skipn (packet_total hdr data) buf,
     Val (Some (packet_total hdr data))).
Proof. exact generate_packet_bytes_fits. Qed.

(* (3) ... and one that does not fit is refused, leaving the buffer as it was *)
Theorem C04_generate_oversize_refused : forall ovf addr dest mt hdr data buf,
  mt < 256 -> (259 < packet_total hdr data)%nat ->
  generate_packet_bytes ovf addr dest mt hdr data buf = (buf, Val None).
Proof. exact generate_packet_bytes_oversize. Qed.

Example C04_nonvacuous :
  let g := {| g_addr := 0x23; g_msg_types := []; g_vendor_ids := [] |} in
  let ops := [OEncode true 2 [0x34] [] (repeat 0 14); OGetLength [104; 15; 8]] in
  map (fun s => (s_o s, s_nontrivial s)) (steps 4 true g ost0 ops (run true (ctx_of g) ops)) = [(true, true); (true, true)].
Proof. vm_compute. reflexivity. Qed.

Print Assumptions C04_oracle_holds_on_model.
Print Assumptions C04_generate_fits.
Print Assumptions C04_generate_oversize_refused.

(* ---------- stated directly about an encoder call (no oracle to read) ---------- *)
(* (4) after any successful encode of n bytes: the SMBus framing bytes are destination address with R/W# 0, command
   code 0x0F, byte count n - 4, source address with bit 0 set; 10 <= n <= 259 (10 is attained: an empty body);
   the packet fits the buffer; and the length probe on any prefix of at least 3 bytes of it answers n *)
Theorem C04_framing_of_every_encoded_packet : forall ovf g c h id a ls w buf out n,
  wf_cfg g -> cinv g c -> args_okb h id a ls = true ->
  encode_call ovf c h id a ls = Some w -> w buf = (out, Val (Some n)) ->
  firstn 4 out = [(enc_dest h id a mod 128) * 2; 15; N.of_nat (n - 4); (g_addr g mod 128) * 2 + 1] /\
  (10 <= n <= 259)%nat /\ (n <= length buf)%nat /\
  forall k, (3 <= k <= n)%nat -> get_length (firstn k out) = ok n.
Proof. exact framing. Qed.

(* the hypotheses are satisfiable and the lower bound is attained: a control-type packet with no header, no data *)
Example C04_ten_byte_packet :
  let g := {| g_addr := 0x23; g_msg_types := []; g_vendor_ids := [] |} in
  wf_cfg g /\ cinv g (ctx_of g) /\ args_okb true 30 [0x34; 0; 0] [] = true /\
  exists w, encode_call true (ctx_of g) true 30 [0x34; 0; 0] [] = Some w /\
    w (repeat 7 12) = ([104; 15; 6; 71; 1; 52; 35; 200; 0; 122; 7; 7], Val (Some 10%nat)).
Proof.
  cbv zeta. split; [repeat split; try constructor; reflexivity|]. split; [apply cinv_init; repeat split; try constructor; reflexivity|].
  split; [reflexivity|]. eexists. split; [reflexivity|]. vm_compute. reflexivity.
Qed.

Print Assumptions C04_framing_of_every_encoded_packet.

(* ---------- framing at stream level (proofs/Stream.v) ----------
   The receive loop a user writes around the length probe: split_stream cuts a byte stream by asking get_length for
   the length of the next packet (fuel = an upper bound on the number of packets).  A message is (source, destination,
   message type, body); pkt m is the packet every encoder writes for it (Spec.spec_packet); sendable = it fits the
   SMBus frame.  For ANY number of packets: the loop returns exactly the packets that were sent, the cut points are
   forced, every piece has PEC zero, non-control pieces decode to their messages, and a stream that is cut off in the
   middle of a packet or does not carry the SMBus command code is refused. *)
Require Import Stream.
Theorem C04_stream_splits_into_the_packets_sent : forall msgs k,
  Forall sendable msgs -> (length msgs <= k)%nat ->
  split_stream k (concat (map pkt msgs)) = Some (map pkt msgs).
Proof. exact split_concat_fuel. Qed.
Theorem C04_stream_cut_points_are_forced : forall msgs k l,
  Forall sendable msgs -> split_stream k (concat (map pkt msgs)) = Some l -> l = map pkt msgs.
Proof. exact split_concat_unique_cut_any. Qed.
Theorem C04_stream_pieces_have_zero_pec : forall msgs k l,
  Forall sendable msgs -> split_stream k (concat (map pkt msgs)) = Some l ->
  Forall (fun piece => pec_good piece = true /\ pec piece = 0) l.
Proof. exact stream_every_piece_has_good_pec. Qed.
Theorem C04_stream_pieces_decode : forall msgs k l,
  Forall sendable msgs -> Forall non_control msgs -> split_stream k (concat (map pkt msgs)) = Some l ->
  Forall2 (fun m piece =>
             decode_packet piece = ok (msg_type_from_u8 (m_type m), (9%nat, length (m_body m))) /\
             sub piece 9 (length (m_body m)) = m_body m) msgs l.
Proof. exact stream_decodes. Qed.
Theorem C04_stream_truncated_is_refused : forall fuel msgs m k,
  Forall sendable msgs -> sendable m -> (1 <= k < length (pkt m))%nat ->
  split_stream fuel (concat (map pkt msgs) ++ firstn k (pkt m)) = None.
Proof. exact split_concat_truncated_stops. Qed.
Theorem C04_stream_without_command_code_is_refused : forall f s,
  bytes_ok s -> (3 <= length s)%nat -> nth 1 s 0 <> 15 -> split_stream f s = None.
Proof. exact split_garbage_stops_any. Qed.

Print Assumptions C04_stream_splits_into_the_packets_sent.
Print Assumptions C04_stream_cut_points_are_forced.
Print Assumptions C04_stream_pieces_have_zero_pec.
Print Assumptions C04_stream_pieces_decode.
Print Assumptions C04_stream_truncated_is_refused.
Print Assumptions C04_stream_without_command_code_is_refused.
