(* C17 — the length probe is a function of the first three bytes only.  Property theorems only. *)
Require Import Base Crc Bitfield Headers Encode Decode Process Ops Spec Judge.
Require Import Hist DecodeFacts StepsSimple Extra.
Open Scope N_scope.

(* (1) closed form, for every byte string: fewer than three bytes are rejected (no panic); otherwise the answer
   is byte[2]+4 exactly when byte[1] = 0x0F and the error (Invalid, Unknown) otherwise.  The right-hand side
   mentions nothing but the length test and bytes 1 and 2 — and no context at all. *)
Theorem C17_closed_form : forall p, bytes_ok p ->
  get_length p =
    if (length p <? 3)%nat then err MInvalid DUnknown
    else if nth 1 p 0 =? 15 then ok (N.to_nat (nth 2 p 0%N) + 4)%nat else err MInvalid DUnknown.
Proof. exact get_length_closed. Qed.

(* (2) as the correspondence oracle states it: in every history, every get_length observation of the model
   satisfies c17_step *)
Theorem C17_oracle_holds_on_model : holds_on_model 17.
Proof. exact c17_holds. Qed.

(* (3) context independence, stated outright: what get_length observes does not depend on the context *)
Theorem C17_context_independent : forall ovf c1 c2 p,
  snd (step ovf c1 (OGetLength p)) = snd (step ovf c2 (OGetLength p)).
Proof. exact get_length_context_independent. Qed.

Example C17_nonvacuous :
  get_length [0x20; 0x0F; 0x09; 0xAA; 0xBB] = ok 13%nat /\ get_length [0x20; 0x0E; 0x09] = err MInvalid DUnknown
  /\ get_length [0x20; 0x0F] = err MInvalid DUnknown.
Proof. repeat split; vm_compute; reflexivity. Qed.

Print Assumptions C17_closed_form.
Print Assumptions C17_oracle_holds_on_model.
Print Assumptions C17_context_independent.
