(* C08 — vendor-defined and SPDM messages are framed with the right vendor header.  Property theorems only. *)
Require Import Base Crc Bitfield Headers Encode Decode Process Ops Spec Judge.
Require Import HeaderForms IanaForm PecFacts EncodeFacts DecodeFacts Hist StepsSimple StepsEncode.
Open Scope N_scope.

(* (1) in every well-formed history: vendor_defined with format 0 / 1 and the PCI / IANA / SPDM generators encode
   type byte, vendor ID most significant byte first, then the caller's bytes verbatim; any other format is
   refused with the buffer untouched *)
Theorem C08_oracle_holds_on_model : holds_on_model 8.
Proof. exact c08_holds. Qed.

(* (2) the two vendor headers in closed form: 16 and 32 bits, most significant byte first *)
Theorem C08_pci_header : forall v, v < 65536 -> pci_new v = [v / 256; v mod 256].
Proof. exact pci_new_closed. Qed.
Theorem C08_iana_header : forall v,
  iana_new v = [(v / 16777216) mod 256; (v / 65536) mod 256; (v / 256) mod 256; v mod 256].
Proof. exact iana_new_closed. Qed.

Example C08_nonvacuous :
  let g := {| g_addr := 0x23; g_msg_types := []; g_vendor_ids := [] |} in
  let ops := [OEncode true 20 [0x34; 0; 0xABCD1234] [[9; 8]] (repeat 0 14); OEncode true 20 [0x34; 7; 1] [[9]] (repeat 5 14)] in
  map (fun s => (s_o s, s_nontrivial s)) (steps 8 true g ost0 ops (run true (ctx_of g) ops)) = [(true, true); (true, true)].
Proof. vm_compute. reflexivity. Qed.

Print Assumptions C08_oracle_holds_on_model.
Print Assumptions C08_pci_header.
Print Assumptions C08_iana_header.
