(* C14 — Get Vendor Defined Message Support walks the configured vendor ID sets: set i, then the selector of the
   next set, 0xFF after the last.  Property theorems only. *)
Require Import Base Crc Bitfield Headers Encode Decode Process Ops Spec Judge.
Require Import Hist StepsSimple StepsEncode DecodeChar ProcessChar StepsProcess Extra.
Open Scope N_scope.

(* (1) as the correspondence oracle states it: in every well-formed history on a validly configured context, an
   accepted Get Vendor Defined Message Support request with selector i < number of sets, given 64 bytes, is
   answered [6; Success; next selector] followed by vendor ID set i in DSP0236 layout, where the next selector is
   i+1, or 0xFF when i is the last set *)
Theorem C14_oracle_holds_on_model : holds_on_model 14.
Proof. exact c14_holds. Qed.

(* (2) the walk: the answer (the whole buffer, the reported length, the context afterwards) is a function of the
   request and the configuration alone; the selector the context remembered from earlier requests plays no part,
   and the overflow mode makes no difference *)
Theorem C14_walk : forall ovf g c p buf v,
  let n := N.of_nat (length (g_vendor_ids g)) in
  let i := nth 11 p 0 in
  let next := if i + 1 =? n then 255 else i + 1 in
  wf_cfg g -> valid_cfg g = true -> cinv g c -> bytes_ok p -> (64 <= length buf)%nat ->
  accepted_request p = true -> ctl_cmd p = 6 -> i < n -> nth_error (g_vendor_ids g) (N.to_nat i) = Some v ->
  process_packet ovf c p buf =
    ((set_selector c next,
      spec_packet (g_addr g) (nth 6 p 0) 0 ([0; 6; 0] ++ next :: enc_vendor_set v) ++
      skipn (14 + length (enc_vendor_set v)) buf),
     ok ((MCtpControl, (11%nat, 1%nat)), Some (14 + length (enc_vendor_set v))%nat)).
Proof. exact StepsProcess.C14_walk. Qed.

(* (3) complete enumeration.  Extra.vendor_request r sel is the Get Vendor Defined Message Support request for set
   sel from the endpoint with slave address and EID r to the endpoint at 0x10:
   spec_packet r 0x10 0 [128; 6; sel].  It is a well-formed byte string the responder accepts ... *)
Theorem C14_vendor_request_wellformed : forall r sel, r < 256 -> sel < 256 ->
  bytes_ok (vendor_request r sel) /\ accepted_request (vendor_request r sel) = true /\
  ctl_cmd (vendor_request r sel) = 6 /\ nth 11 (vendor_request r sel) 0 = sel /\ nth 6 (vendor_request r sel) 0 = r.
Proof. exact vendor_request_wellformed. Qed.

(* ... and Extra.walk r fuel ovf c sel is the requester's walk on the model: send vendor_request r sel into a
   64-byte buffer, keep bytes 13 .. len-2 of the response (the vendor ID field), read the next selector from
   byte 12 of the response, stop when it is 0xFF (or the model does not answer, or the fuel runs out).
   On a validly configured context the walk from selector 0 returns every configured vendor ID set exactly once,
   in configuration order, and stops: for every context of the history (any remembered selector, any EIDs, any
   UUID), both overflow modes, every requester, and any fuel that is at least the number of sets *)
Theorem C14_enumerate : forall ovf g c r, wf_cfg g -> valid_cfg g = true -> cinv g c -> r < 256 ->
  walk r (S (length (g_vendor_ids g))) ovf c 0 = map enc_vendor_set (g_vendor_ids g).
Proof. exact enumerate. Qed.

Theorem C14_enumerate_any_fuel : forall ovf g c r fuel, wf_cfg g -> valid_cfg g = true -> cinv g c -> r < 256 ->
  (length (g_vendor_ids g) <= fuel)%nat ->
  walk r fuel ovf c 0 = map enc_vendor_set (g_vendor_ids g).
Proof. exact walk_enumerates. Qed.

(* non-vacuity: two sets (PCI 0x8086, IANA 0xA2B3); selector 0 (answer: next 1, the PCI set), selector 1 (answer:
   next 0xFF, the IANA set), selector 0 again; a Get Endpoint ID request is outside the claim.  Both overflow modes *)
Example C14_nonvacuous :
  let g := {| g_addr := 0x10; g_msg_types := [0; 5; 0x7E];
              g_vendor_ids := [{| v_format := 0; v_data := 0x8086; v_numeric := 0x1234 |};
                               {| v_format := 1; v_data := 0xA2B3; v_numeric := 7 |}] |} in
  let gv0 := [32; 15; 9; 71; 1; 16; 35; 200; 0; 128; 6; 0; 212] in
  let gv1 := [32; 15; 9; 71; 1; 16; 35; 200; 0; 128; 6; 1; 211] in
  let ops := [OProcess gv0 (repeat 0 64); OProcess gv1 (repeat 0 64); OProcess gv0 (repeat 0 64);
              OProcess [32; 15; 8; 71; 1; 16; 35; 200; 0; 128; 2; 250] (repeat 0 64)] in
  map (fun s => (s_o s, s_nontrivial s)) (steps 14 true g ost0 ops (run true (ctx_of g) ops))
    = [(true, true); (true, true); (true, true); (true, false)] /\
  map (fun s => (s_o s, s_nontrivial s)) (steps 14 false g ost0 ops (run false (ctx_of g) ops))
    = [(true, true); (true, true); (true, true); (true, false)] /\
  map (fun x => match fst x with XProcess _ b => sub b 10 11 | _ => [] end) (firstn 2 (run true (ctx_of g) ops))
    = [[6; 0; 1; 0; 0x80; 0x86; 0x12; 0x34; 103; 0; 0]; [6; 0; 255; 1; 0; 0; 0xA2; 0xB3; 0; 7; 44]].
Proof. vm_compute. repeat split; reflexivity. Qed.

(* non-vacuity of (3): the walk over the two sets above, started on a context that remembers selector 7 and has
   been assigned EID 0x56, from requester 0x23, in both overflow modes; one unit of fuel too few cuts it short *)
Example C14_enumerate_nonvacuous :
  let g := {| g_addr := 0x10; g_msg_types := [0; 5; 0x7E];
              g_vendor_ids := [{| v_format := 0; v_data := 0x8086; v_numeric := 0x1234 |};
                               {| v_format := 1; v_data := 0xA2B3; v_numeric := 7 |}] |} in
  let c := set_selector (set_eid_req (set_eid_resp (ctx_of g) 0x56) 0x56) 7 in
  vendor_request 0x23 0 = [32; 15; 9; 71; 1; 16; 35; 200; 0; 128; 6; 0; 212] /\
  walk 0x23 3 true c 0 = [[0; 0x80; 0x86; 0x12; 0x34]; [1; 0; 0; 0xA2; 0xB3; 0; 7]] /\
  walk 0x23 3 false c 0 = map enc_vendor_set (g_vendor_ids g) /\
  walk 0x23 1 true c 0 = [[0; 0x80; 0x86; 0x12; 0x34]].
Proof. vm_compute. repeat split; reflexivity. Qed.

Print Assumptions C14_oracle_holds_on_model.
Print Assumptions C14_walk.
Print Assumptions C14_vendor_request_wellformed.
Print Assumptions C14_enumerate.
Print Assumptions C14_enumerate_any_fuel.

(* ---------- the enumeration with the library on both sides (proofs/EnumerateApi.v) ----------
   api_walk is what a user of the crate writes: A's get_vendor_defined_message_support encoder produces the request,
   B's process_packet answers, A's decode_packet reads the answer, A takes the next selector (payload byte 0) and the
   vendor ID set (the rest of the payload) and goes on until 0xFF.  From selector 0 it returns every configured set
   of B exactly once, in order — for any A, any state of B, any destination value, both overflow modes, any fuel that
   is at least the number of sets — and it agrees with the specification-level walk of C14_enumerate. *)
Require Import EnumerateApi.
Theorem C14_enumerate_through_the_api : forall ovf gA cA gB cB dest fuel,
  wf_cfg gA -> cinv gA cA -> wf_cfg gB -> valid_cfg gB = true -> cinv gB cB -> dest < 256 ->
  (length (g_vendor_ids gB) <= fuel)%nat ->
  api_walk fuel ovf cA cB dest 0 = map enc_vendor_set (g_vendor_ids gB).
Proof. exact api_enumerate_any_fuel. Qed.
Theorem C14_api_walk_is_the_specification_walk : forall ovf gA cA gB cB dest fuel,
  wf_cfg gA -> cinv gA cA -> wf_cfg gB -> valid_cfg gB = true -> cinv gB cB -> dest < 256 ->
  (length (g_vendor_ids gB) <= fuel)%nat ->
  api_walk fuel ovf cA cB dest 0 = walk (g_addr gA) fuel ovf cB 0.
Proof. exact api_walk_agrees_with_walk. Qed.

Print Assumptions C14_enumerate_through_the_api.
Print Assumptions C14_api_walk_is_the_specification_walk.
