(* C09 — decode_packet accepts exactly the well-formed packets, reports type / payload offset / payload length,
   and rejects the others with a truthful error.  Property theorems only. *)
Require Import Base Crc Bitfield Headers Encode Decode Process Ops Spec Judge.
Require Import Hist DecodeFacts StepsSimple DecodeChar Extra.
Open Scope N_scope.

(* (1) as the correspondence oracle states it: in every history, every decode_packet observation of the model
   satisfies c09_step (outside its claim: fewer than 9 bytes, the responses of c09_excluded_response, and the
   panic classes of decode_panic_class, which belong to C10) *)
Theorem C09_oracle_holds_on_model : holds_on_model 9.
Proof. exact c09_holds. Qed.

(* (2) outside the panic classes the decoder IS the flat decision procedure spec_decode (DecodeChar.v) *)
Theorem C09_decoder_exact : forall p, bytes_ok p -> decode_panic_class p = 0 -> (9 <= length p)%nat ->
  decode_packet p = Val (spec_decode p).
Proof. exact decode_exact. Qed.

(* (3) inside the claim, acceptance is well-formedness *)
Theorem C09_accept_iff_wellformed : forall p, bytes_ok p -> (9 <= length p)%nat ->
  c09_excluded_response p = false -> decode_panic_class p = 0 ->
  (accepts (decode_packet p) = true <-> wf_packet p = true).
Proof. exact decode_accepts_iff_wf. Qed.

(* (4) the panic classes are exact: the decoder panics on an input iff the input lies in one of D1..D9 *)
Theorem C09_decoder_panics_iff : forall p, bytes_ok p ->
  (is_panic (decode_packet p) = true <-> decode_panic_class p <> 0).
Proof. exact decode_panics_iff. Qed.

(* (5) context independence, stated outright: what decode_packet observes does not depend on the context it is
   called on (nor on the overflow mode) *)
Theorem C09_context_independent : forall ovf c1 c2 p,
  snd (step ovf c1 (ODecode p)) = snd (step ovf c2 (ODecode p)).
Proof. exact decode_context_independent. Qed.

(* non-vacuity: a valid Set Endpoint ID request is in the claim, well-formed, accepted with the payload at
   offset 11 and of length 2; flipping its PEC makes it ill-formed and rejected with InvalidPEC *)
Example C09_nonvacuous :
  let p := [0x68;0x0F;0x0A;0x47;0x01;0x34;0x23;0xC8;0x00;0x80;0x01;0x00;0x56;0xD5] in
  let q := [0x68;0x0F;0x0A;0x47;0x01;0x34;0x23;0xC8;0x00;0x80;0x01;0x00;0x56;0xD4] in
  bytes_okb p = true /\ decode_panic_class p = 0 /\ c09_excluded_response p = false /\ wf_packet p = true /\
  decode_packet p = ok (MCtpControl, (11%nat, 2%nat)) /\ spec_decode p = inl (MCtpControl, (11%nat, 2%nat)) /\
  good (c09_step (ODecode p) (XDecode (inl (MCtpControl, (11%nat, 2%nat))))) = true /\
  s_nontrivial (c09_step (ODecode p) (XDecode (inl (MCtpControl, (11%nat, 2%nat))))) = true /\
  good (c09_step (ODecode p) (XDecode (inl (MCtpControl, (11%nat, 3%nat))))) = false /\
  wf_packet q = false /\ decode_packet q = err MCtpControl (DControlMessage CEInvalidPEC).
Proof. vm_compute. repeat split; reflexivity. Qed.

Print Assumptions C09_oracle_holds_on_model.
Print Assumptions C09_decoder_exact.
Print Assumptions C09_accept_iff_wellformed.
Print Assumptions C09_decoder_panics_iff.
Print Assumptions C09_context_independent.
