(* C19 — wire code points map to the right enumeration values.  Property theorems only. *)
Require Import Base Crc Bitfield Headers Encode Decode Process Ops Spec Judge.
Require Import Hist StepsSimple.
Open Scope N_scope.

(* message types: the five defined code points map to themselves (variant = its numeric value), every other
   byte to Invalid (0xFF) *)
Theorem C19_message_type : forall b, b < 256 ->
  msg_type_to_u8 (msg_type_from_u8 b) = (if defined_mt b then b else 255).
Proof. exact mt_roundtrip. Qed.
(* command codes: 0x00..0x14 map to their own variant, everything else to Unknown (0xFF) *)
Theorem C19_command_code : forall b, cmd_from_u8 b = (if b <=? 20 then b else 255).
Proof. reflexivity. Qed.
(* completion codes 0..5 map to their own variants *)
Theorem C19_completion_code : forall b, b <= 5 -> cc_from_u8 b = Val b.
Proof. intros b H. unfold cc_from_u8. apply N.leb_le in H. rewrite H. reflexivity. Qed.

Theorem C19_oracle_holds_on_model : holds_on_model 19.
Proof. exact c19_holds. Qed.

Print Assumptions C19_message_type.
Print Assumptions C19_command_code.
Print Assumptions C19_completion_code.
Print Assumptions C19_oracle_holds_on_model.
