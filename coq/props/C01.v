(* C01 — decoding what the library's own encoders wrote gives back the message type and exactly the payload
   (control requests: after the 2-byte control header; Success responses: after header and completion code;
   other types: after the type byte); a non-Success completion code comes back as that error.
   Known findings allowed by the oracle: 102 (own requests with command >= 9 make the decoder panic),
   101 (own Get Endpoint ID response is rejected for its length).  Property theorems only. *)
Require Import Base Crc Bitfield Headers Encode Decode Process Ops Spec Judge.
Require Import Hist DecodeFacts StepsSimple StepsEncode DecodeChar ProcessChar StepsRecv.
Require Import EncodeFacts Readable.
Open Scope N_scope.

(* (1) as the correspondence oracle states it *)
Theorem C01_oracle_holds_on_model : holds_on_model 1.
Proof. exact c01_holds. Qed.

(* (2) the round trip on the packets the encoders produce (EncodeFacts: every successful encode writes
   spec_packet addr dest type body): SPDM / secured / vendor defined messages *)
Theorem C01_roundtrip_non_control : forall A D mt body,
  bytes_ok (spec_packet A D mt body) -> supported_type mt = true -> mt <> 0 ->
  decode_packet (spec_packet A D mt body) = ok (msg_type_from_u8 mt, (9%nat, length body)) /\
  sub (spec_packet A D mt body) 9 (length body) = body.
Proof. exact roundtrip_vendor. Qed.

(* (3) control requests with a command the decoder knows (code < 9) and the data length its table expects *)
Theorem C01_roundtrip_request : forall A D code params,
  bytes_ok (spec_packet A D 0 ([128; code] ++ params)) ->
  code < 9 -> len_ok (model_req_len code) (length params) = true ->
  decode_packet (spec_packet A D 0 ([128; code] ++ params)) = ok (MCtpControl, (11%nat, length params)) /\
  sub (spec_packet A D 0 ([128; code] ++ params)) 11 (length params) = params.
Proof. exact roundtrip_request. Qed.

(* (4) Success responses *)
Theorem C01_roundtrip_response : forall A D code fields,
  bytes_ok (spec_packet A D 0 ([0; code; 0] ++ fields)) ->
  ((code =? 7) || (10 <=? code)) = false -> len_ok (model_resp_len code) (length fields) = true ->
  decode_packet (spec_packet A D 0 ([0; code; 0] ++ fields)) = ok (MCtpControl, (12%nat, length fields)) /\
  sub (spec_packet A D 0 ([0; code; 0] ++ fields)) 12 (length fields) = fields.
Proof. exact roundtrip_response. Qed.

(* (5) responses with a non-Success completion code decode to exactly that error *)
Theorem C01_roundtrip_completion_code : forall A D code cc fields,
  bytes_ok (spec_packet A D 0 ([0; code; cc] ++ fields)) -> cc <> 0 -> cc <= 5 ->
  decode_packet (spec_packet A D 0 ([0; code; cc] ++ fields)) =
  err MCtpControl (DControlMessage (CEUnsuccessfulCompletionCode cc)).
Proof. exact roundtrip_response_cc. Qed.

(* non-vacuity: encode a Set Endpoint ID request, decode it; encode an error response, decode it; and the two
   known findings (Get Endpoint ID Success response: class 101; Get Routing Table Entries request: class 102) *)
Example C01_nonvacuous :
  let g := {| g_addr := 0x23; g_msg_types := [0]; g_vendor_ids := [] |} in
  let buf := repeat 0 40 in
  let run1 := fun e n => let ops := [e; ODecode (firstn n (match snd (step true (ctx_of g) e) with XEnc _ b => b | _ => [] end))] in
                         map (fun s => (s_o s, s_kf s, s_nontrivial s)) (steps 1 true g ost0 ops (run true (ctx_of g) ops)) in
  run1 (OEncode true 1 [0x34; 0; 9] [] buf) 14%nat = [(true, 0, false); (true, 0, true)] /\
  run1 (OEncode false 1 [2; 0x34; 0; 0] [] buf) 16%nat = [(true, 0, false); (true, 0, true)] /\
  run1 (OEncode false 2 [0; 0x34; 0; 0; 0] [] buf) 16%nat = [(true, 0, false); (false, 101, true)] /\
  run1 (OEncode true 10 [0x34; 0] [] buf) 13%nat = [(true, 0, false); (false, 102, true)].
Proof. vm_compute. repeat split; reflexivity. Qed.

Print Assumptions C01_oracle_holds_on_model.
Print Assumptions C01_roundtrip_non_control.
Print Assumptions C01_roundtrip_request.
Print Assumptions C01_roundtrip_response.
Print Assumptions C01_roundtrip_completion_code.

(* ---------- stated directly about an encoder call followed by a decode (no oracle to read) ----------
   c is a context of configuration g at any point of a history; the call (h, id, a, ls) succeeded with n bytes in
   out; (mt, body) is the message it stands for; the first n bytes of out are handed to decode_packet. *)

(* (6) SPDM / secured / vendor defined: the type and the whole body come back *)
Theorem C01_encode_then_decode_non_control : forall ovf g c h id a ls w buf out n mt body,
  wf_cfg g -> cinv g c -> args_okb h id a ls = true ->
  encode_call ovf c h id a ls = Some w -> w buf = (out, Val (Some n)) ->
  model_message h id a ls (c_eid_resp c) = Some (mt, body) ->
  mt <> 0 -> supported_type mt = true ->
  decode_packet (firstn n out) = ok (msg_type_from_u8 mt, (9%nat, (n - 10)%nat)) /\
  sub (firstn n out) 9 (n - 10) = body.
Proof. exact encode_then_decode_non_control. Qed.

(* (7) a control request with a command the decoder knows and the data length its table expects *)
Theorem C01_encode_then_decode_request : forall ovf g c h id a ls w buf out n code params,
  wf_cfg g -> cinv g c -> args_okb h id a ls = true ->
  encode_call ovf c h id a ls = Some w -> w buf = (out, Val (Some n)) ->
  model_message h id a ls (c_eid_resp c) = Some (0, [128; code] ++ params) ->
  code < 9 -> len_ok (model_req_len code) (length params) = true ->
  decode_packet (firstn n out) = ok (MCtpControl, (11%nat, (n - 12)%nat)) /\
  sub (firstn n out) 11 (n - 12) = params.
Proof. exact encode_then_decode_request. Qed.

(* (8) a Success control response *)
Theorem C01_encode_then_decode_response : forall ovf g c h id a ls w buf out n code fields,
  wf_cfg g -> cinv g c -> args_okb h id a ls = true ->
  encode_call ovf c h id a ls = Some w -> w buf = (out, Val (Some n)) ->
  model_message h id a ls (c_eid_resp c) = Some (0, [0; code; 0] ++ fields) ->
  ((code =? 7) || (10 <=? code)) = false -> len_ok (model_resp_len code) (length fields) = true ->
  decode_packet (firstn n out) = ok (MCtpControl, (12%nat, (n - 13)%nat)) /\
  sub (firstn n out) 12 (n - 13) = fields.
Proof. exact encode_then_decode_response. Qed.

(* (9) a control response with a non-Success completion code comes back as that error *)
Theorem C01_encode_then_decode_completion_code : forall ovf g c h id a ls w buf out n code cc fields,
  wf_cfg g -> cinv g c -> args_okb h id a ls = true ->
  encode_call ovf c h id a ls = Some w -> w buf = (out, Val (Some n)) ->
  model_message h id a ls (c_eid_resp c) = Some (0, [0; code; cc] ++ fields) ->
  1 <= cc <= 5 ->
  decode_packet (firstn n out) = err MCtpControl (DControlMessage (CEUnsuccessfulCompletionCode cc)).
Proof. exact encode_then_decode_completion_code. Qed.

(* (10) without side conditions: the library's own request encoders 1..8 (Set Endpoint ID .. Allocate Endpoint IDs) *)
Theorem C01_own_requests_decode : forall ovf g c id a ls w buf out n,
  wf_cfg g -> cinv g c -> args_okb true id a ls = true ->
  encode_call ovf c true id a ls = Some w -> w buf = (out, Val (Some n)) ->
  (1 <=? id) && (id <=? 8) = true ->
  exists params, spec_request id a ls = Some (id, params) /\
    decode_packet (firstn n out) = ok (MCtpControl, (11%nat, (n - 12)%nat)) /\
    sub (firstn n out) 11 (n - 12) = params.
Proof. exact own_requests_decode. Qed.

(* (11) ... and its own response encoders (a[0] is the completion code supplied; Get Endpoint ID's Success response
   is known finding 101) *)
Theorem C01_own_responses_decode : forall ovf g c id a ls w buf out n,
  wf_cfg g -> cinv g c -> args_okb false id a ls = true ->
  encode_call ovf c false id a ls = Some w -> w buf = (out, Val (Some n)) ->
  (1 <=? id) && (id <=? 6) = true ->
  (arg a 0 = 0 -> id <> 2 ->
     decode_packet (firstn n out) = ok (MCtpControl, (12%nat, (n - 13)%nat)) /\
     exists code fields, spec_response id a ls (c_eid_resp c) = Some (code, 0, fields) /\ sub (firstn n out) 12 (n - 13) = fields) /\
  (arg a 0 <> 0 ->
     decode_packet (firstn n out) = err MCtpControl (DControlMessage (CEUnsuccessfulCompletionCode (arg a 0)))).
Proof. exact own_responses_decode. Qed.

Print Assumptions C01_encode_then_decode_non_control.
Print Assumptions C01_encode_then_decode_request.
Print Assumptions C01_encode_then_decode_response.
Print Assumptions C01_encode_then_decode_completion_code.
Print Assumptions C01_own_requests_decode.
Print Assumptions C01_own_responses_decode.
