(* C07 — control response bodies follow the DSP0236 response layouts.  Property theorems only. *)
Require Import Base Crc Bitfield Headers Encode Decode Process Ops Spec Judge.
Require Import HeaderForms IanaForm PecFacts EncodeFacts DecodeFacts Hist StepsSimple StepsEncode.
Require Import Readable.
Open Scope N_scope.

(* in every well-formed history, every successfully encoded control response has body
   0x00 (Rq 0, D 0, rsvd 0), the command code, the completion code supplied, and for Success exactly the
   command's DSP0236 fields (with the EID the context holds at that moment) *)
Theorem C07_oracle_holds_on_model : holds_on_model 7.
Proof. exact c07_holds. Qed.

Example C07_nonvacuous :
  let g := {| g_addr := 0x23; g_msg_types := []; g_vendor_ids := [] |} in
  let ops := [OSetEid false 0x77; OEncode false 1 [0; 0x34; 1; 2] [] (repeat 0 16);
              OEncode false 2 [0; 0x34; 1; 3; 1] [] (repeat 0 16)] in
  map (fun s => (s_o s, s_nontrivial s)) (steps 7 true g ost0 ops (run true (ctx_of g) ops)) = [(true, false); (true, true); (true, true)].
Proof. vm_compute. reflexivity. Qed.

Print Assumptions C07_oracle_holds_on_model.

(* ---------- stated directly about an encoder call (no oracle to read) ---------- *)
(* (2) every successfully encoded control response: between the message-type byte and the PEC lie exactly 0x00, the
   command code, the completion code supplied, and the command's DSP0236 fields (with the context's current EID) *)
Theorem C07_body_of_every_response : forall ovf g c id a ls w buf out n,
  wf_cfg g -> cinv g c -> args_okb false id a ls = true ->
  encode_call ovf c false id a ls = Some w -> w buf = (out, Val (Some n)) ->
  (1 <=? id) && (id <=? 6) = true ->
  exists code cc fields, spec_response id a ls (c_eid_resp c) = Some (code, cc, fields) /\
    sub out 9 (n - 10) = [0; code; cc] ++ fields.
Proof. exact body_of_every_response. Qed.

Print Assumptions C07_body_of_every_response.
