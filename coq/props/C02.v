(* C02 — success only with a correct PEC; a bad PEC is inert; no burst of up to 8 bits turns an accepted packet
   into another accepted packet.  Property theorems only. *)
Require Import Base Crc Bitfield Headers Encode Decode Process Ops Spec Judge.
Require Import CrcFacts Hist DecodeFacts StepsSimple DecodeChar ProcessChar StepsRecv.
Open Scope N_scope.

(* (1) as the correspondence oracle states it *)
Theorem C02_oracle_holds_on_model : holds_on_model 2.
Proof. exact c02_holds. Qed.

(* (2) decode_packet returns Ok only if the last byte is the PEC of the bytes before it *)
Theorem C02_decode_ok_implies_pec : forall p d, bytes_ok p -> decode_packet p = Val (inl d) -> pec_good p = true.
Proof. exact decode_ok_implies_pec. Qed.

(* (3) ... and so does process_packet *)
Theorem C02_process_ok_implies_pec : forall ovf c p buf st r, bytes_ok p ->
  process_packet ovf c p buf = (st, Val (inl r)) -> pec_good p = true.
Proof. exact process_ok_implies_pec. Qed.

(* (4) with a bad PEC process_packet leaves the context (hence both EIDs) and the response buffer exactly as
   they were, whether it returns an error or panics, and never returns Ok *)
Theorem C02_bad_pec_inert : forall ovf c p buf, bytes_ok p -> pec_good p = false ->
  exists r, process_packet ovf c p buf = ((c, buf), r) /\ forall x, r <> Val (inl x).
Proof. exact bad_pec_inert. Qed.

(* (5) bursts.  An error pattern e of the packet's length whose set bits lie within 8 consecutive bit
   positions is `burst e` (StepsRecv.v): zeros, then the window w (0 < w < 256) shifted j < 8 bits into one
   byte and spilling into the next ([hi w j; lo w j], CrcFacts.v), then zeros; or, when the window starts in
   the last byte, zeros followed by one nonzero byte.  No such pattern maps an accepted packet to an
   accepted packet... *)
Theorem C02_burst_never_accepted : forall p e d, bytes_ok p -> decode_packet p = Val (inl d) ->
  length e = length p -> burst e -> forall d', decode_packet (xorl p e) <> Val (inl d').
Proof. exact burst_never_accepted. Qed.

(* ... and processing the corrupted packet changes nothing and does not return Ok *)
Theorem C02_burst_process_inert : forall ovf c p e buf d, bytes_ok p -> decode_packet p = Val (inl d) ->
  length e = length p -> burst e ->
  exists r, process_packet ovf c (xorl p e) buf = ((c, buf), r) /\ forall x, r <> Val (inl x).
Proof. exact burst_process_never_ok. Qed.

(* non-vacuity: an accepted packet; a 5-bit burst across bytes 10/11 of it is rejected with InvalidPEC; the
   oracle decides something on both a decode and a process of the corrupted packet *)
Example C02_nonvacuous :
  let p := [0x68;0x0F;0x0A;0x47;0x01;0x34;0x23;0xC8;0x00;0x80;0x01;0x00;0x56;0xD5] in
  let e := repeat 0 10 ++ [hi 0x1F 3; lo 0x1F 3] ++ repeat 0 2 in
  let g := {| g_addr := 0x23; g_msg_types := [0]; g_vendor_ids := [] |} in
  let ops := [ODecode (xorl p e); OProcess (xorl p e) (repeat 0xEE 20)] in
  decode_packet p = ok (MCtpControl, (11%nat, 2%nat)) /\ e = [0;0;0;0;0;0;0;0;0;0;3;0xE0;0;0] /\
  decode_packet (xorl p e) = err MCtpControl (DControlMessage CEInvalidPEC) /\
  map (fun s => (s_o s, s_nontrivial s)) (steps 2 true g ost0 ops (run true (ctx_of g) ops)) = [(true, true); (true, true)].
Proof. vm_compute. repeat split; reflexivity. Qed.

Print Assumptions C02_oracle_holds_on_model.
Print Assumptions C02_decode_ok_implies_pec.
Print Assumptions C02_process_ok_implies_pec.
Print Assumptions C02_bad_pec_inert.
Print Assumptions C02_burst_never_accepted.
Print Assumptions C02_burst_process_inert.

(* (6) bursts, stated on bit positions.  Bits are numbered MSB-first across the byte string: bit i lives in byte
   i/8 at mask 0x80 >> (i mod 8) (`ebit`, BurstBits.v).  `confined8 e k`: every set bit of e lies in the eight
   consecutive positions k .. k+7; `nonzero e`: some bit is set.  No corruption of an accepted packet confined
   to eight consecutive bits is ever accepted... *)
Require Import BurstBits.

Theorem C02_confined8_is_burst : forall e k, bytes_ok e -> nonzero e -> confined8 e k -> burst e.
Proof. exact confined8_burst. Qed.

Theorem C02_confined8_burst_never_accepted : forall p d e k, bytes_ok p -> decode_packet p = Val (inl d) ->
  bytes_ok e -> length e = length p -> nonzero e -> confined8 e k ->
  forall d', decode_packet (xorl p e) <> Val (inl d').
Proof. exact C02_confined_burst_never_accepted. Qed.

(* ... and processing the corrupted packet changes nothing and does not return Ok *)
Theorem C02_confined8_burst_process_inert : forall ovf c p e k buf d, bytes_ok p -> decode_packet p = Val (inl d) ->
  bytes_ok e -> length e = length p -> nonzero e -> confined8 e k ->
  exists r, process_packet ovf c (xorl p e) buf = ((c, buf), r) /\ forall x, r <> Val (inl x).
Proof. exact C02_confined_burst_process_inert. Qed.

(* non-vacuity: the pattern 0x03 0xC0 in bytes 2/3 has its four set bits at positions 22..25, inside the window
   22..29 (and inside no window starting after 22 or before 18); it is the 5-bit-wide burst of C02_nonvacuous
   when placed at bytes 10/11 of that packet, confined to the window starting at bit 86 *)
Example C02_confined8_example :
  confined8b [0;0;3;192;0] 22 = true /\ nonzerob [0;0;3;192;0] = true /\
  map (ebit [0;0;3;192;0]) (seq 20 8) = [false;false;true;true;true;true;false;false] /\
  confined8b [0;0;3;192;0] 18 = true /\ confined8b [0;0;3;192;0] 17 = false /\ confined8b [0;0;3;192;0] 23 = false /\
  confined8b [0;0;0;0;0;0;0;0;0;0;3;0xE0;0;0] 86 = true /\ nonzerob [0;0;0;0;0;0;0;0;0;0;3;0xE0;0;0] = true.
Proof. vm_compute. repeat split; reflexivity. Qed.

Example C02_confined8_example_prop : confined8 [0;0;3;192;0] 22 /\ nonzero [0;0;3;192;0].
Proof. split; [apply confined8b_sound|apply nonzerob_sound]; vm_compute; reflexivity. Qed.

Print Assumptions C02_confined8_is_burst.
Print Assumptions C02_confined8_burst_never_accepted.
Print Assumptions C02_confined8_burst_process_inert.
Print Assumptions C02_confined8_example_prop.

(* (7) one and two flipped bits.  `bit_err n i` is the n-byte pattern whose only set bit is bit i (MSB-first numbering
   as above), `two_bit n i j` has exactly bits i and j set (TwoBit.v).  CRC-8 with x^8+x^2+x+1 has Hamming distance 3
   up to 127 bits: the multiplicative order of x modulo the polynomial is 127 (`x_order`).  Hence a single flipped
   bit anywhere, and two flipped bits whose distance is not a multiple of 127, never map an accepted packet to an
   accepted packet ... *)
Require Import BurstBits TwoBit.

Theorem C02_one_bit_never_accepted : forall p d i, bytes_ok p -> decode_packet p = Val (inl d) ->
  (i < 8 * length p)%nat -> forall d', decode_packet (xorl p (bit_err (length p) i)) <> Val (inl d').
Proof. exact one_bit_never_accepted. Qed.

Theorem C02_two_bits_never_accepted : forall p d i j, bytes_ok p -> decode_packet p = Val (inl d) ->
  (i < j)%nat -> (j < 8 * length p)%nat -> ((j - i) mod 127 <> 0)%nat ->
  forall d', decode_packet (xorl p (two_bit (length p) i j)) <> Val (inl d').
Proof. exact two_bit_never_accepted. Qed.

Theorem C02_two_bits_process_inert : forall ovf c p buf d i j, bytes_ok p -> decode_packet p = Val (inl d) ->
  (i < j)%nat -> (j < 8 * length p)%nat -> ((j - i) mod 127 <> 0)%nat ->
  exists r, process_packet ovf c (xorl p (two_bit (length p) i j)) buf = ((c, buf), r) /\ forall x, r <> Val (inl x).
Proof. exact two_bit_process_never_ok. Qed.

(* ... and the side condition is necessary, for every packet: two flips a multiple of 127 bits apart leave the CRC
   of the whole string at 0, so the PEC check cannot notice them (a limit of the 8-bit PEC, not of the library) *)
Theorem C02_two_bits_127_apart_pass_the_pec : forall p i j, bytes_ok p -> pec p = 0 ->
  (i < j)%nat -> (j < 8 * length p)%nat -> ((j - i) mod 127 = 0)%nat ->
  pec (xorl p (two_bit (length p) i j)) = 0.
Proof. exact two_bit_blind. Qed.

(* witness: a 30-byte PCI vendor message, bits 90 and 217 (both in the payload) flipped: still accepted *)
Theorem C02_two_bits_127_apart_still_accepted : exists p i j d d', bytes_ok p /\ (i < j)%nat /\ (j < 8 * length p)%nat /\
  (j - i = 127)%nat /\ decode_packet p = Val (inl d) /\
  decode_packet (xorl p (two_bit (length p) i j)) = Val (inl d') /\ xorl p (two_bit (length p) i j) <> p.
Proof. exact two_bits_127_apart_undetected. Qed.

Print Assumptions C02_one_bit_never_accepted.
Print Assumptions C02_two_bits_never_accepted.
Print Assumptions C02_two_bits_process_inert.
Print Assumptions C02_two_bits_127_apart_pass_the_pec.
Print Assumptions C02_two_bits_127_apart_still_accepted.

(* (8) any odd number of flipped bits.  The PEC polynomial has the factor x+1, so the parity of the remainder is the
   parity of the message (OddWeight.v: `par_crc_from`); an error pattern with an odd number of set bits (counted in
   the MSB-first bit numbering above) therefore never maps an accepted packet to an accepted packet *)
Require Import OddWeight.

Theorem C02_odd_number_of_flipped_bits_never_accepted : forall p e d, bytes_ok p -> decode_packet p = Val (inl d) ->
  bytes_ok e -> length e = length p -> Nat.odd (length (filter (ebit e) (seq 0 (8 * length e)))) = true ->
  forall d', decode_packet (xorl p e) <> Val (inl d').
Proof. exact odd_number_of_flipped_bits_never_accepted. Qed.

Theorem C02_odd_number_of_flipped_bits_process_inert : forall ovf c p e buf d, bytes_ok p -> decode_packet p = Val (inl d) ->
  bytes_ok e -> length e = length p -> Nat.odd (length (filter (ebit e) (seq 0 (8 * length e)))) = true ->
  exists r, process_packet ovf c (xorl p e) buf = ((c, buf), r) /\ forall x, r <> Val (inl x).
Proof. exact odd_number_of_flipped_bits_process_never_ok. Qed.

Print Assumptions C02_odd_number_of_flipped_bits_never_accepted.
Print Assumptions C02_odd_number_of_flipped_bits_process_inert.

(* ---------- "... nor any later output", for whole histories (proofs/Twin.v) ----------
   bad_pec_process o: o is process_packet on a byte string whose last byte is not the PEC of the rest.  run_keep is
   the history's list of observations (each with both get_eid() values) with those operations' own observations
   removed.  For every well-formed history it equals the list of observations of the history WITHOUT those operations:
   a packet with a wrong PEC changes no later result, no later buffer, no later EID — nothing.  This is the statement
   the harness checks against the code with its twin context. *)
Require Import Twin.
Theorem C02_bad_pec_changes_no_later_output : forall ovf ops c, Forall wf_op ops ->
  run_keep ovf c ops = run ovf c (filter (fun o => negb (bad_pec_process o)) ops).
Proof. exact twin_history. Qed.
Theorem C02_bad_pec_changes_no_later_state : forall ovf ops c, Forall wf_op ops ->
  run_ctx ovf c ops = run_ctx ovf c (filter (fun o => negb (bad_pec_process o)) ops).
Proof. exact twin_final_ctx. Qed.

Print Assumptions C02_bad_pec_changes_no_later_output.
Print Assumptions C02_bad_pec_changes_no_later_state.
