(* C15 — Get Message Type Support, Get Endpoint UUID and Get MCTP Version Support report the configured message
   types, the UUID most recently installed and version 1.3.1.  Property theorems only. *)
Require Import Base Crc Bitfield Headers Encode Decode Process Ops Spec Judge.
Require Import Hist StepsSimple StepsEncode DecodeChar ProcessChar StepsProcess.
Open Scope N_scope.

(* (1) as the correspondence oracle states it: in every well-formed history on a validly configured context, given
   64 bytes, an accepted Get Message Type Support request is answered [5; Success; count; the configured types],
   Get Endpoint UUID [3; Success; the 16 bytes last installed with set_uuid (zeros before any)], Get MCTP Version
   Support [4; Success; 1 entry; F1 F3 F1 00], and the reported length is exactly that body plus framing and PEC *)
Theorem C15_oracle_holds_on_model : holds_on_model 15.
Proof. exact c15_holds. Qed.

(* (2) the three answers without the oracle: context unchanged, and the whole buffer afterwards *)
Theorem C15_message_types : forall ovf g c p buf,
  wf_cfg g -> cinv g c -> bytes_ok p -> accepted_request p = true -> (64 <= length buf)%nat ->
  ctl_cmd p = 5 -> (length (g_msg_types g) <= 30)%nat ->
  step ovf c (OProcess p buf) =
  (c, resp_obs g p 0 (N.of_nat (length (g_msg_types g)) :: g_msg_types g) buf).
Proof. exact step_get_msg_types. Qed.

Theorem C15_uuid : forall ovf g c p buf,
  wf_cfg g -> cinv g c -> bytes_ok p -> accepted_request p = true -> (64 <= length buf)%nat ->
  ctl_cmd p = 3 -> step ovf c (OProcess p buf) = (c, resp_obs g p 0 (c_uuid c) buf).
Proof. exact step_get_uuid. Qed.

Theorem C15_version : forall ovf g c p buf,
  wf_cfg g -> cinv g c -> bytes_ok p -> accepted_request p = true -> (64 <= length buf)%nat ->
  ctl_cmd p = 4 -> step ovf c (OProcess p buf) = (c, resp_obs g p 0 [1; 241; 243; 241; 0] buf).
Proof. exact step_get_version. Qed.

(* non-vacuity: message types, the initial (zero) UUID, a set_uuid (outside the claim), the new UUID, the version *)
Example C15_nonvacuous :
  let g := {| g_addr := 0x10; g_msg_types := [0; 5; 0x7E];
              g_vendor_ids := [{| v_format := 0; v_data := 0x8086; v_numeric := 0x1234 |}] |} in
  let guuid := [32; 15; 8; 71; 1; 16; 35; 200; 0; 128; 3; 253] in
  let ops := [OProcess [32; 15; 8; 71; 1; 16; 35; 200; 0; 128; 5; 239] (repeat 0 64);
              OProcess guuid (repeat 0 64); OSetUuid [1; 2; 3; 4; 5; 6; 7; 8; 9; 10; 11; 12; 13; 14; 15; 16];
              OProcess guuid (repeat 0 64);
              OProcess [32; 15; 9; 71; 1; 16; 35; 200; 0; 128; 4; 255; 13] (repeat 0 64)] in
  map (fun s => (s_o s, s_nontrivial s)) (steps 15 true g ost0 ops (run true (ctx_of g) ops))
    = [(true, true); (true, true); (true, false); (true, true); (true, true)].
Proof. vm_compute. reflexivity. Qed.

Print Assumptions C15_oracle_holds_on_model.
Print Assumptions C15_message_types.
Print Assumptions C15_uuid.
Print Assumptions C15_version.

(* ---------- over whole histories, from the refinement (proofs/UuidLast.v) ----------
   last_uuid ops d is the argument of the last well-formed (16-byte) set_uuid call in ops, d if there is none.
   After ANY well-formed history — processed packets of every kind, decodes, encoder calls, accessor calls in any
   order — the UUID the context holds is last_uuid ops (16 zero bytes), and a Get Endpoint UUID request placed
   anywhere in a history is answered with exactly the UUID last installed before it. *)
Require Import Refine UuidLast.
Theorem C15_uuid_is_last_installed : forall ovf g ops,
  wf_cfg g -> valid_cfg g = true -> Forall wf_op ops ->
  c_uuid (run_ctx ovf (ctx_of g) ops) = last_uuid ops (repeat 0 16).
Proof. exact uuid_is_last_installed. Qed.
Theorem C15_get_uuid_answers_last_installed : forall ovf g pre p buf post,
  wf_cfg g -> valid_cfg g = true -> Forall wf_op (pre ++ OProcess p buf :: post) ->
  answered g p buf = true -> ctl_cmd p = 3 ->
  exists eids,
    nth_error (run ovf (ctx_of g) (pre ++ OProcess p buf :: post)) (length pre) =
    Some (resp_obs g p 0 (last_uuid pre (repeat 0 16)) buf, eids).
Proof. exact get_uuid_answers_last_installed. Qed.

Print Assumptions C15_uuid_is_last_installed.
Print Assumptions C15_get_uuid_answers_last_installed.
