(* C11 — process_packet agrees with decode_packet on the same bytes; a response is written only for an accepted
   control request, and then only below the reported length; otherwise the buffer is untouched.
   Property theorems only. *)
Require Import Base Crc Bitfield Headers Encode Decode Process Ops Spec Judge.
Require Import Hist DecodeFacts StepsSimple StepsEncode DecodeChar ProcessChar StepsRecv.
Open Scope N_scope.

(* (1) as the correspondence oracle states it *)
Theorem C11_oracle_holds_on_model : holds_on_model 11.
Proof. exact c11_holds. Qed.

(* (2) whenever process_packet returns (does not panic), the decode part of what it returns — the decoded
   (type, range) of an Ok, or the error — is exactly what decode_packet returns on the same bytes *)
Theorem C11_process_agrees_with_decode : forall ovf c p buf st r, bytes_ok p ->
  process_packet ovf c p buf = (st, Val r) -> decode_packet p = Val (decode_part r).
Proof. exact process_agrees_with_decode. Qed.

(* (3) unless the result is Ok(_, Some n) the buffer (and the context) is unchanged; Some n is returned only
   for an accepted control request, the buffer keeps its length and everything from index n on *)
Theorem C11_buffer_untouched_unless_request : forall ovf c p buf c' b r, bytes_ok p -> c_addr c < 256 ->
  process_packet ovf c p buf = ((c', b), Val r) ->
  match r with
  | inl (_, Some n) => accepted_request p = true /\ length b = length buf /\ skipn n b = skipn n buf
  | _ => b = buf /\ c' = c
  end.
Proof. exact buffer_untouched_unless_request. Qed.

(* (4) the four cases of process_packet in terms of decode_packet (ProcessChar.v) *)
Theorem C11_process_by_cases : forall ovf c p buf, bytes_ok p ->
  match decode_packet p with
  | Panic k => process_packet ovf c p buf = ((c, buf), Panic k)
  | Val (inr e) => process_packet ovf c p buf = ((c, buf), Val (inr e))
  | Val (inl (mt, rng)) =>
      if msg_type_eqb mt MCtpControl && is_request p then
        rng = (11%nat, (length p - 12)%nat) /\
        process_packet ovf c p buf =
          (let '(st, r) := dispatch_request ovf c buf (ctl_cmd p) (nth 6 p 0) (sub p 11 (length p - 12)) in
           (st, match r with
                | Panic k => Panic k
                | Val len => ok ((MCtpControl, (11%nat, (length p - 12)%nat)), Some len)
                end))
      else process_packet ovf c p buf = ((c, buf), ok ((mt, rng), None))
  end.
Proof. exact process_char. Qed.

(* non-vacuity: decode then process a Get Endpoint ID request; a vendor message; a packet with a bad PEC *)
Example C11_nonvacuous :
  let g := {| g_addr := 0x23; g_msg_types := [0]; g_vendor_ids := [] |} in
  let rq := [0x46;0x0F;0x08;0x69;0x01;0x23;0x34;0xC8;0x00;0x80;0x02] in
  let p := rq ++ [pec rq] in
  let v := [0x46;0x0F;0x08;0x69;0x01;0x23;0x34;0xC8;0x7E;0x12;0x34] in
  let q := v ++ [pec v] in
  let ops := [ODecode p; OProcess p (repeat 0xEE 20); ODecode q; OProcess q (repeat 0xEE 20);
              OProcess (rq ++ [0]) (repeat 0xEE 20)] in
  map (fun s => (s_o s, s_nontrivial s)) (steps 11 true g ost0 ops (run true (ctx_of g) ops))
    = [(true, false); (true, true); (true, false); (true, true); (true, true)]
  /\ match fst (nth 1 (run true (ctx_of g) ops) (XBad, (0, 0))) with
     | XProcess (inl ((MCtpControl, (11%nat, 0%nat)), Some 16%nat)) b => list_eqb (skipn 16 b) (repeat 0xEE 4)
     | _ => false end = true.
Proof. vm_compute. split; reflexivity. Qed.

Print Assumptions C11_oracle_holds_on_model.
Print Assumptions C11_process_agrees_with_decode.
Print Assumptions C11_buffer_untouched_unless_request.
Print Assumptions C11_process_by_cases.
