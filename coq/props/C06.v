(* C06 — control request bodies follow the DSP0236 command layouts.  Property theorems only. *)
Require Import Base Crc Bitfield Headers Encode Decode Process Ops Spec Judge.
Require Import HeaderForms IanaForm PecFacts EncodeFacts DecodeFacts Hist StepsSimple StepsEncode.
Require Import Readable.
Open Scope N_scope.

(* (1) in every well-formed history, every successfully encoded control request has body
   0x80 (Rq 1, D 0, rsvd 0, instance 0), the DSP0236 command code, then exactly the command's parameters —
   except query_hop, whose command-code byte is the recorded known finding 601 (everything else about it holds) *)
Theorem C06_oracle_holds_on_model : holds_on_model 6.
Proof. exact c06_holds. Qed.

(* (2) the finding is real in the model: query_hop's body carries 0x0E where DSP0236 says 0x0F *)
Theorem C06_query_hop_refuted :
  exists g ops, forallb (fun s => s_o s) (steps 6 true g ost0 ops (run true (ctx_of g) ops)) = false.
Proof.
  exists {| g_addr := 0x23; g_msg_types := []; g_vendor_ids := [] |}.
  exists [OEncode true 15 [0x34; 0x45; 0x7E] [] (repeat 0 14)]. vm_compute. reflexivity.
Qed.

(* (3) the control header in closed form *)
Theorem C06_control_header : forall (rq d : bool) inst cmd, inst < 256 -> cmd < 256 ->
  control_header_new rq d inst cmd = [N.b2n rq * 128 + N.b2n d * 64 + inst mod 32; cmd].
Proof. exact control_header_closed. Qed.

Example C06_nonvacuous :
  let g := {| g_addr := 0x23; g_msg_types := []; g_vendor_ids := [] |} in
  let ops := [OEncode true 8 [0x34; 1; 0x11; 0x22] [] (repeat 0 15); OEncode true 16 [0x34; 9] [repeat 7 16] (repeat 0 29)] in
  map (fun s => (s_o s, s_nontrivial s)) (steps 6 true g ost0 ops (run true (ctx_of g) ops)) = [(true, true); (true, true)].
Proof. vm_compute. reflexivity. Qed.

Print Assumptions C06_oracle_holds_on_model.
Print Assumptions C06_query_hop_refuted.
Print Assumptions C06_control_header.

(* ---------- stated directly about an encoder call (no oracle to read) ---------- *)
(* (4) every successfully encoded control request other than query_hop: between the message-type byte and the PEC
   lie exactly 0x80, the DSP0236 command code, and the command's parameters *)
Theorem C06_body_of_every_request : forall ovf g c id a ls w buf out n,
  wf_cfg g -> cinv g c -> args_okb true id a ls = true ->
  encode_call ovf c true id a ls = Some w -> w buf = (out, Val (Some n)) ->
  (1 <=? id) && (id <=? 17) = true -> id <> 15 ->
  exists code params, spec_request id a ls = Some (code, params) /\ sub out 9 (n - 10) = [128; code] ++ params.
Proof. exact body_of_every_request. Qed.

(* (5) query_hop: command code 0x0E (known finding 601; DSP0236 says 0x0F), the rest as specified *)
Theorem C06_query_hop_body : forall ovf g c a ls w buf out n,
  wf_cfg g -> cinv g c -> args_okb true 15 a ls = true ->
  encode_call ovf c true 15 a ls = Some w -> w buf = (out, Val (Some n)) ->
  sub out 9 (n - 10) = [128; 14; arg a 1; arg a 2].
Proof. exact query_hop_body. Qed.

Print Assumptions C06_body_of_every_request.
Print Assumptions C06_query_hop_body.
