(* C12 — every answerable accepted request is answered with a well-formed response packet travelling back to the
   requester, same command, completion code 0..5.  Property theorems only. *)
Require Import Base Crc Bitfield Headers Encode Decode Process Ops Spec Judge.
Require Import Hist StepsSimple StepsEncode DecodeChar ProcessChar StepsProcess.
Open Scope N_scope.

(* (1) as the correspondence oracle states it: in every well-formed history, whenever process_packet is given an
   accepted control request with command 1..6 outside the processor's panic classes, a validly configured context
   and a buffer of at least 64 bytes, it reports a response of n >= 13 bytes whose first nine bytes are the SMBus /
   transport framing back to the requester (destination = requester, source = own address, byte count n-4,
   SOM/EOM/TO flags 0xC8, message type 0), whose last byte is the PEC of the others, with Rq/D/reserved clear, the
   request's command code and a completion code <= 5.  The instance ID is NOT echoed (the model, like the code,
   answers with instance 0): known-finding class 1201 on requests with a non-zero instance ID *)
Theorem C12_oracle_holds_on_model : holds_on_model 12.
Proof. exact c12_holds. Qed.

(* (2) the same without the oracle: such a request is answered, no panic, and the whole buffer afterwards is
   spec_packet (own address) (requester) 0 ([0; command; cc] ++ fields) followed by the untouched rest *)
Theorem C12_answerable_requests_are_answered : forall ovf g c p buf,
  wf_cfg g -> cinv g c -> bytes_ok p -> accepted_request p = true -> answerable (ctl_cmd p) = true ->
  (64 <= length buf)%nat -> process_panic_class true g p = 0 -> valid_cfg g = true ->
  exists c' cc fields, cc <= 5 /\ (length fields <= 31)%nat /\
    step ovf c (OProcess p buf) =
      (c', XProcess (inl ((MCtpControl, (11%nat, (length p - 12)%nat)), Some (13 + length fields)%nat))
                    (spec_packet (g_addr g) (nth 6 p 0) 0 ([0; ctl_cmd p; cc] ++ fields) ++
                     skipn (13 + length fields) buf)).
Proof. exact answer_exists. Qed.

(* (3) process_packet on an accepted request with a tabulated command is dispatch_request on the command byte, the
   source EID and the payload bytes 11 .. len-2 *)
Theorem C12_process_is_dispatch : forall ovf c p buf,
  bytes_ok p -> accepted_request p = true -> ctl_cmd p < 9 ->
  process_packet ovf c p buf =
    (let '(st, r) := dispatch_request ovf c buf (ctl_cmd p) (nth 6 p 0) (sub p 11 (length p - 12)) in
     (st, match r with
          | Panic k => Panic k
          | Val len => ok ((MCtpControl, (11%nat, (length p - 12)%nat)), Some len)
          end)).
Proof. exact process_accepted. Qed.

(* non-vacuity: Get Endpoint ID, Set Endpoint ID, Get Vendor Defined Message Support (selector 1), Get UUID and
   Get Message Type Support from requester 0x23 to the responder 0x10 are all judged, and hold; the same Get
   Endpoint ID with instance ID 5 is answered with instance 0: statement false, known-finding class 1201 *)
Example C12_nonvacuous :
  let g := {| g_addr := 0x10; g_msg_types := [0; 5; 0x7E];
              g_vendor_ids := [{| v_format := 0; v_data := 0x8086; v_numeric := 0x1234 |};
                               {| v_format := 1; v_data := 0xA2B3; v_numeric := 7 |}] |} in
  let ops := [OProcess [32; 15; 8; 71; 1; 16; 35; 200; 0; 128; 2; 250] (repeat 0 64);
              OProcess [32; 15; 10; 71; 1; 16; 35; 200; 0; 128; 1; 0; 86; 176] (repeat 0 64);
              OProcess [32; 15; 9; 71; 1; 16; 35; 200; 0; 128; 6; 1; 211] (repeat 0 64);
              OProcess [32; 15; 8; 71; 1; 16; 35; 200; 0; 128; 3; 253] (repeat 0 64);
              OProcess [32; 15; 8; 71; 1; 16; 35; 200; 0; 128; 5; 239] (repeat 0 64)] in
  let kf := [OProcess [32; 15; 8; 71; 1; 16; 35; 200; 0; 133; 2; 187] (repeat 0 64)] in
  map (fun s => (s_o s, s_nontrivial s)) (steps 12 true g ost0 ops (run true (ctx_of g) ops))
    = [(true, true); (true, true); (true, true); (true, true); (true, true)] /\
  map (fun s => (s_o s, s_kf s)) (steps 12 true g ost0 kf (run true (ctx_of g) kf)) = [(false, 1201)].
Proof. vm_compute. split; reflexivity. Qed.

Print Assumptions C12_oracle_holds_on_model.
Print Assumptions C12_answerable_requests_are_answered.
Print Assumptions C12_process_is_dispatch.

(* (4) interoperability: what the responder writes, the library's own decoder (the requester side, C01 / C09) is
   given back.  For every answerable accepted request outside the processor's panic classes the first n bytes of
   the output decode to: the unsuccessful-completion error 2 for Set Discovered Flag, a Success payload of the
   n - 13 data bytes for Set / Force EID, Get UUID, Get Version, Get Message Type Support and Get Vendor Support —
   and, for Get Endpoint ID, InvalidRequestDataLength: the responder writes the 3 data bytes DSP0236 defines, the
   library's response-length table says 4, so the library rejects its own answer (known finding 101 of C01,
   here in the process -> decode direction).  Interop.v has the per-command forms with the data bytes. *)
Require Import Interop.

Theorem C12_own_answers_go_through_the_own_decoder : forall ovf g c p buf,
  wf_cfg g -> cinv g c -> bytes_ok p -> accepted_request p = true -> answerable (ctl_cmd p) = true ->
  (64 <= length buf)%nat -> process_panic_class true g p = 0 -> valid_cfg g = true ->
  exists c' n out, (13 <= n <= 44)%nat /\
    step ovf c (OProcess p buf) =
      (c', XProcess (inl ((MCtpControl, (11%nat, (length p - 12)%nat)), Some n)) out) /\
    decode_packet (firstn n out) =
      (if ctl_cmd p =? 2 then err MCtpControl (DControlMessage CEInvalidRequestDataLength)
       else if (ctl_cmd p =? 1) && (nth 11 p 0 =? 3) then err MCtpControl (DControlMessage (CEUnsuccessfulCompletionCode 2))
       else ok (MCtpControl, (12%nat, (n - 13)%nat))).
Proof. exact own_answers_decoded. Qed.

Theorem C12_get_endpoint_id_answer_is_rejected_by_the_own_decoder : forall ovf g c p buf,
  wf_cfg g -> cinv g c -> bytes_ok p -> (64 <= length buf)%nat -> accepted_request p = true -> ctl_cmd p = 2 ->
  exists out,
    step ovf c (OProcess p buf) = (c, XProcess (inl ((MCtpControl, (11%nat, (length p - 12)%nat)), Some 16%nat)) out) /\
    decode_packet (firstn 16 out) = err MCtpControl (DControlMessage CEInvalidRequestDataLength) /\
    sub (firstn 16 out) 12 3 = [c_eid_resp c; 0; 0].
Proof. exact get_eid_response_rejected. Qed.

Theorem C12_set_endpoint_id_answer_decodes : forall ovf g c p buf,
  wf_cfg g -> cinv g c -> bytes_ok p -> (64 <= length buf)%nat -> assigning p = true ->
  exists out,
    step ovf c (OProcess p buf) =
      (set_eid_req (set_eid_resp c (nth 12 p 0)) (nth 12 p 0),
       XProcess (inl ((MCtpControl, (11%nat, 2%nat)), Some 16%nat)) out) /\
    decode_packet (firstn 16 out) = ok (MCtpControl, (12%nat, 3%nat)) /\
    sub (firstn 16 out) 12 3 = [0; nth 12 p 0; 0].
Proof. exact set_eid_response_decodes. Qed.

Print Assumptions C12_own_answers_go_through_the_own_decoder.
Print Assumptions C12_get_endpoint_id_answer_is_rejected_by_the_own_decoder.
Print Assumptions C12_set_endpoint_id_answer_decodes.

(* ---------- whole conversations (proofs/Conversation.v) ----------
   Requester A (configuration gA, context cA at any point of a history) calls one of its request encoders; the n bytes
   it wrote are handed to responder B's process_packet (gB, cB, response buffer of at least 64 bytes); the bytes B
   wrote are handed back to A's decode_packet.  Each theorem gives B's new context, the length B reports, what A's
   decoder says, the data A reads, and that the answer is addressed back to A (byte 0 = A's address as SMBus
   destination, byte 5 = A's address as destination EID, the first twelve bytes as a whole = answer_head).
   This composes C06/C16 (what the encoder writes), C09/C11 (it is an accepted request), C12-C15 (the answer) and
   C01 (the answer through the decoder) into one statement per command, with no hypothesis on the bytes in between. *)
Require Import StepsRecv Conversation.

Theorem C12_conversation_set_eid : forall ovf gA cA gB cB a ls wA bufA outA n bufB,
  wf_cfg gA -> cinv gA cA -> wf_cfg gB -> cinv gB cB -> (64 <= length bufB)%nat ->
  args_okb true 1 a ls = true -> (arg a 1 = 0 \/ arg a 1 = 1) ->
  encode_call ovf cA true 1 a ls = Some wA -> wA bufA = (outA, Val (Some n)) ->
  exists outB,
    step ovf cB (OProcess (firstn n outA) bufB) =
      (set_eid_req (set_eid_resp cB (arg a 2)) (arg a 2),
       XProcess (inl ((MCtpControl, (11%nat, 2%nat)), Some 16%nat)) outB) /\
    decode_packet (firstn 16 outB) = ok (MCtpControl, (12%nat, 3%nat)) /\
    sub (firstn 16 outB) 12 3 = [0; arg a 2; 0] /\
    nth 0 outB 0 = (g_addr gA mod 128) * 2 /\ nth 5 outB 0 = g_addr gA /\
    firstn 12 outB = answer_head (g_addr gA) (g_addr gB) 1 0 3.
Proof. exact conversation_set_eid. Qed.

Theorem C12_conversation_set_discovered_flag : forall ovf gA cA gB cB a ls wA bufA outA n bufB,
  wf_cfg gA -> cinv gA cA -> wf_cfg gB -> cinv gB cB -> (64 <= length bufB)%nat ->
  args_okb true 1 a ls = true -> arg a 1 = 3 ->
  encode_call ovf cA true 1 a ls = Some wA -> wA bufA = (outA, Val (Some n)) ->
  exists outB,
    step ovf cB (OProcess (firstn n outA) bufB) =
      (cB, XProcess (inl ((MCtpControl, (11%nat, 2%nat)), Some 16%nat)) outB) /\
    decode_packet (firstn 16 outB) = err MCtpControl (DControlMessage (CEUnsuccessfulCompletionCode 2)) /\
    nth 0 outB 0 = (g_addr gA mod 128) * 2 /\ nth 5 outB 0 = g_addr gA /\
    firstn 12 outB = answer_head (g_addr gA) (g_addr gB) 1 2 3.
Proof. exact conversation_set_discovered_flag. Qed.

Theorem C12_conversation_get_eid : forall ovf gA cA gB cB a ls wA bufA outA n bufB,
  wf_cfg gA -> cinv gA cA -> wf_cfg gB -> cinv gB cB -> (64 <= length bufB)%nat ->
  args_okb true 2 a ls = true ->
  encode_call ovf cA true 2 a ls = Some wA -> wA bufA = (outA, Val (Some n)) ->
  exists outB,
    step ovf cB (OProcess (firstn n outA) bufB) =
      (cB, XProcess (inl ((MCtpControl, (11%nat, 0%nat)), Some 16%nat)) outB) /\
    decode_packet (firstn 16 outB) = err MCtpControl (DControlMessage CEInvalidRequestDataLength) /\
    sub (firstn 16 outB) 12 3 = [c_eid_resp cB; 0; 0] /\
    nth 0 outB 0 = (g_addr gA mod 128) * 2 /\ nth 5 outB 0 = g_addr gA /\
    firstn 12 outB = answer_head (g_addr gA) (g_addr gB) 2 0 3.
Proof. exact conversation_get_eid. Qed.

Theorem C12_conversation_get_uuid : forall ovf gA cA gB cB a ls wA bufA outA n bufB,
  wf_cfg gA -> cinv gA cA -> wf_cfg gB -> cinv gB cB -> (64 <= length bufB)%nat ->
  args_okb true 3 a ls = true ->
  encode_call ovf cA true 3 a ls = Some wA -> wA bufA = (outA, Val (Some n)) ->
  exists outB,
    step ovf cB (OProcess (firstn n outA) bufB) =
      (cB, XProcess (inl ((MCtpControl, (11%nat, 0%nat)), Some 29%nat)) outB) /\
    decode_packet (firstn 29 outB) = ok (MCtpControl, (12%nat, 16%nat)) /\
    sub (firstn 29 outB) 12 16 = c_uuid cB /\
    nth 0 outB 0 = (g_addr gA mod 128) * 2 /\ nth 5 outB 0 = g_addr gA /\
    firstn 12 outB = answer_head (g_addr gA) (g_addr gB) 3 0 16.
Proof. exact conversation_get_uuid. Qed.

Theorem C12_conversation_get_version : forall ovf gA cA gB cB a ls wA bufA outA n bufB,
  wf_cfg gA -> cinv gA cA -> wf_cfg gB -> cinv gB cB -> (64 <= length bufB)%nat ->
  args_okb true 4 a ls = true ->
  encode_call ovf cA true 4 a ls = Some wA -> wA bufA = (outA, Val (Some n)) ->
  exists outB,
    step ovf cB (OProcess (firstn n outA) bufB) =
      (cB, XProcess (inl ((MCtpControl, (11%nat, 1%nat)), Some 18%nat)) outB) /\
    decode_packet (firstn 18 outB) = ok (MCtpControl, (12%nat, 5%nat)) /\
    sub (firstn 18 outB) 12 5 = [1; 241; 243; 241; 0] /\
    nth 0 outB 0 = (g_addr gA mod 128) * 2 /\ nth 5 outB 0 = g_addr gA /\
    firstn 12 outB = answer_head (g_addr gA) (g_addr gB) 4 0 5.
Proof. exact conversation_get_version. Qed.

Theorem C12_conversation_get_msg_types : forall ovf gA cA gB cB a ls wA bufA outA n bufB,
  wf_cfg gA -> cinv gA cA -> wf_cfg gB -> cinv gB cB -> valid_cfg gB = true -> (64 <= length bufB)%nat ->
  args_okb true 5 a ls = true ->
  encode_call ovf cA true 5 a ls = Some wA -> wA bufA = (outA, Val (Some n)) ->
  let k := S (length (g_msg_types gB)) in
  exists outB,
    step ovf cB (OProcess (firstn n outA) bufB) =
      (cB, XProcess (inl ((MCtpControl, (11%nat, 0%nat)), Some (13 + k)%nat)) outB) /\
    decode_packet (firstn (13 + k) outB) = ok (MCtpControl, (12%nat, k)) /\
    sub (firstn (13 + k) outB) 12 k = N.of_nat (length (g_msg_types gB)) :: g_msg_types gB /\
    nth 0 outB 0 = (g_addr gA mod 128) * 2 /\ nth 5 outB 0 = g_addr gA /\
    firstn 12 outB = answer_head (g_addr gA) (g_addr gB) 5 0 k.
Proof. exact conversation_get_msg_types. Qed.

Theorem C12_conversation_get_vendor : forall ovf gA cA gB cB a ls wA bufA outA n bufB v,
  let nB := N.of_nat (length (g_vendor_ids gB)) in
  let i := arg a 1 in
  let next := if i + 1 =? nB then 255 else i + 1 in
  let k := S (length (enc_vendor_set v)) in
  wf_cfg gA -> cinv gA cA -> wf_cfg gB -> cinv gB cB -> valid_cfg gB = true -> (64 <= length bufB)%nat ->
  args_okb true 6 a ls = true -> i < nB -> nth_error (g_vendor_ids gB) (N.to_nat i) = Some v ->
  encode_call ovf cA true 6 a ls = Some wA -> wA bufA = (outA, Val (Some n)) ->
  exists outB,
    step ovf cB (OProcess (firstn n outA) bufB) =
      (set_selector cB next, XProcess (inl ((MCtpControl, (11%nat, 1%nat)), Some (13 + k)%nat)) outB) /\
    decode_packet (firstn (13 + k) outB) = ok (MCtpControl, (12%nat, k)) /\
    sub (firstn (13 + k) outB) 12 k = next :: enc_vendor_set v /\
    nth 0 outB 0 = (g_addr gA mod 128) * 2 /\ nth 5 outB 0 = g_addr gA /\
    firstn 12 outB = answer_head (g_addr gA) (g_addr gB) 6 0 k.
Proof. exact conversation_get_vendor. Qed.

Theorem C12_conversation_unanswerable_panics : forall ovf gA cA gB cB id a ls wA bufA outA n bufB,
  wf_cfg gA -> cinv gA cA -> id = 7 \/ id = 8 -> args_okb true id a ls = true ->
  encode_call ovf cA true id a ls = Some wA -> wA bufA = (outA, Val (Some n)) ->
  let p := firstn n outA in
  accepted_request p = true /\ ctl_cmd p = id /\
  process_panic_class ovf gB p = 1015 /\ recv_panic_class ovf gB p = 1015 /\
  step ovf cB (OProcess p bufB) = (cB, XPanic bufB).
Proof. exact conversation_unanswerable_panics. Qed.

Print Assumptions C12_conversation_set_eid.
Print Assumptions C12_conversation_set_discovered_flag.
Print Assumptions C12_conversation_get_eid.
Print Assumptions C12_conversation_get_uuid.
Print Assumptions C12_conversation_get_version.
Print Assumptions C12_conversation_get_msg_types.
Print Assumptions C12_conversation_get_vendor.
Print Assumptions C12_conversation_unanswerable_panics.
