(* C03 — every encoded packet ends with the correct SMBus PEC.  Property theorems only. *)
Require Import Base Crc Bitfield Headers Encode Decode Process Ops Spec Judge.
Require Import CrcFacts PecFacts Hist StepsEncode C03Full Extra.
Open Scope N_scope.

(* (1) For every operation on every context in either overflow mode, a successful encode leaves a buffer whose
   byte n-1 is the PEC (model of smbus_pec::pec) of bytes 0..n-2, and the CRC of all n bytes is 0. *)
Theorem C03_encoded_packet_ends_with_pec :
  forall ovf c o, s_o (c03_step o (snd (step ovf c o))) = true.
Proof. exact c03_step_all. Qed.

(* (1') the same, as the oracle is run over whole histories *)
Theorem C03_oracle_holds_on_model : holds_on_model 3.
Proof. exact c03_holds_hist. Qed.

(* (2) The PEC function is CRC-8 with polynomial x^8+x^2+x+1, init 0, MSB first, no final xor:
   pec l is a remainder of M(x)*x^8 modulo g(x) ... *)
Theorem C03_pec_is_polynomial_remainder :
  forall l, bytes_ok l -> exists q, N.shiftl (BE l) 8 = N.lxor (mulg q) (pec l) /\ pec l < 256.
Proof. exact pec_is_remainder. Qed.

(* ... and (3) that remainder is unique, so pec is *the* SMBus PEC. *)
Theorem C03_remainder_unique :
  forall M q1 r1 q2 r2, r1 < 256 -> r2 < 256 ->
    M = N.lxor (mulg q1) r1 -> M = N.lxor (mulg q2) r2 -> r1 = r2.
Proof. exact remainder_unique. Qed.

(* (4) the responses process_packet writes: whenever process_packet reports a response of n bytes, for any
   context, any packet, any response buffer and either overflow mode, byte n-1 of the buffer is the PEC of bytes
   0..n-2 and the CRC of all n bytes is 0 *)
Theorem C03_responses_end_with_pec : forall ovf c p buf c' b d n,
  process_packet ovf c p buf = ((c', b), Val (inl (d, Some n))) -> pec_ok n b = true.
Proof. exact responses_end_with_pec. Qed.

(* non-vacuity: a concrete encode whose result is Ok(14) and satisfies the statement *)
Example C03_nonvacuous :
  exists out, snd (step true (ctx_new 0x23 [] []) (OEncode true 1 [0x34; 0; 0x56] [] (repeat 0 14))) = XEnc (Some 14%nat) out
              /\ pec_ok 14 out = true.
Proof. eexists. split; vm_compute; reflexivity. Qed.

Print Assumptions C03_encoded_packet_ends_with_pec.
Print Assumptions C03_oracle_holds_on_model.
Print Assumptions C03_pec_is_polynomial_remainder.
Print Assumptions C03_remainder_unique.
Print Assumptions C03_responses_end_with_pec.
