(* Decode.v — get_smbus_headers, decode_packet, get_mctp_control_packet, get_length, length tables.
   MODEL FILE.  A Rust  Result<T,(MessageType,DecodeError)>  that may also panic is  res (T + derror). *)
Require Import Base Crc Bitfield Headers.
Open Scope N_scope.

(* errors.rs *)
Inductive cm_error := CEUnknown | CEInvalidRequestDataLength | CEInvalidControlHeader
                    | CEUnsuccessfulCompletionCode (c : N) | CEInvalidPEC.
Inductive decode_error := DUnknown | DControlMessage (e : cm_error).
Definition derror : Type := msg_type * decode_error.

Definition rr (A : Type) : Type := res (A + derror).
Definition ok {A} (a : A) : rr A := Val (inl a).
Definition err {A} (m : msg_type) (e : decode_error) : rr A := Val (inr (m, e)).
Definition rbind {A B} (r : rr A) (f : A -> rr B) : rr B :=
  match r with Val (inl a) => f a | Val (inr e) => Val (inr e) | Panic k => Panic k end.
Definition rlift {A} (r : res A) : rr A := match r with Val a => Val (inl a) | Panic k => Panic k end.
Notation "x <-- e ;; f" := (rbind e (fun x => f)) (at level 61, e at next level, right associativity).

(* mctp_traits.rs:30-55; the argument is the u8 command code *)
Definition get_request_data_len (cmd : N) : res nat :=
  match cmd_from_u8 cmd with
  | 0 => Val 0%nat | 1 => Val 2%nat | 2 => Val 0%nat | 3 => Val 0%nat | 4 => Val 1%nat
  | 5 => Val 0%nat | 6 => Val 1%nat | 7 => Val 1%nat | 8 => Val 3%nat
  | _ => Panic PUnimpl
  end.
(* mctp_traits.rs:59-84 *)
Definition get_response_data_len (cmd : N) : res nat :=
  match cmd_from_u8 cmd with
  | 0 => Val 0%nat | 1 => Val 3%nat | 2 => Val 4%nat | 3 => Val 16%nat | 4 => Val 5%nat
  | 5 => Val 0%nat | 6 => Val 0%nat | 8 => Val 4%nat | 9 => Val 1%nat
  | _ => Panic PUnimpl
  end.

(* (smbus header, transport header, body header) *)
Definition headers : Type := (list N * list N * list N)%type.

(* smbus.rs:214-243 *)
Definition get_smbus_headers (p : list N) : rr headers :=
  sh <-- rlift (slice p 0 4) ;;
  th <-- rlift (slice p 4 8) ;;
  match transport_new_from_buf th 1 with
  | None => err MInvalid DUnknown
  | Some th =>
      b8 <-- rlift (index p 8) ;;
      match body_header_new_from_buf [b8] with
      | None => err MInvalid DUnknown
      | Some bh => ok (sh, th, bh)
      end
  end.

(* what get_mctp_control_packet returns: control header, Some cc for a response, offset of the payload
   inside packet[9..] (= length of the additional header), payload *)
Record control_raw := { cr_header : list N; cr_cc : option N; cr_off : nat; cr_data : list N }.

(* smbus.rs:355-423; p9 = &packet[9..] *)
Definition get_mctp_control_packet (p9 : list N) (calculated_pec : N) : rr control_raw :=
  chb <-- rlift (slice p9 0 2) ;;
  let rq := get_field ch_rq chb in
  let cmd := get_field ch_command_code chb in
  x <-- (if rq =? 1 then
           n <-- rlift (get_request_data_len cmd) ;; ok (2%nat, @None N, n)
         else if rq =? 0 then
           c2 <-- rlift (index p9 2) ;;
           if negb (c2 =? 0) then
             cc <-- rlift (cc_from_u8 c2) ;;
             err MCtpControl (DControlMessage (CEUnsuccessfulCompletionCode cc))
           else
             cc <-- rlift (cc_from_u8 c2) ;;
             n <-- rlift (get_response_data_len cmd) ;;
             ok (3%nat, Some cc, n)
         else err MCtpControl (DControlMessage CEInvalidControlHeader)) ;;
  let '(off, cc, addl) := x in
  plen <-- rlift (usub (length p9) 1) ;;
  data <-- rlift (slice p9 off plen) ;;
  pc <-- rlift (index p9 plen) ;;
  if negb (pc =? calculated_pec) then err MCtpControl (DControlMessage CEInvalidPEC)
  else if (0 <? addl)%nat && negb (length data =? addl)%nat then
    err MCtpControl (DControlMessage CEInvalidRequestDataLength)
  else
    _ <-- rlift (slice p9 0 off) ;;
    ok {| cr_header := chb; cr_cc := cc; cr_off := off; cr_data := data |}.

(* decoded = (message type, (payload offset in the input, payload length)) *)
Definition decoded : Type := (msg_type * (nat * nat))%type.

(* smbus.rs:257-262, 425-443 *)
Definition decode_mctp_control (p : list N) (calculated_pec : N) : rr decoded :=
  p9 <-- rlift (slice_from p 9) ;;
  cr <-- get_mctp_control_packet p9 calculated_pec ;;
  ok (MCtpControl, ((9 + cr_off cr)%nat, length (cr_data cr))).

(* the four non-control arms, smbus.rs:263-319 *)
Definition decode_vendor_arm (p : list N) (calculated_pec : N) (mt : msg_type) : rr decoded :=
  plen <-- rlift (usub (length p) 1) ;;
  pc <-- rlift (index p plen) ;;
  if negb (pc =? calculated_pec) then err mt (DControlMessage CEInvalidPEC)
  else
    pl <-- rlift (slice p 9 plen) ;;
    ok (mt, (9%nat, length pl)).

(* smbus.rs:248-322 *)
Definition decode_packet (p : list N) : rr decoded :=
  hs <-- get_smbus_headers p ;;
  let '(_, _, bh) := hs in
  lm1 <-- rlift (usub (length p) 1) ;;
  pre <-- rlift (slice p 0 lm1) ;;
  let calculated_pec := pec pre in
  match msg_type_from_u8 (get_field bh_msg_type bh) with
  | MCtpControl => decode_mctp_control p calculated_pec
  | VendorDefinedPCI => decode_vendor_arm p calculated_pec VendorDefinedPCI
  | VendorDefinedIANA => decode_vendor_arm p calculated_pec VendorDefinedIANA
  | SpdmOverMctp => decode_vendor_arm p calculated_pec SpdmOverMctp
  | SecuredMessages => decode_vendor_arm p calculated_pec SecuredMessages
  | MInvalid => err MInvalid DUnknown
  end.

(* smbus.rs:340-355 *)
Definition get_length (p : list N) : rr nat :=
  if (length p <? 3)%nat then err MInvalid DUnknown
  else
    first3 <-- rlift (slice p 0 3) ;;
    let shb := first3 ++ [0] in
    if get_field sh_command_code shb =? 15
    then ok (N.to_nat (get_field sh_byte_count shb) + 4)%nat
    else err MInvalid DUnknown.
