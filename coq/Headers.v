(* Headers.v — the seven bitfield! header views and their constructors, the three From<u8> conversions.
   One definition per Rust item; source ranges in comments.  MODEL FILE. *)
Require Import Base Bitfield.
Open Scope N_scope.

Definition mk (msb0 : bool) (hi lo : nat) (W : N) : field := {| f_msb0 := msb0; f_hi := hi; f_lo := lo; f_W := W |}.

(* base_packet.rs:45-57  struct MCTPTransportHeader(MSB0 [u8]); u8; *)
Definition th_rsvd        := mk true 3 0 8.
Definition th_hdr_version := mk true 7 4 8.
Definition th_dest        := mk true 15 8 8.
Definition th_source      := mk true 23 16 8.
Definition th_som         := mk true 24 24 8.
Definition th_eom         := mk true 25 25 8.
Definition th_pkt_seq     := mk true 27 26 8.
Definition th_to          := mk true 28 28 8.
Definition th_msg_tag     := mk true 31 29 8.
(* base_packet.rs:100-105  struct MCTPMessageBodyHeader(MSB0 [u8]); u8; *)
Definition bh_ic          := mk true 0 0 8.
Definition bh_msg_type    := mk true 7 1 8.
(* control_packet.rs:7-21  struct MCTPControlMessageHeader(MSB0 [u8]); u8; *)
Definition ch_rq          := mk true 0 0 8.
Definition ch_d           := mk true 1 1 8.
Definition ch_rsvd        := mk true 2 2 8.
Definition ch_instance_id := mk true 7 3 8.
Definition ch_command_code := mk true 15 8 8.
(* smbus_proto.rs:16-32  struct MCTPSMBusHeader([u8]); u8; *)
Definition sh_dest_rw     := mk false 0 0 8.
Definition sh_dest_addr   := mk false 7 1 8.
Definition sh_command_code := mk false 15 8 8.
Definition sh_byte_count  := mk false 23 16 8.
Definition sh_source_rw   := mk false 24 24 8.
Definition sh_source_addr := mk false 31 25 8.
(* smbus_proto.rs:126-139  struct SMBusRoutingInformationUpdateEntry([u8]); u8; *)
Definition re_entry_type  := mk false 3 0 8.
Definition re_rsvd        := mk false 7 4 8.
Definition re_range_size  := mk false 15 8 8.
Definition re_first_eid   := mk false 23 16 8.
Definition re_phys_addr   := mk false 31 24 8.
(* vendor_packets.rs:17-23  struct PCIMessageFormat(MSB0 [u8]); u16; *)
Definition pci_vendor_id  := mk true 15 0 16.
(* vendor_packets.rs:49-55  struct IANAMessageFormat(MSB0 [u8]); u32; *)
Definition iana_vendor_id := mk true 31 0 32.

(* ---------- enumerations ---------- *)
(* base_packet.rs:21-43 *)
Inductive msg_type := MCtpControl | SpdmOverMctp | SecuredMessages | VendorDefinedPCI | VendorDefinedIANA | MInvalid.
Definition msg_type_to_u8 (m : msg_type) : N :=
  match m with MCtpControl => 0 | SpdmOverMctp => 5 | SecuredMessages => 6
             | VendorDefinedPCI => 126 | VendorDefinedIANA => 127 | MInvalid => 255 end.
Definition msg_type_from_u8 (b : N) : msg_type :=
  match b with
  | 0 => MCtpControl | 5 => SpdmOverMctp | 6 => SecuredMessages
  | 126 => VendorDefinedPCI | 127 => VendorDefinedIANA | _ => MInvalid
  end.
Definition msg_type_eqb (a b : msg_type) : bool := msg_type_to_u8 a =? msg_type_to_u8 b.

(* control_packet.rs:23-112: the variants are identified with their discriminants 0x00..0x14 and 0xFF (Unknown) *)
Definition cmd_from_u8 (b : N) : N := if b <=? 20 then b else 255.
(* control_packet.rs:142-154: 0..5 are variants, anything else is unreachable!() *)
Definition cc_from_u8 (b : N) : res N := if b <=? 5 then Val b else Panic PUnreach.

(* ---------- constructors ---------- *)
Definition zeros (n : nat) : list N := repeat 0 n.

(* base_packet.rs:60-68 *)
Definition transport_new (version : N) : list N := set_field th_hdr_version (zeros 4) version.
(* base_packet.rs:77-89; None = Err(()) *)
Definition transport_new_from_buf (buf : list N) (version : N) : option (list N) :=
  if negb (get_field th_rsvd buf =? 0) then None
  else if negb (get_field th_hdr_version buf =? version) then None
  else Some buf.
(* base_packet.rs:115-127 *)
Definition body_header_new (ic : bool) (mt : N) : res (list N) :=
  if ic then Panic PExplicit
  else Val (set_field bh_msg_type (set_field bh_ic (zeros 1) (N.b2n ic)) mt).
(* base_packet.rs:133-146 *)
Definition body_header_new_from_buf (buf : list N) : option (list N) :=
  if negb (get_field bh_ic buf =? 0) then None
  else if msg_type_eqb (msg_type_from_u8 (get_field bh_msg_type buf)) MInvalid then None
  else Some buf.
(* control_packet.rs:278-288 *)
Definition control_header_new (rq d : bool) (instance cmd : N) : list N :=
  set_field ch_command_code
    (set_field ch_instance_id
       (set_field ch_d (set_field ch_rq (zeros 2) (N.b2n rq)) (N.b2n d)) instance) cmd.
(* smbus_proto.rs:142-159 *)
Definition routing_entry_new (ty range first phys : N) : list N :=
  set_field re_phys_addr
    (set_field re_first_eid
       (set_field re_range_size (set_field re_entry_type (zeros 4) ty) range) first) phys.
(* vendor_packets.rs:31-38, 63-70 *)
Definition pci_new (v : N) : list N := set_field pci_vendor_id (zeros 2) v.
Definition iana_new (v : N) : list N := set_field iana_vendor_id (zeros 4) v.
