(* Encode.v — packet writer and all encoders.  MODEL FILE.
   A function writing through `buf: &mut [u8]` is a state transformer on the buffer that keeps the
   partially written buffer when it panics:  W A = buffer -> buffer * res A.  Result<usize,()> is option nat. *)
Require Import Base Crc Bitfield Headers.
Open Scope N_scope.

Definition W (A : Type) : Type := list N -> list N * res A.
Definition wret {A} (a : A) : W A := fun b => (b, Val a).
Definition wbind {A B} (m : W A) (f : A -> W B) : W B :=
  fun b => match m b with (b', Val a) => f a b' | (b', Panic k) => (b', Panic k) end.
Definition wlift {A} (r : res A) : W A := fun b => (b, r).
Notation "x <~ e ;; f" := (wbind e (fun x => f)) (at level 61, e at next level, right associativity).

(* buf[off..off+len(d)].copy_from_slice(d) *)
Definition wr (off : nat) (d : list N) : W unit := fun buf =>
  if (off + length d <=? length buf)%nat
  then (firstn off buf ++ d ++ skipn (off + length d) buf, Val tt)
  else (buf, Panic PIndex).

Definition opt_len (h : option (list N)) : nat := match h with Some x => length x | None => 0%nat end.
Definition opt_list (h : option (list N)) : list N := match h with Some x => x | None => [] end.

(* base_packet.rs:184-201  MCTPMessageBody::len (mic is always None in this crate) *)
Definition body_len (hdr : option (list N)) (data : list N) : nat := (1 + opt_len hdr + length data)%nat.

(* base_packet.rs:203-223  MCTPMessageBody::to_raw_bytes on &mut buf[base..] *)
Definition body_to_raw (base : nat) (bh : list N) (hdr : option (list N)) (data : list N) : W nat :=
  _ <~ wr base bh ;;
  _ <~ (match hdr with Some h => wr (base + 1) h | None => wret tt end) ;;
  _ <~ wr (base + 1 + opt_len hdr) data ;;
  wret (body_len hdr data).

(* smbus_proto.rs:88-100  MCTPSMBusPacket::len *)
Definition packet_len (hdr : option (list N)) (data : list N) : nat := (4 + 4 + body_len hdr data + 1)%nat.

(* smbus_proto.rs:88-90  finalise: self.smbus_header.set_byte_count((self.len() - 4) as u8);
   len() >= 10 always, so the usize subtraction cannot underflow *)
Definition finalise (smb : list N) (len : nat) : list N :=
  set_field sh_byte_count smb (N.of_nat (len - 4) mod 256).

(* the longest packet the one-byte byte count can describe: smbus_proto.rs MCTP_SMBUS_MAX_PACKET_LEN *)
Definition MAX_PACKET_LEN : nat := 259.

(* smbus_proto.rs:112-127  MCTPSMBusPacket::to_raw_bytes *)
Definition packet_to_raw (smb tr bh : list N) (hdr : option (list N)) (data : list N) : W nat :=
  _ <~ wr 0 smb ;;
  _ <~ wr 4 tr ;;
  _ <~ (fun buf => (buf, _ <- slice_from buf 8 ;; Val tt)) ;;       (* &mut buf[size..] *)
  bl <~ body_to_raw 8 bh hdr data ;;
  let size := (8 + bl)%nat in
  fun buf =>
    match slice buf 0 size with
    | Panic k => (buf, Panic k)
    | Val pre =>
        if (size <? length buf)%nat
        then (firstn size buf ++ [pec pre] ++ skipn (size + 1) buf, Val (size + 1)%nat)
        else (buf, Panic PIndex)
    end.

(* mctp_traits.rs:105-116 *)
Definition generate_transport_header (addr dest : N) : list N :=
  let h := transport_new 1 in
  let h := set_field th_dest h dest in
  let h := set_field th_source h addr in
  let h := set_field th_som h 1 in
  let h := set_field th_eom h 1 in
  let h := set_field th_pkt_seq h 0 in
  let h := set_field th_to h 1 in
  set_field th_msg_tag h 0.

(* mctp_traits.rs:119-128 *)
Definition generate_smbus_header (addr dest : N) : list N :=
  let h := zeros 4 in
  let h := set_field sh_dest_rw h 0 in
  let h := set_field sh_dest_addr h dest in
  let h := set_field sh_command_code h 15 in
  let h := set_field sh_source_addr h addr in
  set_field sh_source_rw h 1.

(* mctp_traits.rs:134-232  the four generate_*_packet_bytes bodies differ only in the message type *)
Definition generate_packet_bytes (ovf : bool) (addr dest mt : N)
           (hdr : option (list N)) (data : list N) : W (option nat) :=
  let smb := generate_smbus_header addr dest in
  let tr := generate_transport_header addr dest in
  bh <~ wlift (body_header_new false mt) ;;
  let smb' := finalise smb (packet_len hdr data) in
  if (MAX_PACKET_LEN <? packet_len hdr data)%nat then wret None
  else
    n <~ packet_to_raw smb' tr bh hdr data ;;
    wret (Some n).

Definition MT_CONTROL := 0. Definition MT_PCI := 126. Definition MT_IANA := 127.

Definition control_packet (ovf : bool) (addr dest : N) (hdr data : list N) : W (option nat) :=
  generate_packet_bytes ovf addr dest MT_CONTROL (Some hdr) data.

(* ---------- request encoders: smbus_request.rs:61-430 ---------- *)
Definition req_hdr (cmd : N) : list N := control_header_new true false 0 cmd.

Definition req_set_endpoint_id ovf addr dest op eid : W (option nat) :=
  if (eid =? 255) || (eid =? 0) then wret None
  else control_packet ovf addr dest (req_hdr 1) [op; eid].
Definition req_get_endpoint_id ovf addr dest := control_packet ovf addr dest (req_hdr 2) [].
Definition req_get_endpoint_uuid ovf addr dest := control_packet ovf addr dest (req_hdr 3) [].
Definition req_get_mctp_version_support ovf addr dest query := control_packet ovf addr dest (req_hdr 4) [query].
Definition req_get_message_type_suport ovf addr dest := control_packet ovf addr dest (req_hdr 5) [].
Definition req_get_vendor_defined_message_support ovf addr dest sel := control_packet ovf addr dest (req_hdr 6) [sel].
Definition req_resolve_endpoint_id ovf addr dest eid := control_packet ovf addr dest (req_hdr 7) [eid].
Definition req_allocate_endpoint_ids ovf addr dest op pool first := control_packet ovf addr dest (req_hdr 8) [op; pool; first].
(* smbus_request.rs:233-266: message_data: [u8;32]; [0] = n as u8; Err if n*4 > 31; entries copied at 1+4i *)
Definition req_routing_information_update ovf addr dest (entries : list (list N)) : W (option nat) :=
  let n := length entries in
  if (31 <? n * 4)%nat then wret None
  else control_packet ovf addr dest (req_hdr 9) ((N.of_nat n mod 256) :: concat entries).
Definition req_get_routing_table_entries ovf addr dest handle := control_packet ovf addr dest (req_hdr 10) [handle].
Definition req_prepare_for_endpoint_discovery ovf addr dest := control_packet ovf addr dest (req_hdr 11) [].
Definition req_endpoint_discovery ovf addr dest := control_packet ovf addr dest (req_hdr 12) [].
Definition req_discovery_notify ovf addr dest := control_packet ovf addr dest (req_hdr 13) [].
Definition req_get_network_id ovf addr dest := control_packet ovf addr dest (req_hdr 14) [].
(* smbus_request.rs:356-370: query_hop builds its header with CommandCode::GetNetworkID *)
Definition req_query_hop ovf addr dest eid mt := control_packet ovf addr dest (req_hdr 14) [eid; mt].
Definition req_resolve_uuid ovf addr dest (uuid : list N) handle := control_packet ovf addr dest (req_hdr 16) (uuid ++ [handle]).
Definition req_query_rate_limit ovf addr dest := control_packet ovf addr dest (req_hdr 17) [].

(* smbus_request.rs:439-487: request_tx_rate_limit, update_rate_limmit, query_supported_interfaces.  All three build
   the SAME packet (control header with CommandCode::RequestTXRateLimit = 0x12, no data), write it, discard the
   result and end in unimplemented!(): every call panics, after the buffer has been written (or the writer panicked) *)
Definition req_stub ovf addr dest : W (option nat) :=
  fun buf => let '(b, _) := control_packet ovf addr dest (req_hdr 18) [] buf in (b, Panic PUnimpl).

(* smbus_request.rs:496-521 *)
Definition req_vendor_defined ovf addr dest (format data : N) (msg : list N) : W (option nat) :=
  if format =? 0 then
    generate_packet_bytes ovf addr dest MT_PCI (Some (pci_new (data mod 65536))) msg
  else if format =? 1 then
    generate_packet_bytes ovf addr dest MT_IANA (Some (iana_new data)) msg
  else wret None.

(* ---------- response encoders: smbus_response.rs:62-299 ---------- *)
Definition resp_hdr (cmd : N) : list N := control_header_new false false 0 cmd.

(* assignment: 0 Accepted / 1 Rejected; allocation 0..2 *)
Definition resp_set_endpoint_id ovf addr (eid : N) cc dest assignment allocation : W (option nat) :=
  let b1 := if assignment =? 1 then N.lor allocation 16 else allocation in
  control_packet ovf addr dest (resp_hdr 1) [cc; b1; eid; 0].
Definition resp_get_endpoint_id ovf addr (eid : N) cc dest etype idtype (fair : bool) : W (option nat) :=
  control_packet ovf addr dest (resp_hdr 2) [cc; eid; N.lor ((etype * 16) mod 256) idtype; N.b2n fair].
Definition resp_get_endpoint_uuid ovf addr cc dest (uuid : list N) : W (option nat) :=
  control_packet ovf addr dest (resp_hdr 3) (cc :: uuid).
Definition resp_get_mctp_version_support ovf addr cc dest : W (option nat) :=
  control_packet ovf addr dest (resp_hdr 4) [cc; 1; 241; 243; 241; 0].
(* smbus_response.rs:190-230 *)
Definition resp_get_message_type_suport ovf addr cc dest (types : list N) : W (option nat) :=
  if (30 <? length types)%nat then wret None
  else control_packet ovf addr dest (resp_hdr 5) (cc :: (N.of_nat (length types) mod 256) :: types).
(* smbus_response.rs:247-299: message_data: [u8;9]; message_data[2+i] = vendor_id[i] panics once 2+i > 8 *)
Definition resp_get_vendor_defined_message_support ovf addr cc dest sel (vid : list N) : W (option nat) :=
  if (7 <? length vid)%nat then wlift (Panic PIndex)
  else control_packet ovf addr dest (resp_hdr 6) (cc :: sel :: vid).
