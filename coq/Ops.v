(* Ops.v — operations on a context, observations, one-step semantics, histories.  MODEL FILE.
   This is the interface shared with the Rust harness: the harness performs `op`s on a real
   MCTPSMBusContext and records an `obs` (plus both get_eid() values) after each. *)
Require Import Base Crc Bitfield Headers Encode Decode Process.
Open Scope N_scope.

Inductive op :=
| OProcess (pkt buf : list N)                 (* ctx.process_packet(&pkt, &mut buf) *)
| ODecode (pkt : list N)                      (* ctx.decode_packet(&pkt) *)
| OGetLength (pkt : list N)                   (* ctx.get_length(&pkt) *)
| OSetEid (request_half : bool) (e : N)       (* ctx.get_request()/get_response().set_eid(e) *)
| OSetUuid (u : list N)                       (* ctx.set_uuid(&u) *)
| OEncode (request_half : bool) (id : N) (nums : list N) (lists : list (list N)) (buf : list N)
| OHdr (what : N) (fld : N) (raw : list N) (v : N)   (* header views, see hdr_op *)
| OConv (what : N) (b : N).                   (* From<u8>: 0 MessageType, 1 CommandCode, 2 CompletionCode *)

Inductive obs :=
| XPanic (buf : list N)                       (* buffer as left behind ([] when the op has none) *)
| XDecode (r : decoded + derror)
| XLen (r : nat + derror)
| XProcess (r : process_ok + derror) (buf : list N)
| XEnc (r : option nat) (buf : list N)
| XUnit
| XVal (n : N)
| XBytes (l : list N)
| XBad.                                       (* the op is outside the modelled interface / impl reported context dependence *)

Definition nth_n (l : list N) (i : nat) : N := nth i l 0.
Definition nth_l (l : list (list N)) (i : nat) : list N := nth i l [].

(* generic encoder dispatch: which Rust method `id` names on each half, and how its arguments are laid out *)
Definition encode_call (ovf : bool) (c : ctx) (request_half : bool) (id : N)
           (a : list N) (ls : list (list N)) : option (W (option nat)) :=
  let addr := c_addr c in
  let a0 := nth_n a 0 in let a1 := nth_n a 1 in let a2 := nth_n a 2 in
  let a3 := nth_n a 3 in let a4 := nth_n a 4 in
  let opt_hdr := if a1 =? 0 then None else Some (nth_l ls 0) in
  match id with
  | 30 => Some (generate_packet_bytes ovf addr a0 MT_CONTROL opt_hdr (nth_l ls 1))
  | 31 => Some (generate_packet_bytes ovf addr a0 MT_PCI opt_hdr (nth_l ls 1))
  | 32 => Some (generate_packet_bytes ovf addr a0 a2 opt_hdr (nth_l ls 1))
  | 33 => Some (generate_packet_bytes ovf addr a0 MT_IANA opt_hdr (nth_l ls 1))
  | _ =>
    if request_half then
      match id with
      | 1 => Some (req_set_endpoint_id ovf addr a0 a1 a2)
      | 2 => Some (req_get_endpoint_id ovf addr a0)
      | 3 => Some (req_get_endpoint_uuid ovf addr a0)
      | 4 => Some (req_get_mctp_version_support ovf addr a0 a1)
      | 5 => Some (req_get_message_type_suport ovf addr a0)
      | 6 => Some (req_get_vendor_defined_message_support ovf addr a0 a1)
      | 7 => Some (req_resolve_endpoint_id ovf addr a0 a1)
      | 8 => Some (req_allocate_endpoint_ids ovf addr a0 a1 a2 a3)
      | 9 => Some (req_routing_information_update ovf addr a0 ls)
      | 10 => Some (req_get_routing_table_entries ovf addr a0 a1)
      | 11 => Some (req_prepare_for_endpoint_discovery ovf addr a0)
      | 12 => Some (req_endpoint_discovery ovf addr a0)
      | 13 => Some (req_discovery_notify ovf addr a0)
      | 14 => Some (req_get_network_id ovf addr a0)
      | 15 => Some (req_query_hop ovf addr a0 a1 a2)
      | 16 => Some (req_resolve_uuid ovf addr a0 (nth_l ls 0) a1)
      | 17 => Some (req_query_rate_limit ovf addr a0)
      | 20 => Some (req_vendor_defined ovf addr a0 a1 a2 (nth_l ls 0))
      | _ => None
      end
    else
      let eid := c_eid_resp c in
      match id with
      | 1 => Some (resp_set_endpoint_id ovf addr eid a0 a1 a2 a3)
      | 2 => Some (resp_get_endpoint_id ovf addr eid a0 a1 a2 a3 (negb (a4 =? 0)))
      | 3 => Some (resp_get_endpoint_uuid ovf addr a0 a1 (nth_l ls 0))
      | 4 => Some (resp_get_mctp_version_support ovf addr a0 a1)
      | 5 => Some (resp_get_message_type_suport ovf addr a0 a1 (nth_l ls 0))
      | 6 => Some (resp_get_vendor_defined_message_support ovf addr a0 a1 a2 (nth_l ls 0))
      | _ => None
      end
  end.

(* header-view operations.  fld numbers the 29 declared fields in declaration order. *)
Definition field_of (fld : N) : option field :=
  match fld with
  | 0 => Some th_rsvd | 1 => Some th_hdr_version | 2 => Some th_dest | 3 => Some th_source
  | 4 => Some th_som | 5 => Some th_eom | 6 => Some th_pkt_seq | 7 => Some th_to | 8 => Some th_msg_tag
  | 9 => Some bh_ic | 10 => Some bh_msg_type
  | 11 => Some ch_rq | 12 => Some ch_d | 13 => Some ch_rsvd | 14 => Some ch_instance_id | 15 => Some ch_command_code
  | 16 => Some sh_dest_rw | 17 => Some sh_dest_addr | 18 => Some sh_command_code | 19 => Some sh_byte_count
  | 20 => Some sh_source_rw | 21 => Some sh_source_addr
  | 22 => Some re_entry_type | 23 => Some re_rsvd | 24 => Some re_range_size | 25 => Some re_first_eid
  | 26 => Some re_phys_addr
  | 27 => Some pci_vendor_id | 28 => Some iana_vendor_id
  | _ => None
  end.
(* size in bytes of the struct a field belongs to *)
Definition struct_len (fld : N) : nat :=
  if fld <=? 8 then 4%nat else if fld <=? 10 then 1%nat else if fld <=? 15 then 2%nat
  else if fld <=? 26 then 4%nat else if fld =? 27 then 2%nat else 4%nat.

(* what: 0 getter  1 setter  2 MCTPTransportHeader::new_from_buf(raw, v)  3 MCTPMessageBodyHeader::new_from_buf(raw)
         4 MCTPTransportHeader::new(v)   5 MCTPControlMessageHeader::new(raw as [rq;d;inst;cmd])
         6 SMBusRoutingInformationUpdateEntry::new(raw as [ty;range;first;phys])  7 PCIMessageFormat::new(v)
         8 IANAMessageFormat::new(v)   9 MCTPMessageBodyHeader::new(false, v as MessageType)
         10 generate_transport_header(dest = v) on a context of address fld   11 generate_smbus_header likewise
         12 getter / 13 setter over a buffer of any length   14 the unimplemented!() request encoders
         15 a half constructed on its own   16 the constructors that only wrap bytes *)
Definition hdr_op (what fld : N) (raw : list N) (v : N) : obs :=
  match what with
  | 0 => match field_of fld with
         | Some f => if (length raw =? struct_len fld)%nat then XVal (get_field f raw) else XBad
         | None => XBad end
  | 1 => match field_of fld with
         | Some f => if (length raw =? struct_len fld)%nat then XBytes (set_field f raw v) else XBad
         | None => XBad end
  | 2 => if (length raw =? 4)%nat then
           XVal (match transport_new_from_buf raw (v mod 256) with Some _ => 1 | None => 0 end) else XBad   (* version: u8 *)
  | 3 => if (length raw =? 1)%nat then
           XVal (match body_header_new_from_buf raw with Some _ => 1 | None => 0 end) else XBad
  | 4 => XBytes (transport_new v)
  | 5 => XBytes (control_header_new (negb (nth_n raw 0 =? 0)) (negb (nth_n raw 1 =? 0)) (nth_n raw 2) (cmd_from_u8 (nth_n raw 3)))
  | 6 => XBytes (routing_entry_new (nth_n raw 0) (nth_n raw 1) (nth_n raw 2) (nth_n raw 3))
  | 7 => XBytes (pci_new v)
  | 8 => XBytes (iana_new v)
  | 9 => match body_header_new false v with Val b => XBytes b | Panic _ => XPanic [] end
  | 10 => XBytes (generate_transport_header fld v)
  | 11 => XBytes (generate_smbus_header fld v)
  (* 12 / 13: getter / setter of field fld through a view over a buffer of ANY length (the views are generic in their
     storage): the bit loops index self.0[i / 8] for the declared bit indices i only, so the call panics (index out of
     range) exactly when the field's last byte lies beyond the buffer, and never looks at later bytes *)
  (* 14: the three request encoders that end in unimplemented!() (v mod 256 in {18, 19, 21} names which), called on a
     fresh context of address v / 256 with destination fld and buffer raw: always a panic, the buffer as the packet
     writer left it *)
  | 14 => let id := v mod 256 in
          if (id =? 18) || (id =? 19) || (id =? 21)
          then XPanic (fst (req_stub true ((v / 256) mod 256) fld raw)) else XBad
  (* 15: a request / response half constructed on its own (MCTPSMBusContextRequest::new(addr) /
     MCTPSMBusContextResponse::new(addr), no context around it), set_eid(eid), then Get Endpoint ID encoded for destination fld into
     raw: v = half + 2 * addr + 512 * eid (half 1 = request).  Observed: the buffer, then get_address(), get_eid(), the reported
     length (255 = refused) *)
  | 15 => let addr := (v / 2) mod 256 in let eid := (v / 512) mod 256 in
          let w := if v mod 2 =? 1 then req_get_endpoint_id true addr fld
                   else resp_get_endpoint_id true addr eid 0 fld 0 0 false in
          match w raw with
          | (b, Val r) => XBytes (b ++ [addr; eid; match r with Some n => N.of_nat n mod 256 | None => 255 end])
          | (b, Panic _) => XPanic b
          end
  (* 16: the constructors that only wrap bytes: fld 0 MCTPSMBusHeader::new(), 1 ::default(), 2 ::new_from_buf(raw),
     3 MCTPControlMessageHeader::new_from_buf, 4 SMBusRoutingInformationUpdateEntry::new_from_buf,
     5 PCIMessageFormat::new_from_buf, 6 IANAMessageFormat::new_from_buf *)
  | 16 => match fld with
          | 0 | 1 => XBytes (zeros 4)
          | 2 | 4 | 6 => if (length raw =? 4)%nat then XBytes raw else XBad
          | 3 | 5 => if (length raw =? 2)%nat then XBytes raw else XBad
          | _ => XBad
          end
  | 12 => match field_of fld with
          | Some f => if (f_hi f / 8 <? length raw)%nat then XVal (get_field f raw) else XPanic []
          | None => XBad end
  | 13 => match field_of fld with
          | Some f => if (f_hi f / 8 <? length raw)%nat then XBytes (set_field f raw v) else XPanic []
          | None => XBad end
  | _ => XBad
  end.

Definition conv_op (what b : N) : obs :=
  match what with
  | 0 => XVal (msg_type_to_u8 (msg_type_from_u8 b))
  | 1 => XVal (cmd_from_u8 b)
  | 2 => match cc_from_u8 b with Val c => XVal c | Panic _ => XPanic [] end
  | _ => XBad
  end.

Definition step (ovf : bool) (c : ctx) (o : op) : ctx * obs :=
  match o with
  | OProcess pkt buf =>
      match process_packet ovf c pkt buf with
      | ((c', b), Val r) => (c', XProcess r b)
      | ((c', b), Panic _) => (c', XPanic b)
      end
  | ODecode pkt =>
      (c, match decode_packet pkt with Val r => XDecode r | Panic _ => XPanic [] end)
  | OGetLength pkt =>
      (c, match get_length pkt with Val r => XLen r | Panic _ => XPanic [] end)
  | OSetEid true e => (set_eid_req c e, XUnit)
  | OSetEid false e => (set_eid_resp c e, XUnit)
  | OSetUuid u =>
      match set_uuid c u with
      | (c', Val _) => (c', XUnit)
      | (c', Panic _) => (c', XPanic [])
      end
  | OEncode h id a ls buf =>
      (c, match encode_call ovf c h id a ls with
          | None => XBad
          | Some w => match w buf with
                      | (b, Val r) => XEnc r b
                      | (b, Panic _) => XPanic b
                      end
          end)
  | OHdr what fld raw v => (c, hdr_op what fld raw v)
  | OConv what b => (c, conv_op what b)
  end.

(* what the harness records after every op: the observation and both get_eid() values *)
Definition obs3 : Type := (obs * (N * N))%type.

Fixpoint run (ovf : bool) (c : ctx) (ops : list op) : list obs3 :=
  match ops with
  | [] => []
  | o :: r => let '(c', x) := step ovf c o in (x, (c_eid_req c', c_eid_resp c')) :: run ovf c' r
  end.

Fixpoint run_ctx (ovf : bool) (c : ctx) (ops : list op) : ctx :=
  match ops with
  | [] => c
  | o :: r => run_ctx ovf (fst (step ovf c o)) r
  end.

(* ---------- decidable equality of observations (used by the correspondence) ---------- *)
Fixpoint list_eqb (a b : list N) : bool :=
  match a, b with
  | [], [] => true
  | x :: a', y :: b' => (x =? y) && list_eqb a' b'
  | _, _ => false
  end.
Definition cm_error_code (e : cm_error) : N :=
  match e with CEUnknown => 1 | CEInvalidRequestDataLength => 2 | CEInvalidControlHeader => 3
             | CEInvalidPEC => 4 | CEUnsuccessfulCompletionCode c => 16 + c end.
Definition decode_error_code (e : decode_error) : N :=
  match e with DUnknown => 0 | DControlMessage e => cm_error_code e end.
Definition derror_eqb (a b : derror) : bool :=
  msg_type_eqb (fst a) (fst b) && (decode_error_code (snd a) =? decode_error_code (snd b)).
Definition decoded_eqb (a b : decoded) : bool :=
  msg_type_eqb (fst a) (fst b) && (fst (snd a) =? fst (snd b))%nat && (snd (snd a) =? snd (snd b))%nat.
Definition opt_nat_eqb (a b : option nat) : bool :=
  match a, b with Some x, Some y => (x =? y)%nat | None, None => true | _, _ => false end.
Definition obs_eqb (a b : obs) : bool :=
  match a, b with
  | XPanic x, XPanic y => list_eqb x y
  | XDecode (inl x), XDecode (inl y) => decoded_eqb x y
  | XDecode (inr x), XDecode (inr y) => derror_eqb x y
  | XLen (inl x), XLen (inl y) => (x =? y)%nat
  | XLen (inr x), XLen (inr y) => derror_eqb x y
  | XProcess (inl (d1, n1)) b1, XProcess (inl (d2, n2)) b2 => decoded_eqb d1 d2 && opt_nat_eqb n1 n2 && list_eqb b1 b2
  | XProcess (inr x) b1, XProcess (inr y) b2 => derror_eqb x y && list_eqb b1 b2
  | XEnc r1 b1, XEnc r2 b2 => opt_nat_eqb r1 r2 && list_eqb b1 b2
  | XUnit, XUnit => true
  | XVal x, XVal y => x =? y
  | XBytes x, XBytes y => list_eqb x y
  | _, _ => false
  end.
Definition obs3_eqb (a b : obs3) : bool :=
  obs_eqb (fst a) (fst b) && (fst (snd a) =? fst (snd b)) && (snd (snd a) =? snd (snd b)).
