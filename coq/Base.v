(* Base.v — result monad with panics, panic-accurate slicing, u8 arithmetic, finite sweeps.
   MODEL FILE: definitions only (plus the tiny sweep-lifting lemmas, which are not about the code). *)
From Coq Require Export NArith List Bool Arith Lia.
Export ListNotations.
Open Scope N_scope.

(* ---------- outcomes: a Rust function either returns or panics ---------- *)
Inductive panic_kind := PIndex | POverflow | PUnimpl | PUnreach | PUnwrap | PExplicit.

Inductive res (A : Type) : Type :=
| Val (a : A)
| Panic (k : panic_kind).
Arguments Val {A} a.
Arguments Panic {A} k.

Definition bind {A B} (r : res A) (f : A -> res B) : res B :=
  match r with Val a => f a | Panic k => Panic k end.
Notation "x <- e ;; f" := (bind e (fun x => f)) (at level 61, e at next level, right associativity).

Definition is_panic {A} (r : res A) : bool := match r with Panic _ => true | Val _ => false end.

(* ---------- bytes ---------- *)
Definition byte_okb (b : N) : bool := b <? 256.
Definition bytes_okb (l : list N) : bool := forallb byte_okb l.
Definition bytes_ok (l : list N) : Prop := Forall (fun b => b < 256) l.

(* ---------- slices, exactly where Rust panics ---------- *)
(* &l[a..b] *)
Definition slice (l : list N) (a b : nat) : res (list N) :=
  if (a <=? b)%nat && (b <=? length l)%nat then Val (firstn (b - a) (skipn a l)) else Panic PIndex.
(* &l[a..] *)
Definition slice_from (l : list N) (a : nat) : res (list N) :=
  if (a <=? length l)%nat then Val (skipn a l) else Panic PIndex.
(* l[i] *)
Definition index (l : list N) (i : nat) : res N :=
  match nth_error l i with Some x => Val x | None => Panic PIndex end.
(* usize subtraction as it is reached in this crate (a panic either way when it would underflow:
   overflow-checked builds panic at the subtraction, unchecked builds at the slice that uses the result) *)
Definition usub (a b : nat) : res nat :=
  if (b <=? a)%nat then Val (a - b)%nat else Panic POverflow.

(* ---------- u8 arithmetic under the two overflow modes ---------- *)
(* ovf = true : overflow-checked build (dev profile);  ovf = false : wrapping (release profile) *)
Definition u8_add (ovf : bool) (a b : N) : res N :=
  if a + b <? 256 then Val (a + b) else if ovf then Panic POverflow else Val ((a + b) mod 256).
Definition u8_sub (ovf : bool) (a b : N) : res N :=
  if b <=? a then Val (a - b) else if ovf then Panic POverflow else Val (a + 256 - b).

(* ---------- list update ---------- *)
Fixpoint upd (i : nat) (f : N -> N) (l : list N) : list N :=
  match l, i with
  | [], _ => []
  | b :: r, O => f b :: r
  | b :: r, S i' => b :: upd i' f r
  end.

(* ---------- finite sweeps (lifting lemmas; generic, not about the code) ---------- *)
Definition range (n : nat) : list N := map N.of_nat (seq 0 n).
Definition range256 : list N := range 256.

Lemma in_range n x : x < N.of_nat n -> In x (range n).
Proof. intros H. apply in_map_iff. exists (N.to_nat x). split; [lia|]. apply in_seq. lia. Qed.
Lemma sweep (n : nat) (P : N -> bool) : forallb P (range n) = true -> forall x, x < N.of_nat n -> P x = true.
Proof. intros H x Hx. rewrite forallb_forall in H. apply H, in_range, Hx. Qed.
Lemma sweep1 (P : N -> bool) : forallb P range256 = true -> forall x, x < 256 -> P x = true.
Proof. intros H x Hx. apply (sweep 256 P H). exact Hx. Qed.
Lemma sweep2 (P : N -> N -> bool) :
  forallb (fun x => forallb (P x) range256) range256 = true ->
  forall x y, x < 256 -> y < 256 -> P x y = true.
Proof. intros H x y Hx Hy. pose proof (sweep1 _ H x Hx) as H1. cbv beta in H1. exact (sweep1 _ H1 y Hy). Qed.
