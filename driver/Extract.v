(* Extraction of the executable model and the property oracles.  ExtrOcamlBasic only (bool, option, unit,
   list, prod, sumbool, sumor mapped to OCaml's); no Extract Constant; nat, N, positive stay the
   extracted inductive datatypes. *)
Require Import LM.Base LM.Crc LM.Bitfield LM.Headers LM.Encode LM.Decode LM.Process LM.Ops LM.Spec LM.Judge.
Require Extraction.
Require Import ExtrOcamlBasic.
Extraction Language OCaml.
Extraction "model.ml" judge run step ctx_of pec.
