(* Correspondence driver: reads the harness's case file (ops + what the Rust library did), runs the
   extracted Coq model / oracles (Model.judge) on each case and prints one J line per case.
   Hand-written part of the trusted base: parsing, int <-> N/nat conversion, printing. *)
open Model

let rec pos_of_int i = if i = 1 then XH else if i land 1 = 1 then XI (pos_of_int (i lsr 1)) else XO (pos_of_int (i lsr 1))
let n_of_int i = if i = 0 then N0 else Npos (pos_of_int i)
let rec int_of_pos = function XH -> 1 | XO p -> 2 * int_of_pos p | XI p -> 2 * int_of_pos p + 1
let int_of_n = function N0 -> 0 | Npos p -> int_of_pos p
let rec nat_of_int i = if i = 0 then O else S (nat_of_int (i - 1))
let rec int_of_nat = function O -> 0 | S n -> 1 + int_of_nat n

let hexval c = match c with
  | '0'..'9' -> Char.code c - 48 | 'a'..'f' -> Char.code c - 87 | 'A'..'F' -> Char.code c - 55
  | _ -> failwith "hex"
let bytes_of_hex s =
  if s = "-" then [] else begin
    let n = String.length s / 2 in
    let rec go i acc = if i < 0 then acc else go (i - 1) (n_of_int (hexval s.[2*i] * 16 + hexval s.[2*i+1]) :: acc) in
    go (n - 1) [] end
let hex_of_bytes l =
  if l = [] then "-" else String.concat "" (List.map (fun b -> Printf.sprintf "%02x" (int_of_n b)) l)

let mt_of_int i = msg_type_from_u8 (n_of_int i)
let int_of_mt m = int_of_n (msg_type_to_u8 m)
let derr_of_int e =
  if e = 0 then DUnknown else DControlMessage
    (match e with 1 -> CEUnknown | 2 -> CEInvalidRequestDataLength | 3 -> CEInvalidControlHeader
                | 4 -> CEInvalidPEC | _ -> CEUnsuccessfulCompletionCode (n_of_int (e - 16)))
let int_of_derr e = int_of_n (decode_error_code e)

let ios = int_of_string

(* take k items from a token list *)
let rec take k l = if k = 0 then ([], l) else match l with x :: r -> let (a, b) = take (k-1) r in (x :: a, b) | [] -> failwith "take"

let parse_op toks : op = match toks with
  | ["P"; pkt; buf] -> OProcess (bytes_of_hex pkt, bytes_of_hex buf)
  | ["D"; pkt] -> ODecode (bytes_of_hex pkt)
  | ["L"; pkt] -> OGetLength (bytes_of_hex pkt)
  | ["S"; h; e] -> OSetEid (h = "1", n_of_int (ios e))
  | ["U"; u] -> OSetUuid (bytes_of_hex u)
  | "E" :: h :: id :: na :: rest ->
      let (nums, rest) = take (ios na) rest in
      (match rest with
       | nl :: rest ->
           let (ls, rest) = take (ios nl) rest in
           (match rest with
            | [buf] -> OEncode (h = "1", n_of_int (ios id), List.map (fun x -> n_of_int (ios x)) nums,
                                List.map bytes_of_hex ls, bytes_of_hex buf)
            | _ -> failwith "E op")
       | [] -> failwith "E op")
  | ["H"; what; fld; raw; v] -> OHdr (n_of_int (ios what), n_of_int (ios fld), bytes_of_hex raw, n_of_int (ios v))
  | ["V"; what; b] -> OConv (n_of_int (ios what), n_of_int (ios b))
  | _ -> failwith ("bad op: " ^ String.concat " " toks)

let parse_obs toks : obs3 =
  let e2 er es = (n_of_int (ios er), n_of_int (ios es)) in
  match toks with
  | ["P"; buf; er; es] -> (XPanic (bytes_of_hex buf), e2 er es)
  | ["D"; "1"; mt; off; len; er; es] -> (XDecode (Inl (mt_of_int (ios mt), (nat_of_int (ios off), nat_of_int (ios len)))), e2 er es)
  | ["D"; "0"; mt; e; er; es] -> (XDecode (Inr (mt_of_int (ios mt), derr_of_int (ios e))), e2 er es)
  | ["L"; "1"; n; er; es] -> (XLen (Inl (nat_of_int (ios n))), e2 er es)
  | ["L"; "0"; mt; e; er; es] -> (XLen (Inr (mt_of_int (ios mt), derr_of_int (ios e))), e2 er es)
  | ["R"; "1"; mt; off; len; resp; buf; er; es] ->
      let r = ios resp in
      (XProcess (Inl ((mt_of_int (ios mt), (nat_of_int (ios off), nat_of_int (ios len))),
                      (if r < 0 then None else Some (nat_of_int r))), bytes_of_hex buf), e2 er es)
  | ["R"; "0"; mt; e; buf; er; es] -> (XProcess (Inr (mt_of_int (ios mt), derr_of_int (ios e)), bytes_of_hex buf), e2 er es)
  | ["E"; "1"; n; buf; er; es] -> (XEnc (Some (nat_of_int (ios n)), bytes_of_hex buf), e2 er es)
  | ["E"; "0"; buf; er; es] -> (XEnc (None, bytes_of_hex buf), e2 er es)
  | ["U"; er; es] -> (XUnit, e2 er es)
  | ["V"; n; er; es] -> (XVal (n_of_int (ios n)), e2 er es)
  | ["B"; b; er; es] -> (XBytes (bytes_of_hex b), e2 er es)
  | ["Z"; er; es] -> (XBad, e2 er es)
  | _ -> failwith ("bad obs: " ^ String.concat " " toks)

let print_obs ((x, (er, es)) : obs3) : string =
  let tail = Printf.sprintf "%d %d" (int_of_n er) (int_of_n es) in
  match x with
  | XPanic b -> Printf.sprintf "P %s %s" (hex_of_bytes b) tail
  | XDecode (Inl (mt, (off, len))) -> Printf.sprintf "D 1 %d %d %d %s" (int_of_mt mt) (int_of_nat off) (int_of_nat len) tail
  | XDecode (Inr (mt, e)) -> Printf.sprintf "D 0 %d %d %s" (int_of_mt mt) (int_of_derr e) tail
  | XLen (Inl n) -> Printf.sprintf "L 1 %d %s" (int_of_nat n) tail
  | XLen (Inr (mt, e)) -> Printf.sprintf "L 0 %d %d %s" (int_of_mt mt) (int_of_derr e) tail
  | XProcess (Inl ((mt, (off, len)), r), b) ->
      Printf.sprintf "R 1 %d %d %d %d %s %s" (int_of_mt mt) (int_of_nat off) (int_of_nat len)
        (match r with None -> -1 | Some n -> int_of_nat n) (hex_of_bytes b) tail
  | XProcess (Inr (mt, e), b) -> Printf.sprintf "R 0 %d %d %s %s" (int_of_mt mt) (int_of_derr e) (hex_of_bytes b) tail
  | XEnc (Some n, b) -> Printf.sprintf "E 1 %d %s %s" (int_of_nat n) (hex_of_bytes b) tail
  | XEnc (None, b) -> Printf.sprintf "E 0 %s %s" (hex_of_bytes b) tail
  | XUnit -> Printf.sprintf "U %s" tail
  | XVal n -> Printf.sprintf "V %d %s" (int_of_n n) tail
  | XBytes b -> Printf.sprintf "B %s %s" (hex_of_bytes b) tail
  | XBad -> Printf.sprintf "Z %s" tail

let parse_cfg toks : config = match toks with
  | addr :: mts :: nv :: rest ->
      let rec go k l = if k = 0 then [] else match l with
        | f :: d :: nu :: r -> { v_format = n_of_int (ios f); v_data = n_of_int (ios d); v_numeric = n_of_int (ios nu) } :: go (k-1) r
        | _ -> failwith "cfg" in
      { g_addr = n_of_int (ios addr); g_msg_types = bytes_of_hex mts; g_vendor_ids = go (ios nv) rest }
  | _ -> failwith "cfg"

let csv l = if l = [] then "-" else String.concat "," (List.map string_of_int (List.sort_uniq compare (List.map int_of_n l)))
let b2i b = if b then 1 else 0

let () =
  let prop = n_of_int (ios Sys.argv.(1)) in
  let ovf = Sys.argv.(2) = "1" in
  let dump_model = Array.length Sys.argv > 3 && Sys.argv.(3) = "dump" in
  let id = ref "" and stratum = ref "" in
  let cfg = ref None and ops = ref [] and obs = ref [] in
  let split s = List.filter (fun t -> t <> "") (String.split_on_char ' ' s) in
  (try
     while true do
       let line = input_line stdin in
       match split line with
       | "C" :: i :: s :: _ -> id := i; stratum := s; cfg := None; ops := []; obs := []
       | "G" :: rest -> cfg := Some (parse_cfg rest)
       | "O" :: rest -> ops := parse_op rest :: !ops
       | "X" :: rest -> obs := parse_obs rest :: !obs
       | ["E"] ->
           let g = match !cfg with Some g -> g | None -> failwith "no cfg" in
           let ops = List.rev !ops and impl = List.rev !obs in
           let v = judge prop ovf g ops impl in
           Printf.printf "J %s %s full=%d o=%d p=%d nt=%d fd=%d kff=%s kfh=%s tags=%s\n" !id !stratum
             (b2i v.v_full) (b2i v.v_oracle) (b2i v.v_proj) (b2i v.v_nontrivial) (int_of_nat v.v_first_diff)
             (csv v.v_kf_failed) (csv v.v_kf_held) (csv v.v_tags);
           if dump_model || not v.v_full then begin
             let model = run ovf (ctx_of g) ops in
             List.iteri (fun i m -> if dump_model || i = int_of_nat v.v_first_diff then
                                      Printf.printf "M %s %d %s\n" !id i (print_obs m)) model
           end
       | [] -> ()
       | _ -> failwith ("bad line: " ^ line)
     done
   with End_of_file -> ());
  flush stdout
