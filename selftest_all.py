#!/usr/bin/env python3
"""Development tool: run ./selftest on every seeded change and (re)write seeded/<id>/meta.json + seeded/RESULTS.md."""
import json, os, re, subprocess, sys
ROOT = os.path.dirname(os.path.abspath(__file__))
S = os.path.join(ROOT, "seeded")
rows = []
ONLY = set(sys.argv[1:])
for d in sorted(os.listdir(S)):
    p = os.path.join(S, d, "patch.diff")
    if not os.path.exists(p): continue
    st = os.path.join(S, d, "selftest.txt")
    if ONLY and d not in ONLY and os.path.exists(st):
        o = open(st).read()                      # ./selftest_all.py <id> ...: re-run only those, keep the other rows
    else:
        o = subprocess.run([os.path.join(ROOT, "selftest"), p], capture_output=True, text=True).stdout
        open(st, "w").write(o)
    m = re.search(r"ALARMS:(.*)", o); alarms = m.group(1).split() if m else []
    suite = "59 passed; 0 failed" in o
    agent = {}
    ap = os.path.join(S, d, "meta_agent.json")
    if os.path.exists(ap):
        try: agent = json.load(open(ap))
        except Exception: agent = {}
    kind = "refactor (must raise no alarm)" if d.startswith("refactor") else ("reverse of a fix: commit" if d.startswith("unfix") else "seeded regression by an independent sub-agent")
    meta = {"id": d, "kind": kind, "breaks_property": agent.get("property", None if d.startswith("refactor") else d.split("_")[0]),
            "summary": agent.get("summary", ""), "needs_to_manifest": agent.get("needs", ""),
            "files": agent.get("files", []),
            "what_was_run": ["confirm_mutant.sh in a scratch worktree: existing suite passes with the change; demo fails with it and passes without it" if os.path.exists(os.path.join(S, d, "demo")) else "cargo test --offline with the change applied",
                             "./selftest seeded/%s/patch.diff (applies the patch to /repo, runs all 19 quick checks, restores /repo)" % d],
            "suite_passes_with_change": suite, "checks_that_alarm": alarms}
    if agent.get("kind_override"): meta["kind"] = agent["kind_override"]        # e.g. a change outside the property's claimed domain
    if agent.get("note"): meta["note"] = agent["note"]
    json.dump(meta, open(os.path.join(S, d, "meta.json"), "w"), indent=1)
    rows.append((d, suite, alarms))
    print(d, suite, alarms, flush=True)
with open(os.path.join(S, "RESULTS.md"), "w") as f:
    f.write("| seeded change | suite passes | checks that alarm |\n|---|---|---|\n")
    for d, s, a in rows: f.write("| %s | %s | %s |\n" % (d, s, " ".join(a) or "none"))
