#!/usr/bin/env python3
"""srcsync.py — a small translator for the *declarative* parts of libmctp's source: bitfield! declarations,
enum discriminants and From<u8> tables, the two data-length tables, three constants. On every run it
regenerates them from /repo/src as Coq definitions (work/gen/FromSource.v) and lets coqc compare them,
exhaustively, with the hand-written model's definitions.

ADVISORY ONLY: the verdict of a check never depends on this (a harmless rewrite — an if-chain instead of a match —
simply stops being parseable and is reported as "not parsed"). Its purpose is to tighten the tie for the
table-like code and to point at the exact table entry when the differential correspondence fails."""
import hashlib, json, os, re, subprocess, sys

ROOT = os.path.dirname(os.path.abspath(__file__))
SRC = "/repo/src"

def strip_comments(s):
    return re.sub(r"//[^\n]*", "", s)

def num(x):
    x = x.strip().replace("_", "")
    return int(x, 0)

def parse_bitfields():
    out = []   # (struct, msb0, W, [(name, hi, lo)])
    for f in ("base_packet.rs", "control_packet.rs", "smbus_proto.rs", "vendor_packets.rs"):
        s = strip_comments(open(os.path.join(SRC, f)).read())
        for m in re.finditer(r"bitfield!\s*\{(.*?)\n\}", s, re.S):
            body = m.group(1)
            h = re.search(r"pub struct (\w+)\((MSB0 )?\[u8\]\);", body)
            if not h: raise ValueError("bitfield header in " + f)
            ty = re.search(r"\n\s*u(8|16|32);", body)
            if not ty: raise ValueError("bitfield type in " + f)
            fields = []
            for fm in re.finditer(r"\n\s*(?:pub )?(\w+)\s*,\s*(\w+)\s*:\s*([0-9xXa-fA-F_]+)\s*,\s*([0-9xXa-fA-F_]+)\s*;", body):
                fields.append((fm.group(1), num(fm.group(3)), num(fm.group(4))))
            out.append((h.group(1), bool(h.group(2)), int(ty.group(1)), fields))
    order = ["MCTPTransportHeader", "MCTPMessageBodyHeader", "MCTPControlMessageHeader", "MCTPSMBusHeader",
             "SMBusRoutingInformationUpdateEntry", "PCIMessageFormat", "IANAMessageFormat"]
    by = {o[0]: o for o in out}
    return [by[n] for n in order]

def parse_enum(text, name):
    m = re.search(r"pub enum %s \{(.*?)\n\}" % name, text, re.S)
    if not m: raise ValueError("enum " + name)
    return {v: num(d) for v, d in re.findall(r"(\w+)\s*=\s*([0-9xXa-fA-F_b]+)\s*,", m.group(1))}

def parse_from_u8(text, name):
    m = re.search(r"impl From<u8> for %s \{\s*fn from\(num: u8\) -> %s \{\s*match num \{(.*?)\n\s*\}\s*\}\s*\}" % (name, name), text, re.S)
    if not m: raise ValueError("From<u8> for " + name)
    arms, default = {}, None
    for pat, rhs in re.findall(r"([0-9xXa-fA-F_]+|_)\s*=>\s*([^,]+),", m.group(1)):
        rhs = rhs.strip()
        v = rhs.split("::")[-1] if "::" in rhs else rhs
        if pat == "_": default = v
        else: arms[num(pat)] = v
    return arms, default

def parse_len_table(text, fn):
    m = re.search(r"fn %s\(&self\) -> usize \{\s*match self\.command_code\(\)\.into\(\) \{(.*?)\n\s*\}\s*\}" % fn, text, re.S)
    if not m: raise ValueError(fn)
    t = {}
    for v, rhs in re.findall(r"CommandCode::(\w+)\s*=>\s*([^,]+),", m.group(1)):
        rhs = rhs.strip()
        t[v] = None if "unimplemented" in rhs or "unreachable" in rhs else num(rhs)
    return t

def coq_list(xs): return "[" + "; ".join(xs) + "]"

def generate():
    bp = strip_comments(open(os.path.join(SRC, "base_packet.rs")).read())
    cp = strip_comments(open(os.path.join(SRC, "control_packet.rs")).read())
    mt = strip_comments(open(os.path.join(SRC, "mctp_traits.rs")).read())
    sp = strip_comments(open(os.path.join(SRC, "smbus_proto.rs")).read())
    parts, names = [], []
    def section(name, fn):
        try:
            parts.append(fn()); names.append(name)
        except Exception as e:
            parts.append("(* %s: not parsed: %s *)\nDefinition ok_%s := true.\n" % (name, str(e).replace("*", ""), name)); names.append(name + ":unparsed")
    def fields():
        fl = []
        for (st, msb0, W, fs) in parse_bitfields():
            for (nm, hi, lo) in fs: fl.append("mk %s %d %d %d" % ("true" if msb0 else "false", hi, lo, W))
        return ("Definition src_fields : list field := %s.\n"
                "Definition field_eqb (a b : field) := Bool.eqb (f_msb0 a) (f_msb0 b) && (f_hi a =? f_hi b)%%nat && (f_lo a =? f_lo b)%%nat && (f_W a =? f_W b).\n"
                "Fixpoint fields_eqb (a b : list field) := match a, b with [], [] => true | x :: a', y :: b' => field_eqb x y && fields_eqb a' b' | _, _ => false end.\n"
                "Definition model_fields := map (fun i => match field_of (N.of_nat i) with Some f => f | None => mk false 0 0 0 end) (seq 0 29).\n"
                "Definition ok_fields := fields_eqb src_fields model_fields.\n") % coq_list(fl)
    def enum_table(name, text, model_expr, okname, panic_default=False):
        disc = parse_enum(text, name); arms, default = parse_from_u8(text, name)
        vals = []
        for b in range(256):
            v = arms.get(b, default)
            if v in disc: vals.append(str(disc[v]))
            else: vals.append("999")          # unreachable!() / panic
        return ("Definition src_%s : list N := %s.\nDefinition ok_%s := list_eqb src_%s (map (fun b => %s) range256).\n"
                % (okname, coq_list(vals), okname, okname, model_expr))
    def lens(fn, model_fn, okname):
        disc = parse_enum(cp, "CommandCode"); arms, default = parse_from_u8(cp, "CommandCode"); t = parse_len_table(mt, fn)
        vals = []
        for b in range(256):
            v = arms.get(b, default); x = t.get(v)
            vals.append("999" if x is None else str(x))
        return ("Definition src_%s : list N := %s.\nDefinition ok_%s := list_eqb src_%s (map (fun b => match %s b with Val n => N.of_nat n | Panic _ => 999 end) range256).\n"
                % (okname, coq_list(vals), okname, okname, model_fn))
    def consts():
        hv = num(re.search(r"pub const HDR_VERSION: u8 = ([0-9xXa-fA-F_b]+);", sp).group(1))
        cc = num(re.search(r"const MCTP_SMBUS_COMMAND_CODE: u8 = ([0-9xXa-fA-F_]+);", sp).group(1))
        mx = num(re.search(r"const MCTP_SMBUS_MAX_PACKET_LEN: usize = ([0-9_]+);", sp).group(1))
        return "Definition ok_consts := (%d =? 1) && (%d =? 15) && (%d =? N.of_nat MAX_PACKET_LEN).\n" % (hv, cc, mx)
    section("fields", fields)
    section("message_type", lambda: enum_table("MessageType", bp, "msg_type_to_u8 (msg_type_from_u8 b)", "message_type"))
    section("command_code", lambda: enum_table("CommandCode", cp, "cmd_from_u8 b", "command_code"))
    section("completion_code", lambda: enum_table("CompletionCode", cp, "match cc_from_u8 b with Val c => c | Panic _ => 999 end", "completion_code"))
    section("request_lengths", lambda: lens("get_request_data_len", "get_request_data_len", "request_lengths"))
    section("response_lengths", lambda: lens("get_response_data_len", "get_response_data_len", "response_lengths"))
    section("consts", consts)
    head = ("(* GENERATED on every run by /verif/srcsync.py from /repo/src — do not edit *)\n"
            "Require Import LM.Base LM.Bitfield LM.Headers LM.Encode LM.Decode LM.Ops.\nRequire Import String.\nOpen Scope N_scope.\n")
    tail = "".join('Eval vm_compute in ("%s"%%string, ok_%s).\n' % (n.split(":")[0], n.split(":")[0]) for n in names)
    return head + "".join(parts) + tail, names

def run(workdir, log=None):
    """returns {table: 'agrees' | 'DIFFERS' | 'not parsed'}"""
    h = hashlib.sha256()
    for f in sorted(os.listdir(SRC)):
        if f.endswith(".rs"): h.update(open(os.path.join(SRC, f), "rb").read())
    h.update(open(__file__, "rb").read())
    for f in ("Headers.v", "Decode.v", "Ops.v", "Encode.v"):
        h.update(open(os.path.join(ROOT, "coq", f), "rb").read())
    key = h.hexdigest()
    gen = os.path.join(workdir, "gen"); os.makedirs(gen, exist_ok=True)
    cache = os.path.join(gen, "result.json")
    if os.path.exists(cache):
        try:
            c = json.load(open(cache))
            if c.get("key") == key: return c["result"]
        except Exception: pass
    try:
        text, names = generate()
    except Exception as e:
        return {"all": "not parsed: %s" % e}
    v = os.path.join(gen, "FromSource.v"); open(v, "w").write(text)
    r = subprocess.run(["timeout", "300", "coqc", "-R", os.path.join(ROOT, "coq"), "LM", "-Q", gen, "Gen", v], capture_output=True, text=True)
    if log: log.write(r.stdout + r.stderr)
    res = {}
    if r.returncode != 0:
        res = {"all": "generated file did not compile: " + (r.stderr or r.stdout)[-300:]}
    else:
        found = dict(re.findall(r'\("(\w+)"%string,\s*(true|false)\)', r.stdout.replace("\n", " ")))
        for n in names:
            base = n.split(":")[0]
            res[base] = "not parsed" if n.endswith(":unparsed") else ("agrees" if found.get(base) == "true" else "DIFFERS")
    json.dump({"key": key, "result": res}, open(cache, "w"))
    return res

# ---------------------------------------------------------------- state shape
# Every place where the library can remember something between two calls that take `&self`: fields with interior
# mutability, statics, thread-locals, unsafe blocks. The model's `ctx` record (coq/Process.v) claims to be ALL the
# state there is; each holder found in the source must be one the model knows, mapped to a field of that record.
MODELLED_STATE = {
    "smbus.rs:MCTPSMBusContext.vendor_id_selector:Cell<u8>": "c_selector",
    "smbus_request.rs:MCTPSMBusContextRequest.eid:Cell<u8>": "c_eid_req",
    "smbus_response.rs:MCTPSMBusContextResponse.eid:Cell<u8>": "c_eid_resp",
}
_INTERIOR = re.compile(r"\b(Cell|RefCell|UnsafeCell|OnceCell|OnceLock|LazyCell|LazyLock|Lazy|Mutex|RwLock|Atomic\w+)\b|\*mut\b")

def _non_test(text):
    m = re.search(r"#\[cfg\(test\)\]\s*(?:pub\s+)?mod\b", text)      # the test module, not a #[cfg(test)] statement
    return strip_comments(text if not m else text[:m.start()])

def state_shape():
    """returns {"holders": [...], "unmodelled": [...], "gone": [...], "model_fields_missing": [...]}"""
    holders = []
    texts = {f: _non_test(open(os.path.join(SRC, f)).read()) for f in sorted(os.listdir(SRC)) if f.endswith(".rs")}
    # names that stand for an interior-mutable type: `type X = ..Cell<..>..;` and `use ..::Cell as X;` (to a fixpoint)
    extra = set()
    for _ in range(4):
        pat = re.compile(_INTERIOR.pattern + "".join(r"|\b%s\b" % re.escape(x) for x in sorted(extra)))
        for s in texts.values():
            for m in re.finditer(r"\btype\s+(\w+)\s*(?:<[^=]*>)?\s*=\s*([^;]+);", s):
                if pat.search(m.group(2)): extra.add(m.group(1))
            for m in re.finditer(r"\buse\s+[^;]*?\b(\w+)\s+as\s+(\w+)", s):
                if pat.search(m.group(1)): extra.add(m.group(2))
    interior = re.compile(_INTERIOR.pattern + "".join(r"|\b%s\b" % re.escape(x) for x in sorted(extra)))
    for f, s in texts.items():
        for m in re.finditer(r"\bstruct\s+(\w+)\s*(?:<[^>{]*>)?\s*(?:where[^{]*)?\{(.*?)\n\}", s, re.S):
            name, body = m.group(1), m.group(2)
            for line in body.split("\n"):
                fm = re.match(r"\s*(?:pub(?:\([^)]*\))?\s+)?(\w+)\s*:\s*(.+?),?\s*$", line)
                if not fm: continue
                ty = fm.group(2).replace(" ", "")
                if interior.search(ty): holders.append("%s:%s.%s:%s" % (f, name, fm.group(1), ty))
        for m in re.finditer(r"^\s*(?:pub(?:\([^)]*\))?\s+)?static\s+(mut\s+)?(\w+)\s*:\s*([^=;]+)", s, re.M):
            ty = m.group(3).strip().replace(" ", "")
            if m.group(1) or interior.search(ty): holders.append("%s:static %s:%s" % (f, m.group(2), ty))
        for m in re.finditer(r"\bthread_local!", s): holders.append("%s:thread_local!" % f)
        for k, m in enumerate(re.finditer(r"\bunsafe\b", s)): holders.append("%s:unsafe#%d" % (f, k))
    rec = re.search(r"Record ctx := \{(.*?)\}\.", open(os.path.join(ROOT, "coq", "Process.v")).read(), re.S)
    fields = re.findall(r"(\w+)\s*:", rec.group(1)) if rec else []
    return {"holders": sorted(holders),
            "unmodelled": sorted(h for h in holders if h not in MODELLED_STATE),
            "gone": sorted(h for h in MODELLED_STATE if h not in holders),
            "model_fields_missing": sorted(v for v in MODELLED_STATE.values() if v not in fields)}

# ---------------------------------------------------------------- length narrowing
# The model computes lengths in unbounded N and wraps exactly where the code casts a length to a narrower integer
# (today: the byte count `(self.len() - 4) as u8` and the vendor-set count `self.vendor_ids.len() as u8`). A new
# narrowing cast of a length is a wrap the model does not have. Casts to u8 / u16 are within reach of the `wide`
# strata (inputs and buffers around 2^8 and 2^16); a cast to u32 / i32 wraps at 4 GiB, which no run can feed.
MODELLED_LEN_CASTS = {"u8": 2}

def length_casts():
    """returns {"found": {width: [expr, ...]}, "new": {width: n_more_than_modelled}, "unreachable": bool}"""
    found = {}
    for f in sorted(os.listdir(SRC)):
        if not f.endswith(".rs"): continue
        s = _non_test(open(os.path.join(SRC, f)).read())
        for m in re.finditer(r"([^\n;{}=]*\.len\(\)[^\n;{}]*?)\bas\s+(u8|u16|u32|i8|i16|i32)\b", s):
            found.setdefault(m.group(2), []).append("%s: %s as %s" % (f, " ".join(m.group(1).split())[-70:], m.group(2)))
    new = {w: len(v) - MODELLED_LEN_CASTS.get(w, 0) for w, v in found.items() if len(v) > MODELLED_LEN_CASTS.get(w, 0)}
    return {"found": found, "new": new, "unreachable": any(w in ("u32", "i32") for w in new)}

def source_consts():
    """byte-array literals of /repo's current sources (test code included: test vectors are good seeds), 2..64 bytes"""
    out, seen = [], set()
    for f in sorted(os.listdir(SRC)):
        if not f.endswith(".rs"): continue
        s = strip_comments(open(os.path.join(SRC, f)).read())
        for m in re.finditer(r"\[((?:\s*(?:0x[0-9a-fA-F_]+|0b[01_]+|\d+)(?:u8)?\s*,)+\s*(?:(?:0x[0-9a-fA-F_]+|0b[01_]+|\d+)(?:u8)?)?\s*)\]", s):
            vals = []
            for x in re.findall(r"0x[0-9a-fA-F_]+|0b[01_]+|\d+", m.group(1)):
                try: vals.append(int(x.replace("_", ""), 0))
                except ValueError: vals = [999]; break
            if 2 <= len(vals) <= 64 and all(v <= 255 for v in vals):
                b = bytes(vals)
                if b not in seen: seen.add(b); out.append(b)
        # wide integer literals (more than 32 bits: a UUID or an ID written as one number), in both byte orders
        for x in re.findall(r"(?<![\w.])(0x[0-9a-fA-F_]{9,})(?:u64|u128|i64|i128)?(?![\w.])", s):
            v = int(x.replace("_", ""), 0)
            n = 8 if v < 2**64 else 16
            if v < 2**128:
                for b in (v.to_bytes(n, "big"), v.to_bytes(n, "little")):
                    if b not in seen: seen.add(b); out.append(b)
    return out

def fuzz_dict():
    """libFuzzer dictionary harvested from /repo's current non-test sources"""
    ents = []
    for f in sorted(os.listdir(SRC)):
        if not f.endswith(".rs"): continue
        s = _non_test(open(os.path.join(SRC, f)).read())
        lits = re.findall(r"(?<![\w.])(0x[0-9a-fA-F_]+|0b[01_]+|\d+)(?:u8|u16|u32|u64|usize)?(?![\w.])", s)
        vals = []
        for x in lits:
            try: vals.append(int(x.replace("_", ""), 0))
            except ValueError: pass
        small = [v for v in vals if v <= 255]
        for v in vals:
            if v <= 0xFF: ents.append(bytes([v]))
            elif v <= 0xFFFF: ents += [v.to_bytes(2, "big"), v.to_bytes(2, "little")]
            elif v <= 0xFFFFFFFF: ents += [v.to_bytes(4, "big"), v.to_bytes(4, "little")]
        for k in range(len(small) - 1): ents.append(bytes(small[k:k + 2]))
        for k in range(len(small) - 2): ents.append(bytes(small[k:k + 3]))
    try: ents = source_consts() + ents
    except Exception: pass
    seen, out = set(), []
    for e in ents:
        if e not in seen:
            seen.add(e); out.append('"' + "".join("\\x%02x" % b for b in e) + '"')
    return "\n".join(out) + "\n"

if __name__ == "__main__":
    print(json.dumps(state_shape(), indent=1))
    print(json.dumps(run(os.path.join(ROOT, "work")), indent=1))
