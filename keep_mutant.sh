#!/bin/sh
# keep_mutant.sh <Cnn> <suffix>: confirm the seeded change in /tmp/mut_<Cnn>, store it under /verif/seeded/<Cnn>_<suffix>, run the self-test
P=$1; S=${2:-a}; W=/tmp/mut_$P; D=/verif/seeded/${P}_$S
/verif/confirm_mutant.sh $W | tail -2 | grep -q "^CONFIRMED" || { echo "$P NOT CONFIRMED"; exit 1; }
mkdir -p $D/demo/src; cp $W/patch.diff $D/; cp $W/meta.json $D/meta_agent.json; cp $W/demo/Cargo.toml $D/demo/; cp $W/demo/src/main.rs $D/demo/src/
cd /verif && ./selftest $D/patch.diff 2>&1 | grep -E "exit=1|ALARMS|suite" | tee $D/selftest.txt
