#!/bin/sh
# Build the whole framework offline: Coq development (full .vo build), extracted driver, Rust harness (both profiles).
set -e
cd "$(dirname "$0")"
mkdir -p work evidence
export CARGO_NET_OFFLINE=true RUSTFLAGS="--cfg libmctp_verif" CARGO_TARGET_DIR="$PWD/work/target"
( cd coq && coq_makefile -f _CoqProject -o Makefile >/dev/null && timeout 3000 make -j16 )
( cd driver && coqc -R ../coq LM Extract.v >/dev/null && ocamlfind ocamlopt -O3 -w -a model.mli model.ml main.ml -o driver )
( cd harness && cargo build --offline --quiet && cargo build --offline --quiet --release )
# the coverage-guided explorer (a search aid: the checks go on without it if it cannot be built)
( cd fuzz && CARGO_TARGET_DIR="$PWD/../work/fuzz-target" cargo +nightly fuzz build --fuzz-dir "$PWD" -s none ops >/dev/null 2>&1 ) || echo "note: explorer not built"
echo setup ok
