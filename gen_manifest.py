#!/usr/bin/env python3
"""Regenerates MANIFEST.json from the table below (kept in one place so the manifest stays valid)."""
import json
CLAIMED = {
 "C01": ("theorems C01_oracle_holds_on_model (decode of the model's own encoder output in every history: type, payload range and content; unsuccessful completion codes come back as that error; known findings 101/102), C01_roundtrip_non_control / _request / _response / _completion_code on spec_packet (decode_packet (spec_packet ...) in closed form, using encoders-refine-spec from C16); correspondence: every encoder, all six completion codes, bodies up to the SMBus limit, a second receiving context", "§6 C01"),
 "C02": ("theorems C02_decode_ok_implies_pec, C02_process_ok_implies_pec, C02_bad_pec_inert (bad PEC: context and buffer unchanged and no Ok, also under panic), C02_burst_never_accepted / C02_burst_process_inert (any non-zero corruption confined to 8 consecutive bits of an accepted packet is rejected: GF(2)-linearity of the CRC proved by finite sweeps lifted by induction over the byte string), C02_one_bit / two_bits / odd-weight theorems with the exact limit (order of x = 127), C02_bad_pec_changes_no_later_output (removing every bad-PEC process call from a history changes no other observation), C02_oracle_holds_on_model; correspondence: each decoder arm separately, trailing bytes, byte-count corruption, burst windows, histories with a twin context that never sees the bad packets", "§6 C02"),
 "C10": ("theorems C10_decode_panics_iff, C10_process_panics_iff (exact characterisation, both directions, of the inputs on which decoder / processor panic for a valid configuration and a >= 64-byte buffer, in either overflow mode), C10_get_length_no_panic, C10_oracle_holds_on_model; the panic classes are the recorded known findings 1001-1009, 1012-1015; correspondence under catch_unwind in overflow-checked and wrapping builds", "§6 C10"),
 "C11": ("theorems C11_process_agrees_with_decode, C11_buffer_untouched_unless_request, C11_process_by_cases (process_packet by cases on decode_packet), C11_oracle_holds_on_model; correspondence: decode then process of the same bytes incl. trailing / truncated variants, poisoned response buffers", "§6 C11"),
 "C12": ("theorems C12_oracle_holds_on_model (every response to an accepted answerable request is a spec_packet travelling back to the requester: framing, byte count, transport header, PEC, Rq/D/rsvd clear, same command code, completion code; instance ID as recorded known finding 1201), C12_answerable_requests_are_answered and C12_process_is_dispatch (process_packet = dispatch on the decoded request), C12_own_answers_go_through_the_own_decoder, C12_conversation_* (library encoder on the requester -> process_packet on the responder -> decode_packet on the requester, one theorem per command, the answer addressed back to the requester); correspondence over requester x instance x command grids, whole conversations through the library's own encoders and decoder, and after random histories", "§6 C12"),
 "C13": ("theorems C13_oracle_holds_on_model (induction over all histories: both EIDs change exactly at an accepted Set/Force assignment or an accessor call, and are reported by Get/Set EID responses), C13_eids_after_process, C13_only_assignment_changes_eid, C13_eid_is_last_assigned, and the refinement C13_responder_state_is_the_abstract_endpoint / C13_responder_answers_as_the_abstract_endpoint (every history of the model is a history of a three-field abstract endpoint: two EID cells and the UUID); correspondence on random histories of up to 40 operations with both get_eid() values observed after every step", "§6 C13"),
 "C14": ("theorems C14_oracle_holds_on_model and C14_walk (response to selector i < n = next selector i+1 or 0xFF and the i-th configured set in its own format, independent of the stored selector, in both overflow modes), C14_enumerate / C14_enumerate_any_fuel (the requester's walk returns every configured set once, in order, and stops on 0xFF), C14_enumerate_through_the_api (the same with the library's own encoder and decoder on the requester side); correspondence: n = 1..16 (and 0, 255, 256, 257, 512), every selector order for n <= 4, the requester's walk performed by the harness with independent and with library-encoded requests", "§6 C14"),
 "C15": ("theorems C15_oracle_holds_on_model, C15_message_types, C15_uuid, C15_version (identity answers for every configuration, UUID history and interleaved traffic); correspondence on lists of every length 0..30 and UUID update sequences", "§6 C15"),
 "C18": ("theorems C18_getter_layout / C18_setter_layout (every one of the 29 declared fields reads / writes exactly the documented bit positions, for every raw buffer and every value, the 16/32-bit fields by induction over the chunked bit loop), read-after-write = value truncated to the width, every other field of the struct preserved, the two validators as boolean closed forms, C18_getter_any_buffer / C18_setter_any_buffer (views over buffers longer than the struct read / rewrite the struct-sized prefix only), and the oracle over all histories; correspondence: exhaustive raw values for 1-byte and 2-byte views, patterns + random for wider ones, all written values, views over Vec buffers of every length 0 .. struct + 252", "§6 C18"),
 "C09": ("theorems C09_decoder_exact (decode_packet = spec_decode, a flat decision procedure on the bytes, for every byte string outside the panic classes), C09_decoder_panics_iff (exact characterisation of the panic classes), C09_accept_iff_wellformed (accept <-> wf_packet, the property's own well-formedness predicate) and C09_oracle_holds_on_model (payload range, truthful errors); context independence: the model's decoder has no context argument, the correspondence decodes every case on a second context with another address/configuration/history", "§6 C09"),
 "C04": ("theorems C04_oracle_holds_on_model (every well-formed history: framing bytes, byte count, 4<=n<=259, probe on every prefix, oversize refused), C04_generate_fits / C04_generate_oversize_refused (closed form of the packet generators for all inputs), C04_stream_* (the receive loop around the length probe splits the concatenation of any number of encoded packets into exactly those packets, refuses truncated streams); correspondence on all encoders, the 128x128 address grid, body sizes 10..300", "§6 C04"),
 "C05": ("theorems C05_oracle_holds_on_model (bytes 4-8 of every encoded packet in every history) + closed forms of the transport and body headers for all 256x256 (source, destination) / all types; correspondence on all encoders and the header helper", "§6 C05"),
 "C06": ("theorem C06_oracle_holds_on_model: every request body = 0x80, DSP0236 code, parameters (spec_request) for all 17 encoders and all argument values, with query_hop's command code as the recorded known finding (C06_query_hop_refuted proves the model really fails there); correspondence incl. every value of each byte parameter", "§6 C06"),
 "C07": ("theorem C07_oracle_holds_on_model: every response body = 0x00, code, completion code, and the DSP0236 fields for Success (spec_response), for all six encoders, all codes / enums / EIDs / lists; correspondence", "§6 C07"),
 "C08": ("theorems C08_oracle_holds_on_model + PCI/IANA header closed forms (the 32-bit case by induction over the chunked bit loop, not by sweep); correspondence over all format bytes and body lengths", "§6 C08"),
 "C16": ("theorems C16_oracle_holds_on_model (success without panic on any long-enough buffer, tail untouched, independence of prior contents/capacity, documented refusals leave the buffer untouched) and C16_encoders_refine_spec (every encoder = spec_packet ++ untouched tail); correspondence with 3 buffers per call", "§6 C16"),
 "C17": ("theorem C17_closed_form: get_length p, for every byte string p, is the stated function of (length p < 3, p[1], p[2]) and never panics; plus the oracle statement over all histories; differential correspondence on all 2^16 (byte1, byte2) pairs x several byte0 values / continuations / contexts", "§6 C17"),
 "C19": ("theorems C19_message_type / C19_command_code / C19_completion_code for all byte values (finite sweep lifted to a quantifier, kernel-checked); correspondence exhaustive over 3 x 256 conversions", "§6 C19"),
 "C03": ("theorem C03_encoded_packet_ends_with_pec (all ops, contexts, both overflow modes) + pec = polynomial remainder mod x^8+x^2+x+1 (existence and uniqueness), Rocq kernel-checked; differential correspondence model vs /repo on every encoder and every packet length 12..262", "§6 C03"),
}
TODO = {}
props = [json.loads(l) for l in open("properties.jsonl")]
checks, na = [], []
for p in props:
    pid = p["id"]
    if pid in CLAIMED:
        text, ref = CLAIMED[pid]
        checks.append({
            "property_id": pid,
            "quick_cmd": f"./check {pid} --tier quick",
            "thorough_cmd": f"./check {pid} --tier thorough",
            "evidence_file": f"/verif/evidence/{pid}.json",
            "replay_cmd_template": "./check replay {path}",
            "engine": "rocq-model+correspondence",
            "level_claimed": {"category": "proof", "text": text, "design_ref": ref},
            "level_note": "Trusted: Coq 8.16.1 kernel (+vm_compute), no axioms; hand-written Gallina model tied to /repo on every run by differential correspondence (Rust harness vs model extracted with ExtrOcamlBasic; engineered generators + a coverage-guided explorer of the current sources that only proposes inputs) and by two structural ties for what no input can show (srcsync: state shape, 32-bit length narrowing); OCaml/Rust toolchains; see DESIGN.md §4, §8",
            "technique": "machine-checked proof in Rocq (Coq 8.16) over an executable model + model/implementation correspondence check",
        })
    else:
        na.append({"property_id": pid, "reason": TODO.get(pid, "not claimed yet: model and theorems for this property are still being built (the technique applies; see DESIGN.md §6)")})
m = {
 "version": 1,
 "setup_cmd": "./setup.sh",
 "hooks": {"guard": "libmctp_verif", "enable": "RUSTFLAGS=\"--cfg libmctp_verif\" (set by ./check when it builds /repo through the harness crate); no source hook is needed, every observable is public API",
           "baseline_off_cmd": "cd /repo && cargo test --workspace --no-fail-fast --offline", "source_commits": [], "add_only": True},
 "engines": [{"name": "rocq-model+correspondence", "path": "/verif/check", "serves_properties": [c["property_id"] for c in checks],
              "kind_free_text": "Gallina model of libmctp (coq/), property theorems (coq/props), extracted OCaml driver (driver/), Rust differential harness (harness/)"}],
 "checks": checks,
 "not_applicable": na,
 "notes": "Exit 0 held / 1 VIOLATION / 2 internal error of the machinery. VERIF_SEED and VERIF_TIER honoured.",
}
json.dump(m, open("MANIFEST.json", "w"), indent=1)
print(len(checks), "claimed;", len(na), "not claimed")
