#!/usr/bin/env python3
"""Regenerates MANIFEST.json from the table below (kept in one place so the manifest stays valid)."""
import json
CLAIMED = {
 "C17": ("theorem C17_closed_form: get_length p, for every byte string p, is the stated function of (length p < 3, p[1], p[2]) and never panics; plus the oracle statement over all histories; differential correspondence on all 2^16 (byte1, byte2) pairs x several byte0 values / continuations / contexts", "§6 C17"),
 "C19": ("theorems C19_message_type / C19_command_code / C19_completion_code for all byte values (finite sweep lifted to a quantifier, kernel-checked); correspondence exhaustive over 3 x 256 conversions", "§6 C19"),
 "C03": ("theorem C03_encoded_packet_ends_with_pec (all ops, contexts, both overflow modes) + pec = polynomial remainder mod x^8+x^2+x+1 (existence and uniqueness), Rocq kernel-checked; differential correspondence model vs /repo on every encoder and every packet length 12..262", "§6 C03"),
}
TODO = {}
props = [json.loads(l) for l in open("properties.jsonl")]
checks, na = [], []
for p in props:
    pid = p["id"]
    if pid in CLAIMED:
        text, ref = CLAIMED[pid]
        checks.append({
            "property_id": pid,
            "quick_cmd": f"./check {pid} --tier quick",
            "thorough_cmd": f"./check {pid} --tier thorough",
            "evidence_file": f"/verif/evidence/{pid}.json",
            "replay_cmd_template": "./check replay {path}",
            "engine": "rocq-model+correspondence",
            "level_claimed": {"category": "proof", "text": text, "design_ref": ref},
            "level_note": "Trusted: Coq 8.16.1 kernel (+vm_compute), no axioms; hand-written Gallina model tied to /repo by differential correspondence (Rust harness vs model extracted with ExtrOcamlBasic); OCaml/Rust toolchains; see DESIGN.md §8",
            "technique": "machine-checked proof in Rocq (Coq 8.16) over an executable model + model/implementation correspondence check",
        })
    else:
        na.append({"property_id": pid, "reason": TODO.get(pid, "not claimed yet: model and theorems for this property are still being built (the technique applies; see DESIGN.md §6)")})
m = {
 "version": 1,
 "setup_cmd": "./setup.sh",
 "hooks": {"guard": "libmctp_verif", "enable": "RUSTFLAGS=\"--cfg libmctp_verif\" (set by ./check when it builds /repo through the harness crate); no source hook is needed, every observable is public API",
           "baseline_off_cmd": "cd /repo && cargo test --workspace --no-fail-fast --offline", "source_commits": [], "add_only": True},
 "engines": [{"name": "rocq-model+correspondence", "path": "/verif/check", "serves_properties": [c["property_id"] for c in checks],
              "kind_free_text": "Gallina model of libmctp (coq/), property theorems (coq/props), extracted OCaml driver (driver/), Rust differential harness (harness/)"}],
 "checks": checks,
 "not_applicable": na,
 "notes": "Exit 0 held / 1 VIOLATION / 2 internal error of the machinery. VERIF_SEED and VERIF_TIER honoured.",
}
json.dump(m, open("MANIFEST.json", "w"), indent=1)
print(len(checks), "claimed;", len(na), "not claimed")
